(* C01, part 1: algebra of the root-free geometry over a law-abiding ring dictionary.

   `ringlaws D`  : the dictionary's operations form a commutative ring (Leibniz equality) and `feqb` decides equality.
                   No order law is required anywhere in C01: `fleb` may be an arbitrary function, because every
                   comparison of the model is applied to scalars that are themselves invariant under the motion.
   `orth M`      : M^T M = I (the columns of M are orthonormal); this is the formulation under which
                   (M u).(M v) = u.v is an identity of commutative rings (no inverses, no integral domain).
   `dot_mv`, `det3_mv`, linearity of `mv M`.
   Instances     : `ZD` (closed) and `RD` over Coq's reals; non-vacuity examples. *)
From Coq Require Import ZArith List Bool Ring Reals.
From E3FP Require Import Model.Geometry.
Import ListNotations.

Record ringlaws (D : ringdict) : Prop := Build_ringlaws {
  rl_th : ring_theory (f0 D) (f1 D) (fadd D) (fmul D) (fsub D) (fopp D) (@eq (F D));
  rl_eqb : forall a b : F D, feqb D a b = true <-> a = b }.

Section Laws.
Variable D : ringdict.
Hypothesis L : ringlaws D.
Notation T := (F D).
Notation V := (vec D).
Local Notation "a +' b" := (fadd D a b) (at level 50, left associativity).
Local Notation "a *' b" := (fmul D a b) (at level 40, left associativity).
Local Notation "a -' b" := (fsub D a b) (at level 50, left associativity).
Local Notation "0'" := (f0 D).
Local Notation "1'" := (f1 D).

Add Ring Dring : (rl_th D L).

Lemma feqb_spec : forall a b : T, feqb D a b = true <-> a = b.
Proof. exact (rl_eqb D L). Qed.

Lemma feqb_refl : forall a : T, feqb D a a = true.
Proof. intro a. apply feqb_spec. reflexivity. Qed.

(* columns of M and the transpose *)
Definition c1 (M : mat D) : V := mkvec (vx (r1 D M)) (vx (r2 D M)) (vx (r3 D M)).
Definition c2 (M : mat D) : V := mkvec (vy (r1 D M)) (vy (r2 D M)) (vy (r3 D M)).
Definition c3 (M : mat D) : V := mkvec (vz (r1 D M)) (vz (r2 D M)) (vz (r3 D M)).
Definition mtr (M : mat D) : mat D := mkmat (c1 M) (c2 M) (c3 M).

(* M^T M = I *)
Definition orth (M : mat D) : Prop :=
  dot D (c1 M) (c1 M) = 1' /\ dot D (c2 M) (c2 M) = 1' /\ dot D (c3 M) (c3 M) = 1' /\
  dot D (c1 M) (c2 M) = 0' /\ dot D (c1 M) (c3 M) = 0' /\ dot D (c2 M) (c3 M) = 0'.

(* M M^T = I; not needed by any theorem below, stated for the examples *)
Definition orth_rows (M : mat D) : Prop := orth (mtr M).

Lemma vec_eq : forall a b c a' b' c' : T, a = a' -> b = b' -> c = c' -> @mkvec D a b c = mkvec a' b' c'.
Proof. intros; subst; reflexivity. Qed.

(* ---- the bilinear expansion: (Mu).(Mv) = sum_jk u_j v_k (c_j . c_k) ---- *)
Lemma dot_mv_expand : forall (M : mat D) (u v : V),
  dot D (mv D M u) (mv D M v) =
    vx u *' vx v *' dot D (c1 M) (c1 M) +' vy u *' vy v *' dot D (c2 M) (c2 M) +' vz u *' vz v *' dot D (c3 M) (c3 M)
    +' (vx u *' vy v +' vy u *' vx v) *' dot D (c1 M) (c2 M)
    +' (vx u *' vz v +' vz u *' vx v) *' dot D (c1 M) (c3 M)
    +' (vy u *' vz v +' vz u *' vy v) *' dot D (c2 M) (c3 M).
Proof.
  intros [[a1 a2 a3] [b1 b2 b3] [d1 d2 d3]] [u1 u2 u3] [v1 v2 v3].
  unfold mv, c1, c2, c3; cbn; unfold dot; cbn. ring.
Qed.

Theorem dot_mv : forall (M : mat D) (u v : V), orth M -> dot D (mv D M u) (mv D M v) = dot D u v.
Proof.
  intros M u v (H11 & H22 & H33 & H12 & H13 & H23).
  rewrite dot_mv_expand, H11, H22, H33, H12, H13, H23.
  destruct u, v; unfold dot; cbn. ring.
Qed.

Theorem det3_mv : forall (M : mat D) (u v w : V),
  det3 D (mv D M u) (mv D M v) (mv D M w) = mdet D M *' det3 D u v w.
Proof.
  intros [[a1 a2 a3] [b1 b2 b3] [d1 d2 d3]] [u1 u2 u3] [v1 v2 v3] [w1 w2 w3].
  unfold mdet, mv; cbn; unfold det3, dot; cbn. ring.
Qed.

Corollary det3_mv_proper : forall (M : mat D) (u v w : V),
  mdet D M = 1' -> det3 D (mv D M u) (mv D M v) (mv D M w) = det3 D u v w.
Proof. intros M u v w H. rewrite det3_mv, H. ring. Qed.

(* for an orthogonal matrix det^2 = 1 (so over an integral domain det = +1 or -1) *)
Lemma mdet_sq : forall M : mat D, orth M -> mdet D M *' mdet D M = 1'.
Proof.
  intros M (H11 & H22 & H33 & H12 & H13 & H23).
  assert (E : mdet D M *' mdet D M =
     dot D (c1 M) (c1 M) *' (dot D (c2 M) (c2 M) *' dot D (c3 M) (c3 M) -' dot D (c2 M) (c3 M) *' dot D (c2 M) (c3 M))
     -' dot D (c1 M) (c2 M) *' (dot D (c1 M) (c2 M) *' dot D (c3 M) (c3 M) -' dot D (c2 M) (c3 M) *' dot D (c1 M) (c3 M))
     +' dot D (c1 M) (c3 M) *' (dot D (c1 M) (c2 M) *' dot D (c2 M) (c3 M) -' dot D (c2 M) (c2 M) *' dot D (c1 M) (c3 M))).
  { destruct M as [[a1 a2 a3] [b1 b2 b3] [d1 d2 d3]]. unfold mdet, c1, c2, c3; cbn; unfold det3, dot; cbn. ring. }
  rewrite E, H11, H22, H33, H12, H13, H23. ring.
Qed.

(* ---- linearity ---- *)
Lemma mv_vadd : forall M (u v : V), mv D M (vadd D u v) = vadd D (mv D M u) (mv D M v).
Proof.
  intros [[a1 a2 a3] [b1 b2 b3] [d1 d2 d3]] [u1 u2 u3] [v1 v2 v3].
  unfold mv, vadd; cbn; unfold dot; cbn. apply vec_eq; ring.
Qed.

Lemma mv_vsub : forall M (u v : V), mv D M (vsub D u v) = vsub D (mv D M u) (mv D M v).
Proof.
  intros [[a1 a2 a3] [b1 b2 b3] [d1 d2 d3]] [u1 u2 u3] [v1 v2 v3].
  unfold mv, vsub; cbn; unfold dot; cbn. apply vec_eq; ring.
Qed.

Lemma mv_vscl : forall M (a : T) (u : V), mv D M (vscl D a u) = vscl D a (mv D M u).
Proof.
  intros [[a1 a2 a3] [b1 b2 b3] [d1 d2 d3]] a [u1 u2 u3].
  unfold mv, vscl; cbn; unfold dot; cbn. apply vec_eq; ring.
Qed.

Lemma mv_vzero : forall M, mv D M (vzero D) = vzero D.
Proof.
  intros [[a1 a2 a3] [b1 b2 b3] [d1 d2 d3]].
  unfold mv, vzero; cbn; unfold dot; cbn. apply vec_eq; ring.
Qed.

Lemma mv_vsum : forall M (l : list V), mv D M (vsum D l) = vsum D (map (mv D M) l).
Proof.
  intros M l. induction l as [|x l IH]; cbn.
  - apply mv_vzero.
  - unfold vsum in *. cbn. rewrite mv_vadd, IH. reflexivity.
Qed.

(* the translation cancels in differences of positions *)
Lemma move_diff : forall M (t p q : V),
  vsub D (vadd D (mv D M q) t) (vadd D (mv D M p) t) = mv D M (vsub D q p).
Proof.
  intros M t p q. rewrite mv_vsub.
  destruct (mv D M q) as [q1 q2 q3], (mv D M p) as [p1 p2 p3], t as [t1 t2 t3].
  unfold vsub, vadd; cbn. apply vec_eq; ring.
Qed.

Lemma mul_1_l' : forall a : T, 1' *' a = a.
Proof. intro; ring. Qed.

End Laws.

(* ---- instances -------------------------------------------------------------------------------- *)
Lemma ZD_laws : ringlaws ZD.
Proof. apply (Build_ringlaws ZD Zth). intros a b. apply Z.eqb_eq. Qed.

(* the reals: equality and order are decided by the (axiomatic) total order of R *)
Definition RD : ringdict :=
  mkring R 0%R 1%R Rplus Rmult Rminus Ropp
         (fun a b => if Req_EM_T a b then true else false)
         (fun a b => if Rle_dec a b then true else false)
         IZR.

Lemma RD_laws : ringlaws RD.
Proof.
  apply (Build_ringlaws RD RTheory). intros a b. cbn.
  destruct (Req_EM_T a b); split; intro H; congruence.
Qed.

(* ---- non-vacuity: concrete orthogonal matrices -------------------------------------------------- *)
Open Scope Z_scope.
Local Notation zv := (@mkvec ZD).
Local Notation rv := (@mkvec RD).
(* rotation by a quarter turn about z, over Z *)
Definition rotZ90 : mat ZD := @mkmat ZD (zv 0 (-1) 0) (zv 1 0 0) (zv 0 0 1).
(* cyclic permutation of the axes with two sign changes: proper *)
Definition rotZperm : mat ZD := @mkmat ZD (zv 0 0 (-1)) (zv (-1) 0 0) (zv 0 1 0).
(* mirror in the xy plane *)
Definition reflZ : mat ZD := @mkmat ZD (zv 1 0 0) (zv 0 1 0) (zv 0 0 (-1)).

Example rotZ90_orth : orth ZD rotZ90 /\ orth_rows ZD rotZ90 /\ mdet ZD rotZ90 = 1.
Proof. vm_compute. intuition reflexivity. Qed.
Example rotZperm_orth : orth ZD rotZperm /\ orth_rows ZD rotZperm /\ mdet ZD rotZperm = 1.
Proof. vm_compute. intuition reflexivity. Qed.
Example reflZ_orth : orth ZD reflZ /\ orth_rows ZD reflZ /\ mdet ZD reflZ = -1.
Proof. vm_compute. intuition reflexivity. Qed.
Close Scope Z_scope.

(* the 3-4-5 rotation about z and a tilted 1-2-2 rotation, over R (not axis-aligned) *)
Open Scope R_scope.
Definition rot345 : mat RD := @mkmat RD (rv (3/5) (-(4/5)) 0) (rv (4/5) (3/5) 0) (rv 0 0 1).
Definition rot122 : mat RD :=
  @mkmat RD (rv (1/3) (-(2/3)) (2/3)) (rv (2/3) (-(1/3)) (-(2/3))) (rv (2/3) (2/3) (1/3)).
Definition refl122 : mat RD :=
  @mkmat RD (rv (1/3) (-(2/3)) (2/3)) (rv (2/3) (-(1/3)) (-(2/3))) (rv (-(2/3)) (-(2/3)) (-(1/3))).

Example rot345_orth : orth RD rot345 /\ orth_rows RD rot345 /\ mdet RD rot345 = 1.
Proof. unfold orth_rows, orth, mdet, det3, dot; cbn. repeat split; field. Qed.
Example rot122_orth : orth RD rot122 /\ orth_rows RD rot122 /\ mdet RD rot122 = 1.
Proof. unfold orth_rows, orth, mdet, det3, dot; cbn. repeat split; field. Qed.
Example refl122_orth : orth RD refl122 /\ orth_rows RD refl122 /\ mdet RD refl122 = -(1).
Proof. unfold orth_rows, orth, mdet, det3, dot; cbn. repeat split; field. Qed.
Close Scope R_scope.
