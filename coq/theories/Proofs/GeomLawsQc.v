(* C01: an EXECUTABLE, axiom-free dictionary on which general rotations exist - the canonical rationals Qc.
   Over ZD an orthogonal matrix is a signed permutation (48 motions); over Qc the rational rotations are dense in SO(3),
   and the same model definitions run there by vm_compute.  The invariance theorem (every ringlaws dictionary) applies;
   the Examples below execute it on a non-axis-aligned rational rotation. *)
From Coq Require Import QArith Qcanon.
From E3FP Require Import Base.Prelude Base.ZSet Base.Murmur3 Model.Geometry Model.Stereo Model.Fprint Model.E3FP
  Gen.Constants Gen.AngleTable Proofs.GeomLaws Proofs.StereoMotion Proofs.E3FPMotion.
Open Scope Z_scope.

Definition QcD : ringdict :=
  mkring Qc (Q2Qc 0) (Q2Qc 1) Qcplus Qcmult Qcminus Qcopp Qc_eq_bool
         (fun a b => Qle_bool (this a) (this b))
         (fun z => Q2Qc (inject_Z z)).

Lemma QcD_laws : ringlaws QcD.
Proof.
  apply (Build_ringlaws QcD Qcrt). intros a b. cbn. split.
  - apply Qc_eq_bool_correct.
  - intros ->. unfold Qc_eq_bool. destruct (Qc_eq_dec b b) as [_|N]; [reflexivity | exfalso; apply N; reflexivity].
Qed.

Definition qc (n : Z) (d : positive) : Qc := Q2Qc (n # d).
Definition qv (a b c : Qc) : vec QcD := @mkvec QcD a b c.

(* the tilted rotation with rows (1,-2,2)/3, (2,-1,-2)/3, (2,2,1)/3 and a 3-4-5 rotation about z, composed by hand *)
Definition rot122q : mat QcD :=
  @mkmat QcD (qv (qc 1 3) (qc (-2) 3) (qc 2 3)) (qv (qc 2 3) (qc (-1) 3) (qc (-2) 3)) (qv (qc 2 3) (qc 2 3) (qc 1 3)).
Definition refl122q : mat QcD :=
  @mkmat QcD (qv (qc 1 3) (qc (-2) 3) (qc 2 3)) (qv (qc 2 3) (qc (-1) 3) (qc (-2) 3)) (qv (qc (-2) 3) (qc (-2) 3) (qc (-1) 3)).

Example rot122q_orth : orth QcD rot122q /\ mdet QcD rot122q = f1 QcD.
Proof. split; [repeat split|]; apply Qc_is_canon; vm_compute; reflexivity. Qed.

Example refl122q_orth : orth QcD refl122q /\ mdet QcD refl122q = fopp QcD (f1 QcD).
Proof. split; [repeat split|]; apply Qc_is_canon; vm_compute; reflexivity. Qed.

(* the chiral five-atom molecule of Proofs/E3FPMotion.v, with rational coordinates *)
Definition qatom (i num deg mass chg : Z) (x y z : Z) : atom QcD :=
  mkatom QcD i num deg deg deg 0 mass chg 0 0 (qv (qc x 1) (qc y 1) (qc z 1)).
Definition ex_molq : mol QcD := mkmol QcD
  [ qatom 0 6 4 12 0 0 0 0; qatom 1 9 1 18 0 1300 200 100; qatom 2 17 1 35 0 (-500) 1500 (-300);
    qatom 3 35 1 79 0 (-600) (-900) 1200; qatom 4 8 1 15 (-1) (-400) (-700) (-1100) ]
  [ (0, 1, BtSingle); (0, 2, BtSingle); (0, 3, BtSingle); (0, 4, BtSingle) ]
  (qc 1000000 1).
Definition ex_tq : vec QcD := qv (qc 7 2) (qc (-3) 1) (qc 11 5).

Definition state_sig (r : result state) : result (Z * list (list Z)) :=
  match r with Ok st => Ok (st_k st, map (map s_ident) (st_shells st)) | Raises e => Raises e end.

(* executed: the run on the rotated + translated molecule reaches the same levels with the same identifiers ... *)
Example rational_rotation_executes :
  state_sig (run QcD e3fp_consts 50 ex_opts (move QcD rot122q ex_tq ex_molq))
  = state_sig (run QcD e3fp_consts 50 ex_opts ex_molq)
  /\ exists k ids, state_sig (run QcD e3fp_consts 50 ex_opts ex_molq) = Ok (k, ids) /\ 1 <= k.
Proof. split; [vm_compute; reflexivity|]. eexists. eexists. split; [vm_compute; reflexivity | vm_compute; discriminate]. Qed.

(* ... as the theorem says it must (and the reflected molecule differs when stereo is on) *)
Theorem fp_rigid_invariant_Qc : forall C fuel o (M : mat QcD) t m,
  orth QcD M -> mdet QcD M = f1 QcD -> run QcD C fuel o (move QcD M t m) = run QcD C fuel o m.
Proof. intros. apply (fp_rigid_invariant QcD QcD_laws); assumption. Qed.

Example reflection_changes_stereo_Qc :
  state_sig (run QcD e3fp_consts 50 ex_opts (move QcD refl122q ex_tq ex_molq))
  <> state_sig (run QcD e3fp_consts 50 ex_opts ex_molq).
Proof. vm_compute. discriminate. Qed.
