(* C02 on M1 - the hashing layer and the published constants.

   signed -> unsigned conversion, range of hash_int64_array, "the hash reads its input only through the little-endian
   32-bit words of the int64 array", and the finite facts about Gen/Constants.v and Gen/AngleTable.v (both regenerated
   from the source tree on every run, so an edited constant in /repo breaks an obligation here). *)
From Coq Require Import ZArith List Bool Lia QArith.
From E3FP Require Import Base.Prelude Base.ZSet Base.Murmur3 Model.Geometry Model.Stereo Gen.Constants Gen.AngleTable Model.E3FP.
Import ListNotations.
Open Scope Z_scope.

(* ---- signed_to_unsigned_int ---------------------------------------------------------------------------- *)
Ltac Zify.zify_post_hook ::= Z.to_euclidean_division_equations.

Lemma unsigned32_cases a : -two31 <= a < two31 -> unsigned32 a = if a <? 0 then a + two32 else a.
Proof.
  unfold unsigned32, two31, two32. intro H. destruct (a <? 0) eqn:E; [apply Z.ltb_lt in E | apply Z.ltb_ge in E]; lia.
Qed.

Theorem signed_to_unsigned_spec :
  forall a, -two31 <= a < two31 ->
    0 <= unsigned32 a < two32 /\
    (unsigned32 a - a) mod two32 = 0 /\
    to_signed32 (unsigned32 a) = a /\
    forall b, -two31 <= b < two31 -> unsigned32 a = unsigned32 b -> a = b.
Proof.
  intros a Ha. split; [|split; [|split]].
  - unfold unsigned32, two32. apply Z.mod_pos_bound. lia.
  - rewrite unsigned32_cases by exact Ha. unfold two32. destruct (a <? 0).
    + replace (a + 4294967296 - a) with (1 * 4294967296) by lia. apply Z_mod_mult.
    + replace (a - a) with 0 by lia. reflexivity.
  - rewrite unsigned32_cases by exact Ha. unfold to_signed32, two31, two32 in *.
    destruct (a <? 0) eqn:E; [apply Z.ltb_lt in E | apply Z.ltb_ge in E].
    + destruct (a + 4294967296 <? 2147483648) eqn:E2; [apply Z.ltb_lt in E2 | apply Z.ltb_ge in E2]; lia.
    + destruct (a <? 2147483648) eqn:E2; [apply Z.ltb_lt in E2 | apply Z.ltb_ge in E2]; lia.
  - intros b Hb. rewrite !unsigned32_cases by assumption. unfold two31, two32 in *.
    destruct (a <? 0) eqn:E1; destruct (b <? 0) eqn:E2;
      try apply Z.ltb_lt in E1; try apply Z.ltb_ge in E1; try apply Z.ltb_lt in E2; try apply Z.ltb_ge in E2; lia.
Qed.

(* the unsigned value is always a 32-bit word, whatever the input *)
Lemma unsigned32_range a : 0 <= unsigned32 a < two32.
Proof. unfold unsigned32, two32. apply Z.mod_pos_bound. lia. Qed.

(* ---- range of the hash ------------------------------------------------------------------------------------ *)
Lemma lxor_bound n a b : 0 <= n -> 0 <= a < 2 ^ n -> 0 <= b < 2 ^ n -> 0 <= Z.lxor a b < 2 ^ n.
Proof.
  intros Hn Ha Hb. split; [apply Z.lxor_nonneg; lia|].
  destruct (Z.eq_dec (Z.lxor a b) 0) as [E|E]; [rewrite E; lia|].
  assert (Hpos : 0 < Z.lxor a b) by (assert (0 <= Z.lxor a b) by (apply Z.lxor_nonneg; lia); lia).
  apply Z.log2_lt_pow2; [exact Hpos|].
  assert (Hl : forall x, 0 <= x < 2 ^ n -> x = 0 \/ Z.log2 x < n).
  { intros x Hx. destruct (Z.eq_dec x 0); [left; assumption | right; apply Z.log2_lt_pow2; lia]. }
  pose proof (Z.log2_lxor a b ltac:(lia) ltac:(lia)) as Hm.
  destruct (Hl a Ha) as [->|La]; destruct (Hl b Hb) as [->|Lb].
  - rewrite Z.lxor_0_l in E. congruence.
  - rewrite Z.lxor_0_l. exact Lb.
  - rewrite Z.lxor_0_r. exact La.
  - lia.
Qed.

Lemma wrap32_range x : 0 <= wrap32 x < two32.
Proof. unfold wrap32, two32. apply Z.mod_pos_bound. lia. Qed.

Lemma shiftr_range x k : 0 <= k -> 0 <= x < two32 -> 0 <= Z.shiftr x k < two32.
Proof.
  intros Hk Hx. split; [apply Z.shiftr_nonneg; lia|].
  rewrite Z.shiftr_div_pow2 by exact Hk.
  assert (0 < 2 ^ k) by (apply Z.pow_pos_nonneg; lia).
  assert (x / 2 ^ k <= x) by (apply Z.div_le_upper_bound; nia). lia.
Qed.

Lemma two32_pow : two32 = 2 ^ 32.
Proof. reflexivity. Qed.

Lemma fmix32_range h : 0 <= fmix32 h < two32.
Proof.
  unfold fmix32. cbv zeta.
  set (h4 := wrap32 (_ * 3266489909)).
  assert (H4 : 0 <= h4 < two32) by apply wrap32_range.
  rewrite two32_pow in *. apply lxor_bound; [lia | exact H4 |].
  rewrite <- two32_pow in *. apply shiftr_range; [lia | exact H4].
Qed.

Lemma mmh3_words_range seed ws : 0 <= mmh3_words seed ws < two32.
Proof. unfold mmh3_words. apply fmix32_range. Qed.

Lemma to_signed32_range h : 0 <= h < two32 -> -two31 <= to_signed32 h < two31.
Proof.
  unfold to_signed32, two31, two32. intro H.
  destruct (h <? 2147483648) eqn:E; [apply Z.ltb_lt in E | apply Z.ltb_ge in E]; lia.
Qed.

(* hash_int64_array returns an int32 for every seed and every input array *)
Theorem hash_range : forall seed xs, -two31 <= hash_i64 seed xs < two31.
Proof. intros. unfold hash_i64. apply to_signed32_range, mmh3_words_range. Qed.

(* so the identifiers' unsigned conversion is the bijection of signed_to_unsigned_spec *)
Corollary unsigned_hash_roundtrip seed xs : to_signed32 (unsigned32 (hash_i64 seed xs)) = hash_i64 seed xs.
Proof. apply (signed_to_unsigned_spec _ (hash_range seed xs)). Qed.

Corollary unsigned_hash_injective seed1 xs1 seed2 xs2 :
  unsigned32 (hash_i64 seed1 xs1) = unsigned32 (hash_i64 seed2 xs2) -> hash_i64 seed1 xs1 = hash_i64 seed2 xs2.
Proof. apply (signed_to_unsigned_spec _ (hash_range seed1 xs1)). apply hash_range. Qed.

(* ---- the hash reads the little-endian 32-bit words of the int64 array only ------------------------------------ *)
Lemma words_of_i64_mod x y : x mod two64 = y mod two64 -> words_of_i64 x = words_of_i64 y.
Proof. unfold words_of_i64. intros ->. reflexivity. Qed.

Lemma words_of_i64_inj x y : words_of_i64 x = words_of_i64 y -> x mod two64 = y mod two64.
Proof.
  unfold words_of_i64. cbv zeta. intro H. inversion H as [[H1 H2]].
  rewrite (Z.div_mod (x mod two64) two32) by (unfold two32; lia).
  rewrite (Z.div_mod (y mod two64) two32) by (unfold two32; lia). rewrite H1, H2. reflexivity.
Qed.

Lemma words_range x : Forall (fun w => 0 <= w < two32) (words_of_i64 x).
Proof.
  unfold words_of_i64. cbv zeta.
  assert (H : 0 <= x mod two64 < two64) by (apply Z.mod_pos_bound; unfold two64; lia).
  repeat constructor.
  - apply Z.mod_pos_bound. unfold two32; lia.
  - apply Z.mod_pos_bound. unfold two32; lia.
  - apply Z.div_pos; unfold two32; lia.
  - apply Z.div_lt_upper_bound; unfold two32, two64 in *; lia.
Qed.

Theorem hash_depends_on_words_only :
  forall seed xs ys, flat_map words_of_i64 xs = flat_map words_of_i64 ys -> hash_i64 seed xs = hash_i64 seed ys.
Proof. intros seed xs ys H. unfold hash_i64. rewrite H. reflexivity. Qed.

(* entries congruent modulo 2^64 (the int64 wrap of the array dtype) hash alike; the seed counts modulo 2^32 *)
Theorem hash_int64_wrap :
  forall seed seed' xs ys, seed mod two32 = seed' mod two32 ->
    Forall2 (fun x y => x mod two64 = y mod two64) xs ys -> hash_i64 seed xs = hash_i64 seed' ys.
Proof.
  intros seed seed' xs ys Hs H. unfold hash_i64, mmh3_words, wrap32. rewrite Hs.
  replace (flat_map words_of_i64 ys) with (flat_map words_of_i64 xs); [reflexivity|].
  induction H as [|x y xs ys Hxy H IH]; cbn [flat_map]; [reflexivity|]. rewrite IH, (words_of_i64_mod x y Hxy). reflexivity.
Qed.

(* conversely the word sequence determines the int64 array: no information besides the values is hashed, none is lost *)
Lemma words_cons x l : words_of_i64 x ++ l = (x mod two64) mod two32 :: (x mod two64) / two32 :: l.
Proof. reflexivity. Qed.

Theorem words_determine_array :
  forall xs ys, flat_map words_of_i64 xs = flat_map words_of_i64 ys -> Forall2 (fun x y => x mod two64 = y mod two64) xs ys.
Proof.
  induction xs as [|x xs IH]; destruct ys as [|y ys]; cbn [flat_map]; rewrite ?words_cons; intro H;
    try discriminate; [constructor|].
  inversion H as [[H1 H2 H3]].
  constructor; [|apply IH; exact H3].
  apply words_of_i64_inj. unfold words_of_i64. cbv zeta. rewrite H1, H2. reflexivity.
Qed.

Ltac Zify.zify_post_hook ::= idtac.

(* ---- the published constants ------------------------------------------------------------------------------------ *)
(* y = m / 2^k is a binary64 number (0 < m < 2^53; with j = 52 - log2 m its normalised significand is m 2^j in
   [2^52, 2^53) and its unit in the last place is 2^-(k+j)) within half a unit in the last place of p / q *)
Definition double_nearest (p q : Z) (y : Q) : bool :=
  let m := Qnum y in let d := Zpos (Qden y) in let j := 52 - Z.log2 m in
  (d =? 2 ^ Z.log2 d) && (0 <? m) && (m <? 2 ^ 53) && (2 * Z.abs (m * 2 ^ j * q - p * d * 2 ^ j) <=? q).

Definition bond_code_published (t : bond_tag) : option Z :=
  match t with
  | BtNone => Some 5 | BtSingle => Some 1 | BtDouble => Some 2 | BtTriple => Some 3 | BtAromatic => Some 4
  | BtOther => None
  end.

Theorem bond_codes_published : forall t, lookup_bond t bond_types_table = bond_code_published t.
Proof. intros []; vm_compute; reflexivity. Qed.

Theorem bond_codes_injective :
  forall t1 t2 c, lookup_bond t1 bond_types_table = Some c -> lookup_bond t2 bond_types_table = Some c -> t1 = t2.
Proof. intros [] [] c; vm_compute; intros H1 H2; try reflexivity; try discriminate; congruence. Qed.

Definition strictly_increasing (l : list Z) : Prop := ssorted l.

Fixpoint incr_b (l : list Z) : bool :=
  match l with
  | x :: ((y :: _) as t) => (x <? y) && incr_b t
  | _ => true
  end.

Lemma incr_b_sound l : incr_b l = true -> ssorted l.
Proof.
  unfold ssorted. induction l as [|x t IH]; intro H; [constructor|].
  destruct t as [|y t']; [constructor; constructor|].
  simpl in H. apply andb_true_iff in H. destruct H as [Hxy Ht]. apply Z.ltb_lt in Hxy.
  specialize (IH Ht). constructor; [exact IH|].
  inversion IH as [|? ? IH' Fy]; subst. constructor; [exact Hxy|].
  rewrite Forall_forall in *. intros w Hw. specialize (Fy w Hw). lia.
Qed.

Theorem constants_are_published :
  mmh3_seed = 0 /\
  (forall t, lookup_bond t bond_types_table = bond_code_published t) /\ length bond_types_table = 5%nat /\
  double_nearest 1 10 y_axis_precision = true /\
  double_nearest 1 100 z_axis_precision = true /\
  polar_cone_is_pi_over_36 = true /\
  fprinter_bits = 2 ^ 32 /\
  ident_dtype_is_int64 = true /\
  (* the bracket table: 157 = floor((pi/2) / 0.01) thresholds with common denominator 2^50, strictly increasing *)
  bsize sin2_tree = 157 /\ bflatten sin2_tree = sin2_table /\ length sin2_table = 157%nat /\
  Forall (fun nd => snd nd = 2 ^ angle_den_bits /\ 0 < fst nd < snd nd) sin2_table /\
  ssorted (map fst sin2_table) /\
  snd cos2_cone = 2 ^ angle_den_bits /\ 0 < fst cos2_cone < snd cos2_cone /\
  fst yprec2 = Qnum y_axis_precision ^ 2 /\ snd yprec2 = Zpos (Qden y_axis_precision) ^ 2 /\
  e3fp_consts = mksconsts sin2_tree cos2_cone yprec2.
Proof.
  split; [reflexivity|]. split; [exact bond_codes_published|].
  split; [reflexivity|]. split; [vm_compute; reflexivity|]. split; [vm_compute; reflexivity|].
  split; [reflexivity|]. split; [reflexivity|]. split; [reflexivity|].
  split; [vm_compute; reflexivity|]. split; [vm_compute; reflexivity|]. split; [vm_compute; reflexivity|].
  split.
  { apply Forall_forall. intros nd Hnd.
    assert (H : forallb (fun nd => (snd nd =? 2 ^ angle_den_bits) && (0 <? fst nd) && (fst nd <? snd nd)) sin2_table = true)
      by (vm_compute; reflexivity).
    rewrite forallb_forall in H. specialize (H nd Hnd). apply andb_true_iff in H. destruct H as [H H3].
    apply andb_true_iff in H. destruct H as [H1 H2]. apply Z.eqb_eq in H1. apply Z.ltb_lt in H2, H3. lia. }
  split; [apply incr_b_sound; vm_compute; reflexivity|].
  split; [vm_compute; reflexivity|]. split; [vm_compute; split; reflexivity|].
  split; [vm_compute; reflexivity|]. split; [vm_compute; reflexivity|]. reflexivity.
Qed.

(* ---- brank on a search tree = number of entries passing a downward-closed test ("floor") ----------------------------- *)
(* test is downward closed along l: once it fails it fails for everything that follows *)
Fixpoint downclosed {A} (test : A -> bool) (l : list A) : Prop :=
  match l with
  | [] => True
  | x :: t => (test x = false -> forall y, In y t -> test y = false) /\ downclosed test t
  end.

Lemma downclosed_app {A} (test : A -> bool) l1 l2 :
  downclosed test (l1 ++ l2) ->
  downclosed test l1 /\ downclosed test l2 /\ (forall x y, In x l1 -> In y l2 -> test x = false -> test y = false).
Proof.
  induction l1 as [|a l1 IH]; simpl; intro H.
  - split; [exact I|]. split; [exact H|]. intros x y [].
  - destruct H as [Ha H]. destruct (IH H) as [H1 [H2 H3]]. split; [|split; [exact H2|]].
    + split; [|exact H1]. intros Hf y Hy. apply Ha; [exact Hf | apply in_or_app; left; exact Hy].
    + intros x y [<-|Hx] Hy Hf; [apply Ha; [exact Hf | apply in_or_app; right; exact Hy] | eapply H3; eassumption].
Qed.

Lemma filter_all_false {A} (test : A -> bool) l : (forall y, In y l -> test y = false) -> filter test l = [].
Proof.
  induction l as [|x l IH]; simpl; intro H; [reflexivity|].
  rewrite (H x) by (left; reflexivity). apply IH. intros; apply H; right; assumption.
Qed.

Lemma filter_all_true {A} (test : A -> bool) l : (forall y, In y l -> test y = true) -> filter test l = l.
Proof.
  induction l as [|x l IH]; simpl; intro H; [reflexivity|].
  rewrite (H x) by (left; reflexivity). f_equal. apply IH. intros; apply H; right; assumption.
Qed.

Lemma bsize_length t : bsize t = Z.of_nat (length (bflatten t)).
Proof.
  induction t as [|l IHl x r IHr]; cbn [bsize bflatten length]; [reflexivity|].
  rewrite app_length. cbn [length]. rewrite IHl, IHr. lia.
Qed.

Theorem brank_count test t :
  downclosed test (bflatten t) -> brank test t = Z.of_nat (length (filter test (bflatten t))).
Proof.
  induction t as [|l IHl x r IHr]; cbn [bflatten brank]; intro H; [reflexivity|].
  apply downclosed_app in H. destruct H as [Hl [Hxr Hlr]]. cbn [downclosed] in Hxr. destruct Hxr as [Hx Hr].
  rewrite filter_app. cbn [filter]. destruct (test x) eqn:E.
  - rewrite IHr by exact Hr. rewrite (filter_all_true test (bflatten l)).
    + rewrite app_length. cbn [length]. rewrite bsize_length. lia.
    + intros y Hy. destruct (test y) eqn:Ey; [reflexivity|].
      rewrite (Hlr y x Hy (or_introl eq_refl) Ey) in E. discriminate.
  - rewrite IHl by exact Hl. rewrite (filter_all_false test (bflatten r)) by (apply Hx; reflexivity).
    rewrite app_length. cbn [length]. lia.
Qed.

(* over the integers the bracket test of Stereo.bin_of is downward closed along the table, so the bin is the number of
   thresholds not exceeding the value: bin = max { k | sin^2(k dz) |u|^2|y|^2 <= (u.y)^2 } *)
Lemma downclosed_sorted (den num : Z) (l : list (Z * Z)) :
  0 <= den -> ssorted (map fst l) -> (forall nd, In nd l -> snd nd = 2 ^ angle_den_bits) ->
  downclosed (fun nd => Z.leb (fst nd * den) (snd nd * num)) l.
Proof.
  intros Hd. induction l as [|x t IH]; simpl; intros Hs Hden; [exact I|].
  inversion Hs as [|? ? Hs' Hx]; subst. split; [|apply IH; [exact Hs' | intros; apply Hden; right; assumption]].
  intros Hf y Hy. apply Z.leb_gt in Hf. apply Z.leb_gt.
  rewrite Forall_forall in Hx. specialize (Hx (fst y) (in_map fst _ _ Hy)).
  rewrite (Hden x (or_introl eq_refl)) in Hf. rewrite (Hden y (or_intror Hy)). nia.
Qed.

Theorem bin_of_is_count_Z (uy uu yy : Z) :
  0 <= uu * yy ->
  bin_of ZD e3fp_consts uy uu yy =
  Z.of_nat (length (filter (fun nd => Z.leb (fst nd * (uu * yy)) (snd nd * (uy * uy))) sin2_table)).
Proof.
  intro H. unfold bin_of. cbn [sc_sin2 e3fp_consts ZD fmul fleb fofZ F].
  destruct constants_are_published as (_ & _ & _ & _ & _ & _ & _ & _ & _ & Hfl & _ & Hall & Hs & _).
  rewrite brank_count; rewrite Hfl; [reflexivity|].
  apply downclosed_sorted; [exact H | exact Hs|].
  intros nd Hnd. rewrite Forall_forall in Hall. apply Hall. exact Hnd.
Qed.
