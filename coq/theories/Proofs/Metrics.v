(* The calling conventions (dispatcher, _check_array_pair): rejections, and every calling form on two fingerprints
   reaches a path whose value is the definition on the fingerprints' dense vectors. *)
From Coq Require Import QArith Qabs Qminmax Lqa Lia ZifyBool Sorting.Sorted.
From E3FP Require Import Base.Prelude Base.ZSet Model.Fprint Model.Metrics
  Proofs.MetricsBase Proofs.MetricsDefs Proofs.MetricsDense Proofs.MetricsSparse Proofs.MetricsFp.
Open Scope Q_scope.

(* equality of results: rationals by ==, rooted values by their signed square *)
Definition value_eqv (v w : value) : Prop :=
  match v, w with
  | VQ p, VQ q => p == q
  | VR r, VR s => rsq r == rsq s
  | _, _ => False
  end.

(* ---- rejections ---- *)
Lemma width_mismatch_array m X Y : arr_width X <> arr_width Y -> array_metric m X (Some Y) = Raises EValue.
Proof. intro H. unfold array_metric. apply Z.eqb_neq in H. rewrite H. reflexivity. Qed.

Lemma bits_mismatch_dispatch m A B x y :
  item_bits A = Some x -> item_bits B = Some y -> x <> y -> dispatch m A (Some B) = Raises EBits.
Proof. intros HA HB H. unfold dispatch. rewrite HA, HB. apply Z.eqb_neq in H. rewrite H. reflexivity. Qed.

Lemma non_fingerprint_dispatch_l m B : dispatch m IOther (Some B) = Raises EType.
Proof. reflexivity. Qed.

Lemma non_fingerprint_dispatch_r m A : dispatch m A (Some IOther) = Raises EType.
Proof. unfold dispatch. simpl. destruct (item_bits A); reflexivity. Qed.

(* ---- CSR paths equal the definitions on the dense expansions ---- *)
Definition row_binary (n : Z) (r : row) : Prop := forall i, rget r i == 0 \/ rget r i == 1.

Lemma expand_binary n r : row_binary n r -> binary (expand n r).
Proof.
  intro H. unfold expand, binary. rewrite Forall_forall. intros v Hv. apply in_map_iff in Hv.
  destruct Hv as [i [<- _]]. apply H.
Qed.

Lemma expand_same_length n r s : (0 <= n)%Z -> length (expand n r) = length (expand n s).
Proof. intro H. rewrite !expand_length by exact H. reflexivity. Qed.

Lemma sp_tanimoto_eq_def n r s : (0 <= n)%Z -> in_range n r -> in_range n s -> row_binary n r -> row_binary n s ->
  sp_tanimoto r s == tanimoto_def (expand n r) (expand n s).
Proof.
  intros Hn Hr Hs Br Bs. rewrite (sp_tanimoto_eq_dense n r s Hr Hs).
  apply arr_tanimoto_eq_def; [apply expand_same_length; exact Hn | apply expand_binary; exact Br | apply expand_binary; exact Bs].
Qed.

Lemma sp_dice_eq_def n r s : (0 <= n)%Z -> in_range n r -> in_range n s -> row_binary n r -> row_binary n s ->
  sp_dice r s == dice_def (expand n r) (expand n s).
Proof.
  intros Hn Hr Hs Br Bs. rewrite (sp_dice_eq_dense n r s Hr Hs).
  apply arr_dice_eq_def; [apply expand_same_length; exact Hn | apply expand_binary; exact Br | apply expand_binary; exact Bs].
Qed.

Lemma sp_cosine_eq_def n r s : in_range n r -> in_range n s ->
  rsq (sp_cosine r s) == rsq (cosine_def (expand n r) (expand n s)).
Proof. intros Hr Hs. rewrite (sp_cosine_eq_dense n r s Hr Hs). apply arr_cosine_eq_def. Qed.

Lemma sp_pearson_eq_def n r s : (0 <= n)%Z -> in_range n r -> in_range n s ->
  rsq (sp_pearson n r s) == rsq (pearson_def (expand n r) (expand n s)).
Proof.
  intros Hn Hr Hs. rewrite (sp_pearson_eq_dense n r s Hn Hr Hs). apply arr_pearson_eq_def. apply expand_same_length. exact Hn.
Qed.

(* ---- the definitions only see the entries: vectors given as maps over the same index list ---- *)
Section Ext.
  Variables (f f' g g' : Z -> Q) (l : list Z).

  Lemma zsum_ext (h h' : Q -> Q -> Q) :
    (forall i, h (f i) (g i) == h' (f' i) (g' i)) ->
    qsumr (zipw h (map f l) (map g l)) == qsumr (zipw h' (map f' l) (map g' l)).
  Proof. intro H. rewrite !zipw_map_same. apply qsumr_map_ext'. intros i _. apply H. Qed.

  Hypothesis Hf : forall i, f i == f' i.
  Hypothesis Hg : forall i, g i == g' i.

  Lemma dot_ext2 : dot (map f l) (map g l) == dot (map f' l) (map g' l).
  Proof. unfold dot. apply zsum_ext. intro i. rewrite Hf, Hg. reflexivity. Qed.

  Lemma soergel_ext : soergel_def (map f l) (map g l) == soergel_def (map f' l) (map g' l).
  Proof.
    assert (E1 : sum_max (map f l) (map g l) == sum_max (map f' l) (map g' l)).
    { unfold sum_max. apply zsum_ext. intro i. apply Q.max_compat; auto. }
    assert (E2 : sum_absdiff (map f l) (map g l) == sum_absdiff (map f' l) (map g' l)).
    { unfold sum_absdiff. apply zsum_ext. intro i. apply Qabs_wd. rewrite Hf, Hg. reflexivity. }
    unfold soergel_def. rewrite (Qeq_bool_compat _ _ E1). destruct (Qeq_bool _ 0); [reflexivity|]. rewrite E1, E2. reflexivity.
  Qed.
End Ext.

Lemma cosine_ext (f f' g g' : Z -> Q) l : (forall i, f i == f' i) -> (forall i, g i == g' i) ->
  rsq (cosine_def (map f l) (map g l)) == rsq (cosine_def (map f' l) (map g' l)).
Proof.
  intros Hf Hg. unfold cosine_def. apply rsq_compat.
  - apply dot_ext2; assumption.
  - rewrite (dot_ext2 f f' f f' l Hf Hf), (dot_ext2 g g' g g' l Hg Hg). reflexivity.
Qed.

Lemma qsumr_map_ext_z (f f' : Z -> Q) l : (forall i, f i == f' i) -> qsumr (map f l) == qsumr (map f' l).
Proof. intro H. apply qsumr_map_ext'. intros i _. apply H. Qed.

Lemma pearson_ext (f f' g g' : Z -> Q) l : (forall i, f i == f' i) -> (forall i, g i == g' i) ->
  rsq (pearson_def (map f l) (map g l)) == rsq (pearson_def (map f' l) (map g' l)).
Proof.
  intros Hf Hg.
  assert (Mf : mean (map f l) == mean (map f' l)).
  { unfold mean, qlen. rewrite !map_length, (qsumr_map_ext_z f f' l Hf). reflexivity. }
  assert (Mg : mean (map g l) == mean (map g' l)).
  { unfold mean, qlen. rewrite !map_length, (qsumr_map_ext_z g g' l Hg). reflexivity. }
  unfold pearson_def, center. rewrite !map_map.
  apply rsq_compat.
  - apply dot_ext2; intro i; [rewrite Hf, Mf | rewrite Hg, Mg]; reflexivity.
  - rewrite (dot_ext2 (fun i => f i - mean (map f l)) (fun i => f' i - mean (map f' l)) (fun i => f i - mean (map f l)) (fun i => f' i - mean (map f' l)) l),
            (dot_ext2 (fun i => g i - mean (map g l)) (fun i => g' i - mean (map g' l)) (fun i => g i - mean (map g l)) (fun i => g' i - mean (map g' l)) l);
      try (intro i; rewrite ?Hf, ?Mf, ?Hg, ?Mg; reflexivity). reflexivity.
Qed.

(* Tanimoto and Dice only see which entries are non-zero *)
Lemma n_and_ext (f f' g g' : Z -> Q) l : (forall i, nz (f i) = nz (f' i)) -> (forall i, nz (g i) = nz (g' i)) ->
  n_and (map f l) (map g l) == n_and (map f' l) (map g' l).
Proof. intros Hf Hg. unfold n_and. apply zsum_ext. intro i. rewrite Hf, Hg. reflexivity. Qed.

Lemma n_or_ext (f f' g g' : Z -> Q) l : (forall i, nz (f i) = nz (f' i)) -> (forall i, nz (g i) = nz (g' i)) ->
  n_or (map f l) (map g l) == n_or (map f' l) (map g' l).
Proof. intros Hf Hg. unfold n_or. apply zsum_ext. intro i. rewrite Hf, Hg. reflexivity. Qed.

Lemma n_on_ext (f f' : Z -> Q) l : (forall i, nz (f i) = nz (f' i)) -> n_on (map f l) == n_on (map f' l).
Proof. intro Hf. unfold n_on. rewrite !map_map. apply qsumr_map_ext'. intros i _. rewrite Hf. reflexivity. Qed.

Lemma tanimoto_ext (f f' g g' : Z -> Q) l : (forall i, nz (f i) = nz (f' i)) -> (forall i, nz (g i) = nz (g' i)) ->
  tanimoto_def (map f l) (map g l) == tanimoto_def (map f' l) (map g' l).
Proof. intros Hf Hg. unfold tanimoto_def. apply sdiv_compat; [apply n_and_ext | apply n_or_ext]; assumption. Qed.

Lemma dice_ext (f f' g g' : Z -> Q) l : (forall i, nz (f i) = nz (f' i)) -> (forall i, nz (g i) = nz (g' i)) ->
  dice_def (map f l) (map g l) == dice_def (map f' l) (map g' l).
Proof.
  intros Hf Hg. unfold dice_def. apply sdiv_compat.
  - rewrite (n_and_ext f f' g g' l Hf Hg). reflexivity.
  - rewrite (n_on_ext f f' l Hf), (n_on_ext g g' l Hg). reflexivity.
Qed.

(* ---- the rows the dispatcher builds from a fingerprint ---- *)
Lemma cget_counts_rget a i : wf_fp a -> cget (counts_of a) i == rget (counts_of a) i.
Proof. intro H. apply cget_rget. apply NoDup_counts_of. exact H. Qed.

Lemma zmem_rget_zero a i : wf_fp a -> zmem i (fidx a) = false -> rget (counts_of a) i == 0.
Proof. intros H E. apply rget_notin. rewrite (keys_counts_of a H). apply zmem_false. exact E. Qed.

(* own dtype: the row has the entries of the counts dict *)
Lemma rget_fp_row_own a i : wf_fp a -> rget (fp_row (fkind a) a) i == rget (counts_of a) i.
Proof.
  intro H. unfold fp_row. rewrite (rget_mapkeys (fidx a) (fun k => cast_dtype (fkind a) (cget (counts_of a) k)) i)
    by (apply ssorted_NoDup; apply H).
  destruct (zmem i (fidx a)) eqn:E.
  - pose proof (cget_counts_rget a i H) as CG. unfold cast_dtype. destruct (fkind a) eqn:K; try exact CG.
    (* a bit fingerprint: the entry is 1 *)
    assert (E1 : rget (counts_of a) i == 1).
    { unfold counts_of. rewrite K. unfold bit_counts, cbuild. rewrite rget_mapkeys by (apply ssorted_NoDup; apply H). rewrite E. reflexivity. }
    rewrite (nz_compat _ _ CG), (nz_compat _ _ E1), E1. reflexivity.
  - symmetry. apply zmem_rget_zero; assumption.
Qed.

(* cast to bool: the row has 1 where the counts dict has a non-zero entry *)
Lemma rget_fp_row_bit a i : wf_fp a -> rget (fp_row KBit a) i == b01 (nz (rget (counts_of a) i)).
Proof.
  intro H. unfold fp_row. rewrite (rget_mapkeys (fidx a) (fun k => cast_dtype KBit (cget (counts_of a) k)) i)
    by (apply ssorted_NoDup; apply H).
  destruct (zmem i (fidx a)) eqn:E.
  - unfold cast_dtype. rewrite (nz_compat _ _ (cget_counts_rget a i H)). reflexivity.
  - rewrite (nz_compat _ _ (zmem_rget_zero a i H E)). reflexivity.
Qed.

Lemma in_range_fp_row k a : wf_fp a -> in_range (fbits a) (fp_row k a).
Proof.
  intros (_ & R & _). unfold in_range, fp_row. rewrite Forall_forall in *. intros e He. apply in_map_iff in He.
  destruct He as [i [<- Hi]]. simpl. apply R. exact Hi.
Qed.

(* db.as_type(Fingerprint) of a single-row database made from b (own kind) *)
Definition cast_row (k : kind) (r : row) : row := map (fun e => (fst e, cast_dtype k (snd e))) r.

Lemma rget_cast_row_bit r i : NoDup (keys r) -> rget (cast_row KBit r) i == b01 (nz (rget r i)).
Proof.
  induction r as [|[j v] t IH]; intro ND; [reflexivity|].
  simpl in ND. inversion ND as [|? ? Hn ND']; subst. simpl. destruct (i =? j)%Z eqn:E.
  - apply Z.eqb_eq in E. subst i.
    assert (Z1 : rget (cast_row KBit t) j == 0).
    { apply rget_notin. unfold cast_row, keys. rewrite map_map. simpl. exact Hn. }
    assert (Z2 : v + rget t j == v) by (rewrite (rget_notin t j Hn); ring).
    rewrite Z1, (nz_compat _ _ Z2). ring.
  - apply IH. exact ND'.
Qed.

Lemma keys_fp_row k a : keys (fp_row k a) = fidx a.
Proof. unfold keys, fp_row. rewrite map_map. simpl. apply map_id. Qed.

Lemma in_range_cast_row n k r : in_range n r -> in_range n (cast_row k r).
Proof.
  unfold in_range, cast_row. rewrite !Forall_forall. intros H e He. apply in_map_iff in He. destruct He as [f [<- Hf]]. simpl. apply H. exact Hf.
Qed.

Lemma nz_b01_nz v : nz (b01 (nz v)) = nz v.
Proof. destruct (nz v); reflexivity. Qed.

Lemma b01_binary b : b01 b == 0 \/ b01 b == 1.
Proof. destruct b; [right | left]; reflexivity. Qed.

(* A row standing for fingerprint a after the dispatcher's coercion for measure m *)
Definition stands_for (m : metric) (a : fp) (r : row) : Prop :=
  in_range (fbits a) r /\ row_nonneg r /\
  match cast_type m with
  | Some _ => forall i, rget r i == b01 (nz (rget (counts_of a) i))
  | None => forall i, rget r i == rget (counts_of a) i
  end.

Lemma sparse_metric_stands m a b r s :
  wf_fp a -> wf_fp b -> (0 < fbits a)%Z -> fbits a = fbits b -> stands_for m a r -> stands_for m b s ->
  value_eqv (sparse_metric m (fbits a) r s) (def_metric m (fp_dense a) (fp_dense b)).
Proof.
  intros Ha Hb Hp Hn (Rr & Nr & Er) (Rs & Ns & Es). rewrite <- Hn in Rs. assert (H0 : (0 <= fbits a)%Z) by lia.
  unfold fp_dense. rewrite <- Hn. unfold expand.
  destruct m; simpl in Er, Es; simpl sparse_metric; simpl def_metric; unfold value_eqv.
  - rewrite (sp_tanimoto_eq_def (fbits a) r s H0 Rr Rs).
    + unfold expand. apply tanimoto_ext; intro i; [rewrite (nz_compat _ _ (Er i)) | rewrite (nz_compat _ _ (Es i))]; apply nz_b01_nz.
    + intro i. destruct (b01_binary (nz (rget (counts_of a) i))) as [E|E]; [left | right]; rewrite (Er i); exact E.
    + intro i. destruct (b01_binary (nz (rget (counts_of b) i))) as [E|E]; [left | right]; rewrite (Es i); exact E.
  - rewrite (sp_dice_eq_def (fbits a) r s H0 Rr Rs).
    + unfold expand. apply dice_ext; intro i; [rewrite (nz_compat _ _ (Er i)) | rewrite (nz_compat _ _ (Es i))]; apply nz_b01_nz.
    + intro i. destruct (b01_binary (nz (rget (counts_of a) i))) as [E|E]; [left | right]; rewrite (Er i); exact E.
    + intro i. destruct (b01_binary (nz (rget (counts_of b) i))) as [E|E]; [left | right]; rewrite (Es i); exact E.
  - rewrite (sp_cosine_eq_def (fbits a) r s Rr Rs). unfold expand. apply cosine_ext; assumption.
  - rewrite (sp_pearson_eq_def (fbits a) r s H0 Rr Rs). unfold expand. apply pearson_ext; assumption.
  - rewrite <- (soergel_ext (rget r) (rget (counts_of a)) (rget s) (rget (counts_of b)) (zrange (fbits a)) Er Es).
    fold (expand (fbits a) r). fold (expand (fbits a) s).
    apply sp_soergel_eq_def; assumption.
Qed.

Lemma row_nonneg_fp_row_own a : wf_fp a -> row_nonneg (fp_row (fkind a) a).
Proof.
  intro H. unfold row_nonneg, fp_row. rewrite Forall_forall. intros e He. apply in_map_iff in He. destruct He as [i [<- Hi]]. simpl.
  unfold cast_dtype. destruct (fkind a) eqn:K; try apply b01_range;
    rewrite (cget_counts_rget a i H); apply rget_nonneg; apply nonneg_counts_of; exact H.
Qed.

Lemma row_nonneg_fp_row_bit a : row_nonneg (fp_row KBit a).
Proof.
  unfold row_nonneg, fp_row. rewrite Forall_forall. intros e He. apply in_map_iff in He. destruct He as [i [<- Hi]]. simpl. apply b01_range.
Qed.

Lemma row_nonneg_cast_bit r : row_nonneg (cast_row KBit r).
Proof.
  unfold row_nonneg, cast_row. rewrite Forall_forall. intros e He. apply in_map_iff in He. destruct He as [f [<- Hf]]. simpl. apply b01_range.
Qed.

Lemma stands_own m a : wf_fp a -> cast_type m = None -> stands_for m a (fp_row (fkind a) a).
Proof.
  intros H C. unfold stands_for. rewrite C. split; [apply in_range_fp_row; exact H|]. split; [apply row_nonneg_fp_row_own; exact H|].
  intro i. apply rget_fp_row_own. exact H.
Qed.

Lemma stands_bit m a k : wf_fp a -> cast_type m = Some k -> stands_for m a (fp_row KBit a).
Proof.
  intros H C. unfold stands_for. rewrite C. split; [apply in_range_fp_row; exact H|]. split; [apply row_nonneg_fp_row_bit|].
  intro i. apply rget_fp_row_bit. exact H.
Qed.

Lemma stands_cast m a k : wf_fp a -> cast_type m = Some k -> stands_for m a (cast_row KBit (fp_row (fkind a) a)).
Proof.
  intros H C. unfold stands_for. rewrite C. split; [apply in_range_cast_row; apply in_range_fp_row; exact H|].
  split; [apply row_nonneg_cast_bit|].
  intro i. rewrite rget_cast_row_bit by (rewrite keys_fp_row; apply ssorted_NoDup; apply H).
  rewrite (nz_compat _ _ (rget_fp_row_own a i H)). reflexivity.
Qed.

(* ---- what the dispatcher computes ---- *)
Definition own_db (b : fp) : mdb := db_of_fp (fkind b) b.

Definition coerce_row (m : metric) (a : fp) : row :=
  fp_row (match cast_type m with Some k => k | None => fkind a end) a.

Definition coerce_db (m : metric) (d : mdb) : mdb :=
  match cast_type m with Some k => db_as_type k d | None => d end.

Lemma cast_type_cases m : cast_type m = None \/ cast_type m = Some KBit.
Proof. destruct m; simpl; auto. Qed.

Lemma coerce_row_stands m a : wf_fp a -> stands_for m a (coerce_row m a).
Proof.
  intro H. unfold coerce_row. destruct (cast_type_cases m) as [C|C]; rewrite C.
  - apply stands_own; assumption.
  - apply (stands_bit m a KBit); assumption.
Qed.

Lemma coerce_own_db m b : wf_fp b ->
  dwidth (coerce_db m (own_db b)) = fbits b /\ exists s, drows (coerce_db m (own_db b)) = [s] /\ stands_for m b s.
Proof.
  intro H. unfold coerce_db. destruct (cast_type_cases m) as [C|C]; rewrite C.
  - split; [reflexivity|]. exists (fp_row (fkind b) b). split; [reflexivity | apply stands_own; assumption].
  - unfold db_as_type, own_db, db_of_fp. simpl dkind. destruct (fkind b) eqn:K; simpl kind_eqb; cbv iota.
    + split; [reflexivity|]. exists (fp_row KBit b). split; [reflexivity | apply (stands_bit m b KBit); assumption].
    + split; [reflexivity|]. exists (cast_row KBit (fp_row KCount b)). split; [reflexivity|]. rewrite <- K. apply (stands_cast m b KBit); assumption.
    + split; [reflexivity|]. exists (cast_row KBit (fp_row KFloat b)). split; [reflexivity|]. rewrite <- K. apply (stands_cast m b KBit); assumption.
Qed.

Lemma array_metric_single m w r s :
  array_metric m (Sparse w [r]) (Some (Sparse w [s])) = Ok (Matrix [[sparse_metric m w r s]]).
Proof. unfold array_metric. simpl. rewrite Z.eqb_refl. reflexivity. Qed.

Lemma dispatch_fp_fp m a b : fbits a = fbits b -> dispatch m (IFp a) (Some (IFp b)) = Ok (Scalar (fp_metric m a b)).
Proof. intro H. unfold dispatch. simpl. rewrite H, Z.eqb_refl. reflexivity. Qed.

Lemma dispatch_fp_db m a d : fbits a = dwidth d ->
  dispatch m (IFp a) (Some (IDb d)) =
  array_metric m (Sparse (fbits a) [coerce_row m a]) (Some (Sparse (dwidth (coerce_db m d)) (drows (coerce_db m d)))).
Proof.
  intro H. unfold dispatch. simpl. rewrite H, Z.eqb_refl. unfold coerce_row, coerce_db.
  destruct (cast_type m); reflexivity.
Qed.

Lemma dispatch_db_fp m d b : dwidth d = fbits b ->
  dispatch m (IDb d) (Some (IFp b)) =
  array_metric m (Sparse (dwidth (coerce_db m d)) (drows (coerce_db m d))) (Some (Sparse (fbits b) [coerce_row m b])).
Proof.
  intro H. unfold dispatch. simpl. rewrite H, Z.eqb_refl. unfold coerce_row, coerce_db.
  destruct (cast_type m); reflexivity.
Qed.

Lemma dispatch_db_db m d e : dwidth d = dwidth e ->
  dispatch m (IDb d) (Some (IDb e)) =
  array_metric m (Sparse (dwidth (coerce_db m d)) (drows (coerce_db m d))) (Some (Sparse (dwidth (coerce_db m e)) (drows (coerce_db m e)))).
Proof.
  intro H. unfold dispatch. simpl. rewrite H, Z.eqb_refl. unfold coerce_db.
  destruct (cast_type m); reflexivity.
Qed.

(* the fingerprint-pair path against the definition, all five measures *)
Lemma fp_metric_eq_def m a b : wf_fp a -> wf_fp b -> (0 < fbits a)%Z -> fbits a = fbits b ->
  (cast_type m <> None -> no_stored_zero a /\ no_stored_zero b) ->
  value_eqv (fp_metric m a b) (def_metric m (fp_dense a) (fp_dense b)).
Proof.
  intros Ha Hb Hp Hn Hz. assert (H0 : (0 <= fbits a)%Z) by lia.
  destruct m; simpl; simpl in Hz.
  - destruct Hz as [Za Zb]; [discriminate|]. apply fp_tanimoto_eq_def; assumption.
  - destruct Hz as [Za Zb]; [discriminate|]. apply fp_dice_eq_def; assumption.
  - apply fp_cosine_eq_def; assumption.
  - apply fp_pearson_eq_def; assumption.
  - apply fp_soergel_eq_def; assumption.
Qed.

Theorem dispatch_consistent m a b :
  wf_fp a -> wf_fp b -> (0 < fbits a)%Z -> fbits a = fbits b ->
  (cast_type m <> None -> no_stored_zero a /\ no_stored_zero b) ->
  let d := def_metric m (fp_dense a) (fp_dense b) in
  (exists v, dispatch m (IFp a) (Some (IFp b)) = Ok (Scalar v) /\ value_eqv v d) /\
  (exists v, dispatch m (IFp a) (Some (IDb (own_db b))) = Ok (Matrix [[v]]) /\ value_eqv v d) /\
  (exists v, dispatch m (IDb (own_db a)) (Some (IFp b)) = Ok (Matrix [[v]]) /\ value_eqv v d) /\
  (exists v, dispatch m (IDb (own_db a)) (Some (IDb (own_db b))) = Ok (Matrix [[v]]) /\ value_eqv v d).
Proof.
  intros Ha Hb Hp Hn Hz d.
  destruct (coerce_own_db m a Ha) as (Wa & ra & Ra & Sa). destruct (coerce_own_db m b Hb) as (Wb & rb & Rb & Sb).
  pose proof (coerce_row_stands m a Ha) as Ca. pose proof (coerce_row_stands m b Hb) as Cb.
  split; [|split; [|split]].
  - exists (fp_metric m a b). split; [apply dispatch_fp_fp; exact Hn | apply fp_metric_eq_def; assumption].
  - exists (sparse_metric m (fbits a) (coerce_row m a) rb). split.
    + rewrite dispatch_fp_db by exact Hn. rewrite Wb, Rb, <- Hn. apply array_metric_single.
    + apply sparse_metric_stands; assumption.
  - exists (sparse_metric m (fbits a) ra (coerce_row m b)). split.
    + rewrite dispatch_db_fp by exact Hn. rewrite Wa, Ra, <- Hn. apply array_metric_single.
    + apply sparse_metric_stands; assumption.
  - exists (sparse_metric m (fbits a) ra rb). split.
    + rewrite dispatch_db_db by exact Hn. rewrite Wa, Ra, Wb, Rb, <- Hn. apply array_metric_single.
    + apply sparse_metric_stands; assumption.
Qed.

(* ---- witnesses: where the faithful model leaves the definition ---- *)
(* z = d - d: a count fingerprint whose stored counts are all 0 (keys kept); d = {1: 2, 2: 3}; 8 bits *)
Definition wit_z : fp := mkfp KCount 8 (Some (-1)%Z) [1%Z; 2%Z] [(1%Z, 0); (2%Z, 0)] None.
Definition wit_d : fp := mkfp KCount 8 (Some (-1)%Z) [1%Z; 2%Z] [(1%Z, inject_Z 2); (2%Z, inject_Z 3)] None.

Lemma wit_wf : wf_fp wit_z /\ wf_fp wit_d /\ fbits wit_z = fbits wit_d /\ allzero (fp_dense wit_z).
Proof.
  unfold wf_fp, ssorted. simpl. repeat split; repeat constructor; try lia; try (simpl; lra); try reflexivity;
    simpl; unfold Qle; simpl; lia.
Qed.

Lemma fp_tanimoto_explicit_zero_refuted :
  exists a b, wf_fp a /\ wf_fp b /\ fbits a = fbits b /\ allzero (fp_dense a) /\
              fp_tanimoto a b == 1 /\ tanimoto_def (fp_dense a) (fp_dense b) == 0 /\
              (exists v, dispatch MTanimoto (IFp a) (Some (IDb (own_db b))) = Ok (Matrix [[VQ v]]) /\ v == 0).
Proof.
  exists wit_z, wit_d. destruct wit_wf as (H1 & H2 & H3 & H4).
  split; [exact H1|]. split; [exact H2|]. split; [exact H3|]. split; [exact H4|].
  split; [vm_compute; reflexivity|]. split; [vm_compute; reflexivity|].
  eexists. split; [vm_compute; reflexivity | vm_compute; reflexivity].
Qed.

Lemma fp_dice_explicit_zero_refuted :
  exists a b, wf_fp a /\ wf_fp b /\ fbits a = fbits b /\ allzero (fp_dense a) /\
              fp_dice a b == 1 /\ dice_def (fp_dense a) (fp_dense b) == 0.
Proof.
  exists wit_z, wit_d. destruct wit_wf as (H1 & H2 & H3 & H4).
  split; [exact H1|]. split; [exact H2|]. split; [exact H3|]. split; [exact H4|].
  split; vm_compute; reflexivity.
Qed.

(* outside the documented contract of array_metrics.tanimoto ("Data must be binary. This is not checked."): a note *)
Lemma arr_tanimoto_nonbinary_note :
  arr_tanimoto [inject_Z 2; 0; inject_Z 3; 0] [inject_Z 2; 1; inject_Z 3; 0] == - (13 # 2) /\
  tanimoto_def [inject_Z 2; 0; inject_Z 3; 0] [inject_Z 2; 1; inject_Z 3; 0] == 2 # 3.
Proof. split; vm_compute; reflexivity. Qed.
