(* Lemmas about Model/Metrics.v (used by Properties/C06.v). *)
From Coq Require Import QArith Qabs Qminmax.
From E3FP Require Import Base.Prelude Base.ZSet Model.Fprint Model.Metrics.
Open Scope Z_scope.

Lemma width_mismatch_array m X Y : arr_width X <> arr_width Y -> array_metric m X (Some Y) = Raises EValue.
Proof. intro H. unfold array_metric. apply Z.eqb_neq in H. rewrite H. reflexivity. Qed.
