(* Sums over lists of rationals: the algebra used by all C06 proofs. *)
From Coq Require Import QArith Qabs Qminmax Lqa Lia.
From E3FP Require Import Base.Prelude Base.ZSet Model.Fprint Model.Metrics.
Open Scope Q_scope.

Lemma sq_nonneg (t : Q) : 0 <= t * t.
Proof. nra. Qed.

(* ---- qsumr is the plain sum ---- *)
Lemma qsumr_qsum l : qsumr l == qsum l.
Proof.
  induction l as [|a l IH]; [reflexivity|].
  change (qsumr (a :: l)) with (Qred (a + qsumr l)). change (qsum (a :: l)) with (a + qsum l).
  rewrite Qred_correct, IH. reflexivity.
Qed.

Lemma qsum_cons a l : qsum (a :: l) = a + qsum l.
Proof. reflexivity. Qed.

Lemma qsumr_cons a l : qsumr (a :: l) == a + qsumr l.
Proof. change (qsumr (a :: l)) with (Qred (a + qsumr l)). apply Qred_correct. Qed.

Lemma qsumr_nil : qsumr [] = 0.
Proof. reflexivity. Qed.

Lemma zipw_cons {A} (f : Q -> Q -> A) a x b y : zipw f (a :: x) (b :: y) = f a b :: zipw f x y.
Proof. reflexivity. Qed.

Lemma zipw_nil_r {A} (f : Q -> Q -> A) x : zipw f x [] = [].
Proof. destruct x; reflexivity. Qed.

(* induction on two lists of equal length *)
Lemma list_ind2 {A B} (P : list A -> list B -> Prop) :
  P [] [] -> (forall a x b y, length x = length y -> P x y -> P (a :: x) (b :: y)) ->
  forall x y, length x = length y -> P x y.
Proof.
  intros H0 HS. induction x as [|a x IH]; destruct y as [|b y]; simpl; intro H; try discriminate; auto.
Qed.

(* pointwise facts about sums of zipw *)
Lemma qsumr_zipw_ext (f g : Q -> Q -> Q) x y :
  (forall a b, f a b == g a b) -> qsumr (zipw f x y) == qsumr (zipw g x y).
Proof.
  intro H. revert y. induction x as [|a x IH]; destruct y as [|b y]; try reflexivity.
  rewrite !zipw_cons, !qsumr_cons, H, IH. reflexivity.
Qed.

Lemma qsumr_zipw_ext_in (f g : Q -> Q -> Q) (P : Q -> Prop) x y :
  Forall P x -> Forall P y -> (forall a b, P a -> P b -> f a b == g a b) ->
  qsumr (zipw f x y) == qsumr (zipw g x y).
Proof.
  intros Hx Hy H. revert y Hy. induction Hx as [|a x Pa Hx IH]; intros y Hy; destruct Hy as [|b y Pb Hy]; try reflexivity.
  rewrite !zipw_cons, !qsumr_cons, H, IH by assumption. reflexivity.
Qed.

Lemma qsumr_zipw_swap (f g : Q -> Q -> Q) x y :
  (forall a b, f a b == g b a) -> qsumr (zipw f x y) == qsumr (zipw g y x).
Proof.
  intro H. revert y. induction x as [|a x IH]; destruct y as [|b y]; try reflexivity.
  rewrite !zipw_cons, !qsumr_cons, H, IH. reflexivity.
Qed.

Lemma qsumr_zipw_le (f g : Q -> Q -> Q) (P : Q -> Prop) x y :
  Forall P x -> Forall P y -> (forall a b, P a -> P b -> f a b <= g a b) ->
  qsumr (zipw f x y) <= qsumr (zipw g x y).
Proof.
  intros Hx Hy H. revert y Hy. induction Hx as [|a x Pa Hx IH]; intros y Hy; destruct Hy as [|b y Pb Hy]; try apply Qle_refl.
  rewrite !zipw_cons, !qsumr_cons. apply Qplus_le_compat; auto.
Qed.

Lemma qsumr_zipw_nonneg (f : Q -> Q -> Q) (P : Q -> Prop) x y :
  Forall P x -> Forall P y -> (forall a b, P a -> P b -> 0 <= f a b) -> 0 <= qsumr (zipw f x y).
Proof.
  intros Hx Hy H. revert y Hy. induction Hx as [|a x Pa Hx IH]; intros y Hy; destruct Hy as [|b y Pb Hy]; try apply Qle_refl.
  rewrite zipw_cons, qsumr_cons. specialize (H a b Pa Pb). specialize (IH y Hy). lra.
Qed.

Lemma qsumr_zipw_plus (f g : Q -> Q -> Q) x y :
  qsumr (zipw (fun a b => f a b + g a b) x y) == qsumr (zipw f x y) + qsumr (zipw g x y).
Proof.
  revert y. induction x as [|a x IH]; destruct y as [|b y]; try (simpl; lra).
  rewrite !zipw_cons, !qsumr_cons, IH. lra.
Qed.

Lemma qsumr_zipw_scal (f : Q -> Q -> Q) c x y :
  qsumr (zipw (fun a b => c * f a b) x y) == c * qsumr (zipw f x y).
Proof.
  revert y. induction x as [|a x IH]; destruct y as [|b y]; try (simpl; lra).
  rewrite !zipw_cons, !qsumr_cons, IH. lra.
Qed.

(* sums of map as sums of zipw (equal lengths) *)
Lemma qsumr_map_l (f : Q -> Q) x y : length x = length y ->
  qsumr (map f x) == qsumr (zipw (fun a _ => f a) x y).
Proof.
  revert y. induction x as [|a x IH]; destruct y as [|b y]; simpl length; intro H; try discriminate; try reflexivity.
  simpl map. rewrite zipw_cons, !qsumr_cons, (IH y) by lia. reflexivity.
Qed.

Lemma qsumr_map_r (f : Q -> Q) x y : length x = length y ->
  qsumr (map f y) == qsumr (zipw (fun _ b => f b) x y).
Proof.
  revert y. induction x as [|a x IH]; destruct y as [|b y]; simpl length; intro H; try discriminate; try reflexivity.
  simpl map. rewrite zipw_cons, !qsumr_cons, (IH y) by lia. reflexivity.
Qed.

Lemma qsumr_map_ext (f g : Q -> Q) (P : Q -> Prop) x :
  Forall P x -> (forall a, P a -> f a == g a) -> qsumr (map f x) == qsumr (map g x).
Proof.
  intros Hx H. induction Hx as [|a x Pa Hx IH]; [reflexivity|].
  simpl map. rewrite !qsumr_cons, H, IH by assumption. reflexivity.
Qed.

Lemma qsumr_map_id x : qsumr (map (fun a => a) x) == qsumr x.
Proof. rewrite map_id. reflexivity. Qed.

Lemma zipw_map {A} (h : Q -> Q -> A) (f g : Q -> Q) x y :
  zipw h (map f x) (map g y) = zipw (fun a b => h (f a) (g b)) x y.
Proof.
  revert y. induction x as [|a x IH]; destruct y as [|b y]; try reflexivity.
  simpl map. rewrite !zipw_cons, IH. reflexivity.
Qed.

Lemma qlen_nonneg {A} (l : list A) : 0 <= qlen l.
Proof. unfold qlen. change 0 with (inject_Z 0). rewrite <- Zle_Qle. lia. Qed.

Lemma qlen_cons {A} (a : A) l : qlen (a :: l) == qlen l + 1.
Proof.
  unfold qlen. simpl length. rewrite Nat2Z.inj_succ. unfold Z.succ. rewrite inject_Z_plus. reflexivity.
Qed.

Lemma qsumr_const_zipw c x y : length x = length y ->
  qsumr (zipw (fun _ _ => c) x y) == qlen x * c.
Proof.
  revert y. induction x as [|a x IH]; destruct y as [|b y]; simpl length; intro H; try discriminate.
  - unfold qlen. simpl. change (inject_Z 0) with 0. ring.
  - rewrite zipw_cons, qsumr_cons, (IH y) by lia. rewrite (qlen_cons a x). ring.
Qed.

(* ---- booleans as rationals ---- *)
Lemma nz_true q : nz q = true <-> ~ q == 0.
Proof.
  unfold nz. rewrite negb_true_iff. split.
  - intros H E. apply Qeq_bool_iff in E. congruence.
  - intro H. destruct (Qeq_bool q 0) eqn:E; [|reflexivity]. apply Qeq_bool_iff in E. contradiction.
Qed.

Lemma nz_false q : nz q = false <-> q == 0.
Proof.
  unfold nz. rewrite negb_false_iff. apply Qeq_bool_iff.
Qed.

Lemma b01_range b : 0 <= b01 b <= 1.
Proof. destruct b; simpl; lra. Qed.

(* ---- safe division ---- *)
Lemma sdiv_compat n n' d d' : n == n' -> d == d' -> sdiv n d == sdiv n' d'.
Proof.
  intros Hn Hd. unfold sdiv.
  destruct (Qeq_bool d 0) eqn:E; destruct (Qeq_bool d' 0) eqn:E'.
  - reflexivity.
  - apply Qeq_bool_iff in E. apply Qeq_bool_neq in E'. rewrite Hd in E. contradiction.
  - apply Qeq_bool_iff in E'. apply Qeq_bool_neq in E. rewrite Hd in E. contradiction.
  - rewrite Hn, Hd. reflexivity.
Qed.

Lemma sdiv_range n d : 0 <= n -> n <= d -> 0 <= sdiv n d <= 1.
Proof.
  intros H0 H1. unfold sdiv. destruct (Qeq_bool d 0) eqn:E; [lra|].
  apply Qeq_bool_neq in E. assert (0 < d) by lra.
  split.
  - apply Qle_shift_div_l; lra.
  - apply Qle_shift_div_r; lra.
Qed.

Lemma sdiv_zero_num d : sdiv 0 d == 0.
Proof. unfold sdiv. destruct (Qeq_bool d 0); [reflexivity|]. unfold Qdiv. lra. Qed.

Lemma sdiv_self d : ~ d == 0 -> sdiv d d == 1.
Proof.
  intro H. unfold sdiv. destruct (Qeq_bool d 0) eqn:E.
  - apply Qeq_bool_iff in E. contradiction.
  - field. exact H.
Qed.

(* ---- Qeq_bool helpers ---- *)
Lemma Qeq_bool_compat a b : a == b -> Qeq_bool a 0 = Qeq_bool b 0.
Proof.
  intro H. destruct (Qeq_bool a 0) eqn:E; destruct (Qeq_bool b 0) eqn:E'; try reflexivity.
  - apply Qeq_bool_iff in E. apply Qeq_bool_neq in E'. rewrite H in E. contradiction.
  - apply Qeq_bool_iff in E'. apply Qeq_bool_neq in E. rewrite H in E. contradiction.
Qed.

(* ---- dot ---- *)
Lemma dot_cons a x b y : dot (a :: x) (b :: y) == a * b + dot x y.
Proof. unfold dot. rewrite zipw_cons, qsumr_cons. reflexivity. Qed.

Lemma dot_nil_l y : dot [] y = 0.
Proof. reflexivity. Qed.

Lemma dot_nil_r x : dot x [] = 0.
Proof. unfold dot. rewrite zipw_nil_r. reflexivity. Qed.

Lemma dot_comm x y : dot x y == dot y x.
Proof. unfold dot. apply qsumr_zipw_swap. intros; ring. Qed.

Lemma dot_self_nonneg x : 0 <= dot x x.
Proof.
  induction x as [|a x IH]; [apply Qle_refl|]. rewrite dot_cons. nra.
Qed.

Lemma dot_self_zero x : dot x x == 0 -> Forall (fun a => a == 0) x.
Proof.
  induction x as [|a x IH]; intro H; [constructor|].
  rewrite dot_cons in H. pose proof (dot_self_nonneg x).
  assert (a * a == 0) by nra. assert (dot x x == 0) by nra.
  constructor; [nra | auto].
Qed.

Lemma dot_zero_l x y : Forall (fun a => a == 0) x -> dot x y == 0.
Proof.
  intro H. revert y. induction H as [|a x Ha H IH]; intro y; [reflexivity|].
  destruct y as [|b y]; [reflexivity|]. rewrite dot_cons, IH, Ha. ring.
Qed.

(* Cauchy-Schwarz, by induction on the vectors *)
Lemma cauchy_schwarz x y : dot x y * dot x y <= dot x x * dot y y.
Proof.
  revert y. induction x as [|a x IH]; intro y.
  - simpl. unfold dot at 1 2 3. simpl. lra.
  - destruct y as [|b y].
    + rewrite !dot_nil_r. pose proof (dot_self_nonneg (a :: x)). lra.
    + rewrite !dot_cons. specialize (IH y).
      pose proof (dot_self_nonneg x) as HA. pose proof (dot_self_nonneg y) as HC.
      set (B := dot x y) in *. set (A := dot x x) in *. set (C := dot y y) in *.
      (* 2abB <= a^2 C + A b^2 *)
      assert (H : 2 * (a * b) * B <= a * a * C + A * (b * b)).
      { destruct (Qlt_le_dec (a * a * C + A * (b * b)) (2 * (a * b) * B)) as [Hlt|Hle]; [|exact Hle].
        exfalso.
        assert (H0 : 0 <= a * a * C + A * (b * b)) by nra.
        assert (H1 : (a * a * C + A * (b * b)) * (a * a * C + A * (b * b)) < (2 * (a * b) * B) * (2 * (a * b) * B)) by nra.
        assert (H2 : (2 * (a * b) * B) * (2 * (a * b) * B) <= 4 * (a * b) * (a * b) * (A * C)).
        { assert (0 <= (a * b) * (a * b)) by nra. nra. }
        assert (H3 : 4 * (a * b) * (a * b) * (A * C) <= (a * a * C + A * (b * b)) * (a * a * C + A * (b * b))).
        { assert (E : (a * a * C + A * (b * b)) * (a * a * C + A * (b * b)) - 4 * (a * b) * (a * b) * (A * C)
                      == (a * a * C - A * (b * b)) * (a * a * C - A * (b * b))) by ring.
          pose proof (sq_nonneg (a * a * C - A * (b * b))). lra. }
        lra. }
      nra.
Qed.
