(* Consequences of the five definitions (Model/Metrics.v part 1), proved once. *)
From Coq Require Import QArith Qabs Qminmax Lqa Lia.
From E3FP Require Import Base.Prelude Base.ZSet Model.Fprint Model.Metrics Proofs.MetricsBase.
Open Scope Q_scope.

Definition nonneg (x : vec) : Prop := Forall (fun a => 0 <= a) x.
Definition binary (x : vec) : Prop := Forall (fun a => a == 0 \/ a == 1) x.
Definition allzero (x : vec) : Prop := Forall (fun a => a == 0) x.
Definition anyT (x : vec) : Prop := Forall (fun _ : Q => True) x.

Lemma anyT_all x : anyT x.
Proof. induction x; constructor; auto. Qed.

Lemma binary_nonneg x : binary x -> nonneg x.
Proof. intro H. eapply Forall_impl; [|exact H]. simpl. intros a [E|E]; rewrite E; lra. Qed.

(* ---- symmetry ------------------------------------------------------------------------------- *)
Lemma n_and_comm x y : n_and x y == n_and y x.
Proof. unfold n_and. apply qsumr_zipw_swap. intros a b. rewrite andb_comm. reflexivity. Qed.

Lemma n_or_comm x y : n_or x y == n_or y x.
Proof. unfold n_or. apply qsumr_zipw_swap. intros a b. rewrite orb_comm. reflexivity. Qed.

Lemma tanimoto_symmetric x y : tanimoto_def x y == tanimoto_def y x.
Proof. unfold tanimoto_def. apply sdiv_compat; [apply n_and_comm | apply n_or_comm]. Qed.

Lemma dice_symmetric x y : dice_def x y == dice_def y x.
Proof. unfold dice_def. apply sdiv_compat; [rewrite n_and_comm; reflexivity | ring]. Qed.

Lemma sum_absdiff_comm x y : sum_absdiff x y == sum_absdiff y x.
Proof.
  unfold sum_absdiff. apply qsumr_zipw_swap. intros a b.
  rewrite <- (Qabs_opp (a - b)). apply Qabs_wd. ring.
Qed.

Lemma sum_max_comm x y : sum_max x y == sum_max y x.
Proof. unfold sum_max. apply qsumr_zipw_swap. intros a b. apply Q.max_comm. Qed.

Lemma soergel_symmetric x y : soergel_def x y == soergel_def y x.
Proof.
  unfold soergel_def. rewrite (Qeq_bool_compat _ _ (sum_max_comm x y)).
  destruct (Qeq_bool (sum_max y x) 0); [reflexivity|].
  rewrite sum_absdiff_comm, sum_max_comm. reflexivity.
Qed.

Lemma rsq_compat n n' d d' : n == n' -> d == d' -> rsq (mkr n d) == rsq (mkr n' d').
Proof.
  intros Hn Hd. unfold rsq. simpl. rewrite (Qeq_bool_compat _ _ Hd).
  destruct (Qeq_bool d' 0); [reflexivity|]. rewrite Hn, Hd. reflexivity.
Qed.

Lemma cosine_symmetric x y : rsq (cosine_def x y) == rsq (cosine_def y x).
Proof. unfold cosine_def. apply rsq_compat; [apply dot_comm | ring]. Qed.

Lemma pearson_symmetric x y : rsq (pearson_def x y) == rsq (pearson_def y x).
Proof. unfold pearson_def. apply rsq_compat; [apply dot_comm | ring]. Qed.

(* ---- ranges --------------------------------------------------------------------------------- *)
Lemma n_and_nonneg x y : 0 <= n_and x y.
Proof.
  unfold n_and. apply (qsumr_zipw_nonneg _ (fun _ => True)); try apply anyT_all.
  intros a b _ _. apply b01_range.
Qed.

Lemma n_and_le_or x y : n_and x y <= n_or x y.
Proof.
  unfold n_and, n_or. apply (qsumr_zipw_le _ _ (fun _ => True)); try apply anyT_all.
  intros a b _ _. destruct (nz a), (nz b); simpl; lra.
Qed.

Lemma tanimoto_range x y : 0 <= tanimoto_def x y <= 1.
Proof. unfold tanimoto_def. apply sdiv_range; [apply n_and_nonneg | apply n_and_le_or]. Qed.

Lemma n_on_sum x y : length x = length y ->
  n_on x + n_on y == qsumr (zipw (fun a b => b01 (nz a) + b01 (nz b)) x y).
Proof.
  intro H. unfold n_on. rewrite (qsumr_map_l _ x y H), (qsumr_map_r _ x y H).
  rewrite <- qsumr_zipw_plus. reflexivity.
Qed.

Lemma dice_range x y : length x = length y -> 0 <= dice_def x y <= 1.
Proof.
  intro H. unfold dice_def. apply sdiv_range.
  - pose proof (n_and_nonneg x y). lra.
  - rewrite (n_on_sum x y H). unfold n_and. rewrite <- qsumr_zipw_scal.
    apply (qsumr_zipw_le _ _ (fun _ => True)); try apply anyT_all.
    intros a b _ _. destruct (nz a), (nz b); simpl; lra.
Qed.

Lemma sum_absdiff_le_max x y : nonneg x -> nonneg y -> sum_absdiff x y <= sum_max x y.
Proof.
  intros Hx Hy. unfold sum_absdiff, sum_max. apply (qsumr_zipw_le _ _ (fun a => 0 <= a)); try assumption.
  intros a b Ha Hb. apply Qabs_case; intro; apply Q.max_case_strong; intros; try lra.
Qed.

Lemma sum_absdiff_nonneg x y : 0 <= sum_absdiff x y.
Proof.
  unfold sum_absdiff. apply (qsumr_zipw_nonneg _ (fun _ => True)); try apply anyT_all.
  intros. apply Qabs_nonneg.
Qed.

Lemma sum_max_nonneg x y : nonneg x -> nonneg y -> 0 <= sum_max x y.
Proof.
  intros Hx Hy. unfold sum_max. apply (qsumr_zipw_nonneg _ (fun a => 0 <= a)); try assumption.
  intros a b Ha Hb. apply Q.max_case_strong; intros; try lra.
Qed.

Lemma soergel_range x y : nonneg x -> nonneg y -> 0 <= soergel_def x y <= 1.
Proof.
  intros Hx Hy. unfold soergel_def. destruct (Qeq_bool (sum_max x y) 0) eqn:E; [lra|].
  apply Qeq_bool_neq in E. pose proof (sum_max_nonneg x y Hx Hy). pose proof (sum_absdiff_le_max x y Hx Hy).
  pose proof (sum_absdiff_nonneg x y).
  assert (Hp : 0 < sum_max x y) by lra.
  assert (0 <= sum_absdiff x y / sum_max x y) by (apply Qle_shift_div_l; lra).
  assert (sum_absdiff x y / sum_max x y <= 1) by (apply Qle_shift_div_r; lra).
  lra.
Qed.

(* signed square of a rooted value with num^2 <= den2 lies in [-1, 1] *)
Lemma rsq_bound n d : n * n <= d -> -1 <= rsq (mkr n d) <= 1.
Proof.
  intro H. unfold rsq. simpl. destruct (Qeq_bool d 0) eqn:E; [lra|].
  apply Qeq_bool_neq in E. pose proof (sq_nonneg n). assert (Hd : 0 < d) by lra.
  apply Qabs_case; intro Hn.
  - split.
    + apply Qle_shift_div_l; [exact Hd|]. nra.
    + apply Qle_shift_div_r; [exact Hd|]. lra.
  - split.
    + apply Qle_shift_div_l; [exact Hd|]. nra.
    + apply Qle_shift_div_r; [exact Hd|]. nra.
Qed.

Lemma cosine_sq_le_1 x y : -1 <= rsq (cosine_def x y) <= 1.
Proof. unfold cosine_def. apply rsq_bound. apply cauchy_schwarz. Qed.

Lemma pearson_sq_le_1 x y : -1 <= rsq (pearson_def x y) <= 1.
Proof. unfold pearson_def. apply rsq_bound. apply cauchy_schwarz. Qed.

Lemma dot_nonneg x y : nonneg x -> nonneg y -> 0 <= dot x y.
Proof.
  intros Hx Hy. unfold dot. apply (qsumr_zipw_nonneg _ (fun a => 0 <= a)); try assumption. intros; nra.
Qed.

Lemma cosine_nonneg x y : nonneg x -> nonneg y -> 0 <= rsq (cosine_def x y).
Proof.
  intros Hx Hy. unfold cosine_def, rsq. simpl. destruct (Qeq_bool (dot x x * dot y y) 0) eqn:E; [lra|].
  apply Qeq_bool_neq in E. pose proof (dot_self_nonneg x). pose proof (dot_self_nonneg y).
  pose proof (dot_nonneg x y Hx Hy). assert (0 < dot x x * dot y y) by nra.
  apply Qle_shift_div_l; [assumption|]. rewrite Qabs_pos by assumption. nra.
Qed.

(* ---- an all-zero vector scores 0 ------------------------------------------------------------ *)
Lemma n_and_zero_l x y : allzero x -> n_and x y == 0.
Proof.
  intro H. unfold n_and. revert y. induction H as [|a x Ha H IH]; intro y; [reflexivity|].
  destruct y as [|b y]; [reflexivity|]. rewrite zipw_cons, qsumr_cons, IH.
  apply nz_false in Ha. rewrite Ha. simpl. lra.
Qed.

Lemma tanimoto_zero x y : allzero x -> tanimoto_def x y == 0.
Proof.
  intro H. unfold tanimoto_def. rewrite (sdiv_compat _ 0 _ (n_or x y)); [apply sdiv_zero_num | apply n_and_zero_l; exact H | reflexivity].
Qed.

Lemma dice_zero x y : allzero x -> dice_def x y == 0.
Proof.
  intro H. unfold dice_def.
  rewrite (sdiv_compat _ 0 _ (n_on x + n_on y)); [apply sdiv_zero_num | rewrite (n_and_zero_l x y H); ring | reflexivity].
Qed.

Lemma rsq_zero_num n d : n == 0 -> rsq (mkr n d) == 0.
Proof.
  intro H. unfold rsq. simpl. destruct (Qeq_bool d 0); [reflexivity|]. rewrite H. unfold Qdiv. ring.
Qed.

Lemma cosine_zero x y : allzero x -> rsq (cosine_def x y) == 0.
Proof. intro H. unfold cosine_def. apply rsq_zero_num. apply dot_zero_l. exact H. Qed.

Lemma qsumr_allzero x : allzero x -> qsumr x == 0.
Proof.
  induction 1 as [|a x Ha H IH]; [reflexivity|]. rewrite qsumr_cons, IH, Ha. ring.
Qed.

Lemma center_allzero x : allzero x -> allzero (center x).
Proof.
  intro H. unfold center. assert (Hm : mean x == 0).
  { unfold mean. rewrite (qsumr_allzero x H). unfold Qdiv. ring. }
  unfold allzero in *. rewrite Forall_forall in *. intros c Hc. apply in_map_iff in Hc.
  destruct Hc as [v [<- Hv]]. rewrite (H v Hv), Hm. ring.
Qed.

Lemma pearson_zero x y : allzero x -> rsq (pearson_def x y) == 0.
Proof.
  intro H. unfold pearson_def. apply rsq_zero_num. apply dot_zero_l. apply center_allzero. exact H.
Qed.

Lemma soergel_zero x y : length x = length y -> allzero x -> nonneg y -> soergel_def x y == 0.
Proof.
  intros Hl Hx Hy. unfold soergel_def. destruct (Qeq_bool (sum_max x y) 0) eqn:E; [reflexivity|].
  apply Qeq_bool_neq in E.
  assert (Heq : sum_absdiff x y == sum_max x y).
  { unfold sum_absdiff, sum_max. clear E. revert y Hl Hy.
    induction Hx as [|a x Ha Hx IH]; intros y Hl Hy; [reflexivity|].
    destruct y as [|b y]; [reflexivity|]. inversion Hy as [|? ? Hb Hy']; subst.
    rewrite !zipw_cons, !qsumr_cons, IH by (simpl in Hl; auto; lia).
    rewrite Ha. rewrite (Q.max_r 0 b) by exact Hb.
    assert (Hab : Qabs (0 - b) == b).
    { rewrite <- (Qabs_opp (0 - b)). rewrite Qabs_pos; [ring | lra]. }
    rewrite Hab. reflexivity. }
  rewrite Heq. field. exact E.
Qed.

(* ---- a non-empty fingerprint is 1 to itself ------------------------------------------------- *)
Definition some_nonzero (x : vec) : Prop := exists a, In a x /\ ~ a == 0.

Lemma n_and_self x : n_and x x == n_on x.
Proof.
  unfold n_and, n_on. induction x as [|a x IH]; [reflexivity|].
  simpl map. rewrite zipw_cons, !qsumr_cons, IH. destruct (nz a); reflexivity.
Qed.

Lemma n_or_self x : n_or x x == n_on x.
Proof.
  unfold n_or, n_on. induction x as [|a x IH]; [reflexivity|].
  simpl map. rewrite zipw_cons, !qsumr_cons, IH. destruct (nz a); reflexivity.
Qed.

Lemma n_on_nonneg x : 0 <= n_on x.
Proof.
  unfold n_on. induction x as [|a x IH]; [apply Qle_refl|]. simpl map. rewrite qsumr_cons.
  pose proof (b01_range (nz a)). lra.
Qed.

Lemma n_on_pos x : some_nonzero x -> 0 < n_on x.
Proof.
  intros [a [Hin Ha]]. induction x as [|b x IH]; [destruct Hin|].
  unfold n_on. simpl map. rewrite qsumr_cons. fold (n_on x). pose proof (n_on_nonneg x).
  destruct Hin as [->|Hin].
  - apply nz_true in Ha. rewrite Ha. simpl. lra.
  - specialize (IH Hin). pose proof (b01_range (nz b)). lra.
Qed.

Lemma tanimoto_self_one x : some_nonzero x -> tanimoto_def x x == 1.
Proof.
  intro H. unfold tanimoto_def. rewrite (sdiv_compat _ (n_on x) _ (n_on x)) by (apply n_and_self || apply n_or_self).
  apply sdiv_self. pose proof (n_on_pos x H). lra.
Qed.

Lemma dice_self_one x : some_nonzero x -> dice_def x x == 1.
Proof.
  intro H. unfold dice_def. rewrite (sdiv_compat _ (n_on x + n_on x) _ (n_on x + n_on x)); [| rewrite n_and_self; ring | reflexivity].
  apply sdiv_self. pose proof (n_on_pos x H). lra.
Qed.

Lemma sum_absdiff_self x : sum_absdiff x x == 0.
Proof.
  unfold sum_absdiff. induction x as [|a x IH]; [reflexivity|].
  rewrite zipw_cons, qsumr_cons, IH. assert (E : a - a == 0) by ring. rewrite E. simpl. lra.
Qed.

Lemma sum_max_self x : sum_max x x == qsumr x.
Proof.
  unfold sum_max. induction x as [|a x IH]; [reflexivity|].
  rewrite zipw_cons, !qsumr_cons, IH, Q.max_id. reflexivity.
Qed.

Lemma qsumr_nonneg x : nonneg x -> 0 <= qsumr x.
Proof. induction 1 as [|a x Ha H IH]; [apply Qle_refl|]. rewrite qsumr_cons. lra. Qed.

Lemma qsumr_pos x : nonneg x -> some_nonzero x -> 0 < qsumr x.
Proof.
  intros Hx [a [Hin Ha]]. induction Hx as [|b x Hb Hx IH]; [destruct Hin|].
  rewrite qsumr_cons. pose proof (qsumr_nonneg x Hx). destruct Hin as [->|Hin]; [lra|].
  specialize (IH Hin). lra.
Qed.

Lemma soergel_self_one x : nonneg x -> some_nonzero x -> soergel_def x x == 1.
Proof.
  intros Hx Hn. unfold soergel_def. pose proof (qsumr_pos x Hx Hn) as Hp.
  rewrite (Qeq_bool_compat _ _ (sum_max_self x)).
  destruct (Qeq_bool (qsumr x) 0) eqn:E; [apply Qeq_bool_iff in E; lra|].
  rewrite sum_absdiff_self, sum_max_self. field. lra.
Qed.

Lemma rsq_self d : 0 < d -> rsq (mkr d (d * d)) == 1.
Proof.
  intro H. unfold rsq. simpl. destruct (Qeq_bool (d * d) 0) eqn:E.
  - apply Qeq_bool_iff in E. nra.
  - rewrite Qabs_pos by lra. field. lra.
Qed.

Lemma dot_self_pos x : some_nonzero x -> 0 < dot x x.
Proof.
  intros [a [Hin Ha]]. pose proof (dot_self_nonneg x) as H.
  destruct (Qeq_dec (dot x x) 0) as [E|E]; [|lra].
  apply dot_self_zero in E. rewrite Forall_forall in E. specialize (E a Hin). contradiction.
Qed.

Lemma cosine_self_one x : some_nonzero x -> rsq (cosine_def x x) == 1.
Proof. intro H. unfold cosine_def. apply rsq_self. apply dot_self_pos. exact H. Qed.

Definition non_constant (x : vec) : Prop := exists a b, In a x /\ In b x /\ ~ a == b.

Lemma pearson_self_one x : non_constant x -> rsq (pearson_def x x) == 1.
Proof.
  intros [a [b [Ha [Hb Hab]]]]. unfold pearson_def. apply rsq_self. apply dot_self_pos.
  destruct (Qeq_dec a (mean x)) as [Ea|Ea].
  - exists (b - mean x). split.
    + unfold center. apply in_map_iff. exists b. split; [reflexivity | exact Hb].
    + intro E. apply Hab. rewrite Ea. lra.
  - exists (a - mean x). split.
    + unfold center. apply in_map_iff. exists a. split; [reflexivity | exact Ha].
    + intro E. apply Ea. lra.
Qed.

(* ---- Soergel equals Tanimoto on binary data ------------------------------------------------- *)
Lemma nz_compat a b : a == b -> nz a = nz b.
Proof. intro H. unfold nz. rewrite (Qeq_bool_compat _ _ H). reflexivity. Qed.

Lemma nz_0 : nz 0 = false. Proof. reflexivity. Qed.
Lemma nz_1 : nz 1 = true. Proof. reflexivity. Qed.

Lemma bin_max a b : (a == 0 \/ a == 1) -> (b == 0 \/ b == 1) -> Qmax a b == b01 (nz a || nz b).
Proof.
  intros [Ea|Ea] [Eb|Eb]; rewrite (Q.max_compat _ _ Ea _ _ Eb), (nz_compat _ _ Ea), (nz_compat _ _ Eb); reflexivity.
Qed.

Lemma bin_absdiff a b : (a == 0 \/ a == 1) -> (b == 0 \/ b == 1) ->
  Qabs (a - b) == b01 (nz a || nz b) + (-1) * b01 (nz a && nz b).
Proof.
  intros [Ea|Ea] [Eb|Eb]; rewrite (nz_compat _ _ Ea), (nz_compat _ _ Eb).
  - assert (E : a - b == 0) by (rewrite Ea, Eb; ring). rewrite (Qabs_wd _ _ E). reflexivity.
  - assert (E : a - b == -(1)) by (rewrite Ea, Eb; ring). rewrite (Qabs_wd _ _ E). reflexivity.
  - assert (E : a - b == 1) by (rewrite Ea, Eb; ring). rewrite (Qabs_wd _ _ E). reflexivity.
  - assert (E : a - b == 0) by (rewrite Ea, Eb; ring). rewrite (Qabs_wd _ _ E). reflexivity.
Qed.

Lemma soergel_binary_eq_tanimoto x y : binary x -> binary y -> soergel_def x y == tanimoto_def x y.
Proof.
  intros Hx Hy.
  assert (Hmax : sum_max x y == n_or x y).
  { unfold sum_max, n_or. apply (qsumr_zipw_ext_in _ _ (fun a => a == 0 \/ a == 1)); try assumption.
    intros a b Ha Hb. apply bin_max; assumption. }
  assert (Hsad : sum_absdiff x y == n_or x y - n_and x y).
  { unfold sum_absdiff, n_or, n_and.
    transitivity (qsumr (zipw (fun a b => b01 (nz a || nz b) + (-1) * b01 (nz a && nz b)) x y)).
    - apply (qsumr_zipw_ext_in _ _ (fun a => a == 0 \/ a == 1)); try assumption.
      intros a b Ha Hb. apply bin_absdiff; assumption.
    - rewrite (qsumr_zipw_plus (fun a b => b01 (nz a || nz b)) (fun a b => (-1) * b01 (nz a && nz b))).
      rewrite (qsumr_zipw_scal (fun a b => b01 (nz a && nz b))). ring. }
  unfold soergel_def, tanimoto_def, sdiv. rewrite (Qeq_bool_compat _ _ Hmax).
  destruct (Qeq_bool (n_or x y) 0) eqn:E; [reflexivity|].
  apply Qeq_bool_neq in E. rewrite Hsad, Hmax. field. exact E.
Qed.
