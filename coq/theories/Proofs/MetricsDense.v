(* The dense-array code paths (array_metrics.py on ndarray) equal the definitions. *)
From Coq Require Import QArith Qabs Qminmax Lqa Lia.
From E3FP Require Import Base.Prelude Base.ZSet Model.Fprint Model.Metrics Proofs.MetricsBase Proofs.MetricsDefs.
Open Scope Q_scope.

(* ---- float division + nan_to_num agrees with the 0-convention when a zero denominator forces a zero numerator *)
Lemma fdiv_sdiv n d : (d == 0 -> n == 0) -> fdiv n d == sdiv n d.
Proof.
  intro H. unfold fdiv, sdiv. destruct (Qeq_bool d 0) eqn:E; [|reflexivity].
  apply Qeq_bool_iff in E. specialize (H E). apply Qeq_bool_iff in H. rewrite H. reflexivity.
Qed.

Lemma fdiv_compat n n' d d' : n == n' -> d == d' -> fdiv n d == fdiv n' d'.
Proof.
  intros Hn Hd. unfold fdiv. rewrite (Qeq_bool_compat _ _ Hd), (Qeq_bool_compat _ _ Hn).
  destruct (Qeq_bool d' 0).
  - destruct (Qeq_bool n' 0); [reflexivity|].
    destruct (Qle_bool 0 n) eqn:E1; destruct (Qle_bool 0 n') eqn:E2; try reflexivity.
    + apply Qle_bool_iff in E1. rewrite Hn in E1. apply Qle_bool_iff in E1. congruence.
    + apply Qle_bool_iff in E2. rewrite <- Hn in E2. apply Qle_bool_iff in E2. congruence.
  - rewrite Hn, Hd. reflexivity.
Qed.

(* ---- binary data: sums are bit counts, dot products are intersections ---- *)
Lemma bin_id a : (a == 0 \/ a == 1) -> a == b01 (nz a).
Proof. intros [E|E]; rewrite (nz_compat _ _ E); rewrite E; reflexivity. Qed.

Lemma bin_mult a b : (a == 0 \/ a == 1) -> (b == 0 \/ b == 1) -> a * b == b01 (nz a && nz b).
Proof.
  intros [Ea|Ea] [Eb|Eb]; rewrite (nz_compat _ _ Ea), (nz_compat _ _ Eb); rewrite Ea, Eb; reflexivity.
Qed.

Lemma binary_sum x : binary x -> qsumr x == n_on x.
Proof.
  intro H. unfold n_on. rewrite <- (qsumr_map_id x) at 1.
  apply (qsumr_map_ext _ _ (fun a => a == 0 \/ a == 1)); [exact H|]. intros a Ha. apply bin_id. exact Ha.
Qed.

Lemma binary_dot x y : binary x -> binary y -> dot x y == n_and x y.
Proof.
  intros Hx Hy. unfold dot, n_and. apply (qsumr_zipw_ext_in _ _ (fun a => a == 0 \/ a == 1)); try assumption.
  intros a b Ha Hb. apply bin_mult; assumption.
Qed.

(* inclusion-exclusion (no hypothesis on the data) *)
Lemma n_or_incl_excl x y : length x = length y -> n_or x y == n_on x + n_on y - n_and x y.
Proof.
  intro H. rewrite (n_on_sum x y H). unfold n_or, n_and.
  assert (E : forall f g : Q -> Q -> Q,
    qsumr (zipw f x y) - qsumr (zipw g x y) == qsumr (zipw (fun a b => f a b + (-1) * g a b) x y)).
  { intros f g. rewrite (qsumr_zipw_plus f (fun a b => (-1) * g a b)), (qsumr_zipw_scal g). ring. }
  rewrite E. apply qsumr_zipw_ext. intros a b. destruct (nz a), (nz b); simpl; ring.
Qed.

Lemma arr_tanimoto_eq_def x y : length x = length y -> binary x -> binary y ->
  arr_tanimoto x y == tanimoto_def x y.
Proof.
  intros Hl Hx Hy. unfold arr_tanimoto, tanimoto_def.
  rewrite (fdiv_compat _ (n_and x y) _ (n_or x y)).
  - apply fdiv_sdiv. intro E. pose proof (n_and_nonneg x y). pose proof (n_and_le_or x y). lra.
  - apply binary_dot; assumption.
  - rewrite (n_or_incl_excl x y Hl), (binary_sum x Hx), (binary_sum y Hy), (binary_dot x y Hx Hy). reflexivity.
Qed.

Lemma two_and_le_on x y : length x = length y -> 2 * n_and x y <= n_on x + n_on y.
Proof.
  intro H. rewrite (n_on_sum x y H). unfold n_and. rewrite <- qsumr_zipw_scal.
  apply (qsumr_zipw_le _ _ (fun _ => True)); try apply anyT_all.
  intros a b _ _. destruct (nz a), (nz b); simpl; lra.
Qed.

Lemma arr_dice_eq_def x y : length x = length y -> binary x -> binary y ->
  arr_dice x y == dice_def x y.
Proof.
  intros Hl Hx Hy. unfold arr_dice, dice_def.
  rewrite (fdiv_compat _ (2 * n_and x y) _ (n_on x + n_on y)).
  - apply fdiv_sdiv. intro E. pose proof (n_and_nonneg x y). pose proof (two_and_le_on x y Hl). lra.
  - rewrite (binary_dot x y Hx Hy). reflexivity.
  - rewrite (binary_sum x Hx), (binary_sum y Hy). reflexivity.
Qed.

(* ---- cosine ---- *)
Lemma rsq_rzero : rsq rzero == 0.
Proof. reflexivity. Qed.

Lemma rsq_guard n d : rsq (if Qeq_bool d 0 then rzero else mkr n d) == rsq (mkr n d).
Proof.
  destruct (Qeq_bool d 0) eqn:E; [|reflexivity].
  unfold rsq at 2. simpl. rewrite E. reflexivity.
Qed.

Lemma arr_cosine_eq_def x y : rsq (arr_cosine x y) == rsq (cosine_def x y).
Proof. unfold arr_cosine, cosine_def. apply rsq_guard. Qed.

(* ---- Pearson: the (n-1) normalisations cancel ---- *)
Lemma rsq_scale2 n a c k : 0 < k -> rsq (mkr (n / k) ((a / k) * (c / k))) == rsq (mkr n (a * c)).
Proof.
  intro Hk. unfold rsq. simpl.
  assert (Hz : (a / k) * (c / k) == (a * c) / (k * k)) by (field; lra).
  rewrite (Qeq_bool_compat _ _ Hz).
  destruct (Qeq_bool (a * c) 0) eqn:E.
  - apply Qeq_bool_iff in E.
    assert (E' : a * c / (k * k) == 0) by (rewrite E; unfold Qdiv; ring).
    apply Qeq_bool_iff in E'. rewrite E'. reflexivity.
  - apply Qeq_bool_neq in E.
    assert (E' : ~ a * c / (k * k) == 0).
    { intro F. apply E. assert (a * c == (a * c / (k * k)) * (k * k)) by (field; lra). rewrite H, F. ring. }
    destruct (Qeq_bool (a * c / (k * k)) 0) eqn:E2; [apply Qeq_bool_iff in E2; contradiction|].
    assert (Habs : Qabs (n / k) == Qabs n / k).
    { unfold Qdiv. rewrite Qabs_Qmult. rewrite (Qabs_pos (/ k)); [reflexivity|]. apply Qlt_le_weak. apply Qinv_lt_0_compat. exact Hk. }
    rewrite Habs. field. repeat split; try lra; intro F; apply E; rewrite F; ring.
Qed.

Lemma center_length x : length (center x) = length x.
Proof. unfold center. apply map_length. Qed.

Lemma qlen_one_or_more {A} (x : list A) : qlen x - 1 == 0 -> exists a, x = [a].
Proof.
  unfold qlen. intro H. destruct x as [|a [|b x]].
  - simpl in H. discriminate.
  - exists a. reflexivity.
  - exfalso. simpl length in H. rewrite !Nat2Z.inj_succ in H. unfold Z.succ in H.
    rewrite !inject_Z_plus in H. pose proof (qlen_nonneg x) as Hn. unfold qlen in Hn.
    change (inject_Z 1) with 1 in H. lra.
Qed.

Lemma center_single a : allzero (center [a]).
Proof.
  unfold center. simpl map. constructor; [|constructor]. unfold mean. rewrite qsumr_cons, qsumr_nil.
  unfold qlen. simpl length. simpl Z.of_nat. change (inject_Z 1) with 1. field.
Qed.

Lemma arr_pearson_eq_def x y : length x = length y -> rsq (arr_pearson x y) == rsq (pearson_def x y).
Proof.
  intro Hl. unfold arr_pearson, pearson_def.
  destruct (Qeq_bool (qlen x - 1) 0) eqn:E1.
  - apply Qeq_bool_iff in E1. destruct (qlen_one_or_more x E1) as [a ->].
    destruct y as [|b [|b' y]]; try discriminate. rewrite rsq_rzero. symmetry. apply rsq_zero_num.
    apply dot_zero_l. apply center_single.
  - apply Qeq_bool_neq in E1. rewrite rsq_guard.
    destruct x as [|a x].
    + destruct y; [|discriminate]. reflexivity.
    + assert (Hk : 0 < qlen (a :: x) - 1).
      { rewrite qlen_cons. pose proof (qlen_nonneg x). rewrite qlen_cons in E1. lra. }
      apply rsq_scale2. exact Hk.
Qed.

(* ---- Soergel: the accumulating loop ---- *)
Lemma qpos_true d : qpos d = true <-> 0 < d.
Proof.
  unfold qpos. rewrite negb_true_iff. split.
  - intro H. destruct (Qlt_le_dec 0 d) as [L|L]; [exact L|]. apply Qle_bool_iff in L. congruence.
  - intro H. destruct (Qle_bool d 0) eqn:E; [|reflexivity]. apply Qle_bool_iff in E. lra.
Qed.

Lemma qpos_false d : qpos d = false <-> d <= 0.
Proof.
  unfold qpos. rewrite negb_false_iff. apply Qle_bool_iff.
Qed.

Lemma step_pos a b : 0 < a - b -> Qabs (a - b) == a - b /\ Qmax a b == a.
Proof. intro H. split; [apply Qabs_pos; lra | apply Q.max_l; lra]. Qed.

Lemma step_neg a b : a - b <= 0 -> Qabs (a - b) == - (a - b) /\ Qmax a b == b.
Proof. intro H. split; [apply Qabs_neg; lra | apply Q.max_r; lra]. Qed.

Lemma dsoergel_loop_spec x y : forall sad smax,
  fst (dsoergel_loop x y sad smax) == sad + sum_absdiff x y /\
  snd (dsoergel_loop x y sad smax) == smax + sum_max x y.
Proof.
  revert y. induction x as [|a x IH]; intros y sad smax.
  - simpl. unfold sum_absdiff, sum_max. simpl. split; ring.
  - destruct y as [|b y].
    + simpl. unfold sum_absdiff, sum_max. simpl. split; ring.
    + simpl dsoergel_loop. unfold sum_absdiff, sum_max. rewrite !zipw_cons, !qsumr_cons.
      fold (sum_absdiff x y). fold (sum_max x y).
      destruct (qpos (a - b)) eqn:E.
      * apply qpos_true in E. destruct (step_pos a b E) as [H1 H2].
        destruct (IH y (sad + (a - b)) (smax + a)) as [I1 I2]. rewrite I1, I2, H1, H2. split; ring.
      * apply qpos_false in E. destruct (step_neg a b E) as [H1 H2].
        destruct (IH y (sad - (a - b)) (smax + b)) as [I1 I2]. rewrite I1, I2, H1, H2. split; ring.
Qed.

Lemma soergel_finish_spec p sad smax : fst p == sad -> snd p == smax ->
  soergel_finish p == (if Qeq_bool smax 0 then 0 else 1 - sad / smax).
Proof.
  intros H1 H2. unfold soergel_finish. rewrite (Qeq_bool_compat _ _ H2).
  destruct (Qeq_bool smax 0); [reflexivity|]. rewrite H1, H2. reflexivity.
Qed.

Lemma arr_soergel_eq_def x y : arr_soergel x y == soergel_def x y.
Proof.
  unfold arr_soergel, soergel_def. destruct (dsoergel_loop_spec x y 0 0) as [H1 H2].
  apply soergel_finish_spec; [rewrite H1 | rewrite H2]; ring.
Qed.
