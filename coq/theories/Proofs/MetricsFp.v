(* The fingerprint-pair code paths (fprint_metrics.py) equal the definitions on the dense vectors of the fingerprints. *)
From Coq Require Import QArith Qabs Qminmax Lqa Lia ZifyBool Sorting.Sorted.
From E3FP Require Import Base.Prelude Base.ZSet Model.Fprint Model.Metrics
  Proofs.MetricsBase Proofs.MetricsDefs Proofs.MetricsDense Proofs.MetricsSparse.
Open Scope Q_scope.

(* A well-formed fingerprint: indices strictly increasing and inside [0, bits); for count/float fingerprints the
   counts dict has exactly the indices as keys (what every constructor establishes) and non-negative values. *)
Definition wf_fp (a : fp) : Prop :=
  ssorted (fidx a) /\ Forall (fun i => (0 <= i < fbits a)%Z) (fidx a) /\
  match fkind a with
  | KBit => True
  | _ => ckeys (fcnt a) = fidx a /\ Forall (fun e => 0 <= snd e) (fcnt a)
  end.

(* no stored zero count (bit fingerprints have none by construction) *)
Definition no_stored_zero (a : fp) : Prop :=
  match fkind a with KBit => True | _ => Forall (fun e => ~ snd e == 0) (fcnt a) end.

(* the dense vector of a fingerprint: to_vector(sparse=False) *)
Definition fp_dense (a : fp) : vec := expand (fbits a) (counts_of a).

Lemma keys_counts_of a : wf_fp a -> keys (counts_of a) = fidx a.
Proof.
  intros (_ & _ & H). unfold counts_of, keys. destruct (fkind a).
  - unfold bit_counts, cbuild. rewrite map_map. simpl. apply map_id.
  - apply H.
  - apply H.
Qed.

Lemma NoDup_counts_of a : wf_fp a -> NoDup (keys (counts_of a)).
Proof. intro H. rewrite (keys_counts_of a H). apply ssorted_NoDup. apply H. Qed.

Lemma in_range_counts_of a : wf_fp a -> in_range (fbits a) (counts_of a).
Proof.
  intro H. pose proof (keys_counts_of a H) as K. destruct H as (_ & R & _).
  unfold in_range. rewrite Forall_forall in *. intros e He. apply R. rewrite <- K. unfold keys. apply in_map. exact He.
Qed.

Lemma nonneg_counts_of a : wf_fp a -> row_nonneg (counts_of a).
Proof.
  intros (_ & _ & H). unfold counts_of, row_nonneg. destruct (fkind a).
  - unfold bit_counts, cbuild. rewrite Forall_forall. intros e He. apply in_map_iff in He. destruct He as [k [<- _]]. simpl. lra.
  - apply H.
  - apply H.
Qed.

Lemma cget_rget (m : cmap) i : NoDup (keys m) -> cget m i == rget m i.
Proof.
  induction m as [|[k v] t IH]; intro ND; [reflexivity|].
  simpl in ND. inversion ND as [|? ? Hn ND']; subst. simpl. destruct (i =? k)%Z eqn:E.
  - apply Z.eqb_eq in E. subst i. rewrite (rget_notin t k Hn). ring.
  - apply IH. exact ND'.
Qed.

Lemma rget_in (r : row) k v : NoDup (keys r) -> In (k, v) r -> rget r k == v.
Proof.
  induction r as [|[j w] t IH]; intros ND Hin; [destruct Hin|].
  simpl in ND. inversion ND as [|? ? Hn ND']; subst. simpl. destruct Hin as [E|Hin].
  - inversion E; subst. rewrite Z.eqb_refl, (rget_notin t k Hn). ring.
  - destruct (k =? j)%Z eqn:E.
    + apply Z.eqb_eq in E. subst j. exfalso. apply Hn. unfold keys. apply in_map_iff. exists (k, v). split; [reflexivity | exact Hin].
    + apply IH; assumption.
Qed.

Lemma get_count_rget a i : wf_fp a -> get_count a i == rget (counts_of a) i.
Proof.
  intro H. pose proof (NoDup_counts_of a H) as ND. unfold get_count, counts_of in *. destruct (fkind a).
  - unfold bit_counts, cbuild. rewrite rget_mapkeys by (apply ssorted_NoDup; apply H). reflexivity.
  - apply cget_rget. exact ND.
  - apply cget_rget. exact ND.
Qed.

Lemma fp_dense_length a : (0 <= fbits a)%Z -> length (fp_dense a) = Z.to_nat (fbits a).
Proof. intro H. unfold fp_dense. apply expand_length. exact H. Qed.

Lemma wf_bits_nonneg a : wf_fp a -> fidx a <> [] -> (0 < fbits a)%Z.
Proof.
  intros (_ & R & _) Hne. destruct (fidx a) as [|k t]; [congruence|]. inversion R; subst. lia.
Qed.

(* ---- cosine ---- *)
Lemma fp_dot_rdot a b : wf_fp b -> fp_dot a b == rdot (counts_of a) (counts_of b).
Proof.
  intro Hb. unfold fp_dot, rdot. apply qsumr_map_ext'. intros e _. rewrite (get_count_rget b (fst e) Hb). reflexivity.
Qed.

Lemma fp_sumsq_rdot a : wf_fp a -> fp_sumsq a == rdot (counts_of a) (counts_of a).
Proof.
  intro H. unfold fp_sumsq, rdot. apply qsumr_map_ext'. intros [k v] He. simpl.
  rewrite (rget_in (counts_of a) k v (NoDup_counts_of a H) He). reflexivity.
Qed.

Lemma fp_cosine_eq_sparse a b : wf_fp a -> wf_fp b ->
  rsq (fp_cosine a b) == rsq (sp_cosine (counts_of a) (counts_of b)).
Proof.
  intros Ha Hb. unfold fp_cosine, sp_cosine, rsumsq. apply rsq_guard_compat.
  - apply fp_dot_rdot. exact Hb.
  - rewrite (fp_sumsq_rdot a Ha), (fp_sumsq_rdot b Hb). reflexivity.
Qed.

Theorem fp_cosine_eq_def a b : wf_fp a -> wf_fp b -> fbits a = fbits b ->
  rsq (fp_cosine a b) == rsq (cosine_def (fp_dense a) (fp_dense b)).
Proof.
  intros Ha Hb Hn. rewrite (fp_cosine_eq_sparse a b Ha Hb). unfold fp_dense. rewrite <- Hn.
  rewrite (sp_cosine_eq_dense (fbits a) _ _ (in_range_counts_of a Ha)) by (rewrite Hn; apply in_range_counts_of; exact Hb).
  apply arr_cosine_eq_def.
Qed.

(* ---- Tanimoto / Dice: index-set cardinalities are the bit counts of the dense vectors ---- *)
Lemma zipw_map_same' {A B} (h : Q -> Q -> B) (f g : A -> Q) l :
  zipw h (map f l) (map g l) = map (fun i => h (f i) (g i)) l.
Proof. induction l as [|a l IH]; [reflexivity|]. simpl. rewrite <- IH. reflexivity. Qed.

Lemma nz_rget a i : wf_fp a -> no_stored_zero a -> nz (rget (counts_of a) i) = zmem i (fidx a).
Proof.
  intros H Hz. pose proof (keys_counts_of a H) as K. pose proof (NoDup_counts_of a H) as ND.
  destruct (zmem i (fidx a)) eqn:E.
  - apply zmem_In in E. rewrite <- K in E. unfold keys in E. apply in_map_iff in E. destruct E as [[k v] [Ek Hin]].
    simpl in Ek. subst k. apply nz_true. rewrite (rget_in _ i v ND Hin).
    unfold no_stored_zero, counts_of in *. destruct (fkind a).
    + unfold bit_counts, cbuild in Hin. apply in_map_iff in Hin. destruct Hin as [k [Ekv _]]. inversion Ekv; subst. lra.
    + rewrite Forall_forall in Hz. apply (Hz (i, v) Hin).
    + rewrite Forall_forall in Hz. apply (Hz (i, v) Hin).
  - apply zmem_false in E. apply nz_false. apply rget_notin. rewrite K. exact E.
Qed.

Lemma count_range n (A : list Z) (p : Z -> bool) : NoDup A -> Forall (fun i => (0 <= i < n)%Z) A ->
  qsumr (map (fun i => b01 (zmem i A && p i)) (zrange n)) == qlen (filter p A).
Proof.
  induction 1 as [|k A Hn ND IH]; intro R.
  - simpl. apply qsumr_map_zero. intros; reflexivity.
  - inversion R as [|? ? Hk R']; subst.
    transitivity (qsumr (map (fun i => (if (i =? k)%Z then b01 (p i) else 0) + b01 (zmem i A && p i)) (zrange n))).
    + apply qsumr_map_ext'. intros i _. simpl zmem. destruct (i =? k)%Z eqn:E; simpl.
      * apply Z.eqb_eq in E. subst i. replace (zmem k A) with false by (symmetry; apply zmem_false; exact Hn). simpl. ring.
      * ring.
    + rewrite qsumr_map_plus, (sum_delta (fun i => b01 (p i)) k n Hk), (IH R'). simpl filter.
      destruct (p k); simpl b01; [rewrite qlen_cons; ring | ring].
Qed.

Lemma filter_true {A} (l : list A) : filter (fun _ => true) l = l.
Proof. induction l as [|a l IH]; simpl; [reflexivity | rewrite IH; reflexivity]. Qed.

Lemma fp_n_on a : wf_fp a -> no_stored_zero a -> n_on (fp_dense a) == qlen (fidx a).
Proof.
  intros H Hz. unfold n_on, fp_dense, expand. rewrite map_map.
  rewrite (qsumr_map_ext' _ (fun i => b01 (zmem i (fidx a) && true))).
  - rewrite (count_range (fbits a) (fidx a) (fun _ => true)); [rewrite filter_true; reflexivity | apply ssorted_NoDup; apply H | apply H].
  - intros i _. rewrite (nz_rget a i H Hz), andb_true_r. reflexivity.
Qed.

Lemma fp_n_and a b : wf_fp a -> wf_fp b -> no_stored_zero a -> no_stored_zero b -> fbits a = fbits b ->
  n_and (fp_dense a) (fp_dense b) == qlen (zinter (fidx a) (fidx b)).
Proof.
  intros Ha Hb Za Zb Hn. unfold n_and, fp_dense, expand. rewrite <- Hn. rewrite zipw_map_same'.
  rewrite (qsumr_map_ext' _ (fun i => b01 (zmem i (fidx a) && zmem i (fidx b)))).
  - unfold zinter. apply (count_range (fbits a) (fidx a) (fun x => zmem x (fidx b))); [apply ssorted_NoDup; apply Ha | apply Ha].
  - intros i _. rewrite (nz_rget a i Ha Za), (nz_rget b i Hb Zb). reflexivity.
Qed.

Lemma fp_dense_same_length a b : (0 <= fbits a)%Z -> fbits a = fbits b -> length (fp_dense a) = length (fp_dense b).
Proof. intros H E. rewrite !fp_dense_length by lia. rewrite E. reflexivity. Qed.

Theorem fp_tanimoto_eq_def a b : wf_fp a -> wf_fp b -> no_stored_zero a -> no_stored_zero b ->
  (0 <= fbits a)%Z -> fbits a = fbits b ->
  fp_tanimoto a b == tanimoto_def (fp_dense a) (fp_dense b).
Proof.
  intros Ha Hb Za Zb Hp Hn. unfold fp_tanimoto, tanimoto_def. fold (sdiv (qlen (zinter (fidx a) (fidx b)))
    (qlen (fidx a) + qlen (fidx b) - qlen (zinter (fidx a) (fidx b)))).
  apply sdiv_compat.
  - symmetry. apply fp_n_and; assumption.
  - rewrite (n_or_incl_excl _ _ (fp_dense_same_length a b Hp Hn)), (fp_n_on a Ha Za), (fp_n_on b Hb Zb),
      (fp_n_and a b Ha Hb Za Zb Hn). reflexivity.
Qed.

Theorem fp_dice_eq_def a b : wf_fp a -> wf_fp b -> no_stored_zero a -> no_stored_zero b -> fbits a = fbits b ->
  fp_dice a b == dice_def (fp_dense a) (fp_dense b).
Proof.
  intros Ha Hb Za Zb Hn. unfold fp_dice, dice_def.
  fold (sdiv (2 * qlen (zinter (fidx a) (fidx b))) (qlen (fidx a) + qlen (fidx b))).
  apply sdiv_compat.
  - rewrite (fp_n_and a b Ha Hb Za Zb Hn). reflexivity.
  - rewrite (fp_n_on a Ha Za), (fp_n_on b Hb Zb). reflexivity.
Qed.

(* ---- Soergel ---- *)
Lemma sum_over_support n ks (F : Z -> Q) :
  NoDup ks -> Forall (fun k => (0 <= k < n)%Z) ks -> (forall i, ~ In i ks -> F i == 0) ->
  qsumr (map F (zrange n)) == qsumr (map F ks).
Proof.
  intros ND. revert F. induction ND as [|k ks Hn ND IH]; intros F R Hz.
  - simpl map at 2. apply qsumr_map_zero. intros i _. apply Hz. intros [].
  - inversion R as [|? ? Hk R']; subst.
    set (F' := fun i => if (i =? k)%Z then 0 else F i).
    transitivity (qsumr (map (fun i => (if (i =? k)%Z then F i else 0) + F' i) (zrange n))).
    + apply qsumr_map_ext'. intros i _. unfold F'. destruct (i =? k)%Z; ring.
    + rewrite qsumr_map_plus, (sum_delta F k n Hk), (IH F' R').
      * simpl map. rewrite qsumr_cons. apply Qplus_comp; [reflexivity|].
        apply qsumr_map_ext'. intros i Hi. unfold F'. destruct (i =? k)%Z eqn:E; [|reflexivity].
        apply Z.eqb_eq in E. subst i. contradiction.
      * intros i Hi. unfold F'. destruct (i =? k)%Z eqn:E; [reflexivity|]. apply Hz. simpl. intros [E'|E'].
        -- subst i. rewrite Z.eqb_refl in E. discriminate.
        -- contradiction.
Qed.

Lemma diff_keys_spec a b : wf_fp a -> wf_fp b -> fbits a = fbits b ->
  NoDup (diff_keys a b) /\ Forall (fun k => (0 <= k < fbits a)%Z) (diff_keys a b) /\
  (forall i, ~ In i (diff_keys a b) -> rget (counts_of a) i == 0 /\ rget (counts_of b) i == 0).
Proof.
  intros Ha Hb Hn. unfold diff_keys. split; [apply ssorted_NoDup; apply ssorted_zunion|]. split.
  - rewrite Forall_forall. intros k Hk. apply In_zunion in Hk.
    pose proof (in_range_counts_of a Ha) as Ra. pose proof (in_range_counts_of b Hb) as Rb.
    unfold in_range in *. rewrite Forall_forall in Ra, Rb. unfold ckeys in Hk.
    destruct Hk as [Hk|Hk]; apply in_map_iff in Hk; destruct Hk as [e [<- He]]; [apply Ra | rewrite Hn; apply Rb]; exact He.
  - intros i Hi. rewrite In_zunion in Hi. split; apply rget_notin; unfold keys, ckeys in *; tauto.
Qed.

Lemma fp_dense_binary a : wf_fp a -> fkind a = KBit -> binary (fp_dense a).
Proof.
  intros H K. unfold fp_dense, expand, binary, counts_of. rewrite K. rewrite Forall_forall. intros v Hv.
  apply in_map_iff in Hv. destruct Hv as [i [<- _]]. unfold bit_counts, cbuild.
  rewrite rget_mapkeys by (apply ssorted_NoDup; apply H). destruct (zmem i (fidx a)); [right | left]; reflexivity.
Qed.

Lemma no_stored_zero_bit a : fkind a = KBit -> no_stored_zero a.
Proof. intro K. unfold no_stored_zero. rewrite K. exact I. Qed.

Theorem fp_soergel_eq_def a b : wf_fp a -> wf_fp b -> (0 <= fbits a)%Z -> fbits a = fbits b ->
  fp_soergel a b == soergel_def (fp_dense a) (fp_dense b).
Proof.
  intros Ha Hb Hp Hn. unfold fp_soergel.
  destruct (is_count_like a || is_count_like b) eqn:Ec; simpl negb; cbv iota.
  - destruct (diff_keys_spec a b Ha Hb Hn) as (ND & R & Z).
    assert (Hsad : sum_absdiff (fp_dense a) (fp_dense b)
                   == qsumr (map (fun k => Qabs (cget (counts_of a) k - cget (counts_of b) k)) (diff_keys a b))).
    { unfold sum_absdiff, fp_dense, expand. rewrite <- Hn, zipw_map_same.
      rewrite (sum_over_support (fbits a) (diff_keys a b) _ ND R).
      - apply qsumr_map_ext'. intros k _. apply Qabs_wd.
        rewrite (cget_rget _ k (NoDup_counts_of a Ha)), (cget_rget _ k (NoDup_counts_of b Hb)). reflexivity.
      - intros i Hi. destruct (Z i Hi) as [Z1 Z2]. assert (E : rget (counts_of a) i - rget (counts_of b) i == 0) by (rewrite Z1, Z2; ring).
        rewrite (Qabs_wd _ _ E). reflexivity. }
    assert (Hmax : sum_max (fp_dense a) (fp_dense b)
                   == qsumr (map (fun k => Qmax (get_count a k) (get_count b k)) (diff_keys a b))).
    { unfold sum_max, fp_dense, expand. rewrite <- Hn, zipw_map_same.
      rewrite (sum_over_support (fbits a) (diff_keys a b) _ ND R).
      - apply qsumr_map_ext'. intros k _. apply Q.max_compat; symmetry; apply get_count_rget; assumption.
      - intros i Hi. destruct (Z i Hi) as [Z1 Z2]. rewrite (Q.max_compat _ _ Z1 _ _ Z2). reflexivity. }
    unfold soergel_def. rewrite (Qeq_bool_compat _ _ Hmax).
    destruct (diff_keys a b) as [|k ks] eqn:Ek.
    + simpl. reflexivity.
    + destruct (Qeq_bool _ 0); [reflexivity|]. rewrite Hsad, Hmax. reflexivity.
  - apply orb_false_iff in Ec. destruct Ec as [Ka Kb]. unfold is_count_like in Ka, Kb.
    assert (KA : fkind a = KBit) by (destruct (fkind a); congruence).
    assert (KB : fkind b = KBit) by (destruct (fkind b); congruence).
    rewrite (soergel_binary_eq_tanimoto _ _ (fp_dense_binary a Ha KA) (fp_dense_binary b Hb KB)).
    apply fp_tanimoto_eq_def; auto using no_stored_zero_bit.
Qed.

(* ---- Pearson: E[xy] - E[x]E[y] over std*std equals the centred form ---- *)
Lemma dot_center_expand x y : length x = length y ->
  dot (center x) (center y) == dot x y - mean y * qsumr x - mean x * qsumr y + qlen x * (mean x * mean y).
Proof.
  intro L. unfold center, dot. rewrite zipw_map.
  rewrite (qsumr_zipw_ext _ (fun a b => (a * b + (- mean y) * a) + ((- mean x) * b + mean x * mean y))) by (intros; ring).
  rewrite (qsumr_zipw_plus (fun a b => a * b + (- mean y) * a) (fun a b => (- mean x) * b + mean x * mean y)).
  rewrite (qsumr_zipw_plus (fun a b => a * b) (fun a b => (- mean y) * a)).
  rewrite (qsumr_zipw_plus (fun a b => (- mean x) * b) (fun a b => mean x * mean y)).
  rewrite (qsumr_zipw_scal (fun a _ => a)), (qsumr_zipw_scal (fun _ b => b)).
  rewrite <- (qsumr_map_l (fun a => a) x y L), <- (qsumr_map_r (fun a => a) x y L), !qsumr_map_id.
  rewrite (qsumr_const_zipw _ x y L). change (zipw (fun a b : Q => a * b) x y) with (zipw Qmult x y). ring.
Qed.

Lemma dot_center x y : length x = length y -> ~ qlen x == 0 ->
  dot (center x) (center y) == dot x y - qlen x * (mean x * mean y).
Proof.
  intros L Hn. rewrite (dot_center_expand x y L).
  assert (Ex : qsumr x == qlen x * mean x) by (unfold mean; field; exact Hn).
  assert (Ey : qsumr y == qlen x * mean y).
  { unfold mean. assert (E : qlen y == qlen x) by (unfold qlen; rewrite L; reflexivity). rewrite E. field. exact Hn. }
  rewrite Ex, Ey. ring.
Qed.

Lemma rsum_bit_counts idx : rsum (bit_counts idx) == qlen idx.
Proof.
  unfold rsum, bit_counts, cbuild. rewrite map_map. simpl. induction idx as [|k t IH]; [reflexivity|].
  simpl map. rewrite qsumr_cons, IH, qlen_cons. ring.
Qed.

Lemma rdot_bit_counts idx : NoDup idx -> rdot (bit_counts idx) (bit_counts idx) == qlen idx.
Proof.
  intro ND. unfold rdot. rewrite <- (rsum_bit_counts idx). unfold rsum. apply qsumr_map_ext'. intros [k v] He.
  simpl. rewrite (rget_in (bit_counts idx) k v); [| |exact He].
  - unfold bit_counts, cbuild in He. apply in_map_iff in He. destruct He as [k' [E _]]. inversion E; subst. ring.
  - unfold keys, bit_counts, cbuild. rewrite map_map. simpl. rewrite map_id. exact ND.
Qed.

Section Pearson.
  Variables a b : fp.
  Hypothesis Ha : wf_fp a.
  Hypothesis Hb : wf_fp b.
  Hypothesis Hp : (0 < fbits a)%Z.
  Hypothesis Hn : fbits a = fbits b.

  Let N := inject_Z (fbits a).

  Lemma Npos : 0 < N.
  Proof. unfold N. change 0 with (inject_Z 0). rewrite <- Zlt_Qlt. exact Hp. Qed.

  Lemma qlen_dense_a : qlen (fp_dense a) == N.
  Proof. unfold fp_dense. apply expand_qlen. lia. Qed.

  Lemma qlen_dense_b : qlen (fp_dense b) == N.
  Proof. unfold fp_dense. rewrite <- Hn. apply expand_qlen. lia. Qed.

  Lemma dense_len : length (fp_dense a) = length (fp_dense b).
  Proof. apply fp_dense_same_length; [lia | exact Hn]. Qed.
End Pearson.

Lemma fp_mean_dense a : wf_fp a -> (0 < fbits a)%Z -> fp_mean a == mean (fp_dense a).
Proof.
  intros H Hp. unfold mean. rewrite (qlen_dense_a a Hp). unfold fp_dense. rewrite (expand_sum _ _ (in_range_counts_of a H)).
  unfold fp_mean, counts_of. destruct (fkind a).
  - rewrite rsum_bit_counts. reflexivity.
  - reflexivity.
  - reflexivity.
Qed.

Lemma fp_dot_dense a b : wf_fp a -> wf_fp b -> fbits a = fbits b -> fp_dot a b == dot (fp_dense a) (fp_dense b).
Proof.
  intros Ha Hb Hn. rewrite (fp_dot_rdot a b Hb). unfold fp_dense. rewrite <- Hn. symmetry. apply expand_dot. apply in_range_counts_of. exact Ha.
Qed.

Lemma sumsq_cnt a : wf_fp a -> fkind a <> KBit ->
  qsumr (map (fun kv => snd kv * snd kv) (fcnt a)) == rdot (counts_of a) (counts_of a).
Proof.
  intros H K. pose proof (fp_sumsq_rdot a H) as F. unfold fp_sumsq in F. unfold counts_of in F at 1.
  destruct (fkind a); [congruence | exact F | exact F].
Qed.

Lemma fp_var_dense a : wf_fp a -> (0 < fbits a)%Z ->
  fp_var a == dot (center (fp_dense a)) (center (fp_dense a)) / inject_Z (fbits a).
Proof.
  intros H Hp. pose proof (Npos a Hp) as HN. pose proof (qlen_dense_a a Hp) as QL.
  assert (Hne : ~ qlen (fp_dense a) == 0) by (rewrite QL; lra).
  assert (Hxx : dot (fp_dense a) (fp_dense a) == rdot (counts_of a) (counts_of a)).
  { unfold fp_dense. apply expand_dot. apply in_range_counts_of. exact H. }
  assert (Hcore : rdot (counts_of a) (counts_of a) / inject_Z (fbits a) - fp_mean a * fp_mean a
                  == dot (center (fp_dense a)) (center (fp_dense a)) / inject_Z (fbits a)).
  { rewrite (dot_center _ _ eq_refl Hne), QL, <- (fp_mean_dense a H Hp), Hxx. field. lra. }
  assert (Hnn : 0 <= rdot (counts_of a) (counts_of a) / inject_Z (fbits a) - fp_mean a * fp_mean a).
  { rewrite Hcore. apply Qle_shift_div_l; [exact HN|]. pose proof (dot_self_nonneg (center (fp_dense a))). lra. }
  rewrite <- Hcore. unfold fp_var. destruct (fkind a) eqn:K.
  - assert (Em : fp_mean a == qlen (fidx a) / inject_Z (fbits a)) by (unfold fp_mean; rewrite K; reflexivity).
    assert (Es : rdot (counts_of a) (counts_of a) == qlen (fidx a)).
    { unfold counts_of. rewrite K. apply rdot_bit_counts. apply ssorted_NoDup. apply H. }
    rewrite Es, Em. field. lra.
  - rewrite (sumsq_cnt a H) by congruence. apply Q.max_l. exact Hnn.
  - rewrite (sumsq_cnt a H) by congruence. apply Q.max_l. exact Hnn.
Qed.

Theorem fp_pearson_eq_def a b : wf_fp a -> wf_fp b -> (0 < fbits a)%Z -> fbits a = fbits b ->
  rsq (fp_pearson a b) == rsq (pearson_def (fp_dense a) (fp_dense b)).
Proof.
  intros Ha Hb Hp Hn. assert (Hpb : (0 < fbits b)%Z) by lia.
  pose proof (Npos a Hp) as HN. pose proof (qlen_dense_a a Hp) as QL.
  assert (Hne : ~ qlen (fp_dense a) == 0) by (rewrite QL; lra).
  unfold fp_pearson.
  replace ((fbits a =? 0)%Z) with false by (symmetry; apply Z.eqb_neq; lia).
  replace ((fbits b =? 0)%Z) with false by (symmetry; apply Z.eqb_neq; lia).
  simpl orb. cbv iota. rewrite rsq_guard. unfold pearson_def.
  set (cx := center (fp_dense a)). set (cy := center (fp_dense b)).
  assert (Enum : fp_dot a b / inject_Z (fbits a) - fp_mean a * fp_mean b == dot cx cy / inject_Z (fbits a)).
  { unfold cx, cy. rewrite (dot_center _ _ (dense_len a b Hp Hn) Hne), QL, <- (fp_mean_dense a Ha Hp), <- (fp_mean_dense b Hb Hpb),
      (fp_dot_dense a b Ha Hb Hn). field. lra. }
  assert (Eden : fp_var a * fp_var b == (dot cx cx / inject_Z (fbits a)) * (dot cy cy / inject_Z (fbits a))).
  { rewrite (fp_var_dense a Ha Hp), (fp_var_dense b Hb Hpb), <- Hn. reflexivity. }
  rewrite (rsq_compat _ _ _ _ Enum Eden). apply rsq_scale2. exact HN.
Qed.

(* the two Pearson forms agree: the 1/bits of the fingerprint form and the 1/(n-1) of the array form cancel *)
Theorem pearson_array_eq_fp a b : wf_fp a -> wf_fp b -> (0 < fbits a)%Z -> fbits a = fbits b ->
  rsq (arr_pearson (fp_dense a) (fp_dense b)) == rsq (fp_pearson a b).
Proof.
  intros Ha Hb Hp Hn. rewrite (fp_pearson_eq_def a b Ha Hb Hp Hn). apply arr_pearson_eq_def.
  apply dense_len; assumption.
Qed.
