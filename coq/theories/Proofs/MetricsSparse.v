(* The CSR code paths equal the dense paths / definitions on the dense expansion of the rows. *)
From Coq Require Import QArith Qabs Qminmax Lqa Lia ZifyBool Sorting.Sorted.
From E3FP Require Import Base.Prelude Base.ZSet Model.Fprint Model.Metrics Proofs.MetricsBase Proofs.MetricsDefs Proofs.MetricsDense.
Open Scope Q_scope.

Definition in_range (n : Z) (r : row) : Prop := Forall (fun e => (0 <= fst e < n)%Z) r.
Definition row_nonneg (r : row) : Prop := Forall (fun e => 0 <= snd e) r.
Definition keys (r : row) : list Z := map fst r.
Definition rsorted (r : row) : Prop := StronglySorted (fun e f => (fst e < fst f)%Z) r.

(* ---- sums over a range -------------------------------------------------------------------------- *)
Lemma qsumr_map_plus {A} (f g : A -> Q) l :
  qsumr (map (fun i => f i + g i) l) == qsumr (map f l) + qsumr (map g l).
Proof.
  induction l as [|a l IH]; [simpl; lra|]. simpl map. rewrite !qsumr_cons, IH. ring.
Qed.

Lemma qsumr_map_ext' {A} (f g : A -> Q) l : (forall a, In a l -> f a == g a) -> qsumr (map f l) == qsumr (map g l).
Proof.
  induction l as [|a l IH]; intro H; [reflexivity|]. simpl map. rewrite !qsumr_cons, H, IH.
  - reflexivity.
  - intros b Hb. apply H. right. exact Hb.
  - left. reflexivity.
Qed.

Lemma qsumr_map_zero {A} (f : A -> Q) l : (forall a, In a l -> f a == 0) -> qsumr (map f l) == 0.
Proof.
  induction l as [|a l IH]; intro H; [reflexivity|]. simpl map. rewrite qsumr_cons, H, IH.
  - ring.
  - intros b Hb. apply H. right. exact Hb.
  - left. reflexivity.
Qed.

Lemma in_zrange_from s k i : In i (zrange_from s k) <-> (s <= i < s + Z.of_nat k)%Z.
Proof.
  revert s. induction k as [|k IH]; intro s; simpl.
  - lia.
  - rewrite IH. lia.
Qed.

Lemma in_zrange n i : In i (zrange n) <-> (0 <= i < n)%Z.
Proof. unfold zrange. rewrite in_zrange_from. lia. Qed.

Lemma zrange_length n : (0 <= n)%Z -> length (zrange n) = Z.to_nat n.
Proof.
  intro H. unfold zrange. generalize 0%Z. induction (Z.to_nat n) as [|k IH]; intro s; simpl; [reflexivity|].
  rewrite IH. reflexivity.
Qed.

(* the delta lemma: a sum over the range that is supported on one position *)
Lemma sum_delta_from (f : Z -> Q) j s k :
  qsumr (map (fun i => if (i =? j)%Z then f i else 0) (zrange_from s k))
  == (if ((s <=? j) && (j <? s + Z.of_nat k))%Z then f j else 0).
Proof.
  revert s. induction k as [|k IH]; intro s.
  - simpl. destruct (s <=? j)%Z eqn:E1; destruct (j <? s + 0)%Z eqn:E2; simpl; try reflexivity. lia.
  - simpl zrange_from. simpl map. rewrite qsumr_cons, IH.
    destruct (s =? j)%Z eqn:E.
    + apply Z.eqb_eq in E. subst s.
      replace ((j + 1 <=? j)%Z) with false by (symmetry; apply Z.leb_gt; lia).
      replace ((j <=? j)%Z) with true by (symmetry; apply Z.leb_le; lia).
      replace ((j <? j + Z.of_nat (S k))%Z) with true by (symmetry; apply Z.ltb_lt; lia).
      simpl. ring.
    + apply Z.eqb_neq in E.
      destruct (s <=? j)%Z eqn:E1; destruct (s + 1 <=? j)%Z eqn:E2; try lia;
        destruct (j <? s + 1 + Z.of_nat k)%Z eqn:E3; destruct (j <? s + Z.of_nat (S k))%Z eqn:E4; simpl; try ring; lia.
Qed.

Lemma sum_delta (f : Z -> Q) j n : (0 <= j < n)%Z ->
  qsumr (map (fun i => if (i =? j)%Z then f i else 0) (zrange n)) == f j.
Proof.
  intro H. unfold zrange. rewrite sum_delta_from.
  replace ((0 <=? j)%Z) with true by (symmetry; apply Z.leb_le; lia).
  replace ((j <? 0 + Z.of_nat (Z.to_nat n))%Z) with true by (symmetry; apply Z.ltb_lt; lia).
  reflexivity.
Qed.

(* ---- entries of a row ------------------------------------------------------------------------- *)
Lemma rget_cons j v t i : rget ((j, v) :: t) i == (if (i =? j)%Z then v else 0) + rget t i.
Proof. simpl. destruct (i =? j)%Z; ring. Qed.

Lemma rget_notin r i : ~ In i (keys r) -> rget r i == 0.
Proof.
  induction r as [|[j v] t IH]; intro H; [reflexivity|].
  simpl. simpl in H. destruct (i =? j)%Z eqn:E.
  - apply Z.eqb_eq in E. exfalso. apply H. left. congruence.
  - apply IH. tauto.
Qed.

Lemma rget_nonneg r i : row_nonneg r -> 0 <= rget r i.
Proof.
  induction 1 as [|[j v] t Hv H IH]; [apply Qle_refl|]. simpl in *. destruct (i =? j)%Z; lra.
Qed.

(* sum_i rget r i * g i  =  sum over the stored entries of v * g j *)
Lemma sum_rget_weighted n r (g : Z -> Q) : in_range n r ->
  qsumr (map (fun i => rget r i * g i) (zrange n)) == qsumr (map (fun e => snd e * g (fst e)) r).
Proof.
  induction 1 as [|[j v] t Hj H IH].
  - simpl map at 2. apply qsumr_map_zero. intros. simpl. ring.
  - simpl map at 2. rewrite qsumr_cons. simpl fst. simpl snd. rewrite <- IH.
    rewrite <- (sum_delta (fun i => v * g i) j n Hj), <- qsumr_map_plus.
    apply qsumr_map_ext'. intros i _. rewrite rget_cons. destruct (i =? j)%Z; ring.
Qed.

Lemma expand_sum n r : in_range n r -> qsumr (expand n r) == rsum r.
Proof.
  intro H. unfold expand, rsum. pose proof (sum_rget_weighted n r (fun _ => 1) H) as E.
  rewrite (qsumr_map_ext' (rget r) (fun i => rget r i * 1)) by (intros; ring). rewrite E.
  apply qsumr_map_ext'. intros; ring.
Qed.

Lemma dot_map_same {A} (f g : A -> Q) l : dot (map f l) (map g l) == qsumr (map (fun i => f i * g i) l).
Proof.
  induction l as [|a l IH]; [reflexivity|]. simpl map. rewrite dot_cons, qsumr_cons, IH. reflexivity.
Qed.

Lemma expand_dot n r s : in_range n r -> dot (expand n r) (expand n s) == rdot r s.
Proof.
  intro H. unfold expand, rdot. rewrite dot_map_same. apply (sum_rget_weighted n r (rget s) H).
Qed.

Lemma expand_length n r : (0 <= n)%Z -> length (expand n r) = Z.to_nat n.
Proof. intro H. unfold expand. rewrite map_length. apply zrange_length. exact H. Qed.

Lemma expand_qlen n r : (0 <= n)%Z -> qlen (expand n r) == inject_Z n.
Proof. intro H. unfold qlen. rewrite expand_length by exact H. rewrite Z2Nat.id by exact H. reflexivity. Qed.

Lemma expand_nonneg n r : row_nonneg r -> nonneg (expand n r).
Proof.
  intro H. unfold expand, nonneg. rewrite Forall_forall. intros v Hv. apply in_map_iff in Hv.
  destruct Hv as [i [<- _]]. apply rget_nonneg. exact H.
Qed.

Lemma expand_nil n : allzero (expand n []).
Proof.
  unfold expand, allzero. rewrite Forall_forall. intros v Hv. apply in_map_iff in Hv.
  destruct Hv as [i [<- _]]. reflexivity.
Qed.

(* ---- Tanimoto, Dice, cosine, Pearson on CSR rows = the dense paths on the expansions ------------ *)
Lemma sp_tanimoto_eq_dense n r s : in_range n r -> in_range n s ->
  sp_tanimoto r s == arr_tanimoto (expand n r) (expand n s).
Proof.
  intros Hr Hs. unfold sp_tanimoto, arr_tanimoto. apply fdiv_compat.
  - symmetry. apply expand_dot. exact Hr.
  - rewrite (expand_sum n r Hr), (expand_sum n s Hs), (expand_dot n r s Hr). reflexivity.
Qed.

Lemma sp_dice_eq_dense n r s : in_range n r -> in_range n s ->
  sp_dice r s == arr_dice (expand n r) (expand n s).
Proof.
  intros Hr Hs. unfold sp_dice, arr_dice. apply fdiv_compat.
  - rewrite (expand_dot n r s Hr). reflexivity.
  - rewrite (expand_sum n r Hr), (expand_sum n s Hs). reflexivity.
Qed.

Lemma rsq_guard_compat n n' d d' : n == n' -> d == d' ->
  rsq (if Qeq_bool d 0 then rzero else mkr n d) == rsq (if Qeq_bool d' 0 then rzero else mkr n' d').
Proof. intros Hn Hd. rewrite !rsq_guard. apply rsq_compat; assumption. Qed.

Lemma sp_cosine_eq_dense n r s : in_range n r -> in_range n s ->
  rsq (sp_cosine r s) == rsq (arr_cosine (expand n r) (expand n s)).
Proof.
  intros Hr Hs. unfold sp_cosine, arr_cosine, rsumsq. apply rsq_guard_compat.
  - symmetry. apply expand_dot. exact Hr.
  - rewrite (expand_dot n r r Hr), (expand_dot n s s Hs). reflexivity.
Qed.

Lemma dot_map_ext (f f' g g' : Q -> Q) x y :
  (forall a, f a == f' a) -> (forall b, g b == g' b) -> dot (map f x) (map g y) == dot (map f' x) (map g' y).
Proof.
  intros Hf Hg. unfold dot. rewrite !zipw_map. apply qsumr_zipw_ext. intros a b. rewrite Hf, Hg. reflexivity.
Qed.

Lemma sp_pearson_eq_dense n r s : (0 <= n)%Z -> in_range n r -> in_range n s ->
  rsq (sp_pearson n r s) == rsq (arr_pearson (expand n r) (expand n s)).
Proof.
  intros Hn Hr Hs. unfold sp_pearson, arr_pearson.
  assert (E1 : qlen (expand n r) - 1 == inject_Z n - 1) by (rewrite (expand_qlen n r Hn); reflexivity).
  rewrite (Qeq_bool_compat _ _ E1).
  destruct (Qeq_bool (inject_Z n - 1) 0); [reflexivity|].
  assert (Mr : forall a, a - rsum r / inject_Z n == a - mean (expand n r)).
  { intro a. unfold mean. rewrite (expand_sum n r Hr), (expand_qlen n r Hn). reflexivity. }
  assert (Ms : forall a, a - rsum s / inject_Z n == a - mean (expand n s)).
  { intro a. unfold mean. rewrite (expand_sum n s Hs), (expand_qlen n s Hn). reflexivity. }
  unfold center. apply rsq_guard_compat.
  - rewrite E1, (dot_map_ext _ _ _ _ (expand n r) (expand n s) Mr Ms). reflexivity.
  - rewrite E1, (dot_map_ext _ _ _ _ (expand n r) (expand n r) Mr Mr), (dot_map_ext _ _ _ _ (expand n s) (expand n s) Ms Ms).
    reflexivity.
Qed.

(* ---- Soergel: the merge loop ------------------------------------------------------------------- *)
(* sum over the entries of rx of min(value, entry of ry in the same column) *)
Definition rmin (rx ry : row) : Q := qsumr (map (fun e => Qmin (snd e) (rget ry (fst e))) rx).

Lemma rmin_cons j v t ry : rmin ((j, v) :: t) ry == Qmin v (rget ry j) + rmin t ry.
Proof. unfold rmin. simpl map. rewrite qsumr_cons. reflexivity. Qed.

Lemma rsum_cons j v t : rsum ((j, v) :: t) == v + rsum t.
Proof. unfold rsum. simpl map. rewrite qsumr_cons. reflexivity. Qed.

Lemma rsum_nil : rsum [] == 0.
Proof. reflexivity. Qed.

Lemma rmin_nil_l ry : rmin [] ry == 0.
Proof. reflexivity. Qed.

Lemma rsorted_inv e t : rsorted (e :: t) -> rsorted t /\ Forall (fun f => (fst e < fst f)%Z) t.
Proof. intro H. inversion H; subst. split; assumption. Qed.

Lemma rget_below r k : Forall (fun f => (k < fst f)%Z) r -> rget r k == 0.
Proof.
  intro H. apply rget_notin. unfold keys. intro Hin. apply in_map_iff in Hin. destruct Hin as [f [Hf Hin]].
  rewrite Forall_forall in H. specialize (H f Hin). lia.
Qed.

Lemma Forall_lt_trans (r : row) i j : (i < j)%Z -> Forall (fun f => (j < fst f)%Z) r -> Forall (fun f => (i < fst f)%Z) r.
Proof. intros Hij H. eapply Forall_impl; [|exact H]. simpl. intros; lia. Qed.

(* dropping an entry of ry whose column is below every column of rx does not change rmin *)
Lemma rmin_drop_r rx j w ry : Forall (fun f => (j < fst f)%Z) rx -> rmin rx ((j, w) :: ry) == rmin rx ry.
Proof.
  intro H. unfold rmin. apply qsumr_map_ext'. intros e He. rewrite Forall_forall in H. specialize (H e He).
  simpl rget. destruct (fst e =? j)%Z eqn:E; [apply Z.eqb_eq in E; lia | reflexivity].
Qed.

Lemma stail_spec r : forall sad smax,
  fst (stail r sad smax) == sad + rsum r /\ snd (stail r sad smax) == smax + rsum r.
Proof.
  induction r as [|[j v] t IH]; intros sad smax.
  - simpl. unfold rsum. simpl. split; ring.
  - simpl stail. destruct (IH (sad + v) (smax + v)) as [I1 I2]. rewrite I1, I2, rsum_cons. split; ring.
Qed.

Lemma rmin_nil_r rx : row_nonneg rx -> rmin rx [] == 0.
Proof.
  intro H. unfold rmin. apply qsumr_map_zero. intros e He. unfold row_nonneg in H. rewrite Forall_forall in H. specialize (H e He).
  simpl. apply Q.min_r. exact H.
Qed.

Lemma smerge_spec rx : forall ry sad smax,
  rsorted rx -> rsorted ry -> row_nonneg rx -> row_nonneg ry ->
  fst (smerge rx ry sad smax) == sad + (rsum rx + rsum ry - 2 * rmin rx ry) /\
  snd (smerge rx ry sad smax) == smax + (rsum rx + rsum ry - rmin rx ry).
Proof.
  induction rx as [|[i v] rx' IHx].
  - intros ry sad smax _ _ _ _. destruct ry as [|[j w] ry']; simpl smerge.
    + simpl. rewrite rsum_nil, rmin_nil_l. split; ring.
    + destruct (stail_spec ry' (sad + w) (smax + w)) as [I1 I2]. simpl stail. rewrite I1, I2, rsum_cons.
      rewrite rsum_nil, rmin_nil_l. split; ring.
  - induction ry as [|[j w] ry' IHy]; intros sad smax Sx Sy Nx Ny.
    + simpl smerge. destruct (stail_spec rx' (sad + v) (smax + v)) as [I1 I2]. rewrite I1, I2.
      rewrite (rmin_nil_r _ Nx), rsum_cons, rsum_nil. split; ring.
    + destruct (rsorted_inv _ _ Sx) as [Sx' Fx]. destruct (rsorted_inv _ _ Sy) as [Sy' Fy]. simpl fst in Fx, Fy.
      inversion Nx as [|? ? Hv Nx']; subst. inversion Ny as [|? ? Hw Ny']; subst. simpl snd in Hv, Hw.
      simpl smerge. destruct (i <? j)%Z eqn:E1.
      * (* the x entry is alone in its column *)
        apply Z.ltb_lt in E1.
        destruct (IHx ((j, w) :: ry') (sad + v) (smax + v) Sx' Sy Nx' Ny) as [I1 I2]. rewrite I1, I2.
        rewrite rmin_cons, !rsum_cons.
        assert (Z0 : rget ((j, w) :: ry') i == 0).
        { apply rget_below. constructor; [simpl; exact E1|]. apply (Forall_lt_trans ry' i j E1 Fy). }
        rewrite Z0, (Q.min_r v 0 Hv). split; ring.
      * destruct (j <? i)%Z eqn:E2.
        -- (* the y entry is alone in its column *)
           apply Z.ltb_lt in E2.
           destruct (IHy (sad + w) (smax + w) Sx Sy' Nx Ny') as [I1 I2].
           change ((fix inner (ry : row) (sad smax : Q) {struct ry} : Q * Q :=
                      match ry with
                      | [] => stail ((i, v) :: rx') sad smax
                      | (j, w) :: ry' =>
                        if (i <? j)%Z then smerge rx' ry (sad + v) (smax + v)
                        else if (j <? i)%Z then inner ry' (sad + w) (smax + w)
                        else let d := v - w in
                             if qpos d then smerge rx' ry' (sad + d) (smax + v)
                             else smerge rx' ry' (sad - d) (smax + w)
                      end) ry' (sad + w) (smax + w)) with (smerge ((i, v) :: rx') ry' (sad + w) (smax + w)).
           rewrite I1, I2.
           assert (D : rmin ((i, v) :: rx') ((j, w) :: ry') == rmin ((i, v) :: rx') ry').
           { apply rmin_drop_r. constructor; [simpl; exact E2|]. apply (Forall_lt_trans rx' j i E2 Fx). }
           rewrite D, !rsum_cons. split; ring.
        -- (* same column *)
           apply Z.ltb_ge in E1. apply Z.ltb_ge in E2. assert (i = j) by lia. subst j.
           assert (Z0 : rget ry' i == 0) by (apply rget_below; exact Fy).
           assert (D : rmin rx' ((i, w) :: ry') == rmin rx' ry') by (apply rmin_drop_r; exact Fx).
           rewrite rmin_cons, !rsum_cons, D. simpl rget. rewrite Z.eqb_refl, Z0.
           assert (W : w + 0 == w) by ring. rewrite (Q.min_compat _ _ (Qeq_refl v) _ _ W).
           cbv zeta. destruct (qpos (v - w)) eqn:E.
           ++ apply qpos_true in E. destruct (IHx ry' (sad + (v - w)) (smax + v) Sx' Sy' Nx' Ny') as [I1 I2].
              rewrite I1, I2, (Q.min_r v w) by lra. split; ring.
           ++ apply qpos_false in E. destruct (IHx ry' (sad - (v - w)) (smax + w) Sx' Sy' Nx' Ny') as [I1 I2].
              rewrite I1, I2, (Q.min_l v w) by lra. split; ring.
Qed.

(* ---- the dense side in the same terms ---- *)
Lemma absdiff_min a b : Qabs (a - b) == a + b + (-2) * Qmin a b.
Proof.
  destruct (Qlt_le_dec a b) as [H|H].
  - rewrite (Q.min_l a b) by lra. rewrite Qabs_neg by lra. ring.
  - rewrite (Q.min_r a b) by lra. rewrite Qabs_pos by lra. ring.
Qed.

Lemma max_min a b : Qmax a b == a + b + (-1) * Qmin a b.
Proof.
  destruct (Qlt_le_dec a b) as [H|H].
  - rewrite (Q.max_r a b), (Q.min_l a b) by lra. ring.
  - rewrite (Q.max_l a b), (Q.min_r a b) by lra. ring.
Qed.

Lemma zipw_map_same {A} (h : Q -> Q -> Q) (f g : A -> Q) l :
  zipw h (map f l) (map g l) = map (fun i => h (f i) (g i)) l.
Proof. induction l as [|a l IH]; [reflexivity|]. simpl. rewrite <- IH. reflexivity. Qed.

(* for a row without repeated columns: sum_i G (entry i) i = sum over the stored entries, when G 0 i = 0 *)
Lemma sum_support n r (G : Q -> Z -> Q) :
  (forall a b i, a == b -> G a i == G b i) -> (forall i, G 0 i == 0) ->
  in_range n r -> NoDup (keys r) ->
  qsumr (map (fun i => G (rget r i) i) (zrange n)) == qsumr (map (fun e => G (snd e) (fst e)) r).
Proof.
  intros Gc G0 H. induction H as [|[j v] t Hj H IH]; intro ND.
  - simpl map at 2. apply qsumr_map_zero. intros. simpl. apply G0.
  - simpl in ND. inversion ND as [|? ? Hnin ND']; subst. simpl map at 2. rewrite qsumr_cons. simpl fst. simpl snd.
    rewrite <- (IH ND'). rewrite <- (sum_delta (fun i => G v i) j n Hj), <- qsumr_map_plus.
    apply qsumr_map_ext'. intros i _. simpl rget. destruct (i =? j)%Z eqn:E.
    + apply Z.eqb_eq in E. subst i. rewrite (Gc (rget t j) 0 j (rget_notin t j Hnin)), G0.
      rewrite (Gc (v + rget t j) v j); [ring|]. rewrite (rget_notin t j Hnin). ring.
    + ring.
Qed.

Lemma expand_min n rx ry : in_range n rx -> NoDup (keys rx) -> row_nonneg ry ->
  qsumr (zipw Qmin (expand n rx) (expand n ry)) == rmin rx ry.
Proof.
  intros Hr ND Ny. unfold expand, rmin. rewrite zipw_map_same.
  apply (sum_support n rx (fun a i => Qmin a (rget ry i))).
  - intros a b i E. apply Q.min_compat; [exact E | reflexivity].
  - intro i. apply Q.min_l. apply rget_nonneg. exact Ny.
  - exact Hr.
  - exact ND.
Qed.

Lemma expand_absdiff n rx ry : (0 <= n)%Z -> in_range n rx -> in_range n ry -> NoDup (keys rx) -> row_nonneg ry ->
  sum_absdiff (expand n rx) (expand n ry) == rsum rx + rsum ry - 2 * rmin rx ry.
Proof.
  intros Hn Hx Hy ND Ny. unfold sum_absdiff.
  rewrite (qsumr_zipw_ext _ (fun a b => (a + b) + (-2) * Qmin a b)) by (intros; rewrite absdiff_min; ring).
  rewrite (qsumr_zipw_plus (fun a b => a + b) (fun a b => (-2) * Qmin a b)), (qsumr_zipw_plus (fun a _ => a) (fun _ b => b)).
  rewrite (qsumr_zipw_scal Qmin).
  assert (L : length (expand n rx) = length (expand n ry)) by (rewrite !expand_length by exact Hn; reflexivity).
  rewrite <- (qsumr_map_l (fun a => a) _ _ L), <- (qsumr_map_r (fun a => a) _ _ L), !qsumr_map_id.
  rewrite (expand_sum n rx Hx), (expand_sum n ry Hy), (expand_min n rx ry Hx ND Ny). ring.
Qed.

Lemma expand_max n rx ry : (0 <= n)%Z -> in_range n rx -> in_range n ry -> NoDup (keys rx) -> row_nonneg ry ->
  sum_max (expand n rx) (expand n ry) == rsum rx + rsum ry - rmin rx ry.
Proof.
  intros Hn Hx Hy ND Ny. unfold sum_max.
  rewrite (qsumr_zipw_ext _ (fun a b => (a + b) + (-1) * Qmin a b)) by (intros; rewrite max_min; ring).
  rewrite (qsumr_zipw_plus (fun a b => a + b) (fun a b => (-1) * Qmin a b)), (qsumr_zipw_plus (fun a _ => a) (fun _ b => b)).
  rewrite (qsumr_zipw_scal Qmin).
  assert (L : length (expand n rx) = length (expand n ry)) by (rewrite !expand_length by exact Hn; reflexivity).
  rewrite <- (qsumr_map_l (fun a => a) _ _ L), <- (qsumr_map_r (fun a => a) _ _ L), !qsumr_map_id.
  rewrite (expand_sum n rx Hx), (expand_sum n ry Hy), (expand_min n rx ry Hx ND Ny). ring.
Qed.

(* ---- canonicalisation (sum_duplicates) ---- *)
Lemma rget_mapkeys ks (g : Z -> Q) i : NoDup ks ->
  rget (map (fun k => (k, g k)) ks) i == (if zmem i ks then g i else 0).
Proof.
  induction 1 as [|k ks Hn ND IH]; [reflexivity|].
  simpl map. simpl rget. simpl zmem. destruct (i =? k)%Z eqn:E.
  - apply Z.eqb_eq in E. subst i. simpl. rewrite IH.
    replace (zmem k ks) with false by (symmetry; apply zmem_false; exact Hn). ring.
  - simpl. exact IH.
Qed.

Lemma rget_rcanon r i : rget (rcanon r) i == rget r i.
Proof.
  unfold rcanon. rewrite rget_mapkeys by (apply ssorted_NoDup; apply ssorted_usort).
  destruct (zmem i (usort (map fst r))) eqn:E; [reflexivity|].
  apply zmem_false in E. rewrite In_usort in E. symmetry. apply rget_notin. exact E.
Qed.

Lemma keys_rcanon r : keys (rcanon r) = usort (keys r).
Proof. unfold rcanon, keys. rewrite map_map. simpl. apply map_id. Qed.

Lemma NoDup_rcanon r : NoDup (keys (rcanon r)).
Proof. rewrite keys_rcanon. apply ssorted_NoDup. apply ssorted_usort. Qed.

Lemma rsorted_mapkeys (g : Z -> Q) ks : ssorted ks -> rsorted (map (fun k => (k, g k)) ks).
Proof.
  unfold ssorted, rsorted. induction 1 as [|k ks Hs IH Hall]; simpl; constructor; [exact IH|].
  rewrite Forall_forall in *. intros f Hf. apply in_map_iff in Hf. destruct Hf as [k' [<- Hk']]. simpl. apply Hall. exact Hk'.
Qed.

Lemma rsorted_rcanon r : rsorted (rcanon r).
Proof. unfold rcanon. apply rsorted_mapkeys. apply ssorted_usort. Qed.

Lemma in_range_rcanon n r : in_range n r -> in_range n (rcanon r).
Proof.
  unfold in_range, rcanon. rewrite !Forall_forall. intros H f Hf. apply in_map_iff in Hf.
  destruct Hf as [k [<- Hk]]. simpl. apply (proj1 (In_usort _ _)) in Hk. apply in_map_iff in Hk. destruct Hk as [e [<- He]]. apply H. exact He.
Qed.

Lemma row_nonneg_rcanon r : row_nonneg r -> row_nonneg (rcanon r).
Proof.
  unfold row_nonneg at 2, rcanon. rewrite Forall_forall. intros H f Hf. apply in_map_iff in Hf.
  destruct Hf as [k [<- Hk]]. simpl. apply rget_nonneg. exact H.
Qed.

Lemma rcanon_nil r : rcanon r = [] -> r = [].
Proof.
  unfold rcanon. intro H. apply map_eq_nil in H. destruct r as [|e r]; [reflexivity|].
  exfalso. assert (Hin : In (fst e) (usort (map fst (e :: r)))) by (apply In_usort; left; reflexivity).
  rewrite H in Hin. destruct Hin.
Qed.

(* the dense expansion does not see the canonicalisation *)
Lemma expand_rcanon_sum (h : Q -> Q -> Q) n rx ry :
  (forall a a' b b', a == a' -> b == b' -> h a b == h a' b') ->
  qsumr (zipw h (expand n (rcanon rx)) (expand n (rcanon ry))) == qsumr (zipw h (expand n rx) (expand n ry)).
Proof.
  intro Hc. unfold expand. rewrite !zipw_map_same. apply qsumr_map_ext'. intros i _. apply Hc; apply rget_rcanon.
Qed.

(* ---- the theorem: rows in any order, with explicit zeros and repeated column indices ---- *)
Theorem sp_soergel_eq_def n rx ry :
  (0 <= n)%Z -> in_range n rx -> in_range n ry -> row_nonneg rx -> row_nonneg ry ->
  sp_soergel rx ry == soergel_def (expand n rx) (expand n ry).
Proof.
  intros Hn Hx Hy Nx Ny.
  assert (L : length (expand n rx) = length (expand n ry)) by (rewrite !expand_length by exact Hn; reflexivity).
  unfold sp_soergel, sp_soergel_rows.
  destruct (rcanon rx) as [|ex sx] eqn:Ex.
  - apply rcanon_nil in Ex. subst rx. symmetry. apply soergel_zero; [exact L | apply expand_nil | apply expand_nonneg; exact Ny].
  - destruct (rcanon ry) as [|ey sy] eqn:Ey.
    + apply rcanon_nil in Ey. subst ry. symmetry. rewrite soergel_symmetric.
      apply soergel_zero; [symmetry; exact L | apply expand_nil | apply expand_nonneg; exact Nx].
    + rewrite <- Ex, <- Ey.
      destruct (smerge_spec (rcanon rx) (rcanon ry) 0 0 (rsorted_rcanon rx) (rsorted_rcanon ry)
                  (row_nonneg_rcanon rx Nx) (row_nonneg_rcanon ry Ny)) as [I1 I2].
      unfold soergel_def.
      rewrite (soergel_finish_spec _ (sum_absdiff (expand n rx) (expand n ry)) (sum_max (expand n rx) (expand n ry))).
      * reflexivity.
      * rewrite I1. unfold sum_absdiff.
        rewrite <- (expand_rcanon_sum (fun a b => Qabs (a - b)) n rx ry)
          by (intros a a' b b' Ea Eb; apply Qabs_wd; rewrite Ea, Eb; reflexivity).
        fold (sum_absdiff (expand n (rcanon rx)) (expand n (rcanon ry))).
        rewrite (expand_absdiff n _ _ Hn (in_range_rcanon n rx Hx) (in_range_rcanon n ry Hy) (NoDup_rcanon rx) (row_nonneg_rcanon ry Ny)).
        ring.
      * rewrite I2. unfold sum_max.
        rewrite <- (expand_rcanon_sum Qmax n rx ry) by (intros a a' b b' Ea Eb; apply Q.max_compat; assumption).
        fold (sum_max (expand n (rcanon rx)) (expand n (rcanon ry))).
        rewrite (expand_max n _ _ Hn (in_range_rcanon n rx Hx) (in_range_rcanon n ry Hy) (NoDup_rcanon rx) (row_nonneg_rcanon ry Ny)).
        ring.
Qed.
