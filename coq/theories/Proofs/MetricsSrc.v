(* C06, source-derived obligations: helper lemmas and the tactic `src_tie`.

   Gen/MetricsSource.v (re-generated from the source text of fprint_metrics.py, array_metrics.py and fprint.py on every
   run) is NOT imported here, so this file builds whatever the source looks like; the theorems that tie the model of
   Model/Metrics.v to the generated definitions are stated and proved (by `src_tie`) in Properties/C06Src.v.

   `src_tie` proves  <model function on its inputs>  ==  <generated definition applied to the model's own sub-terms>:
   it unfolds both sides, names every sum of the source over a dict and proves it equal to the model's sum over the same
   list (pointwise, by `ring`), splits on every test `Qeq_bool _ _` / `Qle_bool _ _` of either side *separately* (the two
   sides need not spell a denominator the same way), closes the inconsistent combinations by linear / non-linear
   arithmetic and the consistent ones by `ring` / `field`.  An algebraically equivalent reformulation of a Python
   expression is therefore still proved; a different formula is not. *)
From Coq Require Import QArith Qabs Qminmax Lqa Lia Qfield.
From E3FP Require Import Base.Prelude Base.ZSet Base.PyExpr Model.Fprint Model.Metrics Proofs.MetricsBase Proofs.MetricsSparse.
Open Scope Q_scope.

(* ---- sums ---- *)
Lemma qsumr_sum_items (f : Z * Q -> Q) (g : Z -> Q -> Q) m :
  (forall k v, f (k, v) == g k v) -> qsumr (map f m) == sum_items g m.
Proof.
  intro H. rewrite qsumr_qsum. unfold sum_items. induction m as [|[k v] m IH]; simpl; [reflexivity|].
  rewrite H, IH. reflexivity.
Qed.

Lemma qsumr_sum_keys (f g : Z -> Q) ks : (forall k, f k == g k) -> qsumr (map f ks) == sum_keys g ks.
Proof.
  intro H. rewrite qsumr_qsum. unfold sum_keys. induction ks as [|k ks IH]; simpl; [reflexivity|].
  rewrite H, IH. reflexivity.
Qed.

(* ---- tests on integers written as tests on rationals ---- *)
Lemma Qeq_bool_inject_Z z : Qeq_bool (inject_Z z) 0 = (z =? 0)%Z.
Proof. unfold Qeq_bool, inject_Z; simpl. rewrite Z.mul_1_r. destruct z; reflexivity. Qed.

Lemma qlt_inject_Z i j : qlt (inject_Z i) (inject_Z j) = (i <? j)%Z.
Proof.
  unfold qlt. destruct (Qle_bool (inject_Z j) (inject_Z i)) eqn:E.
  - apply Qle_bool_iff in E. rewrite <- Zle_Qle in E. symmetry. apply Z.ltb_ge. exact E.
  - symmetry. apply Z.ltb_lt. apply Z.lt_nge. intro H. rewrite Zle_Qle in H. apply Qle_bool_iff in H. congruence.
Qed.

Lemma qlength_nil {A} : qlength (@nil A) = 0.
Proof. reflexivity. Qed.

Lemma qlength_cons_nz {A} (x : A) l : Qeq_bool (qlength (x :: l)) 0 = false.
Proof.
  unfold qlength. rewrite Qeq_bool_inject_Z. apply Z.eqb_neq. simpl length. lia.
Qed.

Lemma qgt_inject_Z i j : qgt (inject_Z i) (inject_Z j) = (j <? i)%Z.
Proof. exact (qlt_inject_Z j i). Qed.

(* ---- one unfolding of the loops of the model ---- *)
Lemma dsoergel_loop_step a b x y sad smax :
  dsoergel_loop (a :: x) (b :: y) sad smax =
  dsoergel_loop x y (if qpos (a - b) then sad + (a - b) else sad - (a - b)) (if qpos (a - b) then smax + a else smax + b).
Proof. simpl. destruct (qpos (a - b)); reflexivity. Qed.

Lemma stail_step i v t sad smax : stail ((i, v) :: t) sad smax = stail t (sad + v) (smax + v).
Proof. reflexivity. Qed.

Lemma smerge_step i v rx j w ry sad smax :
  smerge ((i, v) :: rx) ((j, w) :: ry) sad smax =
  smerge (if (i <? j)%Z || negb (j <? i)%Z then rx else (i, v) :: rx)
         (if negb (i <? j)%Z then ry else (j, w) :: ry)
         (if (i <? j)%Z then sad + v else if (j <? i)%Z then sad + w
          else if qpos (v - w) then sad + (v - w) else sad - (v - w))
         (if (i <? j)%Z then smax + v else if (j <? i)%Z then smax + w
          else if qpos (v - w) then smax + v else smax + w).
Proof.
  simpl. destruct (i <? j)%Z; [reflexivity|]. destruct (j <? i)%Z; [reflexivity|].
  cbv zeta. destruct (qpos (v - w)); reflexivity.
Qed.

(* a row of norm 0 has dot product 0 with every row (Cauchy-Schwarz on the expansions) *)
Lemma rdot_zero_of_norms n r s : in_range n r -> in_range n s -> rsumsq r * rsumsq s == 0 -> rdot r s == 0.
Proof.
  intros Hr Hs H. unfold rsumsq in H.
  pose proof (cauchy_schwarz (expand n r) (expand n s)) as CS.
  rewrite !(expand_dot n r) in CS by assumption. rewrite (expand_dot n s s Hs) in CS. nra.
Qed.

(* a rooted value as the pair (num, den2) *)
Definition rpair (r : rooted) : Q * Q := (rnum r, rden2 r).

(* ---- the tactic ---- *)
Ltac py_unfold :=
  unfold oeq, oeq2, handle, root_of_q, oroot_div, oif_eq, obind, odiv, osq, oadd, osub, omul, omax, omin, oneg, oabs, obin, oun,
         oconst, ovar, np_asarray, np_nan_to_num, np_root_nan_to_num, np_root_div, np_div, sum_values, qgt, qlt, qeq2, qeq4 in *.

Ltac model_unfold :=
  unfold fp_soergel, fp_pearson, fp_cosine, sp_cosine, arr_tanimoto, arr_dice, sp_tanimoto, sp_dice, soergel_finish in *;
  unfold fp_var, fp_tanimoto, fp_dice, rsumsq, fdiv, qpos, rpair, rzero in *;
  unfold fp_mean, fp_dot, fp_sumsq, diff_keys in *.

(* closed tests such as Qeq_bool (1 # 1) (0 # 1) *)
Ltac closed_tests :=
  repeat match goal with
  | |- context [Qeq_bool (?n # ?d) (?m # ?e)] =>
      let b := eval vm_compute in (Qeq_bool (n # d) (m # e)) in
      match b with true => idtac | false => idtac end;
      change (Qeq_bool (n # d) (m # e)) with b
  end.

Ltac case_tests :=
  repeat match goal with
  | |- context [Qeq_bool ?x ?y] =>
      let E := fresh "E" in
      destruct (Qeq_bool x y) eqn:E; [apply Qeq_bool_iff in E | apply Qeq_bool_neq in E]
  | |- context [(?i <? ?j)%Z] => destruct (i <? j)%Z
  | |- context [Qle_bool ?x ?y] =>
      let E := fresh "E" in
      destruct (Qle_bool x y) eqn:E; [apply Qle_bool_iff in E | apply (proj2 (not_true_iff_false _)) in E; rewrite Qle_bool_iff in E]
  end.

(* setoid-rewrite H : l == r in the goal and in every hypothesis that mentions l *)
Ltac rw_all H :=
  match type of H with
  | ?l == _ =>
      repeat match goal with
      | E : context [l] |- _ => lazymatch E with H => fail | _ => idtac end; rewrite H in E
      end;
      try rewrite H
  end.

Ltac use_sums := repeat match goal with H : qsumr _ == _ |- _ => rw_all H; clear H end.

Ltac nonzero :=
  match goal with
  | |- _ /\ _ => split; nonzero
  | |- ~ _ == _ => first [ assumption | lra | nra
                         | let N := fresh in intro N;
                           match goal with H : ~ _ == _ |- _ => apply H; rewrite ?N; ring end ]
  end.

Ltac atom_eq := first [ reflexivity | ring | field; nonzero ].

(* max / min / abs are atoms for ring, field and lra: name them, and identify two of them when their arguments are equal
   (possibly swapped) *)
Ltac name_atoms :=
  repeat match goal with
  | |- context [Qmax ?a ?b] => let M := fresh "M" in set (M := Qmax a b) in *
  | E : context [Qmax ?a ?b] |- _ => let M := fresh "M" in set (M := Qmax a b) in *
  | |- context [Qmin ?a ?b] => let M := fresh "M" in set (M := Qmin a b) in *
  | E : context [Qmin ?a ?b] |- _ => let M := fresh "M" in set (M := Qmin a b) in *
  | |- context [Qabs ?a] => let M := fresh "M" in set (M := Qabs a) in *
  | E : context [Qabs ?a] |- _ => let M := fresh "M" in set (M := Qabs a) in *
  end.

Ltac atom_congr :=
  first [ apply Q.max_compat; atom_eq | rewrite Q.max_comm; apply Q.max_compat; atom_eq
        | apply Q.min_compat; atom_eq | rewrite Q.min_comm; apply Q.min_compat; atom_eq
        | apply Qabs_wd; atom_eq ].

Ltac relate_atoms :=
  repeat match goal with
  | M1 := _ : Q, M2 := _ : Q |- _ =>
      lazymatch M1 with M2 => fail | _ => idtac end;
      let H := fresh in
      assert (H : M1 == M2) by (unfold M1, M2; atom_congr);
      rw_all H; clear H; clear M1
  end;
  repeat match goal with M := _ : Q |- _ => clearbody M end.

Ltac leaf_eq :=
  match goal with
  | |- _ /\ _ => split; leaf_eq
  | |- _ == _ => atom_eq
  | |- _ == _ => lra
  | |- @eq (Q * Q) _ _ => reflexivity
  end.

Ltac pointwise := intros; cbn [fst snd]; cbv beta; first [ reflexivity | ring | name_atoms; relate_atoms; leaf_eq ].

(* every sum of the source over a dict is a sum of the model over the same list: name it, keep the equation *)
Ltac sum_eqs :=
  repeat match goal with
  | |- context [sum_items ?g ?m] =>
      match goal with
      | |- context [qsumr (map ?f m)] =>
          let H := fresh "HS" in
          assert (H : qsumr (map f m) == sum_items g m) by (apply qsumr_sum_items; pointwise);
          let S := fresh "S" in set (S := sum_items g m) in *; clearbody S
      end
  | |- context [sum_keys ?g ?m] =>
      match goal with
      | |- context [qsumr (map ?f m)] =>
          let H := fresh "HS" in
          assert (H : qsumr (map f m) == sum_keys g m) by (apply qsumr_sum_keys; pointwise);
          let S := fresh "S" in set (S := sum_keys g m) in *; clearbody S
      end
  end.

Ltac leaf :=
  cbv beta iota zeta; cbn [fst snd rnum rden2 negb orb andb b01]; cbv beta iota;
  lazymatch goal with
  | |- True => exact I
  | |- _ => use_sums; name_atoms; relate_atoms;
            lazymatch goal with
            | |- False => first [ lra | nra ]
            | |- _ => first [ solve [leaf_eq] | exfalso; first [ lra | nra ] ]
            end
  end.

(* a hypothesis P -> C whose premise follows from the case at hand *)
Ltac use_implications :=
  repeat match goal with
  | H : ?P -> _ |- _ =>
      lazymatch type of P with Prop => idtac end;
      let HP := fresh in assert (HP : P) by (first [ assumption | lra | nra ]); specialize (H HP)
  end.

Ltac split_kinds :=
  repeat match goal with
  | |- context [fkind ?a] => destruct (fkind a)
  | |- context [is_count_like ?a] => destruct (is_count_like a)
  end; cbn [negb orb andb].

Ltac split_lists :=
  repeat match goal with
  | |- context [match ?l with [] => _ | _ :: _ => _ end] => destruct l
  end.

Ltac src_core :=
  py_unfold; rewrite ?qlength_nil, ?qlength_cons_nz; closed_tests; cbv beta zeta; cbn [fst snd rnum rden2] in *;
  sum_eqs; case_tests; try use_implications; leaf.

(* the generated definitions (and the glue definitions of Properties/C06Src.v) are in the hint database metric_src *)
Ltac src_tie :=
  intros;
  try match goal with
      | H1 : in_range ?n ?r, H2 : in_range ?n ?s |- _ => pose proof (rdot_zero_of_norms n r s H1 H2)
      end;
  first [ do 4 eexists; split; [apply smerge_step|]
        | do 2 eexists; split; [first [apply dsoergel_loop_step | apply stail_step]|]
        | idtac ];
  autounfold with metric_src in *; rewrite ?qlt_inject_Z, ?qgt_inject_Z;
  model_unfold; change DBL_MAX with np_dbl_max; rewrite <- ?Qeq_bool_inject_Z;
  repeat match goal with |- _ /\ _ => split end; split_kinds; split_lists; src_core.
