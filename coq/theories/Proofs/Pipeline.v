(* Lemmas about the entry points of Model/Pipeline.v (conformer loop, per-level dict, level selection, saving,
   fprints_from_smiles): used by Properties/C14.v and by Proofs/Batch.v. *)
From Coq Require Import Ascii.
From E3FP Require Import Base.Prelude Model.Fprint Model.Pipeline Gen.PipelineFacts Proofs.PipelineNames.
Open Scope Z_scope.

(* ---- specification vocabulary ------------------------------------------------------------------------------- *)
Fixpoint mapi_from {A B} (j : Z) (f : Z -> A -> B) (l : list A) : list B :=
  match l with [] => [] | a :: t => f j a :: mapi_from (j + 1) f t end.

(* the name a fingerprint gets: untouched when the molecule has no name *)
Definition tag (x : fp) (n : option string) : fp := match n with Some s => with_name x (Some s) | None => x end.

(* name of conformer j, as the loop computes it *)
Definition namer (name : option string) (j : Z) : result (option string) :=
  match name with
  | Some s => rbind (conf_name_of s j) (fun n => Ok (Some n))
  | None => Ok None
  end.

(* number of conformers fingerprinted: all of them unless 0 <= first < n *)
Definition cutoff (first : Z) (n : nat) : nat :=
  if (0 <=? first) && (first <? Z.of_nat n) then Z.to_nat first else n.

Section Expected.
  Variable conformer : Type.
  Variable g : conformer -> Z -> fp.            (* direct fingerprinting of a conformer, queried at level k *)
  Variable nmf : Z -> option string.            (* conformer index -> name *)
  Definition column (P : list conformer) (k : Z) : list fp := mapi_from 0 (fun j c => tag (g c k) (nmf j)) P.
  Definition expected_dict (levels : list Z) (P : list conformer) : fdict :=
    match P with [] => [] | _ => map (fun k => (k, column P k)) levels end.
End Expected.

(* ---- generic list / dict lemmas ----------------------------------------------------------------------------------- *)
Lemma mapi_from_app {A B} (f : Z -> A -> B) l1 : forall j l2,
  mapi_from j f (l1 ++ l2) = mapi_from j f l1 ++ mapi_from (j + Z.of_nat (length l1)) f l2.
Proof.
  induction l1 as [|a t IH]; intros j l2; simpl.
  - f_equal. lia.
  - rewrite IH. do 3 f_equal. lia.
Qed.

Lemma mapi_from_const {A B} (f : A -> B) l : forall j, mapi_from j (fun _ a => f a) l = map f l.
Proof. induction l as [|a t IH]; intro j; simpl; [reflexivity|]. rewrite IH. reflexivity. Qed.

Lemma mapi_from_length {A B} (f : Z -> A -> B) l : forall j, length (mapi_from j f l) = length l.
Proof. induction l as [|a t IH]; intro j; simpl; [reflexivity|]. rewrite IH. reflexivity. Qed.

Lemma zrange_from_in lo n k : In k (zrange_from lo n) <-> lo <= k < lo + Z.of_nat n.
Proof.
  revert lo. induction n as [|n IH]; intro lo; simpl; [lia|]. rewrite IH. lia.
Qed.

Lemma zrange_from_nodup lo n : NoDup (zrange_from lo n).
Proof.
  revert lo. induction n as [|n IH]; intro lo; simpl; constructor; [|apply IH].
  rewrite zrange_from_in. lia.
Qed.

Lemma zrange_in n k : In k (zrange n) <-> 0 <= k < n.
Proof. unfold zrange. rewrite zrange_from_in. lia. Qed.

Lemma level_range_nodup level ai : NoDup (level_range level ai).
Proof.
  unfold level_range. destruct (single_level level ai); [constructor; [intros []|constructor]|apply zrange_from_nodup].
Qed.

Lemma dict_append_skip d1 : forall d2 k x,
  ~ In k (map fst d1) -> dict_append (d1 ++ d2) k x = d1 ++ dict_append d2 k x.
Proof.
  induction d1 as [|[k' l] t IH]; intros d2 k x H; simpl; [reflexivity|].
  simpl in H. destruct (k =? k') eqn:E; [apply Z.eqb_eq in E; subst; tauto|]. rewrite IH; tauto.
Qed.

Lemma fold_append_first (x : Z -> fp) todo : forall done,
  NoDup (done ++ todo) ->
  fold_left (fun d k => dict_append d k (x k)) todo (map (fun k => (k, [x k])) done)
  = map (fun k => (k, [x k])) (done ++ todo).
Proof.
  induction todo as [|k t IH]; intros done H; simpl; [rewrite app_nil_r; reflexivity|].
  assert (Hk : ~ In k done).
  { apply NoDup_remove_2 in H. intro Q. apply H. apply in_or_app. auto. }
  rewrite <- (app_nil_r (map _ done)), dict_append_skip; [|rewrite map_map; simpl; rewrite map_id; exact Hk].
  simpl. replace (map (fun k0 => (k0, [x k0])) done ++ [(k, [x k])]) with (map (fun k0 => (k0, [x k0])) (done ++ [k]))
    by (rewrite map_app; reflexivity).
  rewrite IH; rewrite <- app_assoc; [reflexivity|exact H].
Qed.

Lemma fold_append_next (l : Z -> list fp) (x : Z -> fp) todo : forall done,
  NoDup (done ++ todo) ->
  fold_left (fun d k => dict_append d k (x k)) todo
            (map (fun k => (k, l k ++ [x k])) done ++ map (fun k => (k, l k)) todo)
  = map (fun k => (k, l k ++ [x k])) (done ++ todo).
Proof.
  induction todo as [|k t IH]; intros done H; simpl; [rewrite !app_nil_r; reflexivity|].
  assert (Hk : ~ In k done).
  { apply NoDup_remove_2 in H. intro Q. apply H. apply in_or_app. auto. }
  rewrite dict_append_skip; [|rewrite map_map; simpl; rewrite map_id; exact Hk].
  simpl. rewrite Z.eqb_refl.
  replace (map (fun k0 => (k0, l k0 ++ [x k0])) done ++ (k, l k ++ [x k]) :: map (fun k0 => (k0, l k0)) t)
    with (map (fun k0 => (k0, l k0 ++ [x k0])) (done ++ [k]) ++ map (fun k0 => (k0, l k0)) t)
    by (rewrite map_app, <- app_assoc; reflexivity).
  rewrite IH; rewrite <- app_assoc; [reflexivity|exact H].
Qed.

Lemma dict_get_map (f : Z -> list fp) levels k :
  In k levels -> dict_get (map (fun k => (k, f k)) levels) k = Some (f k).
Proof.
  induction levels as [|a t IH]; simpl; [tauto|]. intros [->|H].
  - rewrite Z.eqb_refl. reflexivity.
  - destruct (k =? a) eqn:E; [apply Z.eqb_eq in E; subst; reflexivity|auto].
Qed.

Lemma dict_get_map_none (f : Z -> list fp) levels k :
  ~ In k levels -> dict_get (map (fun k => (k, f k)) levels) k = None.
Proof.
  induction levels as [|a t IH]; simpl; [reflexivity|]. intro H.
  destruct (k =? a) eqn:E; [apply Z.eqb_eq in E; subst; tauto|]. apply IH. tauto.
Qed.

Lemma fold_max_is_max M l : forall k0,
  (forall k, In k (k0 :: l) -> k <= M) -> In M (k0 :: l) -> fold_left Z.max l k0 = M.
Proof.
  induction l as [|a t IH]; intros k0 Hle Hin; simpl.
  - destruct Hin as [->|[]]. reflexivity.
  - apply IH.
    + intros k [<-|Hk]; [|apply Hle; simpl; auto].
      pose proof (Hle k0 (or_introl eq_refl)). pose proof (Hle a (or_intror (or_introl eq_refl))). lia.
    + destruct Hin as [->|[->|Hin]].
      * pose proof (Hle a (or_intror (or_introl eq_refl))). left. lia.
      * pose proof (Hle k0 (or_introl eq_refl)). left. lia.
      * right. exact Hin.
Qed.

Lemma dict_max_key_map (f : Z -> list fp) levels M :
  In M levels -> (forall k, In k levels -> k <= M) -> dict_max_key (map (fun k => (k, f k)) levels) = Some M.
Proof.
  destruct levels as [|k0 t]; simpl; [tauto|]. intros Hin Hle. f_equal.
  rewrite map_map. simpl. rewrite map_id. apply fold_max_is_max; assumption.
Qed.

(* ---- level selection (pipeline.fprints_from_fprints_dict) ------------------------------------------------------ *)
Lemma select_empty level : fprints_from_fprints_dict [] level = Raises EValue.
Proof. reflexivity. Qed.

Lemma select_from_levels (f : Z -> list fp) levels M req :
  In M levels -> (forall k, In k levels -> k <= M) ->
  fprints_from_fprints_dict (map (fun k => (k, f k)) levels) req
  = Ok (match req with
        | Some l => if in_dec Z.eq_dec l levels then f l else f M
        | None => f M
        end).
Proof.
  intros Hin Hle. unfold fprints_from_fprints_dict.
  rewrite (dict_max_key_map f levels M Hin Hle), (dict_get_map f levels M Hin).
  destruct req as [l|]; [|reflexivity].
  destruct (in_dec Z.eq_dec l levels) as [H|H].
  - rewrite (dict_get_map f levels l H). reflexivity.
  - rewrite (dict_get_map_none f levels l H). reflexivity.
Qed.

(* ---- the conformer loop ----------------------------------------------------------------------------------------- *)
Section EntryProofs.
  Variable conformer : Type.
  Variable opts : Type.
  Variable fprint : opts -> Z -> conformer -> Z -> Z -> result fp.
  Variable fp_init : opts -> Z -> Z -> result unit.
  Variable content : Type.
  Variable pickle : list fp -> content.

  Variable g : conformer -> Z -> fp.
  Variable nmf : Z -> option string.

  Lemma level_steps_ok o bits level name j c levels : forall d,
    (forall k, In k levels -> fprint o bits c level k = Ok (g c k)) ->
    namer name j = Ok (nmf j) ->
    level_steps conformer opts fprint o bits level name j c levels d
    = Ok (fold_left (fun d k => dict_append d k (tag (g c k) (nmf j))) levels d).
  Proof.
    induction levels as [|i rest IH]; intros d Hf Hn; simpl; [reflexivity|].
    rewrite (Hf i (or_introl eq_refl)). simpl.
    assert (E : match name with
                | Some s => rbind (conf_name_of s j) (fun n => Ok (with_name (g c i) (Some n)))
                | None => Ok (g c i)
                end = Ok (tag (g c i) (nmf j))).
    { unfold namer in Hn. destruct name as [s|].
      - destruct (conf_name_of s j) as [n|e]; simpl in *; [|discriminate]. inversion Hn as [Q]. reflexivity.
      - inversion Hn as [Q]. reflexivity. }
    rewrite E. simpl. apply IH; [intros k Hk; apply Hf; simpl; auto|exact Hn].
  Qed.

  (* the loop without the cut-off test *)
  Fixpoint loop_all (o : opts) (bits level : Z) (name : option string) (levels : list Z) (j : Z)
           (confs : list conformer) (d : fdict) : result (fdict * Z) :=
    match confs with
    | [] => Ok (d, j - 1)
    | c :: t => rbind (level_steps conformer opts fprint o bits level name j c levels d)
                      (fun d' => loop_all o bits level name levels (j + 1) t d')
    end.

  Lemma conf_loop_nohit o bits level ai name first R : forall j d,
    (forall i, j <= i < j + Z.of_nat (length R) -> i <> first) ->
    conf_loop conformer opts fprint o bits level ai name first j R d
    = loop_all o bits level name (level_range level ai) j R d.
  Proof.
    induction R as [|c t IH]; intros j d H; simpl; [reflexivity|].
    destruct (j =? first) eqn:E.
    - apply Z.eqb_eq in E. exfalso. apply (H j); [simpl; lia|exact E].
    - destruct (level_steps _ _ _ _ _ _ _ _ _ _ _) as [d'|e]; simpl; [|reflexivity].
      apply IH. intros i Hi. apply H. simpl length. lia.
  Qed.

  Lemma conf_loop_hit o bits level ai name first R : forall j d,
    j <= first < j + Z.of_nat (length R) ->
    conf_loop conformer opts fprint o bits level ai name first j R d
    = loop_all o bits level name (level_range level ai) j (firstn (Z.to_nat (first - j)) R) d.
  Proof.
    induction R as [|c t IH]; intros j d H; simpl in H; [lia|]. simpl conf_loop.
    destruct (j =? first) eqn:E.
    - apply Z.eqb_eq in E. subst. rewrite Z.sub_diag. reflexivity.
    - apply Z.eqb_neq in E. replace (Z.to_nat (first - j)) with (S (Z.to_nat (first - (j + 1)))) by lia.
      simpl. destruct (level_steps _ _ _ _ _ _ _ _ _ _ _) as [d'|e]; simpl; [|reflexivity].
      apply IH. lia.
  Qed.

  Lemma loop_all_spec o bits level name levels R : forall P,
    NoDup levels ->
    (forall c k, In c R -> In k levels -> fprint o bits c level k = Ok (g c k)) ->
    (forall j, namer name j = Ok (nmf j)) ->
    loop_all o bits level name levels (Z.of_nat (length P)) R (expected_dict conformer g nmf levels P)
    = Ok (expected_dict conformer g nmf levels (P ++ R), Z.of_nat (length P) + Z.of_nat (length R) - 1).
  Proof.
    induction R as [|c t IH]; intros P Hnd Hf Hn; simpl.
    - rewrite app_nil_r. f_equal. f_equal. lia.
    - rewrite (level_steps_ok o bits level name _ c levels _ (fun k Hk => Hf c k (or_introl eq_refl) Hk) (Hn _)).
      simpl.
      assert (E : fold_left (fun d k => dict_append d k (tag (g c k) (nmf (Z.of_nat (length P))))) levels
                            (expected_dict conformer g nmf levels P)
                  = expected_dict conformer g nmf levels (P ++ [c])).
      { destruct P as [|p0 P'].
        - simpl. exact (fold_append_first (fun k => tag (g c k) (nmf 0)) levels [] Hnd).
        - unfold expected_dict at 1.
          pose proof (fold_append_next (column conformer g nmf (p0 :: P')) (fun k => tag (g c k) (nmf (Z.of_nat (length (p0 :: P'))))) levels [] Hnd) as Q.
          cbn [map app] in Q. rewrite Q. clear Q.
          cbn [app]. unfold expected_dict. apply map_ext. intro k. f_equal.
          unfold column. rewrite (mapi_from_app _ (p0 :: P') 0 [c]). reflexivity. }
      rewrite E. replace (Z.of_nat (length P) + 1) with (Z.of_nat (length (P ++ [c]))) by (rewrite app_length; simpl; lia).
      rewrite IH; [|exact Hnd|intros; apply Hf; simpl; auto|exact Hn].
      rewrite <- app_assoc. simpl. f_equal. f_equal. rewrite app_length. simpl. lia.
  Qed.

  Lemma cutoff_le first n : (cutoff first n <= n)%nat.
  Proof. unfold cutoff. destruct ((0 <=? first) && (first <? Z.of_nat n)) eqn:E; lia. Qed.

  (* the loop as called by fprints_dict_from_mol *)
  Lemma conf_loop_spec o bits level ai name first confs :
    let N := cutoff first (length confs) in
    (forall c k, In c (firstn N confs) -> In k (level_range level ai) -> fprint o bits c level k = Ok (g c k)) ->
    (forall j, namer name j = Ok (nmf j)) ->
    conf_loop conformer opts fprint o bits level ai name first 0 confs []
    = Ok (expected_dict conformer g nmf (level_range level ai) (firstn N confs), Z.of_nat N - 1).
  Proof.
    intros N Hf Hn. subst N. unfold cutoff in *.
    destruct ((0 <=? first) && (first <? Z.of_nat (length confs))) eqn:E.
    - rewrite conf_loop_hit by lia. rewrite Z.sub_0_r.
      pose proof (loop_all_spec o bits level name (level_range level ai) (firstn (Z.to_nat first) confs) []
                                (level_range_nodup level ai) Hf Hn) as Q.
      simpl in Q. rewrite Q. f_equal. f_equal. rewrite firstn_length. lia.
    - rewrite conf_loop_nohit by (intros i Hi; lia).
      rewrite firstn_all in *.
      pose proof (loop_all_spec o bits level name (level_range level ai) confs []
                                (level_range_nodup level ai) Hf Hn) as Q.
      simpl in Q. rewrite Q. reflexivity.
  Qed.

  Notation dict_from_mol := (fprints_dict_from_mol conformer opts fprint fp_init content pickle).
  Notation from_mol := (fprints_from_mol conformer opts fprint fp_init content pickle).

  (* ---- dict_spec: without saving -------------------------------------------------------------------------------- *)
  Lemma dict_spec fs (m : mol conformer) (a : fargs opts) :
    let level := normal_level (a_level a) in
    let bits := normal_bits (a_bits a) in
    let levels := level_range level (a_all_iters a) in
    let N := cutoff (a_first a) (length (mconfs m)) in
    a_save a = false ->
    mconfs m <> [] ->
    fp_init (a_opts a) bits level = Ok tt ->
    (forall c k, In c (firstn N (mconfs m)) -> In k levels -> fprint (a_opts a) bits c level k = Ok (g c k)) ->
    (forall j, namer (effective_name conformer m) j = Ok (nmf j)) ->
    dict_from_mol fs m a
    = mkout (Ok (expected_dict conformer g nmf levels (firstn N (mconfs m)))) fs (Some (Z.of_nat N)).
  Proof.
    intros level bits levels N Hs Hc Hi Hf Hn. unfold fprints_dict_from_mol. rewrite Hs.
    fold level. fold bits. rewrite Hi.
    destruct (mconfs m) as [|c0 t] eqn:Ec; [congruence|].
    rewrite (conf_loop_spec (a_opts a) bits level (a_all_iters a) (effective_name conformer m) (a_first a) (c0 :: t) Hf Hn).
    fold N. f_equal. f_equal. lia.
  Qed.

  (* an unnamed molecule: the fingerprints are exactly what direct fingerprinting returned *)
  Lemma column_unnamed P k : (forall j, nmf j = None) -> column conformer g nmf P k = map (fun c => g c k) P.
  Proof.
    intro H. unfold column. rewrite <- (mapi_from_const (fun c => g c k) P 0).
    generalize 0. induction P as [|p t IH]; intro j; simpl; [reflexivity|]. rewrite H, IH. reflexivity.
  Qed.

  (* ---- from_mol: the list of the requested level ------------------------------------------------------------------ *)
  Lemma select_expected levels P M req :
    P <> [] -> In M levels -> (forall k, In k levels -> k <= M) ->
    (match req with Some l => l = M \/ ~ In l levels | None => True end) ->
    fprints_from_fprints_dict (expected_dict conformer g nmf levels P) req = Ok (column conformer g nmf P M).
  Proof.
    intros HP Hin Hle Hreq. unfold expected_dict. destruct P as [|p0 P']; [congruence|].
    rewrite (select_from_levels (column conformer g nmf (p0 :: P')) levels M req Hin Hle).
    destruct req as [l|]; [|reflexivity].
    destruct (in_dec Z.eq_dec l levels) as [H|H]; [|reflexivity].
    destruct Hreq as [->|Hn]; [reflexivity|tauto].
  Qed.
End EntryProofs.
