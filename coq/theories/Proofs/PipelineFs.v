(* Lemmas about the file-state map of Model/Pipeline.v (newest binding wins): used by C14 (saved_reload) and C15. *)
From E3FP Require Import Base.Prelude Model.Pipeline.
Open Scope Z_scope.

Lemma path_eqb_refl p : path_eqb p p = true.
Proof. unfold path_eqb. rewrite !String.eqb_refl. reflexivity. Qed.

Lemma path_eqb_eq p q : path_eqb p q = true <-> p = q.
Proof.
  unfold path_eqb. destruct p as [a b], q as [c d]. simpl. rewrite andb_true_iff, !String.eqb_eq.
  split; [intros [-> ->]; reflexivity|intro H; inversion H; auto].
Qed.

Lemma path_eqb_neq p q : p <> q -> path_eqb p q = false.
Proof. intro H. destruct (path_eqb p q) eqn:E; [apply path_eqb_eq in E; contradiction|reflexivity]. Qed.

Section Fs.
  Variable content : Type.
  Implicit Types fs : fsmap content.

  Lemma fs_writes_rev ws : forall fs, fs_writes fs ws = rev ws ++ fs.
  Proof.
    unfold fs_writes. induction ws as [|w t IH]; intro fs; simpl; [reflexivity|].
    rewrite IH. unfold fs_write. rewrite <- app_assoc. reflexivity.
  Qed.

  Lemma lookup_app_notin (l : list (path * content)) fs p :
    ~ In p (map fst l) -> fs_lookup (l ++ fs) p = fs_lookup fs p.
  Proof.
    induction l as [|[q c] t IH]; simpl; intro H; [reflexivity|].
    rewrite path_eqb_neq by (intro Q; apply H; auto). apply IH. tauto.
  Qed.

  Lemma lookup_app_in (l : list (path * content)) fs p c :
    NoDup (map fst l) -> In (p, c) l -> fs_lookup (l ++ fs) p = Some c.
  Proof.
    induction l as [|[q d] t IH]; simpl; intros Hnd Hin; [tauto|].
    inversion Hnd as [|? ? Hq Hnd']; subst. destruct Hin as [E|Hin].
    - inversion E; subst. rewrite path_eqb_refl. reflexivity.
    - rewrite path_eqb_neq; [apply IH; assumption|].
      intro Q. subst q. apply Hq. change p with (fst (p, c)). apply in_map. exact Hin.
  Qed.

  Lemma lookup_writes_in ws fs p c :
    NoDup (map fst ws) -> In (p, c) ws -> fs_lookup (fs_writes fs ws) p = Some c.
  Proof.
    intros Hnd Hin. rewrite fs_writes_rev. apply lookup_app_in.
    - rewrite map_rev. apply NoDup_rev. exact Hnd.
    - apply in_rev in Hin. exact Hin.
  Qed.

  Lemma lookup_writes_notin ws fs p :
    ~ In p (map fst ws) -> fs_lookup (fs_writes fs ws) p = fs_lookup fs p.
  Proof.
    intro H. rewrite fs_writes_rev. apply lookup_app_notin. rewrite map_rev. rewrite <- in_rev. exact H.
  Qed.

  Lemma isfile_lookup fs p : fs_isfile fs p = true <-> exists c, fs_lookup fs p = Some c.
  Proof.
    unfold fs_isfile. destruct (fs_lookup fs p) as [c|]; split; intro H; eauto; try discriminate.
    destruct H as [c H]. discriminate.
  Qed.
  (* ---- writes restricted to the files that may be written (fs_keep) ---------------------------------------------- *)
  Lemma in_map_fst_filter (f : path * content -> bool) l x : In x (map fst (filter f l)) -> In x (map fst l).
  Proof.
    induction l as [|a t IH]; simpl; [tauto|]. destruct (f a); simpl; intros H; [destruct H; auto|auto].
  Qed.

  Lemma NoDup_map_fst_filter (f : path * content -> bool) l : NoDup (map fst l) -> NoDup (map fst (filter f l)).
  Proof.
    induction l as [|a t IH]; simpl; intro H; [constructor|]. inversion H; subst.
    destruct (f a); simpl; [constructor; [intro Q; apply H2; eapply in_map_fst_filter; eauto|auto]|auto].
  Qed.

  Lemma keep_skipped ow fs (l : list (path * content)) p : fs_isfile fs p && negb ow = true -> ~ In p (map fst (filter (fs_keep ow fs) l)).
  Proof.
    intros H Q. apply in_map_iff in Q. destruct Q as ([q c] & E & Hin). simpl in E. subst q.
    apply filter_In in Hin. destruct Hin as [_ K]. unfold fs_keep in K. simpl in K. rewrite H in K. discriminate.
  Qed.

  Lemma keep_kept ow fs (l : list (path * content)) p c : In (p, c) l -> fs_isfile fs p && negb ow = false -> In (p, c) (filter (fs_keep ow fs) l).
  Proof. intros Hin H. apply filter_In. split; [exact Hin|]. unfold fs_keep. simpl. rewrite H. reflexivity. Qed.

  Lemma keep_ext ow (a b : fsmap content) (l : list (path * content)) :
    (forall w, In w l -> fs_isfile a (fst w) = fs_isfile b (fst w)) -> filter (fs_keep ow a) l = filter (fs_keep ow b) l.
  Proof.
    induction l as [|w t IH]; simpl; intro H; [reflexivity|].
    rewrite IH by (intros; apply H; auto).
    assert (E : fs_keep ow a w = fs_keep ow b w) by (unfold fs_keep; rewrite (H w (or_introl eq_refl)); reflexivity).
    rewrite E. reflexivity.
  Qed.

  Lemma keep_overwrite fs (l : list (path * content)) : filter (fs_keep true fs) l = l.
  Proof.
    induction l as [|w t IH]; simpl; [reflexivity|]. rewrite IH.
    assert (E : fs_keep true fs w = true) by (unfold fs_keep; simpl; rewrite andb_false_r; reflexivity).
    rewrite E. reflexivity.
  Qed.

  (* the directory after the kept writes: an existing file is untouched (overwrite off), a planned missing one is written *)
  Lemma lookup_kept_writes_existing ow fs (l : list (path * content)) p :
    fs_isfile fs p && negb ow = true -> fs_lookup (fs_writes fs (filter (fs_keep ow fs) l)) p = fs_lookup fs p.
  Proof. intro H. apply lookup_writes_notin. apply keep_skipped. exact H. Qed.

  Lemma lookup_kept_writes_new ow fs (l : list (path * content)) p c :
    NoDup (map fst l) -> In (p, c) l -> fs_isfile fs p && negb ow = false ->
    fs_lookup (fs_writes fs (filter (fs_keep ow fs) l)) p = Some c.
  Proof.
    intros Hnd Hin H. apply lookup_writes_in; [apply NoDup_map_fst_filter; exact Hnd|apply keep_kept; assumption].
  Qed.

  Lemma isfile_write_other fs (w : path * content) q : q <> fst w -> fs_isfile (fs_write fs w) q = fs_isfile fs q.
  Proof.
    intro H. unfold fs_isfile, fs_write. destruct w as [p c]. simpl in *. rewrite path_eqb_neq by exact H. reflexivity.
  Qed.
End Fs.
