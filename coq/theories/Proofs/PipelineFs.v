(* Lemmas about the file-state map of Model/Pipeline.v (newest binding wins): used by C14 (saved_reload) and C15. *)
From E3FP Require Import Base.Prelude Model.Pipeline.
Open Scope Z_scope.

Lemma path_eqb_refl p : path_eqb p p = true.
Proof. unfold path_eqb. rewrite !String.eqb_refl. reflexivity. Qed.

Lemma path_eqb_eq p q : path_eqb p q = true <-> p = q.
Proof.
  unfold path_eqb. destruct p as [a b], q as [c d]. simpl. rewrite andb_true_iff, !String.eqb_eq.
  split; [intros [-> ->]; reflexivity|intro H; inversion H; auto].
Qed.

Lemma path_eqb_neq p q : p <> q -> path_eqb p q = false.
Proof. intro H. destruct (path_eqb p q) eqn:E; [apply path_eqb_eq in E; contradiction|reflexivity]. Qed.

Section Fs.
  Variable content : Type.
  Implicit Types fs : fsmap content.

  Lemma fs_writes_rev ws : forall fs, fs_writes fs ws = rev ws ++ fs.
  Proof.
    unfold fs_writes. induction ws as [|w t IH]; intro fs; simpl; [reflexivity|].
    rewrite IH. unfold fs_write. rewrite <- app_assoc. reflexivity.
  Qed.

  Lemma lookup_app_notin (l : list (path * content)) fs p :
    ~ In p (map fst l) -> fs_lookup (l ++ fs) p = fs_lookup fs p.
  Proof.
    induction l as [|[q c] t IH]; simpl; intro H; [reflexivity|].
    rewrite path_eqb_neq by (intro Q; apply H; auto). apply IH. tauto.
  Qed.

  Lemma lookup_app_in (l : list (path * content)) fs p c :
    NoDup (map fst l) -> In (p, c) l -> fs_lookup (l ++ fs) p = Some c.
  Proof.
    induction l as [|[q d] t IH]; simpl; intros Hnd Hin; [tauto|].
    inversion Hnd as [|? ? Hq Hnd']; subst. destruct Hin as [E|Hin].
    - inversion E; subst. rewrite path_eqb_refl. reflexivity.
    - rewrite path_eqb_neq; [apply IH; assumption|].
      intro Q. subst q. apply Hq. change p with (fst (p, c)). apply in_map. exact Hin.
  Qed.

  Lemma lookup_writes_in ws fs p c :
    NoDup (map fst ws) -> In (p, c) ws -> fs_lookup (fs_writes fs ws) p = Some c.
  Proof.
    intros Hnd Hin. rewrite fs_writes_rev. apply lookup_app_in.
    - rewrite map_rev. apply NoDup_rev. exact Hnd.
    - apply in_rev in Hin. exact Hin.
  Qed.

  Lemma lookup_writes_notin ws fs p :
    ~ In p (map fst ws) -> fs_lookup (fs_writes fs ws) p = fs_lookup fs p.
  Proof.
    intro H. rewrite fs_writes_rev. apply lookup_app_notin. rewrite map_rev. rewrite <- in_rev. exact H.
  Qed.

  Lemma isfile_lookup fs p : fs_isfile fs p = true <-> exists c, fs_lookup fs p = Some c.
  Proof.
    unfold fs_isfile. destruct (fs_lookup fs p) as [c|]; split; intro H; eauto; try discriminate.
    destruct H as [c H]. discriminate.
  Qed.
End Fs.
