(* C14's all_iters clause for the real per-conformer model: the premise `fprint_truncation` of all_iters_spec is
   discharged from C12 (Proofs/E3FPIterRun.v: run_prefix_run, truncation_run) for model M1 (Model/E3FP.v).

   The per-conformer function of the entry-point model is instantiated with
     fprint_M1 o bits c L k  =  run (level cap L) on the scene c, then get_fingerprint_at_level(k)
   where a "conformer" is an M1 scene (molecule + coordinates over the ring dictionary D), `o` the M1 options (their level
   field is overridden by the cap), `counts` and `mask` are fixed, and `fuel` bounds the number of iterations. *)
From E3FP Require Import Base.Prelude Base.ZSet Model.Geometry Model.Stereo Model.Fprint Model.E3FP
  Gen.Constants Gen.AngleTable Proofs.E3FPDedup Proofs.E3FPIter Proofs.E3FPIterTerm Proofs.E3FPIterRun.
From E3FP Require Model.Pipeline Proofs.PipelineNames Proofs.Pipeline Proofs.PipelineSpec.
Open Scope Z_scope.

Section M1.
  Variable D : ringdict.
  Variable C : sconsts.
  Variable fuel : nat.
  Variable counts : bool.
  Variable mask : list Z.

  Definition fprint_M1 (o : opts) (bits : Z) (c : mol D) (L k : Z) : result fp :=
    rbind (run D C fuel (o_with_level o L) c)
          (fun st => fingerprint_query (o_with_level o L) counts bits st (Some k) mask).

  (* C12 for fprint_M1: what a run to level L answers at level k <= L is what a run limited to k answers *)
  Lemma fprint_M1_truncation o bits c L k x :
    (Z.to_nat L < fuel)%nat -> 0 <= k <= L ->
    fprint_M1 o bits c L k = Ok x -> fprint_M1 o bits c k k = Ok x.
  Proof.
    intros Hfuel Hk. unfold fprint_M1.
    destruct (run D C fuel (o_with_level o L) c) as [stL|e] eqn:EL; simpl; [|discriminate].
    destruct (run_prefix_run D C o c k L fuel fuel stL) as (stk & Ek & _); [lia|left; lia|exact EL|lia|].
    rewrite Ek. simpl.
    destruct (truncation_run D C o c k L fuel fuel stL stk mask Hk EL Ek) as [_ T]. rewrite (T counts bits). auto.
  Qed.
End M1.

(* all_iters_spec with the per-conformer function of model M1: no truncation premise is left *)
Lemma all_iters_spec_M1 (D : ringdict) (C : sconsts) (fuel : nat) (counts : bool) (mask : list Z)
      (fp_init : opts -> Z -> Z -> result unit) (content : Type) (pickle : list fp -> content)
      (g : mol D -> Z -> fp) (nmf : Z -> option string)
      (fs : Pipeline.fsmap content) (m : Pipeline.mol (mol D)) (a : Pipeline.fargs opts) (L k : Z) :
  let bits := Pipeline.normal_bits (Pipeline.a_bits a) in
  let N := Proofs.Pipeline.cutoff (Pipeline.a_first a) (length (Pipeline.mconfs m)) in
  let a_k := Pipeline.mkfargs (Pipeline.a_bits a) (Some k) (Pipeline.a_first a) (Pipeline.a_opts a)
                              (Pipeline.a_out_dir_base a) (Pipeline.a_out_ext a) false false (Pipeline.a_overwrite a) in
  let dict := Pipeline.fprints_dict_from_mol (mol D) opts (fprint_M1 D C fuel counts mask) fp_init content pickle in
  (Z.to_nat L < fuel)%nat ->
  Pipeline.a_level a = Some L -> 0 <= k <= L -> Pipeline.a_all_iters a = true -> Pipeline.a_save a = false ->
  Pipeline.mconfs m <> [] -> (1 <= N)%nat ->
  fp_init (Pipeline.a_opts a) bits L = Ok tt -> fp_init (Pipeline.a_opts a) bits k = Ok tt ->
  (forall c i, In c (firstn N (Pipeline.mconfs m)) -> 0 <= i <= L ->
               fprint_M1 D C fuel counts mask (Pipeline.a_opts a) bits c L i = Ok (g c i)) ->
  (forall j, Proofs.Pipeline.namer (Pipeline.effective_name (mol D) m) j = Ok (nmf j)) ->
  exists d dk,
    Pipeline.o_val (dict fs m a) = Ok d /\ Pipeline.o_val (dict fs m a_k) = Ok dk /\
    Pipeline.dict_get d k = Some (Proofs.Pipeline.column (mol D) g nmf (firstn N (Pipeline.mconfs m)) k) /\
    Pipeline.dict_get dk k = Pipeline.dict_get d k.
Proof.
  intros bits N a_k dict Hfuel. subst dict.
  apply (PipelineSpec.all_iters_spec (mol D) opts (fprint_M1 D C fuel counts mask) fp_init content pickle g nmf fs m a L k).
  intros c i x _ Hi. apply fprint_M1_truncation; [exact Hfuel|exact Hi].
Qed.
