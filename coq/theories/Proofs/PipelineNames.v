(* Lemmas about the naming part of Model/Pipeline.v (MolItemName): used by Properties/C14.v. *)
From Coq Require Import Ascii NArith DecimalString DecimalN DecimalPos DecimalFacts.
From E3FP Require Import Base.Prelude Model.Pipeline Gen.PipelineFacts.
Open Scope Z_scope.

(* ---- the name domain of the property, stated without reference to the matcher ---------------------------- *)
Definition digitsP (d : chars) : Prop := d <> [] /\ Forall (fun c => is_digit c = true) d.

(* s = p ++ [-|_] ++ digits with a non-empty p *)
Definition has_num_suffix (s : chars) : Prop :=
  exists p dl d, p <> [] /\ (dl = "-"%char \/ dl = "_"%char) /\ digitsP d /\ s = p ++ dl :: d.

Definition plain_chars (s : chars) : Prop :=
  s <> [] /\ Forall (fun c => is_nl c = false) s /\ ~ has_num_suffix s.

Definition plain_name (s : string) : Prop := plain_chars (list_ascii_of_string s).

Local Arguments at_end : simpl never.

(* ---- characters ------------------------------------------------------------------------------------------ *)
Lemma digit_not_nl c : is_digit c = true -> is_nl c = false.
Proof. destruct c as [[] [] [] [] [] [] [] []]; cbv; congruence. Qed.
Lemma digit_not_us c : is_digit c = true -> Ascii.eqb c "_" = false.
Proof. destruct c as [[] [] [] [] [] [] [] []]; cbv; congruence. Qed.
Lemma digit_not_dash c : is_digit c = true -> Ascii.eqb c "-" = false.
Proof. destruct c as [[] [] [] [] [] [] [] []]; cbv; congruence. Qed.

Lemma at_end_long a b s : at_end (a :: b :: s) = false.
Proof. reflexivity. Qed.

Lemma at_end_nonl s : s <> [] -> Forall (fun c => is_nl c = false) s -> at_end s = false.
Proof.
  destruct s as [|a [|b s]]; intros H F; [congruence| |reflexivity].
  inversion F; subst. simpl. assumption.
Qed.

(* ---- span_digits ----------------------------------------------------------------------------------------- *)
Lemma span_digits_spec s d r :
  span_digits s = (d, r) ->
  s = d ++ r /\ Forall (fun c => is_digit c = true) d /\ match r with [] => True | c :: _ => is_digit c = false end.
Proof.
  revert d r. induction s as [|c t IH]; simpl; intros d r H.
  - inversion H; subst. repeat split; constructor.
  - destruct (is_digit c) eqn:E.
    + destruct (span_digits t) as [d' r'] eqn:E'. inversion H; subst.
      destruct (IH d' r eq_refl) as (H1 & H2 & H3). subst t. repeat split; auto.
    + inversion H; subst. repeat split; auto.
Qed.

Lemma span_digits_all d : Forall (fun c => is_digit c = true) d -> span_digits d = (d, []).
Proof.
  induction 1 as [|c t Hc Ht IH]; simpl; [reflexivity|]. rewrite Hc, IH. reflexivity.
Qed.

Lemma span_digits_stop d c y :
  Forall (fun c => is_digit c = true) d -> is_digit c = false -> span_digits (d ++ c :: y) = (d, c :: y).
Proof.
  induction 1 as [|a t Ha Ht IH]; simpl; intro Hc.
  - rewrite Hc. reflexivity.
  - rewrite Ha, (IH Hc). reflexivity.
Qed.

Lemma us_not_digit : is_digit "_" = false. Proof. reflexivity. Qed.

(* the remainder keeps everything from the first non-digit on: in particular a later "_" and what follows *)
Lemma span_digits_keeps x y d r :
  span_digits (x ++ "_"%char :: y) = (d, r) -> exists r', r = r' ++ "_"%char :: y /\ x = d ++ r'.
Proof.
  revert d r. induction x as [|c t IH]; simpl; intros d r H.
  - inversion H; subst. exists []. split; reflexivity.
  - destruct (is_digit c) eqn:E.
    + destruct (span_digits (t ++ "_"%char :: y)) as [d' r'] eqn:E'. inversion H; subst.
      destruct (IH d' r eq_refl) as (r'' & H1 & H2). exists r''. subst. split; reflexivity.
    + inversion H; subst. exists (c :: t). split; reflexivity.
Qed.

(* ---- what match_conf / match_rest accept ---------------------------------------------------------------------- *)
Lemma match_conf_digits d : digitsP d -> match_conf ("_"%char :: d) = Some (Some (digits_value d)).
Proof.
  intros [Hne Hd]. simpl. rewrite (span_digits_all d Hd). destruct d; [congruence|]. reflexivity.
Qed.

Lemma match_rest_conf d : digitsP d -> match_rest ("_"%char :: d) = Some (None, Some (digits_value d)).
Proof.
  intro H. unfold match_rest. rewrite (match_conf_digits d H). reflexivity.
Qed.

Lemma match_rest_nil : match_rest [] = Some (None, None).
Proof. reflexivity. Qed.

(* a non-empty, newline-free remainder that is accepted is a suffix of the excluded shape *)
Lemma match_conf_accepts t cf :
  t <> [] -> Forall (fun c => is_nl c = false) t -> match_conf t = Some cf ->
  exists d, digitsP d /\ t = "_"%char :: d.
Proof.
  intros Hne Hnl. destruct t as [|c t']; [congruence|]. simpl.
  destruct (Ascii.eqb c "_") eqn:Ec.
  - apply Ascii.eqb_eq in Ec. subst c.
    destruct (span_digits t') as [d r] eqn:Es. destruct (span_digits_spec _ _ _ Es) as (H1 & H2 & H3).
    destruct d as [|d0 d']; [discriminate|].
    destruct (at_end r) eqn:Ea; [|discriminate]. intros _.
    destruct r as [|r0 r'].
    + exists (d0 :: d'). rewrite app_nil_r in H1. subst t'. split; [split; [discriminate|assumption]|reflexivity].
    + exfalso. inversion Hnl as [|? ? _ Hnl']; subst.
      assert (Hr : Forall (fun c => is_nl c = false) (r0 :: r')).
      { apply Forall_app in Hnl'. tauto. }
      rewrite at_end_nonl in Ea; [discriminate|discriminate|exact Hr].
  - rewrite at_end_nonl; [discriminate|discriminate|exact Hnl].
Qed.

Lemma skip_some s x :
  match match_conf s with Some cf => Some (@None Z, cf) | None => None end = Some x -> exists cf, match_conf s = Some cf.
Proof. destruct (match_conf s) as [cf|]; [eauto|discriminate]. Qed.

Lemma match_rest_accepts t x :
  t <> [] -> Forall (fun c => is_nl c = false) t -> match_rest t = Some x ->
  (exists d, digitsP d /\ t = "_"%char :: d) \/
  (exists d1, digitsP d1 /\ t = "-"%char :: d1) \/
  (exists d1 d2, digitsP d1 /\ digitsP d2 /\ t = "-"%char :: d1 ++ "_"%char :: d2).
Proof.
  intros Hne Hnl. unfold match_rest. destruct t as [|c t']; [congruence|].
  assert (Hskip : match match_conf (c :: t') with Some cf => Some (@None Z, cf) | None => None end = Some x ->
                  exists d, digitsP d /\ c :: t' = "_"%char :: d).
  { intro H. apply skip_some in H. destruct H as [cf H]. eapply match_conf_accepts; eauto. }
  destruct (Ascii.eqb c "-") eqn:Ec.
  - apply Ascii.eqb_eq in Ec. subst c.
    assert (Hno : match match_conf ("-"%char :: t') with Some cf => Some (@None Z, cf) | None => None end = Some x -> False).
    { intro H. apply Hskip in H. destruct H as (d & _ & H). discriminate H. }
    destruct (span_digits t') as [d r] eqn:Es. destruct (span_digits_spec _ _ _ Es) as (H1 & H2 & H3).
    destruct d as [|d0 d']; [intro H; exfalso; apply Hno; exact H|].
    destruct (match_conf r) as [cf|] eqn:Er; [|intro H; exfalso; apply Hno; exact H]. intros _.
    assert (Hd : digitsP (d0 :: d')) by (unfold digitsP; split; [congruence|assumption]).
    destruct r as [|r0 r'].
    + right. left. exists (d0 :: d'). rewrite app_nil_r in H1. subst. auto.
    + right. right. inversion Hnl as [|? ? _ Hnl']; subst.
      apply Forall_app in Hnl'. destruct Hnl' as [_ Hr].
      assert (Hr0 : r0 :: r' <> []) by congruence.
      destruct (match_conf_accepts _ _ Hr0 Hr Er) as (d2 & Hd2 & E2).
      exists (d0 :: d'), d2. rewrite E2. auto.
  - intro H. left. auto.
Qed.

Lemma us_in_digits_absurd x y d :
  Forall (fun c => is_digit c = true) d -> x ++ "_"%char :: y = d -> False.
Proof.
  intros H E. subst d. apply Forall_app in H. destruct H as [_ H]. inversion H; subst. discriminate.
Qed.

Lemma split_at_us x y x' y' :
  Forall (fun c => is_digit c = true) y -> Forall (fun c => is_digit c = true) y' ->
  x ++ "_"%char :: y = x' ++ "_"%char :: y' -> x = x' /\ y = y'.
Proof.
  intros Hy Hy'. revert x'. induction x as [|a x1 IH]; intros [|a' x1'] E; simpl in E.
  - inversion E. auto.
  - inversion E; subst. exfalso. eapply us_in_digits_absurd; [exact Hy|reflexivity].
  - inversion E; subst. exfalso. eapply us_in_digits_absurd; [exact Hy'|reflexivity].
  - inversion E; subst. destruct (IH _ H1). subst. auto.
Qed.

(* ---- the lazy scan ---------------------------------------------------------------------------------------------- *)
Lemma scan_general s : forall r a b,
  s <> [] -> Forall (fun c => is_nl c = false) s ->
  (forall p t, s = p ++ t -> p <> [] -> t <> [] -> match_rest (t ++ r) = None) ->
  match_rest r = Some (a, b) ->
  scan_name (s ++ r) = Some (s, a, b).
Proof.
  induction s as [|c s' IH]; intros r a b Hne Hnl Hsplit Hr; [congruence|].
  inversion Hnl as [|? ? Hc Hnl']; subst. simpl. rewrite Hc.
  destruct s' as [|c2 s''].
  - simpl. rewrite Hr. reflexivity.
  - rewrite (Hsplit [c] (c2 :: s'') eq_refl ltac:(discriminate) ltac:(discriminate)).
    rewrite (IH r a b ltac:(discriminate) Hnl'); [reflexivity| |exact Hr].
    intros p t E Hp Ht. apply (Hsplit (c :: p) t); [rewrite E; reflexivity|discriminate|exact Ht].
Qed.

Lemma nonl_suffix p t : Forall (fun c => is_nl c = false) (p ++ t) -> Forall (fun c => is_nl c = false) t.
Proof. intro H. apply Forall_app in H. tauto. Qed.

Lemma plain_rest_none s p t :
  plain_chars s -> s = p ++ t -> p <> [] -> t <> [] -> match_rest t = None.
Proof.
  intros (Hne & Hnl & Hns) E Hp Ht. destruct (match_rest t) as [x|] eqn:Em; [|reflexivity].
  exfalso. apply Hns. subst s. apply nonl_suffix in Hnl.
  destruct (match_rest_accepts t x Ht Hnl Em) as [(d & Hd & Et)|[(d & Hd & Et)|(d1 & d2 & Hd1 & Hd2 & Et)]]; subst t.
  - exists p, "_"%char, d. auto.
  - exists p, "-"%char, d. auto.
  - exists (p ++ "-"%char :: d1), "_"%char, d2. split; [destruct p; discriminate|].
    split; [auto|]. split; [exact Hd2|]. rewrite <- app_assoc. reflexivity.
Qed.

Lemma digits_nonl d : Forall (fun c => is_digit c = true) d -> Forall (fun c => is_nl c = false) d.
Proof. intro H. eapply Forall_impl; [|exact H]. intros a Ha. apply digit_not_nl. exact Ha. Qed.

Lemma plain_rest_conf_none s p t dj :
  plain_chars s -> digitsP dj -> s = p ++ t -> p <> [] -> t <> [] -> match_rest (t ++ "_"%char :: dj) = None.
Proof.
  intros (Hne & Hnl & Hns) [Hdne Hdj] E Hp Ht. destruct (match_rest (t ++ "_"%char :: dj)) as [x|] eqn:Em; [|reflexivity].
  exfalso. subst s. apply nonl_suffix in Hnl.
  assert (Hnl2 : Forall (fun c => is_nl c = false) (t ++ "_"%char :: dj)).
  { apply Forall_app. split; [exact Hnl|]. constructor; [reflexivity|apply digits_nonl; exact Hdj]. }
  assert (Hne2 : t ++ "_"%char :: dj <> []) by (destruct t; discriminate).
  destruct (match_rest_accepts _ x Hne2 Hnl2 Em) as [(d & [_ Hd] & Et)|[(d & [_ Hd] & Et)|(d1 & d2 & Hd1 & [_ Hd2] & Et)]].
  - destruct t as [|c t']; [congruence|]. inversion Et; subst. eapply us_in_digits_absurd; [exact Hd|reflexivity].
  - destruct t as [|c t']; [congruence|]. inversion Et; subst. eapply us_in_digits_absurd; [exact Hd|reflexivity].
  - destruct t as [|c t']; [congruence|]. inversion Et; subst.
    destruct (split_at_us _ _ _ _ Hdj Hd2 H1) as [E1 _]. subst t'.
    apply Hns. exists p, "-"%char, d1. auto.
Qed.

(* ---- decimal printing ------------------------------------------------------------------------------------------- *)
Lemma list_ascii_app a b : list_ascii_of_string (a ++ b) = list_ascii_of_string a ++ list_ascii_of_string b.
Proof. induction a as [|c a IH]; simpl; [reflexivity|]. rewrite IH. reflexivity. Qed.

Lemma uint_chars_digits u : Forall (fun c => is_digit c = true) (list_ascii_of_string (NilEmpty.string_of_uint u)).
Proof. induction u; simpl; constructor; auto. Qed.

Lemma uint_string_nonempty u : u <> Decimal.Nil -> list_ascii_of_string (NilEmpty.string_of_uint u) <> [].
Proof. destruct u; simpl; congruence. Qed.

Lemma N_to_uint_nonnil n : N.to_uint n <> Decimal.Nil.
Proof. destruct n; simpl; [discriminate|apply Unsigned.to_uint_nonnil]. Qed.

Lemma dec_nonneg j : 0 <= j -> dec j = NilEmpty.string_of_uint (N.to_uint (Z.to_N j)).
Proof. intro H. unfold dec. destruct (j <? 0) eqn:E; [lia|reflexivity]. Qed.

Lemma dec_digits j : 0 <= j -> digitsP (list_ascii_of_string (dec j)).
Proof.
  intro H. rewrite (dec_nonneg j H). split; [apply uint_string_nonempty, N_to_uint_nonnil|apply uint_chars_digits].
Qed.

Lemma digits_value_dec j : 0 <= j -> digits_value (list_ascii_of_string (dec j)) = j.
Proof.
  intro H. unfold digits_value. rewrite string_of_list_ascii_of_string, (dec_nonneg j H), NilEmpty.usu.
  rewrite DecimalN.Unsigned.of_to. lia.
Qed.

Lemma dec_injective a b : 0 <= a -> 0 <= b -> dec a = dec b -> a = b.
Proof. intros Ha Hb E. rewrite <- (digits_value_dec a Ha), <- (digits_value_dec b Hb), E. reflexivity. Qed.

(* ---- the three clauses about plain names ------------------------------------------------------------------------- *)
Lemma from_str_plain s : plain_name s -> from_str s = Ok (mkitem s None None).
Proof.
  intro H. unfold from_str. pose proof H as (Hne & Hnl & _).
  rewrite <- (app_nil_r (list_ascii_of_string s)).
  rewrite (scan_general _ [] None None Hne Hnl); [rewrite string_of_list_ascii_of_string; reflexivity| |reflexivity].
  intros p t E Hp Ht. rewrite app_nil_r. eapply plain_rest_none; eauto.
Qed.

Lemma conf_name_plain s j : plain_name s -> conf_name_of s j = Ok (s ++ "_" ++ dec j)%string.
Proof. intro H. unfold conf_name_of. rewrite (from_str_plain s H). reflexivity. Qed.

Lemma from_str_conf_name s j :
  plain_name s -> 0 <= j -> from_str (s ++ "_" ++ dec j) = Ok (mkitem s None (Some j)).
Proof.
  intros H Hj. unfold from_str. pose proof H as (Hne & Hnl & _).
  rewrite list_ascii_app. change (list_ascii_of_string ("_" ++ dec j)) with ("_"%char :: list_ascii_of_string (dec j)).
  rewrite (scan_general _ _ None (Some j) Hne Hnl).
  - rewrite string_of_list_ascii_of_string. reflexivity.
  - intros p t E Hp Ht. eapply plain_rest_conf_none; eauto. apply dec_digits; exact Hj.
  - rewrite (match_rest_conf _ (dec_digits j Hj)), (digits_value_dec j Hj). reflexivity.
Qed.

Lemma names_spec s j :
  plain_name s -> 0 <= j ->
  from_str s = Ok (mkitem s None None) /\
  conf_name_of s j = Ok (s ++ "_" ++ dec j)%string /\
  from_str (s ++ "_" ++ dec j) = Ok (mkitem s None (Some j)).
Proof. intros H Hj. auto using from_str_plain, conf_name_plain, from_str_conf_name. Qed.

Lemma names_injective s1 s2 j1 j2 n :
  plain_name s1 -> plain_name s2 -> 0 <= j1 -> 0 <= j2 ->
  conf_name_of s1 j1 = Ok n -> conf_name_of s2 j2 = Ok n -> s1 = s2 /\ j1 = j2.
Proof.
  intros H1 H2 Hj1 Hj2 E1 E2. rewrite (conf_name_plain s1 j1 H1) in E1. rewrite (conf_name_plain s2 j2 H2) in E2.
  assert (Q1 : from_str n = Ok (mkitem s1 None (Some j1))).
  { injection E1 as <-. exact (from_str_conf_name s1 j1 H1 Hj1). }
  assert (Q2 : from_str n = Ok (mkitem s2 None (Some j2))).
  { injection E2 as <-. exact (from_str_conf_name s2 j2 H2 Hj2). }
  rewrite Q1 in Q2. inversion Q2. auto.
Qed.

(* a boolean sufficient test for the domain, for examples *)
Fixpoint suffixes {A} (l : list A) : list (list A) :=
  match l with [] => [[]] | _ :: t => l :: suffixes t end.

Lemma not_plain_suffix s p dl d :
  list_ascii_of_string s = p ++ dl :: d -> p <> [] -> (dl = "-"%char \/ dl = "_"%char) -> digitsP d -> ~ plain_name s.
Proof. intros E Hp Hdl Hd (_ & _ & Hns). apply Hns. exists p, dl, d. rewrite E. auto. Qed.

Lemma names_suffix_refuted :
  ~ plain_name "mol_1" /\ conf_name_of "mol_1" 0 = Ok "mol_0"%string /\
  conf_name_of "mol_1" 0 <> Ok ("mol_1" ++ "_" ++ dec 0)%string /\
  conf_name_of "mol_1" 3 = conf_name_of "mol_2" 3.
Proof.
  split; [|split; [reflexivity|split; [discriminate|reflexivity]]].
  apply (not_plain_suffix "mol_1" (list_ascii_of_string "mol") "_"%char (list_ascii_of_string "1")); auto.
  - discriminate.
  - split; [discriminate|]. repeat constructor.
Qed.

(* ---- a boolean test that implies plain_name (for examples and for generators) --------------------------------- *)
Definition suffix_bad (t : chars) : bool :=
  match t with
  | c :: d => (Ascii.eqb c "-" || Ascii.eqb c "_") && negb (match d with [] => true | _ => false end) && forallb is_digit d
  | [] => false
  end.

Definition plain_b (s : chars) : bool :=
  negb (match s with [] => true | _ => false end) && forallb (fun c => negb (is_nl c)) s &&
  forallb (fun t => negb (suffix_bad t)) (suffixes (tl s)).

Lemma suffix_in {A} (x t : list A) : In t (suffixes (x ++ t)).
Proof.
  induction x as [|a x IH]; simpl.
  - destruct t; simpl; auto.
  - right. exact IH.
Qed.

Lemma plain_b_sound s : plain_b s = true -> plain_chars s.
Proof.
  unfold plain_b. rewrite !andb_true_iff. intros [[H1 H2] H3]. repeat split.
  - destruct s; [discriminate|congruence].
  - apply Forall_forall. intros c Hc. rewrite forallb_forall in H2. specialize (H2 c Hc).
    destruct (is_nl c); [discriminate|reflexivity].
  - intros (p & dl & d & Hp & Hdl & [Hdne Hd] & E). subst s. destruct p as [|p0 p']; [congruence|]. simpl in H3.
    rewrite forallb_forall in H3. specialize (H3 (dl :: d) (suffix_in p' (dl :: d))).
    assert (Q : suffix_bad (dl :: d) = true).
    { assert (Hfd : forallb is_digit d = true).
      { apply forallb_forall. intros c Hc. rewrite Forall_forall in Hd. apply Hd. exact Hc. }
      unfold suffix_bad. rewrite Hfd. destruct d; [congruence|]. destruct Hdl as [-> | ->]; reflexivity. }
    rewrite Q in H3. discriminate.
Qed.

Lemma plain_examples : plain_name "CHEMBL116226" /\ plain_name "a-1_" /\ plain_name "_1" /\ plain_name "x_y".
Proof. repeat split; apply plain_b_sound; reflexivity. Qed.
