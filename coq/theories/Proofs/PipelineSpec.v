(* Property-level lemmas about Model/Pipeline.v (all_iters, level selection, from_sdf, unnamed molecules, saving and
   reloading, fprints_from_smiles): stated in Properties/C14.v. *)
From Coq Require Import Ascii.
From E3FP Require Import Base.Prelude Model.Fprint Model.Pipeline Gen.PipelineFacts.
From E3FP Require Import Proofs.PipelineNames Proofs.Pipeline Proofs.PipelineFs.
Open Scope Z_scope.

Lemma firstn_nonempty {A} (l : list A) n : l <> [] -> (1 <= n)%nat -> firstn n l <> [].
Proof. destruct l, n; simpl; intros; try congruence; lia. Qed.

Lemma append_inj_l (b x y : string) : (b ++ x)%string = (b ++ y)%string -> x = y.
Proof. induction b as [|c b IH]; simpl; intro H; [exact H|]. inversion H. auto. Qed.

Lemma combine_map_self {A B} (f : A -> B) (r : list A) : combine (map f r) r = map (fun i => (f i, i)) r.
Proof. induction r as [|a t IH]; simpl; [reflexivity|]. rewrite IH. reflexivity. Qed.

Section Spec.
  Variable conformer : Type.
  Variable opts : Type.
  Variable fprint : opts -> Z -> conformer -> Z -> Z -> result fp.
  Variable fp_init : opts -> Z -> Z -> result unit.
  Variable content : Type.
  Variable pickle : list fp -> content.
  Variable g : conformer -> Z -> fp.
  Variable nmf : Z -> option string.

  Notation dict_from_mol := (fprints_dict_from_mol conformer opts fprint fp_init content pickle).
  Notation from_mol := (fprints_from_mol conformer opts fprint fp_init content pickle).
  Notation col := (column conformer g nmf).
  Notation expd := (expected_dict conformer g nmf).

  (* ---- first = 0 and first < -1 (outside the property's quantifier): what the code does ---------------------- *)
  Lemma cutoff_minus_one n : cutoff (-1) n = n.
  Proof. reflexivity. Qed.
  Lemma cutoff_negative first n : first < 0 -> cutoff first n = n.
  Proof. intro H. unfold cutoff. destruct (0 <=? first) eqn:E; [lia|reflexivity]. Qed.
  Lemma cutoff_large first n : Z.of_nat n <= first -> cutoff first n = n.
  Proof. intro H. unfold cutoff. destruct (first <? Z.of_nat n) eqn:E; [lia|rewrite andb_false_r; reflexivity]. Qed.
  Lemma cutoff_small first n : 0 <= first < Z.of_nat n -> cutoff first n = Z.to_nat first.
  Proof.
    intro H. unfold cutoff. destruct (0 <=? first) eqn:E1; [|lia]. destruct (first <? Z.of_nat n) eqn:E2; [reflexivity|lia].
  Qed.
  Lemma cutoff_zero n : (1 <= n)%nat -> cutoff 0 n = 0%nat.
  Proof. intro H. rewrite cutoff_small; [reflexivity|lia]. Qed.

  (* ---- all_iters: every level's list is what a separate run limited to that level returns ---------------------- *)
  Section Truncation.
    (* the premise `fprint_truncation` is C12 (truncation) for the per-conformer function, needed only for the level cap
       L of the call: a successful query at level k of the run to level L equals the query at level k of a run limited
       to level k (Proofs/PipelineM1.v discharges it for model M1) *)
    Lemma all_iters_spec fs (m : mol conformer) (a : fargs opts) L k :
      let bits := normal_bits (a_bits a) in
      let N := cutoff (a_first a) (length (mconfs m)) in
      let a_k := mkfargs (a_bits a) (Some k) (a_first a) (a_opts a) (a_out_dir_base a) (a_out_ext a) false false (a_overwrite a) in
      (forall c i x, In c (firstn N (mconfs m)) -> 0 <= i <= L ->
                     fprint (a_opts a) bits c L i = Ok x -> fprint (a_opts a) bits c i i = Ok x) ->
      a_level a = Some L -> 0 <= k <= L -> a_all_iters a = true -> a_save a = false ->
      mconfs m <> [] -> (1 <= N)%nat ->
      fp_init (a_opts a) bits L = Ok tt -> fp_init (a_opts a) bits k = Ok tt ->
      (forall c i, In c (firstn N (mconfs m)) -> 0 <= i <= L -> fprint (a_opts a) bits c L i = Ok (g c i)) ->
      (forall j, namer (effective_name conformer m) j = Ok (nmf j)) ->
      exists d dk,
        o_val (dict_from_mol fs m a) = Ok d /\ o_val (dict_from_mol fs m a_k) = Ok dk /\
        dict_get d k = Some (col (firstn N (mconfs m)) k) /\ dict_get dk k = dict_get d k.
    Proof.
      intros bits N a_k fprint_truncation HL Hk Hai Hs Hc HN Hi Hik Hf Hn.
      assert (HP : firstn N (mconfs m) <> []) by (apply firstn_nonempty; assumption).
      assert (Hlev : level_range L true = zrange (L + 1)).
      { unfold level_range, single_level. destruct (L =? -1) eqn:E; [lia|reflexivity]. }
      pose proof (dict_spec conformer opts fprint fp_init content pickle g nmf fs m a) as Q. cbv zeta in Q.
      rewrite HL, Hai in Q. simpl normal_level in Q. rewrite Hlev in Q.
      specialize (Q Hs Hc Hi). fold N in Q.
      rewrite Q; [|intros c i Hc' Hi'; apply Hf; [exact Hc'|apply zrange_in in Hi'; lia]|exact Hn].
      pose proof (dict_spec conformer opts fprint fp_init content pickle g nmf fs m a_k) as Qk. cbv zeta in Qk.
      simpl in Qk. fold N in Qk.
      assert (Hlk : level_range k false = [k]).
      { unfold level_range, single_level. rewrite orb_true_r. reflexivity. }
      rewrite Hlk in Qk. rewrite Qk; [|reflexivity|exact Hc|exact Hik| |exact Hn].
      - exists (expd (zrange (L + 1)) (firstn N (mconfs m))), (expd [k] (firstn N (mconfs m))).
        simpl o_val. split; [reflexivity|]. split; [reflexivity|].
        unfold expected_dict. destruct (firstn N (mconfs m)) as [|p0 P'] eqn:EP; [congruence|].
        rewrite (dict_get_map (col (p0 :: P')) (zrange (L + 1)) k) by (apply zrange_in; lia).
        split; [reflexivity|]. simpl. rewrite Z.eqb_refl. reflexivity.
      - intros c i Hc' [<-|[]]. apply (fprint_truncation c k (g c k) Hc' Hk). apply Hf; [exact Hc'|lia].
    Qed.
  End Truncation.

  (* ---- fprints_from_mol returns the list of the requested level ---------------------------------------------------- *)
  Lemma level_in_range level ai : -1 <= level -> In level (level_range level ai) /\ forall k, In k (level_range level ai) -> k <= level.
  Proof.
    intro H. unfold level_range. destruct (single_level level ai) eqn:E.
    - split; [left; reflexivity|intros k [<-|[]]; lia].
    - unfold single_level in E. apply orb_false_iff in E. destruct E as [E _]. apply Z.eqb_neq in E.
      split; [apply zrange_in; lia|intros k Hk; apply zrange_in in Hk; lia].
  Qed.

  Lemma minus_one_in_range level ai : -1 <= level -> In (-1) (level_range level ai) -> level = -1.
  Proof.
    intros H. unfold level_range. destruct (single_level level ai).
    - intros [E|[]]. lia.
    - intro Q. apply zrange_in in Q. lia.
  Qed.

  Lemma req_ok (p : fparams opts) ai :
    let level := normal_level (popt (p_level p) fd_level_def) in
    -1 <= level ->
    match popt (p_level p) pl_get_level_def with
    | Some l => l = level \/ ~ In l (level_range level ai)
    | None => True
    end.
  Proof.
    destruct (p_level p) as [| |l]; simpl; intro H; auto.
    destruct (Z.eq_dec pl_get_level_def fd_level_def) as [E|E]; [left; exact E|].
    right. intro Q. apply E. change pl_get_level_def with (-1) in *. symmetry.
    eapply minus_one_in_range; [|exact Q]. exact H.
  Qed.

  Lemma from_mol_spec fs (m : mol conformer) (p : fparams opts) :
    let a := args_of_params opts p false in
    let level := normal_level (a_level a) in
    let bits := normal_bits (a_bits a) in
    let N := cutoff (a_first a) (length (mconfs m)) in
    -1 <= level -> mconfs m <> [] -> (1 <= N)%nat ->
    fp_init (a_opts a) bits level = Ok tt ->
    (forall c k, In c (firstn N (mconfs m)) -> In k (level_range level (a_all_iters a)) ->
                 fprint (a_opts a) bits c level k = Ok (g c k)) ->
    (forall j, namer (effective_name conformer m) j = Ok (nmf j)) ->
    from_mol fs m p false = mkout (Ok (col (firstn N (mconfs m)) level)) fs (Some (Z.of_nat N)).
  Proof.
    intros a level bits N Hlev Hc HN Hi Hf Hn. unfold fprints_from_mol. fold a.
    rewrite (dict_spec conformer opts fprint fp_init content pickle g nmf fs m a eq_refl Hc Hi Hf Hn).
    simpl. f_equal. fold level. fold N.
    destruct (level_in_range level (a_all_iters a) Hlev) as [Hin Hle].
    apply select_expected; [apply firstn_nonempty; assumption|exact Hin|exact Hle|].
    exact (req_ok p (a_all_iters a) Hlev).
  Qed.

  (* ---- fprints_from_sdf = fprints_from_mol o read ------------------------------------------------------------------- *)
  Lemma from_sdf_eq_from_mol (sdf_file : Type) (read_sdf : sdf_file -> result (mol conformer)) fs f m p save :
    read_sdf f = Ok m ->
    fprints_from_sdf conformer opts fprint fp_init content pickle sdf_file read_sdf fs f p save = from_mol fs m p save.
  Proof. intro H. unfold fprints_from_sdf. rewrite H. reflexivity. Qed.

  Lemma from_sdf_unreadable (sdf_file : Type) (read_sdf : sdf_file -> result (mol conformer)) fs f e p save :
    read_sdf f = Raises e ->
    fprints_from_sdf conformer opts fprint fp_init content pickle sdf_file read_sdf fs f p save = mkout (Raises e) fs None.
  Proof. intro H. unfold fprints_from_sdf. rewrite H. reflexivity. Qed.

  (* ---- names ------------------------------------------------------------------------------------------------------- *)
  Lemma namer_none j : namer None j = Ok None.
  Proof. reflexivity. Qed.

  Lemma namer_plain s j : plain_name s -> namer (Some s) j = Ok (Some (s ++ "_" ++ dec j)%string).
  Proof. intro H. unfold namer. rewrite (conf_name_plain s j H). reflexivity. Qed.

  Lemma effective_name_empty (m : mol conformer) : mname m = Some ""%string -> effective_name conformer m = None.
  Proof. intro H. unfold effective_name. rewrite H. reflexivity. Qed.

  Lemma effective_name_plain (m : mol conformer) s : mname m = Some s -> plain_name s -> effective_name conformer m = Some s.
  Proof.
    intros H [Hne _]. unfold effective_name. rewrite H. destruct s; [exfalso; apply Hne; reflexivity|reflexivity].
  Qed.

  (* ---- saving ------------------------------------------------------------------------------------------------------- *)
  Lemma dict_save_spec fs (m : mol conformer) (a : fargs opts) nm files :
    let level := normal_level (a_level a) in
    let bits := normal_bits (a_bits a) in
    let levels := level_range level (a_all_iters a) in
    let N := cutoff (a_first a) (length (mconfs m)) in
    a_save a = true ->
    effective_name conformer m = Some nm ->
    filenames (a_out_dir_base a) level (a_all_iters a) nm (a_out_ext a) = Ok files ->
    forallb (fs_isfile fs) files && negb (a_overwrite a) = false ->
    mconfs m <> [] ->
    fp_init (a_opts a) bits level = Ok tt ->
    (forall c k, In c (firstn N (mconfs m)) -> In k levels -> fprint (a_opts a) bits c level k = Ok (g c k)) ->
    (forall j, namer (effective_name conformer m) j = Ok (nmf j)) ->
    dict_from_mol fs m a
    = match save_dict content pickle fs files level (a_all_iters a) (a_overwrite a) (expd levels (firstn N (mconfs m))) with
      | Ok fs' => mkout (Ok (expd levels (firstn N (mconfs m)))) fs' (Some (Z.of_nat N))
      | Raises e => mkout (Raises e) fs (Some (Z.of_nat N))
      end.
  Proof.
    intros level bits levels N Hs Hnm Hfiles Hex Hc Hi Hf Hn. unfold fprints_dict_from_mol.
    rewrite Hs, Hnm. fold level. rewrite Hfiles, Hex. fold bits. rewrite Hi.
    destruct (mconfs m) as [|c0 t] eqn:Ec; [congruence|].
    rewrite <- Hnm.
    rewrite (conf_loop_spec conformer opts fprint g nmf (a_opts a) bits level (a_all_iters a) (effective_name conformer m) (a_first a) (c0 :: t) Hf Hn).
    fold N. fold levels.
    replace (Z.of_nat N - 1 + 1) with (Z.of_nat N) by lia. reflexivity.
  Qed.

  Lemma save_single fs f0 rest level ai ow P :
    single_level level ai = true -> P <> [] ->
    save_dict content pickle fs (f0 :: rest) level ai ow (expd (level_range level ai) P)
    = Ok (fs_write fs (f0, pickle (col P level))).
  Proof.
    intros Hs HP. unfold save_dict, level_range. rewrite Hs. unfold expected_dict.
    destruct P as [|p0 P']; [congruence|]. simpl. rewrite Z.eqb_refl. reflexivity.
  Qed.

  (* the all_iters save loop, with its per-file exists test on the running state, performs the planned writes whose file
     did not exist before the loop (or all of them with overwrite) *)
  Definition level_plan (d : fdict) (l : list (path * Z)) : list (path * content) :=
    flat_map (fun f_i => match dict_get d (snd f_i) with Some c => [(fst f_i, pickle c)] | None => [] end) l.

  Lemma level_plan_fst d l w : In w (level_plan d l) -> In (fst w) (map fst l).
  Proof.
    induction l as [|[p i] t IH]; simpl; [tauto|]. intro H. apply in_app_or in H. destruct H as [H|H]; [|auto].
    destruct (dict_get d i); [destruct H as [<-|[]]; auto|destruct H].
  Qed.

  Lemma fold_save_filter d ow (l : list (path * Z)) : forall acc,
    NoDup (map fst l) ->
    fold_left (fun acc0 (f_i : path * Z) =>
                 match dict_get d (snd f_i) with
                 | Some c => if fs_isfile acc0 (fst f_i) && negb ow then acc0 else fs_write acc0 (fst f_i, pickle c)
                 | None => acc0
                 end) l acc
    = fs_writes acc (filter (fs_keep ow acc) (level_plan d l)).
  Proof.
    induction l as [|[p i] t IH]; intros acc Hnd; [reflexivity|]. inversion Hnd as [|? ? Hp Hnd']; subst.
    cbn [fold_left fst snd level_plan flat_map].
    change (flat_map (fun f_i : path * Z => match dict_get d (snd f_i) with Some c => [(fst f_i, pickle c)] | None => [] end) t)
      with (level_plan d t).
    destruct (dict_get d i) as [c|].
    - cbn [app filter]. unfold fs_keep at 1. cbn [fst].
      destruct (fs_isfile acc p && negb ow) eqn:E; cbn [negb].
      + apply IH. exact Hnd'.
      + rewrite (IH _ Hnd'). unfold fs_writes. cbn [fold_left]. f_equal.
        apply keep_ext. intros w Hw. apply isfile_write_other. cbn [fst]. intro Q. apply Hp. rewrite <- Q. eapply level_plan_fst; eauto.
    - cbn [app]. apply IH. exact Hnd'.
  Qed.

  Lemma save_multi fs b file level ow P :
    0 <= level -> P <> [] ->
    let mk : Z -> path := fun i => ((b ++ dec i)%string, file) in
    let ws := map (fun i => (mk i, pickle (col P i))) (zrange (level + 1)) in
    save_dict content pickle fs (map mk (zrange (level + 1))) level true ow (expd (level_range level true) P)
    = Ok (fs_writes fs (filter (fs_keep ow fs) ws)) /\ NoDup (map fst ws).
  Proof.
    intros Hl HP mk ws.
    assert (Hs : single_level level true = false).
    { unfold single_level. destruct (level =? -1) eqn:E; [lia|reflexivity]. }
    assert (Hnd : NoDup (map mk (zrange (level + 1)))).
    { assert (G : forall r, NoDup r -> (forall i, In i r -> 0 <= i) -> NoDup (map mk r)).
      { induction r as [|i r IH]; intros Hnd Hpos; simpl; constructor.
        - inversion Hnd as [|? ? Hi Hnd']; subst. intro Q. apply in_map_iff in Q. destruct Q as (i' & E & Hi').
          inversion E as [E']. apply append_inj_l in E'. apply dec_injective in E'; [subst; contradiction| |]; apply Hpos; simpl; auto.
        - inversion Hnd; subst. apply IH; [assumption|intros; apply Hpos; simpl; auto]. }
      apply G; [apply zrange_from_nodup|intros i Hi; apply zrange_in in Hi; lia]. }
    split.
    - unfold save_dict, level_range. rewrite Hs. f_equal. rewrite combine_map_self.
      rewrite fold_save_filter by (rewrite map_map; simpl; exact Hnd). f_equal. f_equal.
      subst ws. unfold level_plan, expected_dict. destruct P as [|p0 P']; [congruence|].
      assert (G : forall r, (forall i, In i r -> In i (zrange (level + 1))) ->
                flat_map (fun f_i : path * Z => match dict_get (map (fun k => (k, col (p0 :: P') k)) (zrange (level + 1))) (snd f_i) with
                                                | Some c => [(fst f_i, pickle c)] | None => [] end) (map (fun i => (mk i, i)) r)
                = map (fun i => (mk i, pickle (col (p0 :: P') i))) r).
      { induction r as [|i r IH]; intro Hin; simpl; [reflexivity|].
        rewrite (dict_get_map (col (p0 :: P')) (zrange (level + 1)) i) by (apply Hin; simpl; auto).
        simpl. f_equal. apply IH. intros; apply Hin; simpl; auto. }
      apply G. auto.
    - subst ws. rewrite map_map. simpl. exact Hnd.
  Qed.

  (* ---- dict_spec for a plainly named molecule: conformer j is called <name>_<j> ------------------------------------- *)
  Lemma dict_spec_named fs (m : mol conformer) (a : fargs opts) s :
    let level := normal_level (a_level a) in
    let bits := normal_bits (a_bits a) in
    let levels := level_range level (a_all_iters a) in
    let N := cutoff (a_first a) (length (mconfs m)) in
    mname m = Some s -> plain_name s ->
    a_save a = false -> mconfs m <> [] ->
    fp_init (a_opts a) bits level = Ok tt ->
    (forall c k, In c (firstn N (mconfs m)) -> In k levels -> fprint (a_opts a) bits c level k = Ok (g c k)) ->
    dict_from_mol fs m a
    = mkout (Ok (expected_dict conformer g (fun j => Some (s ++ "_" ++ dec j)%string) levels (firstn N (mconfs m))))
            fs (Some (Z.of_nat N)).
  Proof.
    intros level bits levels N Hm Hp Hs Hc Hi Hf.
    apply (dict_spec conformer opts fprint fp_init content pickle g _ fs m a Hs Hc Hi Hf).
    intro j. rewrite (effective_name_plain m s Hm Hp). apply namer_plain. exact Hp.
  Qed.

  (* ---- unnamed molecules -------------------------------------------------------------------------------------------- *)
  Lemma unnamed_spec fs (m : mol conformer) (a : fargs opts) :
    let level := normal_level (a_level a) in
    let bits := normal_bits (a_bits a) in
    let levels := level_range level (a_all_iters a) in
    let N := cutoff (a_first a) (length (mconfs m)) in
    effective_name conformer m = None ->
    a_save a = false -> mconfs m <> [] ->
    fp_init (a_opts a) bits level = Ok tt ->
    (forall c k, In c (firstn N (mconfs m)) -> In k levels -> fprint (a_opts a) bits c level k = Ok (g c k)) ->
    dict_from_mol fs m a
    = mkout (Ok (expected_dict conformer g (fun _ => None) levels (firstn N (mconfs m)))) fs (Some (Z.of_nat N)) /\
    forall k, column conformer g (fun _ => None) (firstn N (mconfs m)) k = map (fun c => g c k) (firstn N (mconfs m)).
  Proof.
    intros level bits levels N Hnm Hs Hc Hi Hf. split.
    - apply (dict_spec conformer opts fprint fp_init content pickle g (fun _ => None) fs m a Hs Hc Hi Hf).
      intro j. rewrite Hnm. reflexivity.
    - intro k. apply column_unnamed. reflexivity.
  Qed.

  Lemma dict_get_expected levels P k : P <> [] -> In k levels -> dict_get (expd levels P) k = Some (col P k).
  Proof. intros HP Hin. unfold expected_dict. destruct P; [congruence|]. apply dict_get_map; exact Hin. Qed.

  (* ---- saved files reload to the returned fingerprints --------------------------------------------------------------- *)
  Section Reload.
    Variable unpickle : content -> option (list fp).
    Hypothesis unpickle_pickle : forall l, unpickle (pickle l) = Some l.

    Lemma saved_reload_single fs (m : mol conformer) (a : fargs opts) nm :
      let level := normal_level (a_level a) in
      let bits := normal_bits (a_bits a) in
      let N := cutoff (a_first a) (length (mconfs m)) in
      let P := firstn N (mconfs m) in
      let file : path := (String.append (str_of_base (a_out_dir_base a)) (if level =? -1 then "_complete"%string else dec level),
                          (nm ++ a_out_ext a)%string) in
      a_save a = true -> effective_name conformer m = Some nm -> single_level level (a_all_iters a) = true ->
      fs_isfile fs file && negb (a_overwrite a) = false ->
      mconfs m <> [] -> (1 <= N)%nat ->
      fp_init (a_opts a) bits level = Ok tt ->
      (forall c k, In c P -> In k (level_range level (a_all_iters a)) -> fprint (a_opts a) bits c level k = Ok (g c k)) ->
      (forall j, namer (effective_name conformer m) j = Ok (nmf j)) ->
      let out := dict_from_mol fs m a in
      o_val out = Ok [(level, col P level)] /\ o_logged out = Some (Z.of_nat N) /\
      (exists c, fs_lookup (o_fs out) file = Some c /\ unpickle c = Some (col P level)) /\
      (forall q, q <> file -> fs_lookup (o_fs out) q = fs_lookup fs q).
    Proof.
      intros level bits N P file Hs Hnm Hsl Hex Hc HN Hi Hf Hn out.
      assert (HP : P <> []) by (apply firstn_nonempty; assumption).
      assert (Hfiles : filenames (a_out_dir_base a) level (a_all_iters a) nm (a_out_ext a) = Ok [file]).
      { unfold filenames. rewrite Hsl. reflexivity. }
      assert (Hex' : forallb (fs_isfile fs) [file] && negb (a_overwrite a) = false).
      { simpl. rewrite andb_true_r. exact Hex. }
      assert (Hd : expd (level_range level (a_all_iters a)) P = [(level, col P level)]).
      { unfold level_range. rewrite Hsl. unfold expected_dict. destruct P; [congruence|reflexivity]. }
      subst out. rewrite (dict_save_spec fs m a nm [file] Hs Hnm Hfiles Hex' Hc Hi Hf Hn).
      pose proof (save_single fs file [] level (a_all_iters a) (a_overwrite a) P Hsl HP) as E1.
      cbv zeta. unfold P, N, level in *. rewrite E1.
      rewrite Hd. simpl. repeat split.
      - exists (pickle (col P level)). rewrite path_eqb_refl. auto.
      - intros q Hq. rewrite path_eqb_neq by exact Hq. reflexivity.
    Qed.

    Lemma saved_reload_all_iters fs (m : mol conformer) (a : fargs opts) nm b L :
      let bits := normal_bits (a_bits a) in
      let N := cutoff (a_first a) (length (mconfs m)) in
      let P := firstn N (mconfs m) in
      let file : Z -> path := fun k : Z => ((b ++ dec k)%string, (nm ++ a_out_ext a)%string) in
      a_save a = true -> effective_name conformer m = Some nm ->
      a_all_iters a = true -> a_level a = Some L -> 0 <= L -> a_out_dir_base a = Some b ->
      forallb (fs_isfile fs) (map file (zrange (L + 1))) && negb (a_overwrite a) = false ->
      mconfs m <> [] -> (1 <= N)%nat ->
      fp_init (a_opts a) bits L = Ok tt ->
      (forall c k, In c P -> 0 <= k <= L -> fprint (a_opts a) bits c L k = Ok (g c k)) ->
      (forall j, namer (effective_name conformer m) j = Ok (nmf j)) ->
      let out := dict_from_mol fs m a in
      exists d, o_val out = Ok d /\
      forall k, 0 <= k <= L ->
        dict_get d k = Some (col P k) /\
        (* a level file that existed is left untouched (overwrite off); every other one is written and reloads *)
        (fs_isfile fs (file k) && negb (a_overwrite a) = true -> fs_lookup (o_fs out) (file k) = fs_lookup fs (file k)) /\
        (fs_isfile fs (file k) && negb (a_overwrite a) = false ->
         exists c, fs_lookup (o_fs out) (file k) = Some c /\ unpickle c = Some (col P k)).
    Proof.
      intros bits N P file Hs Hnm Hai HL HL0 Hb Hex Hc HN Hi Hf Hn out.
      assert (HP : P <> []) by (apply firstn_nonempty; assumption).
      assert (Hsl : single_level L true = false).
      { unfold single_level. destruct (L =? -1) eqn:E; [lia|reflexivity]. }
      assert (Hlr : level_range L true = zrange (L + 1)) by (unfold level_range; rewrite Hsl; reflexivity).
      assert (Hfiles : filenames (a_out_dir_base a) (normal_level (a_level a)) (a_all_iters a) nm (a_out_ext a)
                       = Ok (map file (zrange (L + 1)))).
      { rewrite HL, Hai, Hb. simpl normal_level. unfold filenames. rewrite Hsl.
        destruct (zrange (L + 1)) eqn:E; [|reflexivity].
        assert (Q : In 0 (zrange (L + 1))) by (apply zrange_in; lia). rewrite E in Q. destruct Q. }
      pose proof (dict_save_spec fs m a nm (map file (zrange (L + 1))) Hs Hnm Hfiles) as Q.
      rewrite HL, Hai in Q. simpl normal_level in Q. rewrite Hlr in Q.
      specialize (Q Hex Hc Hi).
      subst out. rewrite Q; [|intros c k Hc' Hk; apply Hf; [exact Hc'|apply zrange_in in Hk; lia]|exact Hn].
      fold N. fold P.
      destruct (save_multi fs b (nm ++ a_out_ext a)%string L (a_overwrite a) P HL0 HP) as [Esave Hnd].
      rewrite Hlr in Esave. cbv zeta in Esave, Hnd. unfold file, P, N in *. rewrite Esave.
      exists (expd (zrange (L + 1)) P). split; [reflexivity|]. intros k Hk.
      assert (Hin : In k (zrange (L + 1))) by (apply zrange_in; lia).
      split; [apply dict_get_expected; [exact HP|exact Hin]|]. simpl o_fs. split.
      - intro E. apply lookup_kept_writes_existing. exact E.
      - intro E. exists (pickle (col (firstn (cutoff (a_first a) (length (mconfs m))) (mconfs m)) k)). split; [|apply unpickle_pickle].
        apply lookup_kept_writes_new; [exact Hnd| |exact E].
        apply in_map_iff. exists k. split; [reflexivity|exact Hin].
    Qed.
  End Reload.
End Spec.

(* the number of conformers fingerprinted, by cases of `first` *)
Lemma cutoff_cases first n :
  ((first = -1 \/ Z.of_nat n <= first) -> cutoff first n = n) /\
  (1 <= first < Z.of_nat n -> cutoff first n = Z.to_nat first) /\
  (first < -1 -> cutoff first n = n) /\
  ((1 <= n)%nat -> cutoff 0 n = 0%nat).
Proof.
  repeat split.
  - intros [->|H]; [reflexivity|apply cutoff_large; exact H].
  - intro H. apply cutoff_small. lia.
  - intro H. apply cutoff_negative. lia.
  - apply cutoff_zero.
Qed.

(* ---- fprints_from_smiles: the default-argument dict ------------------------------------------------------------------ *)
Section Smiles.
  Variable conformer : Type.
  Variable opts : Type.
  Variable fprint : opts -> Z -> conformer -> Z -> Z -> result fp.
  Variable fp_init : opts -> Z -> Z -> result unit.
  Variable content : Type.
  Variable pickle : list fp -> content.
  Variable smiles : Type.
  Variable confgen : cparams -> bool -> smiles -> string -> result (list conformer).

  Notation history := (smiles_history conformer opts fprint fp_init content pickle smiles confgen (smiles_step opts smiles)).
  Notation call := (fprints_from_smiles conformer opts fprint fp_init content pickle smiles confgen).

  Lemma smiles_step_keeps fs dflt c :
    fst (fprints_from_smiles_with conformer opts fprint fp_init content pickle smiles confgen (smiles_step opts smiles) fs dflt c) = dflt.
  Proof. reflexivity. Qed.

  Lemma smiles_state_invariant cs : forall fs dflt, fst (fst (history fs dflt cs)) = dflt.
  Proof.
    induction cs as [|c t IH]; intros fs dflt; [reflexivity|].
    cbn [smiles_history]. pose proof (smiles_step_keeps fs dflt c) as K.
    destruct (fprints_from_smiles_with conformer opts fprint fp_init content pickle smiles confgen (smiles_step opts smiles) fs dflt c) as [d' r].
    simpl in K. subst d'. specialize (IH (o_fs r) dflt).
    destruct (history (o_fs r) dflt t) as [[d'' fs''] rs]. simpl in *. exact IH.
  Qed.

  (* after any history of calls, a call behaves as it would on a fresh interpreter with the same files *)
  Lemma smiles_no_leak h c fs dflt :
    let '(d, fs', _) := history fs dflt h in
    d = dflt /\ call fs' d c = call fs' dflt c.
  Proof.
    pose proof (smiles_state_invariant h fs dflt) as H.
    destruct (history fs dflt h) as [[d fs'] rs]. simpl in H. subst. auto.
  Qed.
End Smiles.

(* the code before the repair (write into the default object) did leak: the second call inherits first = 1 *)
Lemma smiles_inplace_leaked :
  let p1 := mkfparams (opts := unit) PAbsent PAbsent (Some 1) tt None None None None in
  let p2 := mkfparams (opts := unit) PAbsent PAbsent None tt None None None None in
  let c1 := mkcall (smiles := unit) tt "a" None p1 false in
  let c2 := mkcall (smiles := unit) tt "b" None p2 false in
  smiles_effective unit unit (fst (smiles_step_inplace unit unit [] c1)) c2 = [("first"%string, 1)] /\
  smiles_effective unit unit (fst (smiles_step unit unit [] c1)) c2 = [("first"%string, -1)].
Proof. split; reflexivity. Qed.
