(* C03 - part 5: the duplicate-substructure filter and the Shell.__eq__ union, independently of any scene. *)
From Coq Require Import ZArith List Bool Lia ZifyBool Permutation Sorting.Sorted.
From E3FP Require Import Base.Prelude Base.ZSet Model.Geometry Model.Stereo Model.Fprint Model.E3FP
  Proofs.RelabelSort Proofs.RelabelScene.
Import ListNotations.
Open Scope Z_scope.

Lemma mem_sub_In s past : mem_sub s past = true <-> In s past.
Proof.
  unfold mem_sub. rewrite existsb_exists. split.
  - intros [x [Hx E]]. apply zlist_eqb_eq in E. subst. exact Hx.
  - intro H. exists s. split; [exact H | apply zlist_eqb_eq; reflexivity].
Qed.

Lemma mem_sub_false s past : mem_sub s past = false <-> ~ In s past.
Proof. rewrite <- mem_sub_In. destruct (mem_sub s past); intuition congruence. Qed.

Definition ident_sorted (l : list shell) : Prop := StronglySorted (fun x y => s_ident x <= s_ident y) l.

(* what the filter accepts: for every substructure not seen before, its first carrier; in a list sorted by identifier
   that carrier has the least identifier among the carriers *)
Lemma dedup_spec : forall cands past acc past2,
  dedup cands past = (acc, past2) ->
  past2 = rev (map s_sub acc) ++ past /\
  (forall s, In s acc -> In s cands /\ ~ In (s_sub s) past) /\
  (forall t, In t cands -> ~ In (s_sub t) past -> exists s, In s acc /\ s_sub s = s_sub t) /\
  NoDup (map s_sub acc) /\
  (NoDup (map s_center cands) -> NoDup (map s_center acc)) /\
  (ident_sorted cands -> forall s t, In s acc -> In t cands -> s_sub t = s_sub s -> s_ident s <= s_ident t).
Proof.
  induction cands as [|c t IH]; intros past acc past2 Hd; simpl in Hd.
  - inversion Hd; subst. simpl. split; [reflexivity|]. split; [intros s []|]. split; [intros t []|].
    split; [constructor|]. split; [intros; constructor|]. intros _ s t [].
  - destruct (mem_sub (s_sub c) past) eqn:Em.
    + apply mem_sub_In in Em. destruct (IH _ _ _ Hd) as (H1 & H2 & H3 & H4 & H5 & H6).
      split; [exact H1|]. split; [|split; [|split; [exact H4|split]]].
      * intros s Hs. destruct (H2 s Hs). split; [right|]; assumption.
      * intros t' [<-|Ht'] Hn; [contradiction | auto].
      * intro Hnd. inversion Hnd; subst. auto.
      * intros Hs s t' Hsa [<-|Ht'] E.
        -- exfalso. destruct (H2 s Hsa) as [_ Hn]. apply Hn. rewrite <- E. exact Em.
        -- inversion Hs; subst. apply H6; assumption.
    + apply mem_sub_false in Em.
      destruct (dedup t (s_sub c :: past)) as [acc' p'] eqn:Ed. inversion Hd; subst. clear Hd.
      destruct (IH _ _ _ Ed) as (H1 & H2 & H3 & H4 & H5 & H6).
      split; [|split; [|split; [|split; [|split]]]].
      * rewrite H1. simpl. rewrite <- app_assoc. reflexivity.
      * intros s [<-|Hs]; [split; [left; reflexivity | exact Em]|].
        destruct (H2 s Hs) as [Hin Hn]. split; [right; exact Hin|]. intro Hp. apply Hn. right. exact Hp.
      * intros t' Ht' Hn. destruct (zlist_eqb (s_sub c) (s_sub t')) eqn:Ez.
        -- apply zlist_eqb_eq in Ez. exists c. split; [left; reflexivity | exact Ez].
        -- assert (s_sub c <> s_sub t') as Hne by (intro E; apply zlist_eqb_eq in E; congruence).
           destruct Ht' as [<-|Ht']; [congruence|].
           destruct (H3 t' Ht') as [s [Hs Es]]; [intros [E|Hp]; [congruence | contradiction]|].
           exists s. split; [right; exact Hs | exact Es].
      * simpl. constructor; [|exact H4]. intro Hin. apply in_map_iff in Hin. destruct Hin as [s [Es Hs]].
        destruct (H2 s Hs) as [_ Hn]. apply Hn. left. congruence.
      * intro Hnd. inversion Hnd as [|? ? Hn Hnt]; subst. simpl. constructor; [|auto].
        intro Hin. apply Hn. apply in_map_iff in Hin. destruct Hin as [s [Es Hs]].
        apply in_map_iff. exists s. split; [exact Es|]. destruct (H2 s Hs). assumption.
      * intros Hs s t' Hsa Ht' E. inversion Hs as [|? ? Hst Hall]; subst. rewrite Forall_forall in Hall.
        destruct Hsa as [<-|Hsa].
        -- destruct Ht' as [<-|Ht']; [lia | apply Hall; exact Ht'].
        -- destruct Ht' as [<-|Ht'].
           ++ exfalso. destruct (H2 s Hsa) as [_ Hn]. apply Hn. left. exact E.
           ++ apply H6; assumption.
Qed.

(* union under Shell.__eq__ when the new shells have distinct centres *)
Lemma same_shell_center s t : same_shell s t = true -> s_center s = s_center t.
Proof. unfold same_shell. lia. Qed.

Lemma union_shells_filter : forall new old,
  NoDup (map s_center new) ->
  union_shells old new = old ++ filter (fun s => negb (existsb (same_shell s) old)) new.
Proof.
  induction new as [|s t IH]; intros old Hnd; simpl.
  - rewrite app_nil_r. reflexivity.
  - inversion Hnd as [|? ? Hn Hnt]; subst.
    destruct (existsb (same_shell s) old) eqn:E; simpl.
    + apply IH. exact Hnt.
    + rewrite IH by exact Hnt. rewrite <- app_assoc. simpl. f_equal. f_equal.
      apply filter_ext_in. intros s' Hs'. rewrite existsb_app. simpl. rewrite orb_false_r.
      destruct (same_shell s' s) eqn:Es; [|rewrite orb_false_r; reflexivity].
      exfalso. apply Hn. apply same_shell_center in Es. rewrite <- Es. apply in_map. exact Hs'.
Qed.

Lemma filter_all_true {A} (f : A -> bool) l : (forall x, In x l -> f x = true) -> filter f l = l.
Proof.
  induction l as [|x t IH]; simpl; intro H; [reflexivity|].
  rewrite (H x (or_introl eq_refl)). f_equal. apply IH. intros; apply H; right; assumption.
Qed.

Lemma union_shells_fresh new old :
  NoDup (map s_center new) -> (forall s, In s new -> existsb (same_shell s) old = false) ->
  union_shells old new = old ++ new.
Proof.
  intros Hnd Hf. rewrite union_shells_filter by exact Hnd. f_equal.
  apply filter_all_true. intros s Hs. rewrite (Hf s Hs). reflexivity.
Qed.

Lemma NoDup_map_impl {A B1 B2} (f : A -> B1) (g : A -> B2) l :
  (forall x y, In x l -> In y l -> f x = f y -> g x = g y) -> NoDup (map g l) -> NoDup (map f l).
Proof.
  induction l as [|x t IH]; simpl; intros Hfg Hnd; [constructor|].
  inversion Hnd as [|? ? Hn Hnt]; subst. constructor.
  - intro Hin. apply Hn. apply in_map_iff in Hin. destruct Hin as [y [E Hy]].
    apply in_map_iff. exists y. split; [|exact Hy]. apply Hfg; auto.
  - apply IH; [|exact Hnt]. intros; apply Hfg; auto.
Qed.

Lemma usort_perm_nodup l : NoDup l -> Permutation (usort l) l.
Proof.
  intro H. apply NoDup_Permutation; [apply ssorted_NoDup, ssorted_usort | exact H | intro; apply In_usort].
Qed.
