(* C03 - part 8: concrete instances (vm_compute): the hypotheses of the theorems are satisfiable, the conclusion is
   non-trivial, the two-identical-neighbours rule is exercised, and the two exclusions are necessary:
   (a) with duplicate removal the CENTRE of an accepted shell is not carried along by the renumbering;
   (b) with two retained atoms at the same coordinates the stereo fingerprint depends on the numbering. *)
From Coq Require Import ZArith List Bool Lia Permutation.
From E3FP Require Import Base.Prelude Base.ZSet Model.Geometry Model.Stereo Model.Fprint Model.E3FP Gen.Constants Gen.AngleTable
  Proofs.RelabelSort Proofs.RelabelScene Proofs.RelabelLevel Proofs.RelabelStep Proofs.RelabelStereo Proofs.RelabelMain.
Import ListNotations.
Open Scope Z_scope.

Definition at_ (i num deg tdeg tval nh mass ch : Z) (x y z : Z) : atom ZD :=
  mkatom ZD i num deg tdeg tval nh mass ch 0 0 (mkvec (D:=ZD) x y z).

(* dimethyl ether and a chloride ion off the C-O-C plane (4 heavy atoms, not coplanar); coordinates in 1/1000 Angstrom.
   The two methyl carbons are mirror images: identical invariants, identical (bond, identifier) keys seen from O. *)
Definition mE : mol ZD := mkmol ZD
  [at_ 0 8 2 2 2 0 15 0  0 0 0;
   at_ 1 6 1 4 4 3 12 0  1100 900 0;
   at_ 2 6 1 4 4 3 12 0  (-1100) 900 0;
   at_ 3 17 0 0 0 0 35 (-1)  300 2500 2000]
  [(0, 1, BtSingle); (0, 2, BtSingle)] 1000000.

(* level 5, radius multiplier 1.718, include_disconnected, Daylight invariants, floating atoms kept *)
Definition oE (stereo remdup : bool) : opts := mkopts 5 1718 1000 stereo remdup true false false.

(* the renumbering 0->2, 1->3, 2->0, 3->1: it reverses the relative order of the two methyl carbons *)
Definition pE (x : Z) : Z := if x =? 0 then 2 else if x =? 1 then 3 else if x =? 2 then 0 else if x =? 3 then 1 else x.

Lemma pE_injective : injective pE.
Proof.
  intros x y. unfold pE.
  destruct (Z.eqb_spec x 0), (Z.eqb_spec x 1), (Z.eqb_spec x 2), (Z.eqb_spec x 3),
           (Z.eqb_spec y 0), (Z.eqb_spec y 1), (Z.eqb_spec y 2), (Z.eqb_spec y 3); lia.
Qed.

Lemma mE_nodup : NoDup (map (a_idx ZD) (m_atoms ZD mE)).
Proof. simpl. repeat constructor; simpl; intuition lia. Qed.

Lemma mE_gp st rd : gp_mol ZD (oE st rd) mE.
Proof. apply gp_molb_ok. destruct st, rd; vm_compute; reflexivity. Qed.

Definition FUELE : nat := 50%nat.
Definition runE (o : opts) (m : mol ZD) : result state := run ZD e3fp_consts FUELE o m.

Definition ident_obs (r : result state) : option (Z * list (list Z)) :=
  match r with Ok st => Some (st_k st, map (fun l => sort_by Z.leb (map s_ident l)) (st_shells st)) | Raises _ => None end.

Definition shells_of_run (r : result state) (lv : Z) : list shell :=
  match r with Ok st => shells_at_true st lv | Raises _ => [] end.

(* 1. the theorem applies (hypotheses satisfiable), stereo on and off, duplicate removal on and off *)
Example ex_theorem_applies st rd : fp_equal (oE st rd) pE (runE (oE st rd) mE) (runE (oE st rd) (relabel ZD pE mE)).
Proof.
  apply fp_relabel_invariant_ZD_lemma; [exact pE_injective | exact mE_nodup | intro; apply mE_gp].
Qed.

(* 2. ... and what it says on this instance, computed: two generated levels, 8 shells at the last one, identical
   identifier multisets (the relabelled molecule really is a different value: its atom list is re-sorted) *)
Example ex_relabelled_atoms : map (a_idx ZD) (m_atoms ZD (relabel ZD pE mE)) = [0; 1; 2; 3] /\
                              map (a_num ZD) (m_atoms ZD (relabel ZD pE mE)) = [6; 17; 8; 6].
Proof. vm_compute. split; reflexivity. Qed.

Example ex_computed_stereo :
  ident_obs (runE (oE true true) mE) = ident_obs (runE (oE true true) (relabel ZD pE mE)) /\
  ident_obs (runE (oE true true) mE) =
  Some (2, [[-1778521339; -1282435739; -222326110; -222326110; 189018378; 628239467; 628239467; 1612004027];
            [-1282435739; -222326110; -222326110; 189018378; 628239467; 628239467; 1612004027];
            [-222326110; -222326110; 189018378; 1612004027]]).
Proof. vm_compute. split; reflexivity. Qed.

Example ex_computed_fingerprint :
  match runE (oE true true) mE, runE (oE true true) (relabel ZD pE mE) with
  | Ok st, Ok st' =>
      fingerprint_query (oE true true) true 1024 st' None (map pE [3]) = fingerprint_query (oE true true) true 1024 st None [3] /\
      is_ok (fingerprint_query (oE true true) true 1024 st None [3]) = true /\
      length (shells_query (oE true true) st None [3]) = 6%nat
  | _, _ => False
  end.
Proof. vm_compute. repeat split; reflexivity. Qed.

(* 3. the two-identical-neighbours rule is exercised: seen from the oxygen at level 1 the two carbons have the same key,
   no key is unique, y is list element 0, and the codes are the pole code 1 and a quadrant code *)
Definition sceneE : scene ZD := match scene_of ZD (oE true true) mE with Ok sc => sc | Raises _ => mkscene ZD [] [] [] 0 end.
Definition nsE (sc : scene ZD) (a : Z) : list (nb ZD) :=
  sort_by (fun x y => key2_leb (nb_key ZD x) (nb_key ZD y))
    (map (fun l => mknb (lk_conn ZD l) (aget 0 (l_ident (level0 ZD sc)) (lk_b ZD l)) (lk_vec ZD l))
         (nbrs ZD (oE true true) sc 1 a)).

Example ex_two_identical :
  map (nb_key ZD) (nsE sceneE 0) = [(1, -222326110); (1, -222326110)] /\
  first_unique key2_eqb (map (nb_key ZD) (nsE sceneE 0)) = None /\
  codes ZD e3fp_consts 1000000 (nsE sceneE 0) = [1; -2].
Proof. vm_compute. repeat split; reflexivity. Qed.

(* 4. necessity (a): with duplicate removal the centres are NOT carried along.  Stereo off: at level 2 both carbons
   carry the substructure {0,1,2,3} with the same identifier; the lower index is accepted - atom 1 before the
   renumbering, the image of atom 2 after it. *)
Example centre_not_equivariant :
  let l := shells_of_run (runE (oE false true) mE) 2 in
  let l' := shells_of_run (runE (oE false true) (relabel ZD pE mE)) 2 in
  Permutation (map s_ident l) (map s_ident l') /\
  ~ Permutation (map pE (map s_center l)) (map s_center l').
Proof.
  cbv zeta. split.
  - pose proof (ex_theorem_applies false true) as H. unfold runE in *.
    destruct (run ZD e3fp_consts FUELE (oE false true) mE); destruct (run ZD e3fp_consts FUELE (oE false true) (relabel ZD pE mE));
      simpl in *; try contradiction; [apply H | constructor].
  - intro HP.
    assert (Hc : forall l1 l2 : list Z, Permutation l1 l2 -> count_occ_Z 3 l1 = count_occ_Z 3 l2)
      by (intros; apply count_occ_Z_perm; assumption).
    apply Hc in HP. vm_compute in HP. discriminate.
Qed.

(* 5. necessity (b): two retained atoms at the same coordinates.  Here a methyl carbon sits on the oxygen: seen from the
   other atoms nothing is wrong, but the oxygen has two neighbours with identical keys one of which is the zero vector,
   and the list-element-0 rule gives codes {0, 2} or {1, 0} depending on which comes first. *)
Definition mBad : mol ZD := mkmol ZD
  [at_ 0 8 2 2 2 0 15 0  0 0 0;
   at_ 1 6 1 4 4 3 12 0  0 0 0;
   at_ 2 6 1 4 4 3 12 0  (-1100) 900 0;
   at_ 3 17 0 0 0 0 35 (-1)  300 2500 2000]
  [(0, 1, BtSingle); (0, 2, BtSingle)] 1000000.

Theorem fp_relabel_refuted_coincident_lemma :
  exists (o : opts) (p : Z -> Z) (m : mol ZD) (lv : Z),
    injective p /\ NoDup (map (a_idx ZD) (m_atoms ZD m)) /\ o_stereo o = true /\ gp_molb ZD o m = false /\
    is_ok (run ZD e3fp_consts 50 o m) = true /\ is_ok (run ZD e3fp_consts 50 o (relabel ZD p m)) = true /\
    ~ Permutation (map s_ident (shells_of_run (run ZD e3fp_consts 50 o m) lv))
                  (map s_ident (shells_of_run (run ZD e3fp_consts 50 o (relabel ZD p m)) lv)).
Proof.
  exists (oE true true), pE, mBad, 1. split; [exact pE_injective|]. split; [simpl; repeat constructor; simpl; intuition lia|].
  split; [reflexivity|]. split; [vm_compute; reflexivity|]. split; [vm_compute; reflexivity|]. split; [vm_compute; reflexivity|].
  intro HP.
  assert (Hc : forall l1 l2 : list Z, Permutation l1 l2 -> count_occ_Z (-1239805014) l1 = count_occ_Z (-1239805014) l2)
    by (intros; apply count_occ_Z_perm; assumption).
  apply Hc in HP. vm_compute in HP. discriminate.
Qed.
