(* C03 - part 4: single-run invariants of the shell iteration.
   The substructure of a shell is a function of (centre atom, Shell.__eq__ class): two levels at which an atom has the
   same class give it the same substructure.  (Consequence, used in RelabelStep.v: with duplicate-substructure removal a
   newly accepted shell is never Shell.__eq__-equal to an older one.) *)
From Coq Require Import ZArith List Bool Lia ZifyBool Permutation Sorting.Sorted.
From E3FP Require Import Base.Prelude Base.ZSet Base.Murmur3 Model.Geometry Model.Stereo Model.Fprint Model.E3FP
  Gen.Constants Proofs.RelabelSort Proofs.RelabelScene Proofs.RelabelLevel.
Import ListNotations.
Open Scope Z_scope.

Section Inv.
Variable D : ringdict.
Variable C : sconsts.
Variable o : opts.
Variable sc : scene D.

Definition sc_wf : Prop :=
  NoDup (sc_atoms D sc) /\
  forall a, In a (sc_atoms D sc) -> forall l, In l (links_of D sc a) -> In (lk_b D l) (sc_atoms D sc).

Hypothesis WF : sc_wf.
Local Notation L := (lev D C o sc).
Local Notation atoms := (sc_atoms D sc).

Lemma nbrs_in k a l : In a atoms -> In l (nbrs D o sc k a) -> In (lk_b D l) atoms.
Proof.
  intros Ha Hl. unfold nbrs in Hl. apply filter_In in Hl. destruct Hl as [Hl _]. exact (proj2 WF a Ha l Hl).
Qed.

(* accessors *)
Lemma L0_sub a : In a atoms -> aget [] (l_sub (L 0)) a = [a].
Proof. apply (level0_sub D sc (proj1 WF)). Qed.
Lemma L0_mem a : aget [] (l_mem (L 0)) a = [].
Proof. apply level0_mem. Qed.
Lemma L0_canon a : aget 0 (l_canon (L 0)) a = 0.
Proof. apply level0_canon. Qed.
Lemma LS_ident n a : In a atoms -> aget 0 (l_ident (L (S n))) a = per_ident D C o sc (Z.of_nat (S n)) (L n) a.
Proof. intro Ha. rewrite lev_S. apply (next_level_ident D C o sc (proj1 WF)). exact Ha. Qed.
Lemma LS_sub n a : In a atoms -> aget [] (l_sub (L (S n))) a = per_sub D o sc (Z.of_nat (S n)) (L n) a.
Proof. intro Ha. rewrite lev_S. apply (next_level_sub D C o sc (proj1 WF)). exact Ha. Qed.
Lemma LS_mem n a : In a atoms -> aget [] (l_mem (L (S n))) a = per_mem D o sc (Z.of_nat (S n)) (L n) a.
Proof. intro Ha. rewrite lev_S. apply (next_level_mem D C o sc (proj1 WF)). exact Ha. Qed.
Lemma LS_canon n a : In a atoms ->
  aget 0 (l_canon (L (S n))) a = canon_search a (per_mem D o sc (Z.of_nat (S n)) (L n) a) (map L (seq 0 (S n))) 0 (Z.of_nat (S n)).
Proof.
  intro Ha. rewrite lev_S. rewrite (next_level_canon D C o sc (proj1 WF) _ _ _ _ Ha).
  unfold per_canon. rewrite <- (levels_upto_cons D C o sc n). rewrite rev_levels_upto. reflexivity.
Qed.

Lemma sub_ssorted n a : In a atoms -> ssorted (aget [] (l_sub (L n)) a).
Proof.
  intro Ha. destruct n.
  - rewrite L0_sub by exact Ha. repeat constructor.
  - rewrite LS_sub by exact Ha. apply ssorted_usort.
Qed.

Lemma In_per_sub x k prev a :
  In x (per_sub D o sc k prev a) <-> x = a \/ exists l, In l (nbrs D o sc k a) /\ In x (aget [] (l_sub prev) (lk_b D l)).
Proof.
  unfold per_sub. split.
  - intro H. apply (proj1 (In_usort _ _)) in H. destruct H as [<-|H]; [left; reflexivity|].
    right. apply in_flat_map in H. exact H.
  - intro H. apply (proj2 (In_usort _ _)). destruct H as [->|H]; [left; reflexivity|].
    right. apply in_flat_map. exact H.
Qed.

Lemma canon_search_spec a ms hist : forall j dflt,
  canon_search a ms hist j dflt = dflt \/
  exists i, (i < length hist)%nat /\ canon_search a ms hist j dflt = j + Z.of_nat i /\
            aget [] (l_mem (nth i hist (L 0))) a = ms.
Proof.
  induction hist as [|l t IH]; intros j dflt; simpl; [left; reflexivity|].
  destruct (list_eqb zpair_eqb (aget [] (l_mem l) a) ms) eqn:E.
  - right. exists 0%nat. split; [lia|]. split; [lia|]. apply (list_eqb_eq _ zpair_eqb_eq). exact E.
  - destruct (IH (j + 1) dflt) as [H|[i [Hi [Hc Hm]]]]; [left; exact H|].
    right. exists (S i). split; [lia|]. split; [lia | exact Hm].
Qed.

Lemma sort_by_nil {A} (leb : A -> A -> bool) l : sort_by leb l = [] -> l = [].
Proof.
  intro H. apply (f_equal (@length A)) in H. rewrite sort_by_length in H. destruct l; [reflexivity | discriminate].
Qed.

(* G: the class of an atom at level n is a level c <= n at which the atom had the same substructure *)
Definition Gprop (n : nat) : Prop :=
  forall a, In a atoms ->
    0 <= aget 0 (l_canon (L n)) a <= Z.of_nat n /\
    aget [] (l_sub (L n)) a = aget [] (l_sub (L (Z.to_nat (aget 0 (l_canon (L n)) a)))) a.

Lemma G_all : forall n, Gprop n.
Proof.
  intro n. induction n as [n IHn] using (well_founded_induction Wf_nat.lt_wf).
  destruct n as [|m].
  - intros a Ha. rewrite L0_canon. simpl. split; [lia | reflexivity].
  - intros a Ha. rewrite (LS_canon m a Ha).
    set (ms := per_mem D o sc (Z.of_nat (S m)) (L m) a).
    destruct (canon_search_spec a ms (map L (seq 0 (S m))) 0 (Z.of_nat (S m))) as [Hd|[i [Hi [Hc Hm]]]].
    + rewrite Hd. split; [lia|]. rewrite Nat2Z.id. reflexivity.
    + rewrite map_length, seq_length in Hi. rewrite Hc. rewrite Z.add_0_l, Nat2Z.id. split; [lia|].
      rewrite (map_nth L (seq 0 (S m)) 0%nat i) in Hm. rewrite seq_nth in Hm by exact Hi. simpl in Hm.
      (* mem (L i) a = ms *)
      rewrite (LS_sub m a Ha).
      destruct i as [|i'].
      * rewrite L0_mem in Hm. unfold ms, per_mem in Hm. symmetry in Hm. apply sort_by_nil in Hm.
        apply map_eq_nil in Hm. rewrite (L0_sub a Ha). unfold per_sub. rewrite Hm. reflexivity.
      * rewrite (LS_mem i' a Ha) in Hm. rewrite (LS_sub i' a Ha). unfold ms, per_mem in Hm.
        apply sort_by_eq_perm in Hm.
        assert (Hkey : forall (j1 j2 : nat) N1 N2,
                  (j1 < S m)%nat -> (j2 < S m)%nat ->
                  (forall l, In l N1 -> In (lk_b D l) atoms) ->
                  Permutation (map (fun l => (lk_b D l, aget 0 (l_canon (L j1)) (lk_b D l))) N1)
                              (map (fun l => (lk_b D l, aget 0 (l_canon (L j2)) (lk_b D l))) N2) ->
                  forall x l, In l N1 -> In x (aget [] (l_sub (L j1)) (lk_b D l)) ->
                  exists l2, In l2 N2 /\ In x (aget [] (l_sub (L j2)) (lk_b D l2))).
        { intros j1 j2 N1 N2 Hj1 Hj2 Hwf HP x l Hl Hx.
          assert (In (lk_b D l, aget 0 (l_canon (L j1)) (lk_b D l))
                     (map (fun l => (lk_b D l, aget 0 (l_canon (L j2)) (lk_b D l))) N2)) as Hin.
          { eapply Permutation_in; [exact HP|]. apply in_map_iff. exists l. auto. }
          apply in_map_iff in Hin. destruct Hin as [l2 [E Hl2]]. injection E as Eb Ec.
          exists l2. split; [exact Hl2|]. rewrite Eb in *.
          pose proof (Hwf l Hl) as Hb.
          destruct (IHn j1 Hj1 _ Hb) as [_ E1]. destruct (IHn j2 Hj2 _ Hb) as [_ E2].
          rewrite E2, Ec, <- E1. exact Hx. }
        apply ssorted_ext; [apply ssorted_usort | apply ssorted_usort |].
        intro x. change (In x (per_sub D o sc (Z.of_nat (S m)) (L m) a) <-> In x (per_sub D o sc (Z.of_nat (S i')) (L i') a)).
        rewrite !In_per_sub. split; (intros [->|[l [Hl Hx]]]; [left; reflexivity | right]).
        -- eapply (Hkey m i'); try eassumption; try lia.
           ++ intros l0 Hl0. eapply nbrs_in; eassumption.
           ++ symmetry. exact Hm.
        -- eapply (Hkey i' m); try eassumption; try lia.
           intros l0 Hl0. eapply nbrs_in; eassumption.
Qed.

(* the substructure is a function of (centre, class) *)
Theorem sub_functional n1 n2 a : In a atoms ->
  aget 0 (l_canon (L n1)) a = aget 0 (l_canon (L n2)) a -> aget [] (l_sub (L n1)) a = aget [] (l_sub (L n2)) a.
Proof.
  intros Ha E. destruct (G_all n1 a Ha) as [_ E1]. destruct (G_all n2 a Ha) as [_ E2].
  rewrite E1, E2, E. reflexivity.
Qed.
End Inv.
