(* C03 - part 3: the levels (identifier, substructure, member set, Shell.__eq__ class of every atom) of the run on the
   renumbered scene are the p-images of the levels of the original run. *)
From Coq Require Import ZArith List Bool Lia ZifyBool Permutation Sorting.Sorted.
From E3FP Require Import Base.Prelude Base.ZSet Base.Murmur3 Model.Geometry Model.Stereo Model.Fprint Model.E3FP
  Gen.Constants Proofs.RelabelSort Proofs.RelabelScene.
Import ListNotations.
Open Scope Z_scope.

Lemma map_inj_eq {A B} (f : A -> B) (Hf : forall x y, f x = f y -> x = y) : forall l l', map f l = map f l' -> l = l'.
Proof.
  induction l as [|x t IH]; destruct l' as [|y t']; simpl; intro E; try discriminate; [reflexivity|].
  inversion E. f_equal; auto.
Qed.

Lemma perm_map_inj {A B} (f : A -> B) (Hf : forall x y, f x = f y -> x = y) l l' :
  Permutation (map f l) (map f l') -> Permutation l l'.
Proof.
  intro H. apply Permutation_map_inv in H. destruct H as [l3 [E HP]].
  apply (map_inj_eq f Hf) in E. subst. symmetry. exact HP.
Qed.

Lemma Forall2_rev' {A B} (R : A -> B -> Prop) l l' : Forall2 R l l' -> Forall2 R (rev l) (rev l').
Proof.
  induction 1; simpl; [constructor|]. apply Forall2_app; [assumption|]. constructor; [assumption | constructor].
Qed.

(* ---- the levels of a run as a function of the level number --------------------------------------------------------- *)
Section Levels.
Variable D : ringdict.
Variable C : sconsts.
Variable o : opts.
Variable sc : scene D.

Fixpoint levels_upto (n : nat) : list lvl :=       (* most recent first: level n, n-1, ..., 0 *)
  match n with
  | O => [level0 D sc]
  | S n' => next_level D C o sc (Z.of_nat (S n')) (levels_upto n') :: levels_upto n'
  end.

Definition lev (n : nat) : lvl := hd (level0 D sc) (levels_upto n).

Lemma levels_upto_cons n : levels_upto n = lev n :: match n with O => [] | S n' => levels_upto n' end.
Proof. destruct n; reflexivity. Qed.

Lemma levels_upto_length n : length (levels_upto n) = S n.
Proof. induction n; simpl; [reflexivity | rewrite IHn; reflexivity]. Qed.

Lemma rev_levels_upto n : rev (levels_upto n) = map lev (seq 0 (S n)).
Proof.
  induction n as [|n IH].
  - reflexivity.
  - rewrite (levels_upto_cons (S n)). simpl rev. rewrite IH.
    rewrite (seq_S (S n) 0). rewrite map_app. reflexivity.
Qed.

Definition per_ident (k : Z) (prev : lvl) (a : Z) : Z := ident_next D C o sc k prev a (nbrs D o sc k a).
Definition per_sub (k : Z) (prev : lvl) (a : Z) : list Z :=
  usort (a :: flat_map (fun l => aget [] (l_sub prev) (lk_b D l)) (nbrs D o sc k a)).
Definition per_mem (k : Z) (prev : lvl) (a : Z) : list (Z * Z) :=
  sort_by zpair_leb (map (fun l => (lk_b D l, aget 0 (l_canon prev) (lk_b D l))) (nbrs D o sc k a)).
Definition per_canon (k : Z) (prev : lvl) (hist : list lvl) (a : Z) : Z :=
  canon_search a (per_mem k prev a) hist 0 k.

Hypothesis atoms_nodup : NoDup (sc_atoms D sc).

Lemma aget_atoms {B} (d : B) (val : Z -> B) a :
  In a (sc_atoms D sc) -> aget d (map (fun a => (a, val a)) (sc_atoms D sc)) a = val a.
Proof.
  intro Ha. apply (aget_map_key d (fun a => a) val (sc_atoms D sc) a); [rewrite map_id; exact atoms_nodup | exact Ha].
Qed.

Lemma next_level_ident k prev rest a : In a (sc_atoms D sc) ->
  aget 0 (l_ident (next_level D C o sc k (prev :: rest))) a = per_ident k prev a.
Proof. intro Ha. unfold next_level. cbv zeta. simpl l_ident. rewrite map_map. simpl. apply (aget_atoms 0 _ a Ha). Qed.

Lemma next_level_sub k prev rest a : In a (sc_atoms D sc) ->
  aget [] (l_sub (next_level D C o sc k (prev :: rest))) a = per_sub k prev a.
Proof. intro Ha. unfold next_level. cbv zeta. simpl l_sub. rewrite map_map. simpl. apply (aget_atoms [] _ a Ha). Qed.

Lemma next_level_mem k prev rest a : In a (sc_atoms D sc) ->
  aget [] (l_mem (next_level D C o sc k (prev :: rest))) a = per_mem k prev a.
Proof. intro Ha. unfold next_level. cbv zeta. simpl l_mem. rewrite map_map. simpl. apply (aget_atoms [] _ a Ha). Qed.

Lemma next_level_canon k prev rest a : In a (sc_atoms D sc) ->
  aget 0 (l_canon (next_level D C o sc k (prev :: rest))) a = per_canon k prev (rev (prev :: rest)) a.
Proof. intro Ha. unfold next_level. cbv zeta. simpl l_canon. rewrite map_map. simpl. apply (aget_atoms 0 _ a Ha). Qed.

Lemma lev_S n : lev (S n) = next_level D C o sc (Z.of_nat (S n)) (lev n :: match n with O => [] | S n' => levels_upto n' end).
Proof. unfold lev at 1. simpl levels_upto. simpl hd. rewrite (levels_upto_cons n) at 1. reflexivity. Qed.

Lemma level0_ident a : aget 0 (l_ident (level0 D sc)) a = aget 0 (sc_ident0 D sc) a.
Proof. reflexivity. Qed.
Lemma level0_sub a : In a (sc_atoms D sc) -> aget [] (l_sub (level0 D sc)) a = [a].
Proof. intro Ha. simpl. apply (aget_atoms [] (fun a => [a]) a Ha). Qed.
Lemma level0_mem a : aget [] (l_mem (level0 D sc)) a = [].
Proof.
  clear atoms_nodup. simpl. induction (sc_atoms D sc) as [|x t IH]; simpl; [reflexivity|]. destruct (a =? x); [reflexivity | exact IH].
Qed.
Lemma level0_canon a : aget 0 (l_canon (level0 D sc)) a = 0.
Proof.
  clear atoms_nodup. simpl. induction (sc_atoms D sc) as [|x t IH]; simpl; [reflexivity|]. destruct (a =? x); [reflexivity | exact IH].
Qed.
End Levels.

(* ---- what the stereo part has to provide ------------------------------------------------------------------------- *)
Section CodesSpec.
Variable D : ringdict.
Variable C : sconsts.
Definition key_leb_nb (x y : nb D) : bool := key2_leb (nb_key D x) (nb_key D y).
Definition coded_nb (unit2 : F D) (ns : list (nb D)) : list (Z * Z * Z) :=
  map (fun xc => (nb_conn (fst xc), nb_ident (fst xc), snd xc)) (combine ns (codes D C unit2 ns)).
Definition nonzero_nb (ns : list (nb D)) : Prop :=
  forall x, In x ns -> feqb D (dot D (nb_vec x) (nb_vec x)) (f0 D) = false.
(* the multiset of (bond, identifier, stereo code) tuples does not depend on how neighbours with equal keys are listed *)
Definition codes_perm_ok (unit2 : F D) : Prop :=
  forall ns ns', Permutation ns ns' -> lsorted key_leb_nb ns -> lsorted key_leb_nb ns' -> nonzero_nb ns ->
                 Permutation (coded_nb unit2 ns) (coded_nb unit2 ns').
(* general position, as far as C03 needs it: no neighbour sits exactly on the centre atom *)
Definition gp_scene (sc : scene D) : Prop :=
  forall a, In a (sc_atoms D sc) -> forall l, In l (links_of D sc a) ->
            feqb D (dot D (lk_vec D l) (lk_vec D l)) (f0 D) = false.
End CodesSpec.

Lemma key_leb_nb_total D (x y : nb D) : key_leb_nb D x y = true \/ key_leb_nb D y x = true.
Proof. apply key2_total. Qed.
Lemma key_leb_nb_trans D (x y z : nb D) : key_leb_nb D x y = true -> key_leb_nb D y z = true -> key_leb_nb D x z = true.
Proof. apply key2_trans. Qed.

(* ---- the relation between levels --------------------------------------------------------------------------------- *)
Section LevelRel.
Variable D : ringdict.
Variable C : sconsts.
Variable o : opts.
Variable p : Z -> Z.
Hypothesis p_inj : forall x y, p x = p y -> x = y.
Variables sc sc' : scene D.
Hypothesis SR : scene_rel D p sc sc'.
Hypothesis Hstereo : o_stereo o = true -> codes_perm_ok D C (sc_unit2 D sc) /\ gp_scene D sc.

Let atoms := sc_atoms D sc.
Let atoms' := sc_atoms D sc'.
Definition pp (x : Z * Z) : Z * Z := (p (fst x), snd x).
Definition P (s : list Z) : list Z := usort (map p s).

Lemma pp_inj x y : pp x = pp y -> x = y.
Proof. destruct x, y. unfold pp; simpl. intro H. inversion H. f_equal. apply p_inj. assumption. Qed.

Record lvl_rel (l l' : lvl) : Prop := mk_lvl_rel {
  lr_ident : forall a, In a atoms -> aget 0 (l_ident l') (p a) = aget 0 (l_ident l) a;
  lr_sub : forall a, In a atoms -> aget [] (l_sub l') (p a) = P (aget [] (l_sub l) a);
  lr_canon : forall a, In a atoms -> aget 0 (l_canon l') (p a) = aget 0 (l_canon l) a;
  lr_mem : forall a, In a atoms -> aget [] (l_mem l') (p a) = sort_by zpair_leb (map pp (aget [] (l_mem l) a));
  lr_memsorted : forall a, In a atoms -> sort_by zpair_leb (aget [] (l_mem l) a) = aget [] (l_mem l) a }.

Lemma nodup' : NoDup atoms'.
Proof. exact (scene_rel_nodup' D p p_inj sc sc' SR). Qed.

Lemma in_atoms' a : In a atoms -> In (p a) atoms'.
Proof. intro Ha. apply (scene_rel_in' D p sc sc' SR). exists a. auto. Qed.

Lemma level0_rel : lvl_rel (level0 D sc) (level0 D sc').
Proof.
  constructor; intros a Ha.
  - rewrite !level0_ident. apply (sr_ident0 _ _ _ _ SR). exact Ha.
  - rewrite (level0_sub D sc' nodup' _ (in_atoms' a Ha)).
    rewrite (level0_sub D sc (sr_nodup _ _ _ _ SR) _ Ha). reflexivity.
  - rewrite !level0_canon. reflexivity.
  - rewrite !level0_mem. reflexivity.
  - rewrite level0_mem. reflexivity.
Qed.

Lemma nbrs_rel k a : In a atoms ->
  Permutation (map (relabel_link D p) (nbrs D o sc k a)) (nbrs D o sc' k (p a)).
Proof.
  intro Ha. unfold nbrs, links_of.
  rewrite <- (filter_perm _ _ _ (sr_links _ _ _ _ SR a Ha)).
  rewrite filter_map_comm. erewrite filter_ext; [reflexivity|].
  intro l. unfold near; simpl. rewrite (sr_unit _ _ _ _ SR). reflexivity.
Qed.

Lemma nbrs_wf k a l : In a atoms -> In l (nbrs D o sc k a) -> In (lk_b D l) atoms.
Proof.
  intros Ha Hl. unfold nbrs in Hl. apply filter_In in Hl. destruct Hl as [Hl _].
  exact (sr_wf _ _ _ _ SR a Ha l Hl).
Qed.

(* -- identifiers ---------------------------------------------------------------------------------------------------- *)
Lemma per_ident_rel k prev prev' a : lvl_rel prev prev' -> In a atoms ->
  per_ident D C o sc' k prev' (p a) = per_ident D C o sc k prev a.
Proof.
  intros LR Ha. unfold per_ident, ident_next.
  set (mk := fun l : link D => mknb (lk_conn D l) (aget 0 (l_ident prev) (lk_b D l)) (lk_vec D l)).
  set (mk' := fun l : link D => mknb (lk_conn D l) (aget 0 (l_ident prev') (lk_b D l)) (lk_vec D l)).
  set (nl := nbrs D o sc k a). set (nl' := nbrs D o sc' k (p a)).
  assert (HX : Permutation (map mk nl) (map mk' nl')).
  { unfold nl'. rewrite <- (Permutation_map mk' (nbrs_rel k a Ha)). rewrite map_map.
    fold nl. erewrite map_ext_in; [reflexivity|]. intros l Hl. unfold mk, mk'. simpl.
    rewrite (lr_ident _ _ LR); [reflexivity|]. eapply nbrs_wf; eassumption. }
  set (K := fun x y : nb D => key2_leb (nb_key D x) (nb_key D y)).
  assert (Hns : Permutation (sort_by K (map mk nl)) (sort_by K (map mk' nl'))).
  { rewrite !sort_by_perm. exact HX. }
  rewrite (lr_ident _ _ LR a Ha). rewrite (sr_unit _ _ _ _ SR).
  destruct (o_stereo o) eqn:Est.
  - destruct (Hstereo eq_refl) as [Hc Hgp].
    assert (HT : Permutation (coded_nb D C (sc_unit2 D sc) (sort_by K (map mk nl)))
                             (coded_nb D C (sc_unit2 D sc) (sort_by K (map mk' nl')))).
    { apply Hc; [exact Hns | | | ].
      - apply sort_by_sorted; [apply key_leb_nb_total | apply key_leb_nb_trans].
      - apply sort_by_sorted; [apply key_leb_nb_total | apply key_leb_nb_trans].
      - intros x Hx. apply In_sort_by in Hx. apply in_map_iff in Hx. destruct Hx as [l [<- Hl]].
        simpl. apply (Hgp a Ha). unfold nl, nbrs in Hl. apply filter_In in Hl. tauto. }
    unfold coded_nb in HT. rewrite (sort_lex3_perm_eq _ _ HT). reflexivity.
  - assert (HT : Permutation (map (fun x : nb D => (nb_conn x, nb_ident x, 0)) (sort_by K (map mk nl)))
                             (map (fun x : nb D => (nb_conn x, nb_ident x, 0)) (sort_by K (map mk' nl'))))
      by (apply Permutation_map; exact Hns).
    rewrite (sort_lex3_perm_eq _ _ HT). reflexivity.
Qed.

(* -- substructures -------------------------------------------------------------------------------------------------- *)
Lemma In_P x s : In x (P s) <-> exists y, In y s /\ x = p y.
Proof.
  unfold P. rewrite In_usort, in_map_iff. split; intros [y [A B]]; exists y; auto.
Qed.

Lemma P_ssorted s : ssorted (P s).
Proof. apply ssorted_usort. Qed.

Lemma P_inj s t : ssorted s -> ssorted t -> P s = P t -> s = t.
Proof.
  intros Hs Ht E. apply ssorted_ext; try assumption. intro x.
  assert (forall u v, P u = P v -> In x u -> In x v) as Hh.
  { intros u v Euv Hx. assert (In (p x) (P v)) as H by (rewrite <- Euv; apply In_P; eauto).
    apply In_P in H. destruct H as [y [Hy Ey]]. apply p_inj in Ey. subst. exact Hy. }
  split; apply Hh; congruence.
Qed.

Lemma per_sub_rel k prev prev' a : lvl_rel prev prev' -> In a atoms ->
  per_sub D o sc' k prev' (p a) = P (per_sub D o sc k prev a).
Proof.
  intros LR Ha. unfold per_sub. apply ssorted_ext; [apply ssorted_usort | apply P_ssorted |].
  intro x. split.
  - intro Hx. apply (proj1 (In_usort _ _)) in Hx. apply In_P. destruct Hx as [<-|Hx].
    + exists a. split; [|reflexivity]. apply (proj2 (In_usort _ _)). left; reflexivity.
    + apply in_flat_map in Hx. destruct Hx as [l' [Hl' Hx]].
      apply (Permutation_in _ (Permutation_sym (nbrs_rel k a Ha))) in Hl'.
      apply in_map_iff in Hl'. destruct Hl' as [l [<- Hl]]. simpl in Hx.
      rewrite (lr_sub _ _ LR) in Hx by (eapply nbrs_wf; eassumption).
      apply In_P in Hx. destruct Hx as [y [Hy ->]]. exists y. split; [|reflexivity].
      apply (proj2 (In_usort _ _)). right. apply in_flat_map. exists l. auto.
  - intro Hx. apply In_P in Hx. destruct Hx as [y [Hy ->]]. apply (proj1 (In_usort _ _)) in Hy. apply (proj2 (In_usort _ _)).
    destruct Hy as [<-|Hy]; [left; reflexivity|].
    right. apply in_flat_map in Hy. destruct Hy as [l [Hl Hy]]. apply in_flat_map.
    exists (relabel_link D p l). split.
    + apply (Permutation_in _ (nbrs_rel k a Ha)). apply in_map. exact Hl.
    + simpl. rewrite (lr_sub _ _ LR) by (eapply nbrs_wf; eassumption). apply In_P. eauto.
Qed.

(* -- member sets and Shell.__eq__ classes ---------------------------------------------------------------------------- *)
Lemma per_mem_rel k prev prev' a : lvl_rel prev prev' -> In a atoms ->
  per_mem D o sc' k prev' (p a) = sort_by zpair_leb (map pp (per_mem D o sc k prev a)).
Proof.
  intros LR Ha. unfold per_mem. apply sort_zpair_perm_eq.
  rewrite <- (Permutation_map _ (nbrs_rel k a Ha)). rewrite map_map.
  rewrite (Permutation_map pp (sort_by_perm _ zpair_leb _)). rewrite map_map.
  erewrite map_ext_in; [reflexivity|]. intros l Hl. unfold pp; simpl.
  rewrite (lr_canon _ _ LR); [reflexivity|]. eapply nbrs_wf; eassumption.
Qed.

Lemma sorted_map_pp_eq X Y :
  sort_by zpair_leb X = X -> sort_by zpair_leb Y = Y ->
  (sort_by zpair_leb (map pp X) = sort_by zpair_leb (map pp Y) <-> X = Y).
Proof.
  intros HX HY. split; [|intros ->; reflexivity].
  intro E. apply sort_by_eq_perm in E.
  assert (Permutation X Y) as HP.
  { apply (perm_map_inj pp pp_inj). exact E. }
  rewrite <- HX, <- HY. apply sort_zpair_perm_eq. exact HP.
Qed.

Lemma canon_search_rel a ms ms' hist hist' :
  In a atoms -> Forall2 lvl_rel hist hist' ->
  sort_by zpair_leb ms = ms -> ms' = sort_by zpair_leb (map pp ms) ->
  forall j dflt, canon_search (p a) ms' hist' j dflt = canon_search a ms hist j dflt.
Proof.
  intros Ha HF Hms ->. induction HF as [|l l' t t' LR HF IH]; intros j dflt; simpl; [reflexivity|].
  rewrite (lr_mem _ _ LR a Ha).
  assert (list_eqb zpair_eqb (sort_by zpair_leb (map pp (aget [] (l_mem l) a))) (sort_by zpair_leb (map pp ms))
          = list_eqb zpair_eqb (aget [] (l_mem l) a) ms) as ->.
  { pose proof (sorted_map_pp_eq _ _ (lr_memsorted _ _ LR a Ha) Hms) as Hiff.
    destruct (list_eqb zpair_eqb (aget [] (l_mem l) a) ms) eqn:E1.
    - apply (list_eqb_eq _ zpair_eqb_eq) in E1. apply (list_eqb_eq _ zpair_eqb_eq). apply Hiff. exact E1.
    - destruct (list_eqb zpair_eqb (sort_by _ _) _) eqn:E2; [|reflexivity].
      apply (list_eqb_eq _ zpair_eqb_eq) in E2. apply Hiff in E2. apply (list_eqb_eq _ zpair_eqb_eq) in E2. congruence. }
  destruct (list_eqb zpair_eqb (aget [] (l_mem l) a) ms); [reflexivity | apply IH].
Qed.

Lemma per_canon_rel k prev prev' hist hist' a : lvl_rel prev prev' -> Forall2 lvl_rel hist hist' -> In a atoms ->
  per_canon D o sc' k prev' hist' (p a) = per_canon D o sc k prev hist a.
Proof.
  intros LR HF Ha. unfold per_canon.
  apply canon_search_rel; try assumption.
  - unfold per_mem. apply sort_zpair_idem.
  - apply per_mem_rel; assumption.
Qed.

Lemma next_level_rel k prev prev' rest rest' :
  lvl_rel prev prev' -> Forall2 lvl_rel (rev (prev :: rest)) (rev (prev' :: rest')) ->
  lvl_rel (next_level D C o sc k (prev :: rest)) (next_level D C o sc' k (prev' :: rest')).
Proof.
  intros LR HF. pose proof (sr_nodup _ _ _ _ SR) as Hnd. pose proof nodup' as Hnd'.
  constructor; intros a Ha; pose proof (in_atoms' a Ha) as Ha'.
  - rewrite (next_level_ident D C o sc' Hnd' _ _ _ _ Ha'), (next_level_ident D C o sc Hnd _ _ _ _ Ha).
    apply per_ident_rel; assumption.
  - rewrite (next_level_sub D C o sc' Hnd' _ _ _ _ Ha'), (next_level_sub D C o sc Hnd _ _ _ _ Ha).
    apply per_sub_rel; assumption.
  - rewrite (next_level_canon D C o sc' Hnd' _ _ _ _ Ha'), (next_level_canon D C o sc Hnd _ _ _ _ Ha).
    apply per_canon_rel; assumption.
  - rewrite (next_level_mem D C o sc' Hnd' _ _ _ _ Ha'), (next_level_mem D C o sc Hnd _ _ _ _ Ha).
    apply per_mem_rel; assumption.
  - rewrite (next_level_mem D C o sc Hnd _ _ _ _ Ha). unfold per_mem. apply sort_zpair_idem.
Qed.

Theorem levels_rel n : Forall2 lvl_rel (levels_upto D C o sc n) (levels_upto D C o sc' n).
Proof.
  induction n as [|n IH].
  - simpl. constructor; [apply level0_rel | constructor].
  - simpl levels_upto. constructor; [|exact IH].
    rewrite (levels_upto_cons D C o sc n), (levels_upto_cons D C o sc' n) in *.
    inversion IH as [|? ? ? ? LR HF]; subst.
    apply next_level_rel; [exact LR|].
    apply Forall2_rev'. constructor; assumption.
Qed.

Theorem lev_rel n : lvl_rel (lev D C o sc n) (lev D C o sc' n).
Proof.
  pose proof (levels_rel n) as H. rewrite (levels_upto_cons D C o sc n), (levels_upto_cons D C o sc' n) in H.
  inversion H; subst. assumption.
Qed.
End LevelRel.
