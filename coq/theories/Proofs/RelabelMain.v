(* C03 - part 7: the run on the renumbered molecule is the image of the run on the original molecule; consequences for
   get_shells_at_level / get_fingerprint_at_level. *)
From Coq Require Import QArith.
From Coq Require Import ZArith List Bool Lia ZifyBool Permutation Sorting.Sorted.
From E3FP Require Import Base.Prelude Base.ZSet Base.Murmur3 Model.Geometry Model.Stereo Model.Fprint Model.E3FP
  Gen.Constants Gen.AngleTable
  Proofs.RelabelSort Proofs.RelabelScene Proofs.RelabelLevel Proofs.RelabelInv Proofs.RelabelDedup Proofs.RelabelStep
  Proofs.RelabelStereoA Proofs.RelabelStereo.
Import ListNotations.
Open Scope Z_scope.

Definition injective (p : Z -> Z) : Prop := forall x y, p x = p y -> x = y.

(* ---- general position as far as C03 needs it: no two retained atoms at the same place -------------------------------- *)
Definition gp_mol (D : ringdict) (o : opts) (m : mol D) : Prop :=
  forall a b, In a (retained D o m) -> In b (retained D o m) -> a_idx D a <> a_idx D b ->
    let v := vsub D (a_pos D b) (a_pos D a) in feqb D (dot D v v) (f0 D) = false.

Definition gp_molb (D : ringdict) (o : opts) (m : mol D) : bool :=
  forallb (fun a => forallb (fun b =>
     (a_idx D a =? a_idx D b) ||
     negb (let v := vsub D (a_pos D b) (a_pos D a) in feqb D (dot D v v) (f0 D))) (retained D o m)) (retained D o m).

Lemma gp_molb_ok D o m : gp_molb D o m = true -> gp_mol D o m.
Proof.
  unfold gp_molb, gp_mol. intros H a b Ha Hb Hne. rewrite forallb_forall in H. specialize (H a Ha).
  rewrite forallb_forall in H. specialize (H b Hb). cbv zeta in *.
  destruct (a_idx D a =? a_idx D b) eqn:E; [apply Z.eqb_eq in E; contradiction|]. simpl in H.
  destruct (feqb D _ (f0 D)); [discriminate | reflexivity].
Qed.

Lemma scene_of_facts D o m sc : scene_of D o m = Ok sc ->
  sc_unit2 D sc = m_unit2 D m /\ (NoDup (map (a_idx D) (m_atoms D m)) -> gp_mol D o m -> gp_scene D sc).
Proof.
  rewrite scene_of_closed. unfold scene_closed. cbv zeta.
  destruct (retained D o m) as [|a0 t0] eqn:Eats; [discriminate|]. rewrite <- Eats.
  destruct (conn_ok D m (retained D o m)); [|discriminate]. intro H. inversion H; subst sc; clear H. simpl.
  split; [reflexivity|]. intros Hnd Hgp a Ha l Hl. unfold links_of in Hl. simpl in *.
  assert (Hnd_ats : NoDup (map (a_idx D) (retained D o m))).
  { unfold retained. destruct (o_exfloat o && _); apply NoDup_map_filter; exact Hnd. }
  apply in_map_iff in Ha. destruct Ha as [x [<- Hx]].
  rewrite (aget_map_key [] (a_idx D) (fun a => map (link_to D m a) (others D (retained D o m) a)) _ _ Hnd_ats Hx) in Hl.
  apply in_map_iff in Hl. destruct Hl as [b [<- Hb]]. unfold others in Hb. apply filter_In in Hb. destruct Hb as [Hb Hne].
  simpl. apply (Hgp x b Hx Hb). intro E. rewrite E, Z.eqb_refl in Hne. discriminate.
Qed.

(* ---- the relation between the two results ----------------------------------------------------------------------------- *)
Definition run_rel (o : opts) (p : Z -> Z) (r r' : result state) : Prop :=
  match r, r' with
  | Ok st, Ok st' => st_k st' = st_k st /\ forall lv, shl_rel o p (shells_at_true st lv) (shells_at_true st' lv)
  | Raises e, Raises e' => e = e'
  | _, _ => False
  end.

Lemma Forall2_nth {A B} (Rl : A -> B -> Prop) l l' d d' : Forall2 Rl l l' -> Rl d d' -> forall n, Rl (nth n l d) (nth n l' d').
Proof.
  intros HF Hd. induction HF; intro n; destruct n; simpl; auto.
Qed.

Lemma shl_rel_nil o p : shl_rel o p [] [].
Proof. split; [constructor | intro; constructor]. Qed.

Section General.
Variable D : ringdict.
Variable C : sconsts.

Theorem run_rel_general fuel o p (m m' : mol D) :
  injective p -> NoDup (map (a_idx D) (m_atoms D m)) -> mol_rel D p m m' ->
  (o_stereo o = true -> codes_perm_ok D C (m_unit2 D m) /\ gp_mol D o m) ->
  run_rel o p (run D C fuel o m) (run D C fuel o m').
Proof.
  intros Hinj Hnd Hmr Hst. unfold run.
  destruct (negb (check_opts o)); [reflexivity|].
  pose proof (scene_of_rel D p Hinj o m m' Hmr Hnd) as HS.
  destruct (scene_of D o m) as [sc|e] eqn:Esc; destruct (scene_of D o m') as [sc'|e'] eqn:Esc'; simpl;
    try contradiction; [|exact HS].
  destruct (scene_of_facts D o m sc Esc) as [Hu Hgp].
  assert (Hst' : o_stereo o = true -> codes_perm_ok D C (sc_unit2 D sc) /\ gp_scene D sc).
  { intro E. destruct (Hst E) as [H1 H2]. rewrite Hu. split; [exact H1 | apply Hgp; assumption]. }
  pose proof (iterate_rel D C o p Hinj sc sc' HS Hst' fuel _ _ (init_rel D C o p Hinj sc sc' HS Hst')) as HI.
  destruct (iterate D C o sc fuel (init_state D sc)) as [st|]; destruct (iterate D C o sc' fuel (init_state D sc')) as [st'|];
    try contradiction; [|reflexivity].
  simpl. split; [apply (tr_k _ _ _ _ _ _ _ _ HI)|].
  intro lv. unfold shells_at_true. rewrite (tr_k _ _ _ _ _ _ _ _ HI).
  apply Forall2_nth; [apply (tr_shells _ _ _ _ _ _ _ _ HI) | apply shl_rel_nil].
Qed.

(* stage 1: stereo off - no hypothesis on the ring dictionary at all *)
Theorem run_rel_nostereo fuel o p (m : mol D) :
  o_stereo o = false -> injective p -> NoDup (map (a_idx D) (m_atoms D m)) ->
  run_rel o p (run D C fuel o m) (run D C fuel o (relabel D p m)).
Proof.
  intros Hs Hinj Hnd. apply run_rel_general; try assumption; [apply relabel_mol_rel | intro; congruence].
Qed.

(* stage 2: stereo on - ordered-ring laws, cos^2(cone) in (0,1), and no two retained atoms at the same place *)
Lemma codes_perm_ok_laws unit2 : ordlaws D -> cone_ok C -> codes_perm_ok D C unit2.
Proof. intros L HC. exact (codes_perm D C unit2 L HC). Qed.

Theorem run_rel_stereo fuel o p (m : mol D) :
  ordlaws D -> cone_ok C -> injective p -> NoDup (map (a_idx D) (m_atoms D m)) ->
  (o_stereo o = true -> gp_mol D o m) ->
  run_rel o p (run D C fuel o m) (run D C fuel o (relabel D p m)).
Proof.
  intros L HC Hinj Hnd Hgp. apply run_rel_general; try assumption; [apply relabel_mol_rel|].
  intro E. split; [apply codes_perm_ok_laws; assumption | apply Hgp; exact E].
Qed.
End General.

(* ---- queries ------------------------------------------------------------------------------------------------------------ *)
Lemma bool_eq_iff (a b : bool) : (a = true <-> b = true) -> a = b.
Proof. destruct a, b; intuition congruence. Qed.

Lemma forallb_same_elements {A} (f : A -> bool) l l' : (forall x, In x l <-> In x l') -> forallb f l = forallb f l'.
Proof.
  intro H. apply bool_eq_iff. rewrite !forallb_forall. split; intros Hf x Hx; apply Hf; apply H; exact Hx.
Qed.

Section Queries.
Variable o : opts.
Variable p : Z -> Z.
Hypothesis p_inj : injective p.

Lemma zmem_map_p x l : zmem (p x) (map p l) = zmem x l.
Proof.
  apply bool_eq_iff. rewrite !zmem_In, in_map_iff. split.
  - intros [y [E Hy]]. apply p_inj in E. subst. exact Hy.
  - intro H. exists x. auto.
Qed.

Lemma disjointb_P s mask : disjointb (P p s) (map p mask) = disjointb s mask.
Proof.
  unfold disjointb, P. rewrite (forallb_same_elements _ (usort (map p s)) (map p s)) by (intro; apply In_usort).
  rewrite forallb_map_comm. apply forallb_ext_in. intros x _. rewrite zmem_map_p. reflexivity.
Qed.

Lemma shl_rel_idents l l' : shl_rel o p l l' -> Permutation (map s_ident l) (map s_ident l').
Proof.
  intros [H _]. apply (Permutation_map fst) in H. rewrite !map_map in H. exact H.
Qed.

Lemma shl_rel_filter mask l l' : shl_rel o p l l' ->
  Permutation (map (prP p) (filter (fun s => disjointb (s_sub s) mask) l))
              (map pr (filter (fun s => disjointb (s_sub s) (map p mask)) l')).
Proof.
  intros [H _].
  pose proof (filter_perm (fun x : Z * list Z => disjointb (snd x) (map p mask)) _ _ H) as HF.
  rewrite !filter_map_comm in HF.
  erewrite (filter_ext (fun x => disjointb (snd (prP p x)) (map p mask))) in HF; [exact HF|].
  intro s. simpl. apply disjointb_P.
Qed.

Lemma resolve_level_k st st' req : st_k st' = st_k st -> resolve_level o st' req = resolve_level o st req.
Proof. intro E. unfold resolve_level. rewrite E. reflexivity. Qed.

(* get_shells_at_level(level, atom_mask): same multiset of (identifier, substructure) *)
Theorem shells_query_rel st st' req mask :
  run_rel o p (Ok st) (Ok st') ->
  Permutation (map (prP p) (shells_query o st req mask)) (map pr (shells_query o st' req (map p mask))).
Proof.
  intros [Hk Hsh]. unfold shells_query. rewrite (resolve_level_k st st' req Hk). apply shl_rel_filter. apply Hsh.
Qed.

Lemma usort_perm_eq l l' : Permutation l l' -> usort l = usort l'.
Proof.
  intro H. apply ssorted_ext; try apply ssorted_usort. intro x. rewrite !In_usort.
  split; apply Permutation_in; [exact H | symmetry; exact H].
Qed.

Lemma count_occ_Z_perm i l l' : Permutation l l' -> count_occ_Z i l = count_occ_Z i l'.
Proof. intro H. unfold count_occ_Z. rewrite (Permutation_length (filter_perm _ _ _ H)). reflexivity. Qed.

Lemma mk_bit_perm idx idx' bits lvl nm : Permutation idx idx' -> mk_bit idx bits lvl nm = mk_bit idx' bits lvl nm.
Proof. intro H. unfold mk_bit. rewrite (existsb_perm _ _ _ H), (usort_perm_eq _ _ H). reflexivity. Qed.

Lemma mk_count_perm k idx idx' bits lvl nm :
  Permutation idx idx' -> mk_count_from_indices k idx bits lvl nm = mk_count_from_indices k idx' bits lvl nm.
Proof.
  intro H. unfold mk_count_from_indices. rewrite (existsb_perm _ _ _ H), (usort_perm_eq _ _ H).
  destruct (existsb _ idx'); [reflexivity|]. cbv zeta. f_equal. f_equal. unfold cbuild. apply map_ext.
  intro i. rewrite (count_occ_Z_perm i _ _ H). reflexivity.
Qed.

(* get_fingerprint_at_level(level, bits, atom_mask): EQUAL fingerprints (bit and count, any folding, any level, any mask
   - the mask being renumbered along) *)
Theorem fingerprint_query_rel st st' counts bits req mask :
  run_rel o p (Ok st) (Ok st') ->
  fingerprint_query o counts bits st' req (map p mask) = fingerprint_query o counts bits st req mask.
Proof.
  intros HR. pose proof (shells_query_rel st st' req mask HR) as HQ. destruct HR as [Hk _].
  unfold fingerprint_query. rewrite (resolve_level_k st st' req Hk).
  assert (HI : Permutation (map (fun s => unsigned32 (s_ident s)) (shells_query o st' req (map p mask)))
                           (map (fun s => unsigned32 (s_ident s)) (shells_query o st req mask))).
  { apply (Permutation_map (fun x : Z * list Z => unsigned32 (fst x))) in HQ. rewrite !map_map in HQ. simpl in HQ.
    symmetry. exact HQ. }
  destruct counts.
  - rewrite (mk_count_perm _ _ _ _ _ _ HI). reflexivity.
  - rewrite (mk_bit_perm _ _ _ _ _ HI). reflexivity.
Qed.
End Queries.

(* ---- the theorems of C03 -------------------------------------------------------------------------------------------------- *)
Definition fp_equal (o : opts) (p : Z -> Z) (r r' : result state) : Prop :=
  match r, r' with
  | Ok st, Ok st' =>
      st_k st' = st_k st /\
      (forall lv, Permutation (map s_ident (shells_at_true st lv)) (map s_ident (shells_at_true st' lv))) /\
      (forall req mask, Permutation (map (prP p) (shells_query o st req mask)) (map pr (shells_query o st' req (map p mask)))) /\
      (forall counts bits req mask,
         fingerprint_query o counts bits st' req (map p mask) = fingerprint_query o counts bits st req mask) /\
      (o_remdup o = false -> forall lv, Permutation (map (R p) (shells_at_true st lv)) (shells_at_true st' lv))
  | Raises e, Raises e' => e = e'
  | _, _ => False
  end.

Lemma run_rel_fp_equal o p r r' : injective p -> run_rel o p r r' -> fp_equal o p r r'.
Proof.
  intros Hinj HR. destruct r as [st|e], r' as [st'|e']; simpl in *; try assumption.
  split; [apply HR|]. split; [|split; [|split]].
  - intro lv. apply (shl_rel_idents o p). apply HR.
  - intros req mask. apply shells_query_rel; assumption.
  - intros. apply fingerprint_query_rel; assumption.
  - intros Hrd lv. destruct HR as [_ H]. destruct (H lv) as [_ Hf]. exact (Hf Hrd).
Qed.

Theorem fp_relabel_invariant_nostereo_lemma D C fuel o p (m : mol D) :
  o_stereo o = false -> injective p -> NoDup (map (a_idx D) (m_atoms D m)) ->
  fp_equal o p (run D C fuel o m) (run D C fuel o (relabel D p m)).
Proof. intros. apply run_rel_fp_equal; [assumption|]. apply run_rel_nostereo; assumption. Qed.

Theorem fp_relabel_invariant_lemma D C fuel o p (m : mol D) :
  ordlaws D -> cone_ok C -> injective p -> NoDup (map (a_idx D) (m_atoms D m)) ->
  (o_stereo o = true -> gp_mol D o m) ->
  fp_equal o p (run D C fuel o m) (run D C fuel o (relabel D p m)).
Proof. intros. apply run_rel_fp_equal; [assumption|]. apply run_rel_stereo; assumption. Qed.

(* the executable instance *)
Theorem fp_relabel_invariant_ZD_lemma fuel o p (m : mol ZD) :
  injective p -> NoDup (map (a_idx ZD) (m_atoms ZD m)) -> (o_stereo o = true -> gp_mol ZD o m) ->
  fp_equal o p (run ZD e3fp_consts fuel o m) (run ZD e3fp_consts fuel o (relabel ZD p m)).
Proof. intros. apply fp_relabel_invariant_lemma; try assumption; [apply ZD_ordlaws | apply e3fp_consts_cone_ok]. Qed.

(* conformer storage order: a `mol` value of the model carries the coordinates of exactly ONE conformer, and `run` is a
   function of that value; so the result for a conformer cannot depend on which other conformers the RDKit molecule
   holds, nor on their order.  As a statement: two molecules that agree on atoms, bonds and unit give the same result. *)
Remark fp_conformer_order_lemma D C fuel o (m1 m2 : mol D) :
  m_atoms D m1 = m_atoms D m2 -> m_bonds D m1 = m_bonds D m2 -> m_unit2 D m1 = m_unit2 D m2 ->
  run D C fuel o m1 = run D C fuel o m2.
Proof. destruct m1, m2; simpl; intros; subst; reflexivity. Qed.

(* ---- "all n! atom permutations": a permutation given as a table ------------------------------------------------------- *)
(* x |-> t[x] if x is a key of the table, x otherwise *)
Definition table_fun (t : list (Z * Z)) (x : Z) : Z := aget x t x.

Lemma aget_in_table {A} (d : A) (t : list (Z * A)) k : In k (map fst t) -> In (k, aget d t k) t.
Proof.
  induction t as [|[k' v] r IH]; simpl; intro H; [contradiction|].
  destruct (k =? k') eqn:E.
  - apply Z.eqb_eq in E. subst. left. reflexivity.
  - destruct H as [H|H]; [apply Z.eqb_neq in E; congruence|]. right. apply IH. exact H.
Qed.

Lemma aget_notin_table {A} (d : A) (t : list (Z * A)) k : ~ In k (map fst t) -> aget d t k = d.
Proof.
  induction t as [|[k' v] r IH]; simpl; intro H; [reflexivity|].
  destruct (k =? k') eqn:E; [apply Z.eqb_eq in E; subst; exfalso; apply H; left; reflexivity|].
  apply IH. intro; apply H; right; assumption.
Qed.

Lemma nodup_snd_inj (t : list (Z * Z)) x y v : NoDup (map snd t) -> In (x, v) t -> In (y, v) t -> x = y.
Proof.
  induction t as [|[k w] r IH]; simpl; intros Hnd Hx Hy; [contradiction|].
  inversion Hnd as [|? ? Hn Hr]; subst.
  destruct Hx as [Hx|Hx], Hy as [Hy|Hy].
  - congruence.
  - inversion Hx; subst. exfalso. apply Hn. apply in_map_iff. exists (y, v). auto.
  - inversion Hy; subst. exfalso. apply Hn. apply in_map_iff. exists (x, v). auto.
  - apply IH; assumption.
Qed.

Lemma table_fun_injective t : NoDup (map fst t) -> Permutation (map fst t) (map snd t) -> injective (table_fun t).
Proof.
  intros Hnd HP x y E. unfold table_fun in E.
  assert (Hnds : NoDup (map snd t)) by (eapply Permutation_NoDup; eassumption).
  destruct (in_dec Z.eq_dec x (map fst t)) as [Hx|Hx]; destruct (in_dec Z.eq_dec y (map fst t)) as [Hy|Hy].
  - pose proof (aget_in_table x t x Hx) as H1. pose proof (aget_in_table y t y Hy) as H2. rewrite E in H1.
    eapply nodup_snd_inj; eassumption.
  - exfalso. pose proof (aget_in_table x t x Hx) as H1. rewrite (aget_notin_table y t y Hy) in E. rewrite E in H1.
    apply Hy. apply (Permutation_in _ (Permutation_sym HP)). apply in_map_iff. exists (x, y). auto.
  - exfalso. pose proof (aget_in_table y t y Hy) as H2. rewrite (aget_notin_table x t x Hx) in E. rewrite <- E in H2.
    apply Hx. apply (Permutation_in _ (Permutation_sym HP)). apply in_map_iff. exists (y, x). auto.
  - rewrite (aget_notin_table x t x Hx), (aget_notin_table y t y Hy) in E. exact E.
Qed.

Theorem fp_relabel_invariant_perm_lemma D C fuel o (t : list (Z * Z)) (m : mol D) :
  ordlaws D -> cone_ok C ->
  NoDup (map fst t) -> Permutation (map fst t) (map snd t) ->
  NoDup (map (a_idx D) (m_atoms D m)) -> (o_stereo o = true -> gp_mol D o m) ->
  fp_equal o (table_fun t) (run D C fuel o m) (run D C fuel o (relabel D (table_fun t) m)).
Proof. intros. apply fp_relabel_invariant_lemma; try assumption. apply table_fun_injective; assumption. Qed.
