(* C03 - part 2: renumbering a molecule, and the relation it induces between the scenes of the two runs. *)
From Coq Require Import ZArith List Bool Lia ZifyBool Permutation Sorting.Sorted.
From E3FP Require Import Base.Prelude Base.ZSet Base.Murmur3 Model.Geometry Model.Stereo Model.Fprint Model.E3FP
  Gen.Constants Proofs.RelabelSort.
Import ListNotations.
Open Scope Z_scope.

(* ---- list helpers ------------------------------------------------------------------------------------------------ *)
Lemma filter_perm {A} (f : A -> bool) l l' : Permutation l l' -> Permutation (filter f l) (filter f l').
Proof.
  induction 1; simpl.
  - constructor.
  - destruct (f x); [constructor|]; assumption.
  - destruct (f x), (f y); try reflexivity. apply perm_swap.
  - etransitivity; eassumption.
Qed.

Lemma filter_map_comm {A B} (f : B -> bool) (g : A -> B) l : filter f (map g l) = map g (filter (fun x => f (g x)) l).
Proof. induction l as [|x t IH]; simpl; [reflexivity|]. destruct (f (g x)); simpl; rewrite IH; reflexivity. Qed.

Lemma forallb_perm {A} (f : A -> bool) l l' : Permutation l l' -> forallb f l = forallb f l'.
Proof.
  induction 1; simpl; try congruence.
  destruct (f x), (f y); reflexivity.
Qed.

Lemma forallb_map_comm {A B} (f : B -> bool) (g : A -> B) l : forallb f (map g l) = forallb (fun x => f (g x)) l.
Proof. induction l as [|x t IH]; simpl; [reflexivity|]. rewrite IH. reflexivity. Qed.

Lemma forallb_ext_in {A} (f g : A -> bool) l : (forall x, In x l -> f x = g x) -> forallb f l = forallb g l.
Proof.
  induction l as [|x t IH]; simpl; intro H; [reflexivity|].
  rewrite H by (left; reflexivity). rewrite IH; [reflexivity|]. intros; apply H; right; assumption.
Qed.

Lemma existsb_perm {A} (f : A -> bool) l l' : Permutation l l' -> existsb f l = existsb f l'.
Proof.
  induction 1; simpl; try congruence.
  destruct (f x), (f y); reflexivity.
Qed.

Lemma NoDup_map_filter {A B} (g : A -> B) (f : A -> bool) l : NoDup (map g l) -> NoDup (map g (filter f l)).
Proof.
  induction l as [|x t IH]; simpl; intro H; [constructor|].
  inversion H as [|? ? Hn Ht]; subst. destruct (f x); simpl; [|auto].
  constructor; [|auto]. intro Hin. apply Hn. apply in_map_iff in Hin. destruct Hin as [y [E Hy]].
  apply filter_In in Hy. apply in_map_iff. exists y. tauto.
Qed.

Lemma NoDup_map_inj {A B} (g : A -> B) l : (forall x y, g x = g y -> x = y) -> NoDup l -> NoDup (map g l).
Proof.
  intros Hg. induction 1 as [|x t Hn Ht IH]; simpl; constructor; [|assumption].
  intro Hin. apply in_map_iff in Hin. destruct Hin as [y [E Hy]]. apply Hg in E. subst. contradiction.
Qed.

(* association lists built by `map` over a list with distinct keys *)
Lemma aget_map_key {A B} (d : B) (key : A -> Z) (val : A -> B) l x :
  NoDup (map key l) -> In x l -> aget d (map (fun a => (key a, val a)) l) (key x) = val x.
Proof.
  induction l as [|y t IH]; simpl; intros Hn Hin; [contradiction|].
  inversion Hn as [|? ? Hny Hnt]; subst.
  destruct Hin as [->|Hin].
  - rewrite Z.eqb_refl. reflexivity.
  - destruct (key x =? key y) eqn:E.
    + apply Z.eqb_eq in E. exfalso. apply Hny. rewrite <- E. apply in_map. assumption.
    + apply IH; assumption.
Qed.

Lemma aget_map_notin {A B} (d : B) (key : A -> Z) (val : A -> B) l k :
  ~ In k (map key l) -> aget d (map (fun a => (key a, val a)) l) k = d.
Proof.
  induction l as [|y t IH]; simpl; intro H; [reflexivity|].
  destruct (k =? key y) eqn:E; [apply Z.eqb_eq in E; exfalso; apply H; left; congruence|].
  apply IH. intro; apply H; right; assumption.
Qed.

Section Scene.
Variable D : ringdict.
Variable p : Z -> Z.
Hypothesis p_inj : forall x y, p x = p y -> x = y.

Local Notation atom := (atom D).
Local Notation mol := (mol D).
Local Notation link := (link D).
Local Notation scene := (scene D).
Local Notation idx := (a_idx D).

Lemma p_eqb x y : (p x =? p y) = (x =? y).
Proof.
  destruct (x =? y) eqn:E.
  - apply Z.eqb_eq in E. subst. apply Z.eqb_refl.
  - apply Z.eqb_neq. intro H. apply p_inj in H. apply Z.eqb_neq in E. contradiction.
Qed.

(* ---- renumbering a molecule ------------------------------------------------------------------------------------ *)
Definition relabel_atom (a : atom) : atom :=
  mkatom D (p (idx a)) (a_num D a) (a_deg D a) (a_tdeg D a) (a_tval D a) (a_nh D a) (a_mass D a) (a_charge D a)
         (a_ring D a) (a_dmass D a) (a_pos D a).

Definition relabel_bond (e : Z * Z * bond_tag) : Z * Z * bond_tag := let '(x, y, t) := e in (p x, p y, t).

Definition idx_leb (a b : atom) : bool := idx a <=? idx b.

(* Chem.RenumberAtoms: every index is mapped, bonds and coordinates are carried along, atoms are listed in the new
   index order *)
Definition relabel (m : mol) : mol :=
  mkmol D (sort_by idx_leb (map relabel_atom (m_atoms D m))) (map relabel_bond (m_bonds D m)) (m_unit2 D m).

(* slightly more general: the renumbered atoms in ANY order *)
Definition mol_rel (m m' : mol) : Prop :=
  Permutation (map relabel_atom (m_atoms D m)) (m_atoms D m') /\
  m_bonds D m' = map relabel_bond (m_bonds D m) /\
  m_unit2 D m' = m_unit2 D m.

Lemma relabel_mol_rel m : mol_rel m (relabel m).
Proof.
  unfold mol_rel, relabel; simpl. split; [|split; reflexivity].
  symmetry. apply sort_by_perm.
Qed.

Definition relabel_link (l : link) : link :=
  mklink D (p (lk_b D l)) (lk_d2 D l) (lk_vec D l) (lk_conn D l) (lk_bonded D l).

(* ---- the relation between the two scenes ------------------------------------------------------------------------- *)
Record scene_rel (sc sc' : scene) : Prop := mk_scene_rel {
  sr_nodup : NoDup (sc_atoms D sc);
  sr_atoms : Permutation (map p (sc_atoms D sc)) (sc_atoms D sc');
  sr_ident0 : forall a, In a (sc_atoms D sc) -> aget 0 (sc_ident0 D sc') (p a) = aget 0 (sc_ident0 D sc) a;
  sr_links : forall a, In a (sc_atoms D sc) ->
     Permutation (map relabel_link (aget [] (sc_links D sc) a)) (aget [] (sc_links D sc') (p a));
  sr_wf : forall a, In a (sc_atoms D sc) -> forall l, In l (aget [] (sc_links D sc) a) -> In (lk_b D l) (sc_atoms D sc);
  sr_unit : sc_unit2 D sc' = sc_unit2 D sc }.

Lemma scene_rel_nodup' sc sc' : scene_rel sc sc' -> NoDup (sc_atoms D sc').
Proof.
  intros H. eapply Permutation_NoDup; [apply (sr_atoms _ _ H)|].
  apply NoDup_map_inj; [exact p_inj | apply (sr_nodup _ _ H)].
Qed.

Lemma scene_rel_in' sc sc' : scene_rel sc sc' -> forall a', In a' (sc_atoms D sc') <-> exists a, In a (sc_atoms D sc) /\ a' = p a.
Proof.
  intros H a'. split.
  - intro Hin. apply (Permutation_in _ (Permutation_sym (sr_atoms _ _ H))) in Hin.
    apply in_map_iff in Hin. destruct Hin as [a [E Ha]]. exists a. auto.
  - intros [a [Ha ->]]. apply (Permutation_in _ (sr_atoms _ _ H)). apply in_map. assumption.
Qed.

(* ---- scene_of in closed form ------------------------------------------------------------------------------------- *)
Definition conn_total (m : mol) (a b : Z) : Z := match conn_code D m a b with Some c => c | None => 0 end.
Definition conn_some (m : mol) (a b : Z) : bool := match conn_code D m a b with Some _ => true | None => false end.
Definition bondedb (m : mol) (a b : Z) : bool := match bond_between D m a b with Some _ => true | None => false end.

Definition link_to (m : mol) (a b : atom) : link :=
  let v := vsub D (a_pos D b) (a_pos D a) in
  mklink D (idx b) (dot D v v) v (conn_total m (idx a) (idx b)) (bondedb m (idx a) (idx b)).

Definition others (ats : list atom) (a : atom) : list atom := filter (fun b => negb (idx b =? idx a)) ats.

Definition conn_ok (m : mol) (ats : list atom) : bool :=
  forallb (fun a => forallb (fun b => conn_some m (idx a) (idx b)) (others ats a)) ats.

Definition mk_links_model (m : mol) (ats : list atom) (a : atom) : option (list link) :=
  fold_right (fun b acc =>
        match acc with
        | None => None
        | Some l =>
          if idx b =? idx a then Some l
          else match conn_code D m (idx a) (idx b) with
               | None => None
               | Some c => let v := vsub D (a_pos D b) (a_pos D a) in
                           Some (mklink D (idx b) (dot D v v) v c
                                  (match bond_between D m (idx a) (idx b) with Some _ => true | None => false end) :: l)
               end
        end) (Some []) ats.

Lemma mk_links_spec m a bs :
  mk_links_model m bs a =
  if forallb (fun b => conn_some m (idx a) (idx b)) (others bs a) then Some (map (link_to m a) (others bs a)) else None.
Proof.
  induction bs as [|b t IH]; [reflexivity|].
  unfold mk_links_model in *. simpl fold_right. rewrite IH. unfold others. simpl filter.
  destruct (idx b =? idx a) eqn:E; simpl negb; cbv iota.
  - destruct (forallb _ _); reflexivity.
  - simpl forallb. simpl map.
    remember (link_to m a b) as lb eqn:Elb. remember (conn_some m (idx a) (idx b)) as cs eqn:Ecs.
    unfold link_to, conn_total, bondedb in Elb. unfold conn_some in Ecs.
    destruct (conn_code D m (idx a) (idx b)); subst; simpl; destruct (forallb _ _); reflexivity.
Qed.

Definition ident0_of (o : opts) (a : atom) : Z :=
  hash_i64 mmh3_seed (if o_rdkit o then rdkit_inv D a else daylight_inv D a).

Definition scene_closed (o : opts) (m : mol) : result scene :=
  let ats := retained D o m in
  match ats with
  | [] => Raises EValue
  | _ => if conn_ok m ats
         then Ok (mkscene D (map idx ats) (map (fun a => (idx a, ident0_of o a)) ats)
                    (map (fun a => (idx a, map (link_to m a) (others ats a))) ats) (m_unit2 D m))
         else Raises EKey
  end.

Lemma links_fold_spec m ats xs :
  fold_right (fun a acc =>
        match acc, mk_links_model m ats a with
        | Some l, Some ls => Some ((idx a, ls) :: l)
        | _, _ => None
        end) (Some []) xs =
  if forallb (fun a => forallb (fun b => conn_some m (idx a) (idx b)) (others ats a)) xs
  then Some (map (fun a => (idx a, map (link_to m a) (others ats a))) xs) else None.
Proof.
  induction xs as [|x t IH]; [reflexivity|].
  simpl fold_right. rewrite IH, mk_links_spec. simpl forallb.
  destruct (forallb (fun b => conn_some m (idx x) (idx b)) (others ats x)); simpl;
    destruct (forallb _ t); reflexivity.
Qed.

Lemma scene_of_closed o m : scene_of D o m = scene_closed o m.
Proof.
  unfold scene_of, scene_closed.
  change (fold_right _ (Some []) (retained D o m)) with
    (fold_right (fun a acc =>
        match acc, mk_links_model m (retained D o m) a with
        | Some l, Some ls => Some ((idx a, ls) :: l)
        | _, _ => None
        end) (Some []) (retained D o m)).
  rewrite links_fold_spec. fold (conn_ok m (retained D o m)).
  destruct (retained D o m) as [|a t] eqn:E; [reflexivity|].
  cbv zeta. simpl map at 1. cbv iota.
  destruct (conn_ok m (a :: t)); reflexivity.
Qed.

(* ---- the relabelled molecule yields the related scene ------------------------------------------------------------ *)
Lemma retained_rel o m m' : mol_rel m m' -> Permutation (map relabel_atom (retained D o m)) (retained D o m').
Proof.
  intros (HP & _ & _). unfold retained.
  assert (Hf : forall f : atom -> bool, (forall a, f (relabel_atom a) = f a) ->
               Permutation (map relabel_atom (filter f (m_atoms D m))) (filter f (m_atoms D m'))).
  { intros f Hfe. rewrite <- (filter_perm f _ _ HP). rewrite filter_map_comm.
    erewrite filter_ext; [reflexivity|]. intro a. symmetry. apply Hfe. }
  assert (Hlen : length (filter (fun a => 1 <? a_num D a) (m_atoms D m')) =
                 length (filter (fun a => 1 <? a_num D a) (m_atoms D m))).
  { rewrite <- (Permutation_length (Hf (fun a => 1 <? a_num D a) (fun a => eq_refl))). apply map_length. }
  rewrite Hlen.
  destruct (o_exfloat o && _); apply Hf; intro a; reflexivity.
Qed.

Lemma bond_between_rel m m' x y : mol_rel m m' -> bond_between D m' (p x) (p y) = bond_between D m x y.
Proof.
  intros (_ & HB & _). unfold bond_between. rewrite HB. clear HB.
  induction (m_bonds D m) as [|[[u v] t] r IH]; simpl; [reflexivity|].
  rewrite !p_eqb. destruct ((u =? x) && (v =? y) || (u =? y) && (v =? x)); [reflexivity | exact IH].
Qed.

Lemma conn_code_rel m m' x y : mol_rel m m' -> conn_code D m' (p x) (p y) = conn_code D m x y.
Proof. intro H. unfold conn_code. rewrite (bond_between_rel _ _ _ _ H). reflexivity. Qed.

Lemma link_to_rel m m' a b : mol_rel m m' -> link_to m' (relabel_atom a) (relabel_atom b) = relabel_link (link_to m a b).
Proof.
  intro H. unfold link_to, relabel_link, conn_total, bondedb; simpl.
  rewrite (conn_code_rel _ _ _ _ H), (bond_between_rel _ _ _ _ H). reflexivity.
Qed.

Lemma others_rel ats ats' a :
  Permutation (map relabel_atom ats) ats' ->
  Permutation (map relabel_atom (others ats a)) (others ats' (relabel_atom a)).
Proof.
  intro HP. unfold others. rewrite <- (filter_perm _ _ _ HP). rewrite filter_map_comm.
  erewrite filter_ext; [reflexivity|]. intro b. simpl. rewrite p_eqb. reflexivity.
Qed.

Lemma conn_ok_rel m m' ats ats' : mol_rel m m' -> Permutation (map relabel_atom ats) ats' -> conn_ok m' ats' = conn_ok m ats.
Proof.
  intros H HP. unfold conn_ok. rewrite <- (forallb_perm _ _ _ HP). rewrite forallb_map_comm.
  apply forallb_ext_in. intros a _.
  rewrite <- (forallb_perm _ _ _ (others_rel ats ats' a HP)). rewrite forallb_map_comm.
  apply forallb_ext_in. intros b _. unfold conn_some. simpl. rewrite (conn_code_rel _ _ _ _ H). reflexivity.
Qed.

Lemma map_idx_relabel l : map idx (map relabel_atom l) = map p (map idx l).
Proof. rewrite !map_map. reflexivity. Qed.

Theorem scene_of_rel o m m' :
  mol_rel m m' -> NoDup (map idx (m_atoms D m)) ->
  match scene_of D o m, scene_of D o m' with
  | Ok sc, Ok sc' => scene_rel sc sc'
  | Raises e, Raises e' => e = e'
  | _, _ => False
  end.
Proof.
  intros H Hnd. rewrite !scene_of_closed. unfold scene_closed.
  pose proof (retained_rel o m m' H) as HP.
  set (ats := retained D o m) in *. set (ats' := retained D o m') in *.
  assert (Hnd_ats : NoDup (map idx ats)).
  { unfold ats, retained. destruct (o_exfloat o && _); apply NoDup_map_filter; exact Hnd. }
  assert (Hnd_ats' : NoDup (map idx ats')).
  { eapply Permutation_NoDup; [apply (Permutation_map idx HP)|]. rewrite map_idx_relabel.
    apply NoDup_map_inj; [exact p_inj | exact Hnd_ats]. }
  destruct ats as [|a0 t0] eqn:Eats.
  { apply Permutation_nil in HP. rewrite HP. reflexivity. }
  destruct ats' as [|a0' t0'] eqn:Eats'.
  { apply Permutation_sym, Permutation_nil in HP. discriminate. }
  rewrite <- Eats, <- Eats' in *. clear Eats Eats' a0 t0 a0' t0'.
  rewrite (conn_ok_rel m m' ats ats' H HP).
  destruct (conn_ok m ats); [|reflexivity].
  assert (Hin' : forall a, In a ats -> In (relabel_atom a) ats').
  { intros a Ha. apply (Permutation_in _ HP). apply in_map. exact Ha. }
  constructor; simpl.
  - exact Hnd_ats.
  - rewrite <- map_idx_relabel. apply Permutation_map. exact HP.
  - intros a Ha. apply in_map_iff in Ha. destruct Ha as [x [<- Hx]].
    change (p (idx x)) with (idx (relabel_atom x)).
    rewrite (aget_map_key 0 idx (ident0_of o) ats' _ Hnd_ats' (Hin' x Hx)).
    rewrite (aget_map_key 0 idx (ident0_of o) ats _ Hnd_ats Hx). reflexivity.
  - intros a Ha. apply in_map_iff in Ha. destruct Ha as [x [<- Hx]].
    change (p (idx x)) with (idx (relabel_atom x)).
    rewrite (aget_map_key [] idx (fun a => map (link_to m' a) (others ats' a)) ats' _ Hnd_ats' (Hin' x Hx)).
    rewrite (aget_map_key [] idx (fun a => map (link_to m a) (others ats a)) ats _ Hnd_ats Hx).
    rewrite <- (Permutation_map (link_to m' (relabel_atom x)) (others_rel ats ats' x HP)).
    rewrite !map_map. erewrite map_ext; [reflexivity|].
    intro b. symmetry. apply link_to_rel. exact H.
  - intros a Ha l Hl. apply in_map_iff in Ha. destruct Ha as [x [<- Hx]].
    rewrite (aget_map_key [] idx (fun a => map (link_to m a) (others ats a)) ats _ Hnd_ats Hx) in Hl.
    apply in_map_iff in Hl. destruct Hl as [b [<- Hb]]. simpl. apply in_map.
    apply filter_In in Hb. tauto.
  - destruct H as (_ & _ & Hu). exact Hu.
Qed.
End Scene.
