(* C03 (independence of atom numbering) - part 1: generic facts about the insertion sort `sort_by` of Model/Stereo.v.

   sort_by of a list is a permutation of it and is sorted; for a total ANTISYMMETRIC order the result is canonical
   (two permutations of one multiset sort to the SAME list): this is what makes the hash input independent of the
   order in which neighbours are enumerated. *)
From Coq Require Import ZArith List Bool Lia ZifyBool Permutation Sorting.Sorted.
From E3FP Require Import Base.Prelude Base.ZSet Model.Geometry Model.Stereo Model.E3FP.
Import ListNotations.
Open Scope Z_scope.

Section SortGeneric.
Variable A : Type.
Variable leb : A -> A -> bool.

Definition lsorted (l : list A) : Prop := StronglySorted (fun a b => leb a b = true) l.

Lemma insert_by_perm x l : Permutation (insert_by leb x l) (x :: l).
Proof.
  induction l as [|y t IH]; simpl; [reflexivity|].
  destruct (leb x y); [reflexivity|].
  rewrite IH. apply perm_swap.
Qed.

Lemma sort_by_perm l : Permutation (sort_by leb l) l.
Proof.
  induction l as [|x t IH]; simpl; [reflexivity|].
  rewrite insert_by_perm. constructor. exact IH.
Qed.

Lemma sort_by_length l : length (sort_by leb l) = length l.
Proof. apply Permutation_length, sort_by_perm. Qed.

Lemma In_sort_by x l : In x (sort_by leb l) <-> In x l.
Proof.
  split; apply Permutation_in; [apply sort_by_perm | symmetry; apply sort_by_perm].
Qed.

Hypothesis leb_total : forall a b, leb a b = true \/ leb b a = true.
Hypothesis leb_trans : forall a b c, leb a b = true -> leb b c = true -> leb a c = true.

Lemma insert_by_sorted x l : lsorted l -> lsorted (insert_by leb x l).
Proof.
  unfold lsorted. induction 1 as [|y t Ht IH Hall]; simpl.
  - constructor; constructor.
  - destruct (leb x y) eqn:E.
    + constructor; [constructor; assumption|].
      constructor; [assumption|].
      rewrite Forall_forall in *. intros z Hz. eapply leb_trans; [exact E | auto].
    + constructor; [assumption|].
      rewrite Forall_forall in *. intros z Hz.
      apply (Permutation_in _ (insert_by_perm x t)) in Hz. destruct Hz as [<-|Hz]; [|auto].
      destruct (leb_total x y) as [H|H]; congruence.
Qed.

Lemma sort_by_sorted l : lsorted (sort_by leb l).
Proof.
  induction l as [|x t IH]; simpl; [constructor | apply insert_by_sorted; exact IH].
Qed.

Lemma sort_by_sorted_id l : lsorted l -> sort_by leb l = l.
Proof.
  unfold lsorted. induction 1 as [|y t Ht IH Hall]; simpl; [reflexivity|].
  rewrite IH. destruct t as [|z t']; [reflexivity|]. simpl.
  inversion Hall as [|? ? Hz _]; subst. rewrite Hz. reflexivity.
Qed.

Hypothesis leb_antisym : forall a b, leb a b = true -> leb b a = true -> a = b.

Lemma sorted_perm_eq l : forall l', lsorted l -> lsorted l' -> Permutation l l' -> l = l'.
Proof.
  unfold lsorted. induction l as [|x t IH]; intros l' Hs Hs' HP.
  - apply Permutation_nil in HP. congruence.
  - destruct l' as [|y t']; [apply Permutation_sym, Permutation_nil in HP; discriminate|].
    inversion Hs as [|? ? Hst Hax]; subst. inversion Hs' as [|? ? Hst' Hay]; subst.
    rewrite Forall_forall in Hax, Hay.
    assert (x = y) as ->.
    { assert (In y (x :: t)) as Hy by (eapply Permutation_in; [symmetry; exact HP | left; reflexivity]).
      assert (In x (y :: t')) as Hx by (eapply Permutation_in; [exact HP | left; reflexivity]).
      destruct Hy as [Hy|Hy]; [congruence|]. destruct Hx as [Hx|Hx]; [congruence|].
      apply leb_antisym; auto. }
    f_equal. apply IH; try assumption. eapply Permutation_cons_inv; exact HP.
Qed.

Lemma sort_by_perm_eq l l' : Permutation l l' -> sort_by leb l = sort_by leb l'.
Proof.
  intro HP. apply sorted_perm_eq; try apply sort_by_sorted.
  rewrite !sort_by_perm. exact HP.
Qed.

Lemma sort_by_idem l : sort_by leb (sort_by leb l) = sort_by leb l.
Proof. apply sort_by_sorted_id, sort_by_sorted. Qed.

(* sorting is injective up to permutation *)
Lemma sort_by_eq_perm l l' : sort_by leb l = sort_by leb l' -> Permutation l l'.
Proof. intro E. rewrite <- (sort_by_perm l), E. apply sort_by_perm. Qed.
End SortGeneric.

Arguments lsorted {A} leb l.

(* ---- the concrete orders of the model -------------------------------------------------------------------------- *)
Lemma lex3_total a b : lex3_leb a b = true \/ lex3_leb b a = true.
Proof. destruct a as [[a1 a2] a3], b as [[b1 b2] b3]. unfold lex3_leb. lia. Qed.
Lemma lex3_trans a b c : lex3_leb a b = true -> lex3_leb b c = true -> lex3_leb a c = true.
Proof. destruct a as [[a1 a2] a3], b as [[b1 b2] b3], c as [[c1 c2] c3]. unfold lex3_leb. lia. Qed.
Lemma lex3_antisym a b : lex3_leb a b = true -> lex3_leb b a = true -> a = b.
Proof.
  destruct a as [[a1 a2] a3], b as [[b1 b2] b3]. unfold lex3_leb. intros H1 H2.
  assert (a1 = b1 /\ a2 = b2 /\ a3 = b3) as (-> & -> & ->) by lia. reflexivity.
Qed.

Lemma zpair_total a b : zpair_leb a b = true \/ zpair_leb b a = true.
Proof. destruct a, b. unfold zpair_leb; simpl. lia. Qed.
Lemma zpair_trans a b c : zpair_leb a b = true -> zpair_leb b c = true -> zpair_leb a c = true.
Proof. destruct a, b, c. unfold zpair_leb; simpl. lia. Qed.
Lemma zpair_antisym a b : zpair_leb a b = true -> zpair_leb b a = true -> a = b.
Proof.
  destruct a as [a1 a2], b as [b1 b2]. unfold zpair_leb; simpl. intros H1 H2.
  assert (a1 = b1 /\ a2 = b2) as (-> & ->) by lia. reflexivity.
Qed.

Lemma key2_total a b : key2_leb a b = true \/ key2_leb b a = true.
Proof. exact (zpair_total a b). Qed.
Lemma key2_trans a b c : key2_leb a b = true -> key2_leb b c = true -> key2_leb a c = true.
Proof. exact (zpair_trans a b c). Qed.
Lemma key2_antisym a b : key2_leb a b = true -> key2_leb b a = true -> a = b.
Proof. exact (zpair_antisym a b). Qed.
Lemma key2_eqb_eq a b : key2_eqb a b = true <-> a = b.
Proof.
  destruct a as [a1 a2], b as [b1 b2]. unfold key2_eqb; simpl. split.
  - intro H. assert (a1 = b1 /\ a2 = b2) as (-> & ->) by lia. reflexivity.
  - intro H. inversion H; subst. lia.
Qed.
Lemma zpair_eqb_eq a b : zpair_eqb a b = true <-> a = b.
Proof. exact (key2_eqb_eq a b). Qed.

Lemma lex4_total a b : lex4_leb a b = true \/ lex4_leb b a = true.
Proof. destruct a as [[[a1 a2] a3] a4], b as [[[b1 b2] b3] b4]. unfold lex4_leb. lia. Qed.
Lemma lex4_trans a b c : lex4_leb a b = true -> lex4_leb b c = true -> lex4_leb a c = true.
Proof.
  destruct a as [[[a1 a2] a3] a4], b as [[[b1 b2] b3] b4], c as [[[c1 c2] c3] c4]. unfold lex4_leb. lia.
Qed.

Lemma sort_lex3_perm_eq l l' : Permutation l l' -> sort_by lex3_leb l = sort_by lex3_leb l'.
Proof. apply sort_by_perm_eq; [exact lex3_total | exact lex3_trans | exact lex3_antisym]. Qed.
Lemma sort_zpair_perm_eq l l' : Permutation l l' -> sort_by zpair_leb l = sort_by zpair_leb l'.
Proof. apply sort_by_perm_eq; [exact zpair_total | exact zpair_trans | exact zpair_antisym]. Qed.
Lemma sort_zpair_idem l : sort_by zpair_leb (sort_by zpair_leb l) = sort_by zpair_leb l.
Proof. apply sort_by_idem; [exact zpair_total | exact zpair_trans]. Qed.

(* list equality tests reflect Leibniz equality *)
Lemma list_eqb_eq {A} (eqb : A -> A -> bool) (H : forall a b, eqb a b = true <-> a = b) :
  forall a b, list_eqb eqb a b = true <-> a = b.
Proof.
  induction a as [|x a IH]; destruct b as [|y b]; simpl; split; intro E; try congruence; try reflexivity.
  - apply andb_true_iff in E. destruct E as [E1 E2]. apply H in E1. apply IH in E2. congruence.
  - inversion E; subst. apply andb_true_iff. split; [apply H; reflexivity | apply IH; reflexivity].
Qed.

Lemma zlist_eqb_eq a b : zlist_eqb a b = true <-> a = b.
Proof. apply list_eqb_eq. apply Z.eqb_eq. Qed.
