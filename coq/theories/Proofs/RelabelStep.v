(* C03 - part 6: one call of Fingerprinter.__next__ on the renumbered scene simulates the call on the original scene;
   hence the whole run does.

   What corresponds between the two runs (state relation `st_rel`):
     - the level counter, and all levels (RelabelLevel.lev_rel);
     - past_substructs, as sets, under P = "image of a sorted atom set";
     - every level's accepted shells: ALWAYS as multisets of (identifier, P substructure) - this is what fingerprints
       and atom masks are made of -, and with duplicate removal switched off even shell by shell (centre mapped by p).
   With duplicate removal the CENTRE of an accepted shell is numbering dependent when two atoms carry the same
   identifier and the same substructure (the lower index wins): only the (identifier, substructure) content is not. *)
From Coq Require Import ZArith List Bool Lia ZifyBool Permutation Sorting.Sorted.
From E3FP Require Import Base.Prelude Base.ZSet Base.Murmur3 Model.Geometry Model.Stereo Model.Fprint Model.E3FP
  Gen.Constants Proofs.RelabelSort Proofs.RelabelScene Proofs.RelabelLevel Proofs.RelabelInv Proofs.RelabelDedup.
Import ListNotations.
Open Scope Z_scope.

Definition cand_leb (x y : shell) : bool := zpair_leb (s_ident x, s_center x) (s_ident y, s_center y).
Lemma cand_leb_total x y : cand_leb x y = true \/ cand_leb y x = true.
Proof. apply zpair_total. Qed.
Lemma cand_leb_trans x y z : cand_leb x y = true -> cand_leb y z = true -> cand_leb x z = true.
Proof. apply zpair_trans. Qed.

Lemma cand_sorted_ident l : lsorted cand_leb l -> ident_sorted l.
Proof.
  unfold lsorted, ident_sorted. induction 1 as [|x t Ht IH Hall]; constructor; [assumption|].
  rewrite Forall_forall in *. intros y Hy. specialize (Hall y Hy). unfold cand_leb, zpair_leb in Hall. simpl in Hall. lia.
Qed.

Definition pr (s : shell) : Z * list Z := (s_ident s, s_sub s).

Section StepRel.
Variable D : ringdict.
Variable C : sconsts.
Variable o : opts.
Variable p : Z -> Z.
Hypothesis p_inj : forall x y, p x = p y -> x = y.
Variables sc sc' : scene D.
Hypothesis SR : scene_rel D p sc sc'.
Hypothesis Hstereo : o_stereo o = true -> codes_perm_ok D C (sc_unit2 D sc) /\ gp_scene D sc.

Local Notation L := (lev D C o sc).
Local Notation L' := (lev D C o sc').
Local Notation atoms := (sc_atoms D sc).
Local Notation atoms' := (sc_atoms D sc').
Local Notation PP := (P p).

Definition R (s : shell) : shell := mkshell (p (s_center s)) (s_canon s) (s_ident s) (PP (s_sub s)).
Definition prP (s : shell) : Z * list Z := (s_ident s, PP (s_sub s)).

Lemma pr_R s : pr (R s) = prP s.
Proof. reflexivity. Qed.

Lemma same_shell_R s t : same_shell (R s) (R t) = same_shell s t.
Proof. unfold same_shell, R; simpl. rewrite (p_eqb p p_inj). reflexivity. Qed.

Definition shl_rel (l l' : list shell) : Prop :=
  Permutation (map prP l) (map pr l') /\ (o_remdup o = false -> Permutation (map R l) l').

Definition past_rel (past past' : list (list Z)) : Prop :=
  Forall ssorted past /\ forall x, In x past' <-> exists s, In s past /\ x = PP s.

Lemma full_to_pairs l l' : Permutation (map R l) l' -> Permutation (map prP l) (map pr l').
Proof. intro H. rewrite <- (Permutation_map pr H). rewrite map_map. reflexivity. Qed.

(* ---- well-formedness of both scenes -------------------------------------------------------------------------------- *)
Lemma wf_sc : sc_wf D sc.
Proof. split; [apply (sr_nodup _ _ _ _ SR) | apply (sr_wf _ _ _ _ SR)]. Qed.

Lemma wf_sc' : sc_wf D sc'.
Proof.
  split; [apply (nodup' D p p_inj sc sc' SR)|].
  intros a' Ha' l' Hl'. apply (scene_rel_in' D p sc sc' SR) in Ha'. destruct Ha' as [a [Ha ->]].
  unfold links_of in Hl'. apply (Permutation_in _ (Permutation_sym (sr_links _ _ _ _ SR a Ha))) in Hl'.
  apply in_map_iff in Hl'. destruct Hl' as [l [<- Hl]]. simpl.
  apply (in_atoms' D p p_inj sc sc' SR). apply (sr_wf _ _ _ _ SR a Ha l Hl).
Qed.

Lemma length_atoms' : length atoms' = length atoms.
Proof. rewrite <- (Permutation_length (sr_atoms _ _ _ _ SR)). apply map_length. Qed.

(* ---- shells of a level ------------------------------------------------------------------------------------------------ *)
Lemma shell_of_rel n a : In a atoms -> shell_of (L' n) (p a) = R (shell_of (L n) a).
Proof.
  intro Ha. pose proof (lev_rel D C o p p_inj sc sc' SR Hstereo n) as LR.
  unfold shell_of, R; simpl.
  rewrite (lr_canon _ _ _ _ _ LR a Ha), (lr_ident _ _ _ _ _ LR a Ha), (lr_sub _ _ _ _ _ LR a Ha). reflexivity.
Qed.

Definition cands_of (sc0 : scene D) (l : lvl) : list shell := sort_by cand_leb (map (shell_of l) (sc_atoms D sc0)).

Lemma cands_perm n : Permutation (map R (cands_of sc (L n))) (cands_of sc' (L' n)).
Proof.
  unfold cands_of. rewrite (Permutation_map R (sort_by_perm _ cand_leb _)). rewrite sort_by_perm.
  rewrite <- (Permutation_map (shell_of (L' n)) (sr_atoms _ _ _ _ SR)). rewrite !map_map.
  erewrite map_ext_in; [reflexivity|]. intros a Ha. symmetry. apply shell_of_rel. exact Ha.
Qed.

Lemma cands_centers sc0 l : Permutation (map s_center (cands_of sc0 l)) (sc_atoms D sc0).
Proof.
  unfold cands_of. rewrite (Permutation_map s_center (sort_by_perm _ cand_leb _)). rewrite map_map. simpl.
  rewrite map_id. reflexivity.
Qed.

Lemma cands_in sc0 l s : In s (cands_of sc0 l) <-> exists a, In a (sc_atoms D sc0) /\ s = shell_of l a.
Proof.
  unfold cands_of. rewrite In_sort_by, in_map_iff. split; intros [a [A B]]; exists a; auto.
Qed.

Lemma cands_sorted sc0 l : ident_sorted (cands_of sc0 l).
Proof. apply cand_sorted_ident. apply sort_by_sorted; [apply cand_leb_total | apply cand_leb_trans]. Qed.

(* ---- the full-substructure stopping test --------------------------------------------------------------------------- *)
Lemma length_P s : ssorted s -> length (PP s) = length s.
Proof.
  intro Hs. unfold P.
  assert (Hnd : NoDup (map p s)) by (apply NoDup_map_inj; [exact p_inj | apply ssorted_NoDup; exact Hs]).
  rewrite (Permutation_length (usort_perm_nodup _ Hnd)). apply map_length.
Qed.

Lemma all_full_rel n : all_full D sc' (L' n) = all_full D sc (L n).
Proof.
  unfold all_full. rewrite <- (forallb_perm _ _ _ (sr_atoms _ _ _ _ SR)). rewrite forallb_map_comm.
  apply forallb_ext_in. intros a Ha.
  rewrite (lr_sub _ _ _ _ _ (lev_rel D C o p p_inj sc sc' SR Hstereo n) a Ha).
  rewrite length_P by (apply (sub_ssorted D C o sc wf_sc); exact Ha).
  rewrite length_atoms'. reflexivity.
Qed.

(* ---- union under Shell.__eq__, duplicate removal off ------------------------------------------------------------------ *)
Lemma existsb_map_comm {A B} (f : B -> bool) (g : A -> B) l : existsb f (map g l) = existsb (fun x => f (g x)) l.
Proof. induction l as [|x t IH]; simpl; [reflexivity | rewrite IH; reflexivity]. Qed.

Lemma union_rel_full old old' new new' :
  Permutation (map R old) old' -> Permutation (map R new) new' -> NoDup (map s_center new) ->
  Permutation (map R (union_shells old new)) (union_shells old' new').
Proof.
  intros Ho Hn Hnd.
  assert (Hnd' : NoDup (map s_center new')).
  { eapply Permutation_NoDup; [apply (Permutation_map s_center Hn)|]. rewrite map_map. simpl.
    rewrite <- (map_map s_center p). apply NoDup_map_inj; [exact p_inj | exact Hnd]. }
  rewrite (union_shells_filter new old Hnd), (union_shells_filter new' old' Hnd').
  rewrite map_app. apply Permutation_app; [exact Ho|].
  rewrite <- (filter_perm _ _ _ Hn). rewrite filter_map_comm.
  erewrite filter_ext; [reflexivity|]. intro s. simpl. f_equal.
  rewrite <- (existsb_perm _ _ _ Ho). rewrite existsb_map_comm. clear Ho.
  induction old as [|t r IH]; simpl; [reflexivity|]. rewrite same_shell_R. f_equal. exact IH.
Qed.

(* ---- the duplicate filter ------------------------------------------------------------------------------------------------ *)
Lemma dedup_rel cands cands' past past' acc past2 acc' past2' :
  Permutation (map R cands) cands' -> ident_sorted cands -> ident_sorted cands' ->
  (forall s, In s cands -> ssorted (s_sub s)) -> past_rel past past' ->
  dedup cands past = (acc, past2) -> dedup cands' past' = (acc', past2') ->
  Permutation (map prP acc) (map pr acc') /\ past_rel past2 past2'.
Proof.
  intros HP Hs Hs' Hss [Hpast_s Hpast] Hd Hd'.
  destruct (dedup_spec _ _ _ _ Hd) as (E1 & A2 & A3 & A4 & _ & A6). specialize (A6 Hs).
  destruct (dedup_spec _ _ _ _ Hd') as (E1' & A2' & A3' & A4' & _ & A6'). specialize (A6' Hs').
  assert (F1 : forall s, In s cands -> In (R s) cands').
  { intros s Hin. apply (Permutation_in _ HP). apply in_map. exact Hin. }
  assert (F2 : forall s', In s' cands' -> exists s, In s cands /\ s' = R s).
  { intros s' Hin. apply (Permutation_in _ (Permutation_sym HP)) in Hin. apply in_map_iff in Hin.
    destruct Hin as [s [E Hin]]. exists s. auto. }
  assert (F3 : forall s, ssorted s -> (In (PP s) past' <-> In s past)).
  { intros s Hso. split.
    - intro Hin. apply Hpast in Hin. destruct Hin as [s0 [Hs0 E]].
      rewrite Forall_forall in Hpast_s. apply (P_inj p p_inj) in E; [subst; exact Hs0 | exact Hso | auto].
    - intro Hin. apply Hpast. exists s. auto. }
  assert (HPairs : Permutation (map prP acc) (map pr acc')).
  { apply NoDup_Permutation.
    - apply (NoDup_map_impl prP s_sub); [|exact A4]. intros x y Hx Hy E. unfold prP in E. inversion E as [[Ei Ep]].
      apply (P_inj p p_inj); [apply Hss; apply (A2 x Hx) | apply Hss; apply (A2 y Hy) | exact Ep].
    - apply (NoDup_map_impl pr s_sub); [|exact A4']. intros x y _ _ E. unfold pr in E. inversion E. reflexivity.
    - intro x. split; intro Hx; apply in_map_iff in Hx; destruct Hx as [s [<- Hsa]]; apply in_map_iff.
      + destruct (A2 s Hsa) as [Hsc Hnp].
        destruct (A3' (R s) (F1 s Hsc)) as [s' [Hs'a Es']].
        { simpl. rewrite F3 by (apply Hss; exact Hsc). exact Hnp. }
        exists s'. split; [|exact Hs'a]. simpl in Es'. unfold pr, prP. rewrite Es'. f_equal.
        destruct (A2' s' Hs'a) as [Hs'c _]. destruct (F2 s' Hs'c) as [s0 [Hs0c E0]].
        assert (s_sub s0 = s_sub s) as Esub.
        { apply (P_inj p p_inj); [apply Hss; exact Hs0c | apply Hss; exact Hsc|].
          rewrite <- Es'. rewrite E0. reflexivity. }
        pose proof (A6 s s0 Hsa Hs0c Esub) as Hle1.
        pose proof (A6' s' (R s) Hs'a (F1 s Hsc)) as Hle2. simpl in Hle2. specialize (Hle2 (eq_sym Es')).
        rewrite E0 in *. simpl in *. lia.
      + destruct (A2' s Hsa) as [Hsc' Hnp']. destruct (F2 s Hsc') as [s0 [Hs0c ->]].
        simpl in Hnp'. rewrite F3 in Hnp' by (apply Hss; exact Hs0c).
        destruct (A3 s0 Hs0c Hnp') as [s1 [Hs1a Es1]].
        exists s1. split; [|exact Hs1a]. unfold pr, prP; simpl. rewrite Es1. f_equal.
        destruct (A2 s1 Hs1a) as [Hs1c _].
        pose proof (A6 s1 s0 Hs1a Hs0c (eq_sym Es1)) as Hle1.
        pose proof (A6' (R s0) (R s1) Hsa (F1 s1 Hs1c)) as Hle2. simpl in Hle2.
        rewrite Es1 in Hle2. specialize (Hle2 eq_refl). lia. }
  split; [exact HPairs|].
  subst past2 past2'. split.
  - apply Forall_app. split; [|exact Hpast_s]. apply Forall_rev. apply Forall_forall. intros x Hx.
    apply in_map_iff in Hx. destruct Hx as [s [<- Hsa]]. apply Hss. apply (A2 s Hsa).
  - pose proof (Permutation_map snd HPairs) as Hsnd. rewrite !map_map in Hsnd. simpl in Hsnd.
    intro x. split.
    + intro Hx. apply in_app_iff in Hx. destruct Hx as [Hx|Hx].
      * apply in_rev in Hx. apply (Permutation_in _ (Permutation_sym Hsnd)) in Hx. apply in_map_iff in Hx.
        destruct Hx as [s [<- Hsa]]. exists (s_sub s). split; [|reflexivity].
        apply in_app_iff. left. apply -> in_rev. apply in_map. exact Hsa.
      * apply Hpast in Hx. destruct Hx as [s [Hin ->]]. exists s. split; [|reflexivity].
        apply in_app_iff. right. exact Hin.
    + intros [s [Hin ->]]. apply in_app_iff in Hin. apply in_app_iff. destruct Hin as [Hin|Hin].
      * left. apply in_rev in Hin. apply -> in_rev. apply in_map_iff in Hin. destruct Hin as [s1 [<- Hs1]].
        apply (Permutation_in _ Hsnd). apply in_map_iff. exists s1. auto.
      * right. apply Hpast. exists s. auto.
Qed.

(* ---- single-scene facts about one step ------------------------------------------------------------------------------- *)
Definition head_inv (sc0 : scene D) (st : state) : Prop :=
  forall s, In s (hd [] (st_shells st)) ->
    (exists j a, In a (sc_atoms D sc0) /\ s = shell_of (lev D C o sc0 j) a) /\ In (s_sub s) (st_past st).

Lemma same_shell_true s t : same_shell s t = true -> s_center s = s_center t /\ s_canon s = s_canon t.
Proof. unfold same_shell. lia. Qed.

(* with duplicate removal, an accepted shell is never Shell.__eq__-equal to a shell accepted earlier *)
Lemma acc_fresh sc0 st n acc past2 :
  sc_wf D sc0 -> head_inv sc0 st ->
  dedup (cands_of sc0 (lev D C o sc0 n)) (st_past st) = (acc, past2) ->
  forall s, In s acc -> existsb (same_shell s) (hd [] (st_shells st)) = false.
Proof.
  intros WF HI Hd s Hs. destruct (existsb (same_shell s) (hd [] (st_shells st))) eqn:E; [|reflexivity]. exfalso.
  apply existsb_exists in E. destruct E as [t [Ht Est]].
  destruct (dedup_spec _ _ _ _ Hd) as (_ & A2 & _). destruct (A2 s Hs) as [Hsc Hnp].
  apply cands_in in Hsc. destruct Hsc as [a [Ha ->]].
  destruct (HI t Ht) as [[j [a2 [Ha2 ->]]] Hpast].
  apply same_shell_true in Est. simpl in Est. destruct Est as [<- Ec].
  apply Hnp. simpl in *. rewrite (sub_functional D C o sc0 WF n j a Ha Ec). exact Hpast.
Qed.

Lemma step_unfold sc0 k n past cur_shells rest :
  0 <= k -> n = Z.to_nat k ->
  step D C o sc0 (mkstate k (levels_upto D C o sc0 n) past (cur_shells :: rest)) =
  let st := mkstate k (levels_upto D C o sc0 n) past (cur_shells :: rest) in
  if negb (o_level o =? -1) && (o_level o <=? k) then Stop st
  else if o_remdup o && all_full D sc0 (lev D C o sc0 n) then Stop st
  else
    let cands := cands_of sc0 (lev D C o sc0 (S n)) in
    let '(acc, past') := if o_remdup o then dedup cands past else (cands, past) in
    let new_shells := union_shells cur_shells acc in
    if Nat.eqb (length new_shells) (length cur_shells) then Stop st
    else Continue (mkstate (k + 1) (levels_upto D C o sc0 (S n)) past' (new_shells :: cur_shells :: rest)).
Proof.
  intros Hk Hn. unfold step. simpl st_levels. simpl st_shells. simpl st_k.
  rewrite (levels_upto_cons D C o sc0 n). cbv iota beta. rewrite <- (levels_upto_cons D C o sc0 n).
  replace (k + 1) with (Z.of_nat (S n)) by lia.
  reflexivity.
Qed.

(* ---- the state relation ---------------------------------------------------------------------------------------------------- *)
Record st_rel (st st' : state) : Prop := mk_st_rel {
  tr_k : st_k st' = st_k st;
  tr_knn : 0 <= st_k st;
  tr_lv : st_levels st = levels_upto D C o sc (Z.to_nat (st_k st));
  tr_lv' : st_levels st' = levels_upto D C o sc' (Z.to_nat (st_k st));
  tr_past : past_rel (st_past st) (st_past st');
  tr_shells : Forall2 shl_rel (st_shells st) (st_shells st');
  tr_ne : st_shells st <> [];
  tr_head : o_remdup o = true -> head_inv sc st /\ head_inv sc' st' }.

Definition out_rel (x x' : outcome) : Prop :=
  match x, x' with
  | Continue s, Continue s' => st_rel s s'
  | Stop s, Stop s' => st_rel s s'
  | _, _ => False
  end.

Lemma cands_nodup_centers sc0 l : NoDup (sc_atoms D sc0) -> NoDup (map s_center (cands_of sc0 l)).
Proof. intro H. eapply Permutation_NoDup; [symmetry; apply cands_centers | exact H]. Qed.

Lemma head_inv_next sc0 k n past cur rest acc past2 lv2 :
  head_inv sc0 (mkstate k (levels_upto D C o sc0 n) past (cur :: rest)) ->
  dedup (cands_of sc0 (lev D C o sc0 (S n))) past = (acc, past2) ->
  head_inv sc0 (mkstate (k + 1) lv2 past2 ((cur ++ acc) :: cur :: rest)).
Proof.
  intros HI Hd s Hs. simpl in Hs. destruct (dedup_spec _ _ _ _ Hd) as (E1 & A2 & _). simpl. subst past2.
  apply in_app_iff in Hs. destruct Hs as [Hs|Hs].
  - destruct (HI s Hs) as [He Hp]. split; [exact He|]. apply in_app_iff. right. exact Hp.
  - split.
    + destruct (A2 s Hs) as [Hc _]. apply cands_in in Hc. destruct Hc as [a [Ha ->]]. exists (S n), a. auto.
    + apply in_app_iff. left. apply -> in_rev. apply in_map. exact Hs.
Qed.

Lemma cands_ssorted n s : In s (cands_of sc (L n)) -> ssorted (s_sub s).
Proof.
  intro Hs. apply cands_in in Hs. destruct Hs as [a [Ha ->]]. simpl. apply (sub_ssorted D C o sc wf_sc). exact Ha.
Qed.

Theorem step_rel st st' : st_rel st st' -> out_rel (step D C o sc st) (step D C o sc' st').
Proof.
  intros HR. pose proof HR as [Hk Hknn Hlv Hlv' Hpast Hsh Hne Hhead].
  destruct st as [k lv past sh], st' as [k' lv' past' sh']. simpl in *. subst k' lv lv'.
  destruct sh as [|cur rest]; [congruence|]. inversion Hsh as [|? cur' ? rest' Hcur Hrest]; subst.
  set (n := Z.to_nat k) in *.
  rewrite (step_unfold sc k n past cur rest Hknn eq_refl), (step_unfold sc' k n past' cur' rest' Hknn eq_refl).
  cbv zeta.
  destruct (negb (o_level o =? -1) && (o_level o <=? k)); [exact HR|].
  rewrite all_full_rel.
  destruct (o_remdup o && all_full D sc (L n)) eqn:Efull; [exact HR|].
  pose proof (cands_perm (S n)) as Hcp.
  pose proof (cands_nodup_centers sc (L (S n)) (proj1 wf_sc)) as Hndc.
  pose proof (cands_nodup_centers sc' (L' (S n)) (proj1 wf_sc')) as Hndc'.
  pose proof Hcur as Hcur0. destruct Hcur as [Hcur_pairs Hcur_full].
  assert (Hlen_cur : length cur' = length cur).
  { apply Permutation_length in Hcur_pairs. rewrite !map_length in Hcur_pairs. congruence. }
  assert (Hk1 : Z.to_nat (k + 1) = S n) by lia.
  destruct (o_remdup o) eqn:Erd.
  - (* duplicate removal on *)
    destruct (Hhead eq_refl) as [HI HI'].
    destruct (dedup (cands_of sc (L (S n))) past) as [acc past2] eqn:Hd.
    destruct (dedup (cands_of sc' (L' (S n))) past') as [acc' past2'] eqn:Hd'.
    destruct (dedup_rel _ _ _ _ _ _ _ _ Hcp (cands_sorted sc _) (cands_sorted sc' _)
                 (cands_ssorted (S n))
                 Hpast Hd Hd') as [Hpairs Hpast2].
    assert (Hnda : NoDup (map s_center acc)).
    { destruct (dedup_spec _ _ _ _ Hd) as (_ & _ & _ & _ & A5 & _). exact (A5 Hndc). }
    assert (Hnda' : NoDup (map s_center acc')).
    { destruct (dedup_spec _ _ _ _ Hd') as (_ & _ & _ & _ & A5 & _). exact (A5 Hndc'). }
    rewrite (union_shells_fresh acc cur Hnda (acc_fresh sc _ _ _ _ wf_sc HI Hd)).
    rewrite (union_shells_fresh acc' cur' Hnda' (acc_fresh sc' _ _ _ _ wf_sc' HI' Hd')).
    assert (Hlen_acc : length acc' = length acc).
    { apply Permutation_length in Hpairs. rewrite !map_length in Hpairs. congruence. }
    rewrite !app_length, Hlen_cur, Hlen_acc.
    destruct (Nat.eqb (length cur + length acc) (length cur)); [exact HR|].
    simpl. constructor; simpl.
    + reflexivity.
    + lia.
    + rewrite Hk1. reflexivity.
    + rewrite Hk1. reflexivity.
    + exact Hpast2.
    + constructor; [|constructor; [exact Hcur0 | exact Hrest]].
      split; [|intro; congruence]. rewrite !map_app. apply Permutation_app; assumption.
    + discriminate.
    + intros _. split.
      * exact (head_inv_next sc k n past cur rest acc past2 _ HI Hd).
      * exact (head_inv_next sc' k n past' cur' rest' acc' past2' _ HI' Hd').
  - (* duplicate removal off *)
    specialize (Hcur_full eq_refl).
    pose proof (union_rel_full cur cur' _ _ Hcur_full Hcp Hndc) as Hun.
    assert (Hlen_new : length (union_shells cur' (cands_of sc' (L' (S n)))) = length (union_shells cur (cands_of sc (L (S n))))).
    { rewrite <- (Permutation_length Hun). apply map_length. }
    rewrite Hlen_new, Hlen_cur.
    destruct (Nat.eqb _ (length cur)); [exact HR|].
    simpl. constructor; simpl.
    + reflexivity.
    + lia.
    + rewrite Hk1. reflexivity.
    + rewrite Hk1. reflexivity.
    + exact Hpast.
    + constructor; [|constructor; [exact Hcur0 | exact Hrest]].
      split; [apply full_to_pairs; exact Hun | intro; exact Hun].
    + discriminate.
    + intro; congruence.
Qed.

(* ---- initial state and iteration --------------------------------------------------------------------------------------------- *)
Lemma P_single a : PP [a] = [p a].
Proof. reflexivity. Qed.

Lemma init_rel : st_rel (init_state D sc) (init_state D sc').
Proof.
  unfold init_state. constructor; simpl.
  - reflexivity.
  - lia.
  - reflexivity.
  - reflexivity.
  - split.
    + apply Forall_forall. intros x Hx. apply in_map_iff in Hx. destruct Hx as [a [<- _]]. repeat constructor.
    + intro x. split.
      * intro Hx. apply in_map_iff in Hx. destruct Hx as [a' [<- Ha']].
        apply (scene_rel_in' D p sc sc' SR) in Ha'. destruct Ha' as [a [Ha ->]].
        exists [a]. split; [apply (in_map (fun a => [a])); exact Ha | reflexivity].
      * intros [s0 [Hs0 ->]]. apply in_map_iff in Hs0. destruct Hs0 as [a [<- Ha]]. rewrite P_single.
        apply (in_map (fun a => [a])). apply (in_atoms' D p p_inj sc sc' SR). exact Ha.
  - constructor; [|constructor].
    assert (Hfull : Permutation (map R (map (shell_of (level0 D sc)) atoms)) (map (shell_of (level0 D sc')) atoms')).
    { rewrite <- (Permutation_map (shell_of (level0 D sc')) (sr_atoms _ _ _ _ SR)). rewrite !map_map.
      erewrite map_ext_in; [reflexivity|]. intros a Ha. symmetry. apply (shell_of_rel 0 a Ha). }
    split; [apply full_to_pairs; exact Hfull | intro; exact Hfull].
  - discriminate.
  - intros _. split; intros s Hs; simpl in Hs; apply in_map_iff in Hs; destruct Hs as [a [<- Ha]];
      unfold shell_of; cbn [s_sub st_past].
    + split; [exists 0%nat, a; auto|]. rewrite (level0_sub D sc (proj1 wf_sc) a Ha). apply (in_map (fun a => [a])). exact Ha.
    + split; [exists 0%nat, a; auto|]. rewrite (level0_sub D sc' (proj1 wf_sc') a Ha). apply (in_map (fun a => [a])). exact Ha.
Qed.

Theorem iterate_rel fuel : forall st st', st_rel st st' ->
  match iterate D C o sc fuel st, iterate D C o sc' fuel st' with
  | Some s, Some s' => st_rel s s'
  | None, None => True
  | _, _ => False
  end.
Proof.
  induction fuel as [|f IH]; intros st st' HR; simpl; [exact I|].
  pose proof (step_rel st st' HR) as Hs.
  destruct (step D C o sc st) as [s1|s1], (step D C o sc' st') as [s1'|s1']; simpl in Hs; try contradiction.
  - apply IH. exact Hs.
  - exact Hs.
Qed.

End StepRel.
