(* C03 (independence of atom numbering) - stereo part: the stereo codes of one shell (used by RelabelLevel via RelabelMain).

   The multiset of (bond, identifier, stereo code) triples of the neighbours of one atom does not depend on the order
   in which neighbours with equal (bond, identifier) key are listed: `codes_perm`.  The only order-dependent choice of
   the algorithm (element 0 as y axis when there are exactly two, identical, neighbours) is symmetric as soon as both
   vectors are nonzero (`two_identical_symmetric`), and is NOT when one neighbour sits on the centre atom
   (`codes_coincident_asymmetric`). *)
From Coq Require Import ZArith List Bool Lia ZifyBool Permutation Sorting.Sorted Ring.
From Coq Require Import setoid_ring.InitialRing.
From E3FP Require Import Base.Prelude Model.Geometry Model.Stereo Gen.AngleTable Proofs.RelabelSort Proofs.RelabelStereoA.
Import ListNotations.
Open Scope Z_scope.

(* ---- ordered-ring laws of a dictionary ------------------------------------------------------------------------- *)
Record ordlaws (D : ringdict) : Prop := Build_ordlaws {
  ol_ring : ring_theory (f0 D) (f1 D) (fadd D) (fmul D) (fsub D) (fopp D) (@eq (F D));
  ol_eqb : forall a b, feqb D a b = true <-> a = b;
  ol_trans : forall a b c, fleb D a b = true -> fleb D b c = true -> fleb D a c = true;
  ol_antisym : forall a b, fleb D a b = true -> fleb D b a = true -> a = b;
  ol_total : forall a b, fleb D a b = true \/ fleb D b a = true;
  ol_add : forall a b c, fleb D a b = true -> fleb D (fadd D a c) (fadd D b c) = true;
  ol_mul_pos : forall a b, fltb D (f0 D) a = true -> fltb D (f0 D) b = true -> fltb D (f0 D) (fmul D a b) = true;
  ol_ofZ_lt : forall a b, (a < b)%Z -> fltb D (fofZ D a) (fofZ D b) = true }.

Lemma ZD_ordlaws : ordlaws ZD.
Proof.
  apply (Build_ordlaws ZD Zth); unfold fltb; simpl; intros; lia.
Qed.

Definition cone_ok (C : sconsts) : Prop := (0 < fst (sc_cos2cone C) < snd (sc_cos2cone C))%Z.

Lemma e3fp_consts_cone_ok : cone_ok e3fp_consts.
Proof. unfold cone_ok, e3fp_consts, cos2_cone; simpl sc_cos2cone; unfold fst, snd. lia. Qed.

(* ---- consequences of the laws ---------------------------------------------------------------------------------- *)
Section Order.
Variable D : ringdict.
Hypothesis L : ordlaws D.
Notation T := (F D).
Local Notation "0" := (f0 D).
Local Notation "a + b" := (fadd D a b).
Local Notation "a * b" := (fmul D a b).
Local Notation "a - b" := (fsub D a b).
Local Notation "- a" := (fopp D a).
Local Notation "a <= b" := (fleb D a b = true).
Local Notation "a < b" := (fltb D a b = true).

Add Ring Dring : (ol_ring D L).

Lemma ol_refl a : a <= a.
Proof. destruct (ol_total D L a a); assumption. Qed.

Lemma lt_le a b : a < b -> a <= b.
Proof. unfold fltb. intro H. destruct (ol_total D L a b) as [E|E]; [exact E|]. rewrite E in H. discriminate. Qed.

Lemma lt_ne a b : a < b -> a <> b.
Proof. unfold fltb. intros H ->. rewrite ol_refl in H. discriminate. Qed.

Lemma le_ne_lt a b : a <= b -> a <> b -> a < b.
Proof.
  intros H N. unfold fltb. destruct (fleb D b a) eqn:E; [|reflexivity].
  exfalso. apply N. apply (ol_antisym D L); assumption.
Qed.

Lemma feqb_false a b : feqb D a b = false <-> a <> b.
Proof.
  split.
  - intros H E. apply (ol_eqb D L) in E. congruence.
  - intro N. destruct (feqb D a b) eqn:E; [|reflexivity]. apply (ol_eqb D L) in E. contradiction.
Qed.

Lemma feqb_refl a : feqb D a a = true.
Proof. apply (ol_eqb D L). reflexivity. Qed.

Lemma add_lt a b c : a < b -> a + c < b + c.
Proof.
  unfold fltb. intro H. destruct (fleb D (b + c) (a + c)) eqn:E; [|reflexivity].
  apply (ol_add D L) with (c := - c) in E.
  replace (b + c + - c) with b in E by ring. replace (a + c + - c) with a in E by ring.
  rewrite E in H. discriminate.
Qed.

Lemma sq_pos a : a <> 0 -> 0 < a * a.
Proof.
  intro N. destruct (ol_total D L 0 a) as [H|H].
  - assert (0 < a) by (apply le_ne_lt; [exact H|congruence]). apply (ol_mul_pos D L); assumption.
  - assert (0 < - a).
    { apply le_ne_lt.
      - apply (ol_add D L) with (c := - a) in H. replace (a + - a) with 0 in H by ring.
        replace (0 + - a) with (- a) in H by ring. exact H.
      - intro E. apply N. replace a with (- - a) by ring. rewrite <- E. ring. }
    replace (a * a) with (- a * - a) by ring. apply (ol_mul_pos D L); assumption.
Qed.

Lemma sq_nonneg a : 0 <= a * a.
Proof.
  destruct (feqb D a 0) eqn:E.
  - apply (ol_eqb D L) in E. subst a. replace (0 * 0) with 0 by ring. apply ol_refl.
  - apply lt_le, sq_pos, feqb_false, E.
Qed.

Lemma add_nonneg a b : 0 <= a -> 0 <= b -> 0 <= a + b.
Proof.
  intros Ha Hb. apply (ol_trans D L) with b; [exact Hb|].
  apply (ol_add D L) with (c := b) in Ha. replace (0 + b) with b in Ha by ring. exact Ha.
Qed.

Lemma dot_self_nonneg v : 0 <= dot D v v.
Proof. unfold dot. apply add_nonneg; [apply add_nonneg|]; apply sq_nonneg. Qed.

Lemma dot_self_pos v : feqb D (dot D v v) 0 = false -> 0 < dot D v v.
Proof. intro H. apply le_ne_lt; [apply dot_self_nonneg|]. apply feqb_false in H. congruence. Qed.

Lemma mul_lt_r a b t : a < b -> 0 < t -> a * t < b * t.
Proof.
  intros Hab Ht. assert (0 < b - a).
  { apply add_lt with (c := - a) in Hab. replace (a + - a) with 0 in Hab by ring.
    replace (b + - a) with (b - a) in Hab by ring. exact Hab. }
  assert (H1 : 0 < (b - a) * t) by (apply (ol_mul_pos D L); assumption).
  apply add_lt with (c := a * t) in H1. replace (0 + a * t) with (a * t) in H1 by ring.
  replace ((b - a) * t + a * t) with (b * t) in H1 by ring. exact H1.
Qed.

Lemma dot_comm u v : dot D u v = dot D v u.
Proof. unfold dot. ring. Qed.

Lemma vadd_swap u v w : vadd D u (vadd D v w) = vadd D v (vadd D u w).
Proof. unfold vadd; simpl. f_equal; ring. Qed.

Lemma vsum_perm l l' : Permutation l l' -> vsum D l = vsum D l'.
Proof.
  induction 1 as [|x l l' HP IH|x y l|l l' l'' _ IH1 _ IH2]; simpl.
  - reflexivity.
  - rewrite IH. reflexivity.
  - apply vadd_swap.
  - congruence.
Qed.
End Order.

Lemma key2_refl a : key2_leb a a = true.
Proof. destruct (key2_total a a); assumption. Qed.

Lemma key2_eqb_refl a : key2_eqb a a = true.
Proof. apply key2_eqb_eq. reflexivity. Qed.

Definition proj4 (t : Z * Z * Z * Z) : Z * Z := let '(b, c, _, _) := t in (b, c).

Lemma lex4_proj a b : lex4_leb a b = true -> key2_leb (proj4 a) (proj4 b) = true.
Proof.
  destruct a as [[[a1 a2] a3] a4], b as [[[b1 b2] b3] b4]. unfold lex4_leb, key2_leb, proj4, fst, snd. lia.
Qed.

(* ---- the stereo codes of one shell ----------------------------------------------------------------------------- *)
Section Relabel.
Variable D : ringdict.
Variable C : sconsts.
Variable unit2 : F D.
Hypothesis L : ordlaws D.
Hypothesis HC : cone_ok C.
Notation T := (F D).
Notation V := (vec D).
Notation NB := (nb D).
Local Notation "a +' b" := (fadd D a b) (at level 50, left associativity).
Local Notation "a *' b" := (fmul D a b) (at level 40, left associativity).
Local Notation "a -' b" := (fsub D a b) (at level 50, left associativity).

Add Ring Dring2 : (ol_ring D L).

Definition coded (ns : list NB) : list (Z * Z * Z) :=
  map (fun xc => (nb_conn (fst xc), nb_ident (fst xc), snd xc)) (combine ns (codes D C unit2 ns)).
Definition key_sorted (ns : list NB) : Prop := lsorted (fun x y => key2_leb (nb_key D x) (nb_key D y)) ns.
Definition nonzero (ns : list NB) : Prop :=
  forall x, In x ns -> feqb D (dot D (nb_vec x) (nb_vec x)) (f0 D) = false.

(* -- position-free form of the code of one neighbour: y axis, selected z neighbour vector, "is the y atom" flag -- *)
Definition zvof (y : V) (zv : option V) : V :=
  match zv with
  | Some vm => vsub D (vscl D (dot D y y) vm) (vscl D (dot D vm y) y)
  | None => vzero D
  end.

Definition code1 (y : V) (zv : option V) (isy : bool) (x : NB) : Z :=
  let yy := dot D y y in
  let v := nb_vec x in let uy := dot D v y in let uu := dot D v v in
  if feqb D uu (f0 D) then 0
  else if is_pole D C uy uu yy then sign_of D uy
  else match zv with
       | None => 0
       | Some _ => (if isy then 2 else quad_of D y (zvof y zv) v yy) * sign_of D uy
       end.

Definition zvec (ns : list NB) (y : V) (yind : option nat) : option V :=
  option_map (nth_vec D ns) (pick_z D C ns y yind).

Lemma codes_unfold ns :
  codes D C unit2 ns =
  match pick_y D C unit2 ns with
  | None => map (fun _ => 0) ns
  | Some (y, yind) => map (fun ix => code1 y (zvec ns y yind) (opt_nat_eqb yind (fst ix)) (snd ix)) (indexed ns)
  end.
Proof.
  unfold codes, zvec. destruct (pick_y D C unit2 ns) as [[y yind]|]; [|reflexivity].
  destruct (pick_z D C ns y yind); reflexivity.
Qed.

(* the mask "position i is the y atom" expressed on elements *)
Definition ymask (ns : list NB) (yind : option nat) (isy : NB -> bool) : Prop :=
  forall i x, nth_error ns i = Some x -> opt_nat_eqb yind i = isy x.

Lemma codes_posfree ns y yind isy :
  pick_y D C unit2 ns = Some (y, yind) -> ymask ns yind isy ->
  codes D C unit2 ns = map (fun x => code1 y (zvec ns y yind) (isy x) x) ns.
Proof.
  intros Hy Hm. rewrite codes_unfold, Hy.
  rewrite <- (map_indexed (fun x => code1 y (zvec ns y yind) (isy x) x) ns).
  apply map_ext_in. intros [i x] Hin. simpl. rewrite (Hm i x) by (apply in_indexed; exact Hin). reflexivity.
Qed.

Lemma coded_map g ns :
  codes D C unit2 ns = map g ns -> coded ns = map (fun x => (nb_conn x, nb_ident x, g x)) ns.
Proof. intro H. unfold coded. rewrite H, combine_map_self, map_map. reflexivity. Qed.

(* -- pick_z ------------------------------------------------------------------------------------------------------ *)
Definition okf (isy : NB -> bool) (x : NB) : bool :=
  negb (feqb D (dot D (nb_vec x) (nb_vec x)) (f0 D)) && negb (isy x).
Definition kz (y : V) (x : NB) : Z * Z :=
  (bin_of D C (dot D (nb_vec x) y) (dot D (nb_vec x) (nb_vec x)) (dot D y y), nb_conn x).
Definition tup (y : V) (ix : nat * NB) : Z * Z * Z * Z :=
  (bin_of D C (dot D (nb_vec (snd ix)) y) (dot D (nb_vec (snd ix)) (nb_vec (snd ix))) (dot D y y),
   nb_conn (snd ix), nb_ident (snd ix), Z.of_nat (fst ix)).
Definition cmask (yind : option nat) (ix : nat * NB) : bool :=
  negb (feqb D (dot D (nb_vec (snd ix)) (nb_vec (snd ix))) (f0 D)) && negb (opt_nat_eqb yind (fst ix)).

Lemma pick_z_unfold ns y yind :
  pick_z D C ns y yind =
  let cand := sort_by lex4_leb (flat_map (fun ix => if cmask yind ix then [tup y ix] else []) (indexed ns)) in
  match first_unique key2_eqb (map proj4 cand) with
  | Some j => match nth_error cand j with Some (_, _, _, i) => Some (Z.to_nat i) | None => None end
  | None => None
  end.
Proof. reflexivity. Qed.

(* the selected z vector: the vector of THE element whose (angle bin, bond) is least among those of multiplicity one
   among the eligible elements; None when there is no such element *)
Definition zspec (E : list NB) (y : V) (r : option V) : Prop :=
  match r with
  | Some v => exists x, In x E /\ v = nb_vec x /\ kmin_unique key2_eqb key2_leb (map (kz y) E) (kz y x)
  | None => no_unique key2_eqb (map (kz y) E)
  end.

Lemma zspec_det E E' y r r' : Permutation E E' -> zspec E y r -> zspec E' y r' -> r = r'.
Proof.
  intros HP H H'.
  assert (HPk : Permutation (map (kz y) E) (map (kz y) E')) by (apply Permutation_map; exact HP).
  destruct r as [v|], r' as [v'|]; simpl in *.
  - destruct H as (x & Hx & -> & Hm). destruct H' as (x' & Hx' & -> & Hm').
    apply (kmin_unique_perm _ _ _ _ _ _ (Permutation_sym HPk)) in Hm'.
    assert (Ek : kz y x = kz y x') by (eapply kmin_unique_fun; [exact key2_antisym|exact Hm|exact Hm']).
    f_equal. f_equal.
    apply (cnt1_elem_unique _ key2_eqb key2_eqb_eq _ (kz y) (kz y x) E).
    + apply Hm.
    + exact Hx.
    + eapply Permutation_in; [symmetry; exact HP|exact Hx'].
    + reflexivity.
    + symmetry; exact Ek.
  - exfalso. destruct H as (x & _ & _ & Hm). eapply kmin_no_unique; [|exact H'].
    eapply kmin_unique_perm; [exact HPk|exact Hm].
  - exfalso. destruct H' as (x & _ & _ & Hm). eapply kmin_no_unique; [|exact H].
    eapply kmin_unique_perm; [symmetry; exact HPk|exact Hm].
  - reflexivity.
Qed.

Lemma pick_z_spec ns y yind isy :
  ymask ns yind isy -> zspec (filter (okf isy) ns) y (zvec ns y yind).
Proof.
  intro Hm. unfold zvec. rewrite pick_z_unfold.
  set (IX := filter (fun ix : nat * NB => okf isy (snd ix)) (indexed ns)).
  assert (HT : flat_map (fun ix => if cmask yind ix then [tup y ix] else []) (indexed ns) = map (tup y) IX).
  { apply flat_map_if_in. intros [i x] Hin. apply in_indexed in Hin. unfold cmask, okf. simpl.
    rewrite (Hm i x Hin). reflexivity. }
  rewrite HT. cbv zeta.
  set (cand := sort_by lex4_leb (map (tup y) IX)).
  set (E := filter (okf isy) ns).
  assert (HP : Permutation cand (map (tup y) IX)) by apply sort_by_perm.
  assert (HS : lsorted key2_leb (map proj4 cand)).
  { apply lsorted_map. eapply lsorted_weaken; [|apply sort_by_sorted; [exact lex4_total|exact lex4_trans]].
    exact lex4_proj. }
  assert (HK : map proj4 (map (tup y) IX) = map (kz y) E).
  { transitivity (map (kz y) (map snd IX)).
    - rewrite !map_map. apply map_ext. intros [i x]; reflexivity.
    - f_equal. unfold IX, E. rewrite filter_map_snd, map_snd_indexed. reflexivity. }
  assert (HPK : Permutation (map proj4 cand) (map (kz y) E)).
  { rewrite <- HK. apply Permutation_map, HP. }
  destruct (first_unique key2_eqb (map proj4 cand)) as [j|] eqn:FU.
  - destruct (first_unique_sorted _ key2_eqb key2_leb key2_refl _ _ HS FU) as (k & Hk & Hmin).
    rewrite nth_error_map in Hk. destruct (nth_error cand j) as [t|] eqn:Et; [|discriminate].
    simpl in Hk. inversion Hk; subst k; clear Hk.
    assert (Hin : In t (map (tup y) IX)).
    { eapply Permutation_in; [exact HP|]. eapply nth_error_In; exact Et. }
    apply in_map_iff in Hin. destruct Hin as ([i x] & <- & Hix).
    apply filter_In in Hix. destruct Hix as [Hix Hok]. simpl in Hok. apply in_indexed in Hix.
    unfold tup; simpl. rewrite Nat2Z.id. unfold nth_vec. rewrite Hix.
    exists x. split; [apply filter_In; split; [eapply nth_error_In; exact Hix|exact Hok]|].
    split; [reflexivity|]. eapply kmin_unique_perm; [exact HPK|exact Hmin].
  - simpl. eapply no_unique_perm; [exact HPK|]. apply first_unique_none. exact FU.
Qed.

Lemma pick_z_perm ns ns' y yind yind' isy :
  Permutation ns ns' -> ymask ns yind isy -> ymask ns' yind' isy ->
  option_map (nth_vec D ns) (pick_z D C ns y yind) = option_map (nth_vec D ns') (pick_z D C ns' y yind').
Proof.
  intros HP Hm Hm'. eapply (zspec_det (filter (okf isy) ns) (filter (okf isy) ns') y).
  - apply perm_filter. exact HP.
  - apply pick_z_spec. exact Hm.
  - apply pick_z_spec. exact Hm'.
Qed.

(* -- pick_y ------------------------------------------------------------------------------------------------------ *)
Lemma key_sorted_keys ns : key_sorted ns -> lsorted key2_leb (map (nb_key D) ns).
Proof. apply lsorted_map. Qed.

Lemma pick_y_unique ns i :
  key_sorted ns -> first_unique key2_eqb (map (nb_key D) ns) = Some i ->
  exists x0, nth_error ns i = Some x0 /\
             kmin_unique key2_eqb key2_leb (map (nb_key D) ns) (nb_key D x0) /\
             pick_y D C unit2 ns = Some (nb_vec x0, Some i).
Proof.
  intros HS FU.
  destruct (first_unique_sorted _ key2_eqb key2_leb key2_refl _ _ (key_sorted_keys _ HS) FU) as (k & Hk & Hm).
  rewrite nth_error_map in Hk. destruct (nth_error ns i) as [x0|] eqn:E; [|discriminate].
  simpl in Hk. inversion Hk; subst k; clear Hk. exists x0. split; [reflexivity|]. split; [exact Hm|].
  unfold pick_y. rewrite FU. unfold nth_vec. rewrite E. reflexivity.
Qed.

Lemma ymask_unique ns i x0 :
  nth_error ns i = Some x0 -> count_key _ key2_eqb (nb_key D x0) (map (nb_key D) ns) = 1%nat ->
  ymask ns (Some i) (fun x => key2_eqb (nb_key D x) (nb_key D x0)).
Proof.
  intros Hi Hc j x Hj. simpl. destruct (Nat.eqb_spec j i) as [->|N].
  - rewrite Hi in Hj. inversion Hj; subst. symmetry. apply key2_eqb_refl.
  - symmetry. destruct (key2_eqb (nb_key D x) (nb_key D x0)) eqn:E; [|reflexivity].
    exfalso. apply N. apply key2_eqb_eq in E.
    eapply (cnt1_pos_unique _ key2_eqb key2_eqb_eq _ (nb_key D) (nb_key D x0) ns Hc); eauto.
Qed.

Lemma ymask_none ns : ymask ns None (fun _ => false).
Proof. intros i x _. reflexivity. Qed.

Definition two_identical (ns : list NB) : Prop :=
  length ns = 2%nat /\ first_unique key2_eqb (map (nb_key D) ns) = None.

(* outside the two-identical case both orders choose the SAME y vector, and the y atom (if any) is the same element *)
Lemma pick_y_perm ns ns' :
  Permutation ns ns' -> key_sorted ns -> key_sorted ns' -> ~ two_identical ns ->
  (pick_y D C unit2 ns = None /\ pick_y D C unit2 ns' = None) \/
  exists y yind yind' isy,
    pick_y D C unit2 ns = Some (y, yind) /\ pick_y D C unit2 ns' = Some (y, yind') /\
    ymask ns yind isy /\ ymask ns' yind' isy.
Proof.
  intros HP HS HS' Hnot. unfold two_identical in Hnot.
  assert (HPk : Permutation (map (nb_key D) ns) (map (nb_key D) ns')) by (apply Permutation_map; exact HP).
  destruct (first_unique key2_eqb (map (nb_key D) ns)) as [i|] eqn:FU.
  - destruct (pick_y_unique ns i HS FU) as (x0 & Hi & Hm & Hy).
    destruct (first_unique key2_eqb (map (nb_key D) ns')) as [i'|] eqn:FU'.
    + destruct (pick_y_unique ns' i' HS' FU') as (x0' & Hi' & Hm' & Hy').
      pose proof (kmin_unique_perm _ _ _ _ _ _ HPk Hm) as Hm2.
      assert (Ek : nb_key D x0 = nb_key D x0') by (eapply kmin_unique_fun; [exact key2_antisym|exact Hm2|exact Hm']).
      assert (x0 = x0').
      { apply (cnt1_elem_unique _ key2_eqb key2_eqb_eq _ (nb_key D) (nb_key D x0) ns').
        - apply Hm2.
        - eapply Permutation_in; [exact HP|]. eapply nth_error_In; exact Hi.
        - eapply nth_error_In; exact Hi'.
        - reflexivity.
        - symmetry; exact Ek. }
      subst x0'. right.
      exists (nb_vec x0), (Some i), (Some i'), (fun x => key2_eqb (nb_key D x) (nb_key D x0)).
      split; [exact Hy|]. split; [exact Hy'|].
      split; apply ymask_unique; try assumption; [apply Hm|apply Hm'].
    + exfalso. eapply kmin_no_unique; [|apply first_unique_none; exact FU'].
      eapply kmin_unique_perm; [exact HPk|exact Hm].
  - destruct (first_unique key2_eqb (map (nb_key D) ns')) as [i'|] eqn:FU'.
    { exfalso. destruct (pick_y_unique ns' i' HS' FU') as (x0' & Hi' & Hm' & Hy').
      eapply kmin_no_unique; [|apply first_unique_none; exact FU].
      eapply kmin_unique_perm; [symmetry; exact HPk|exact Hm']. }
    unfold pick_y. rewrite FU, FU'. rewrite <- (Permutation_length HP).
    destruct (Nat.eqb (length ns) 2) eqn:E2.
    { exfalso. apply Hnot. split; [apply Nat.eqb_eq; exact E2|reflexivity]. }
    rewrite <- (vsum_perm D L (map nb_vec ns) (map nb_vec ns')) by (apply Permutation_map; exact HP).
    cbv zeta.
    destruct (fleb D _ _).
    + right. exists (vsum D (map nb_vec ns)), None, None, (fun _ => false).
      split; [reflexivity|]. split; [reflexivity|]. split; apply ymask_none.
    + left. split; reflexivity.
Qed.

Lemma codes_perm_generic ns ns' :
  Permutation ns ns' -> key_sorted ns -> key_sorted ns' -> ~ two_identical ns ->
  Permutation (coded ns) (coded ns').
Proof.
  intros HP HS HS' Hnot.
  destruct (pick_y_perm ns ns' HP HS HS' Hnot) as [[Hy Hy']|(y & yind & yind' & isy & Hy & Hy' & Hm & Hm')].
  - assert (H : forall l, pick_y D C unit2 l = None -> coded l = map (fun x => (nb_conn x, nb_ident x, 0)) l).
    { intros l Hl. apply (coded_map (fun _ => 0)). rewrite codes_unfold, Hl. reflexivity. }
    rewrite (H ns Hy), (H ns' Hy'). apply Permutation_map. exact HP.
  - pose proof (codes_posfree ns y yind isy Hy Hm) as Hc.
    pose proof (codes_posfree ns' y yind' isy Hy' Hm') as Hc'.
    unfold zvec in Hc'. rewrite <- (pick_z_perm ns ns' y yind yind' isy HP Hm Hm') in Hc'. fold (zvec ns y yind) in Hc'.
    rewrite (coded_map _ ns Hc), (coded_map _ ns' Hc'). apply Permutation_map. exact HP.
Qed.

(* -- exactly two neighbours with equal keys ----------------------------------------------------------------------- *)
Lemma fu_two (k : Z * Z) : first_unique key2_eqb [k; k] = None.
Proof.
  unfold first_unique, first_unique_from, count_key, filter. rewrite !key2_eqb_refl. reflexivity.
Qed.

Lemma fu_one (k : Z * Z) : first_unique key2_eqb [k] = Some 0%nat.
Proof.
  unfold first_unique, first_unique_from, count_key, filter. rewrite !key2_eqb_refl. reflexivity.
Qed.

Lemma pick_y_two x0 x1 :
  nb_key D x0 = nb_key D x1 -> pick_y D C unit2 [x0; x1] = Some (nb_vec x0, Some 0%nat).
Proof.
  intro Hk. unfold pick_y. cbn [map]. rewrite <- Hk, fu_two. reflexivity.
Qed.

Lemma pick_z_two x0 x1 :
  feqb D (dot D (nb_vec x1) (nb_vec x1)) (f0 D) = false ->
  pick_z D C [x0; x1] (nb_vec x0) (Some 0%nat) = Some 1%nat.
Proof.
  intro H1. rewrite pick_z_unfold. unfold indexed. cbn [length seq combine flat_map].
  unfold cmask. cbn [fst snd opt_nat_eqb Nat.eqb]. rewrite H1. cbn [negb andb app].
  rewrite andb_false_r. cbn [app sort_by fold_right insert_by map].
  rewrite fu_one. reflexivity.
Qed.

Lemma zv_dot (v0 v1 : V) :
  dot D v1 (zvof v0 (Some v1)) = dot D v0 v0 *' dot D v1 v1 -' dot D v1 v0 *' dot D v1 v0.
Proof. destruct v0, v1. unfold zvof, dot, vsub, vscl; simpl. ring. Qed.

Lemma zv_det (v0 v1 : V) : det3 D v0 (zvof v0 (Some v1)) v1 = f0 D.
Proof. destruct v0, v1. unfold zvof, det3, dot, vsub, vscl; simpl. ring. Qed.

Lemma code1_self zv isy x :
  feqb D (dot D (nb_vec x) (nb_vec x)) (f0 D) = false -> code1 (nb_vec x) zv isy x = 1.
Proof.
  intro H. pose proof (dot_self_pos D L _ H) as Hp. unfold code1. cbv zeta. rewrite H.
  set (p := dot D (nb_vec x) (nb_vec x)) in *.
  assert (Hpole : is_pole D C p p p = true).
  { unfold is_pole. rewrite H. cbn [negb andb]. apply (mul_lt_r D L).
    - apply (ol_ofZ_lt D L). apply HC.
    - apply (ol_mul_pos D L); exact Hp. }
  rewrite Hpole. unfold sign_of. rewrite (lt_le D L _ _ Hp). reflexivity.
Qed.

Lemma quad_sym (v0 v1 : V) :
  feqb D (dot D v0 v0) (f0 D) = false -> feqb D (dot D v1 v1) (f0 D) = false ->
  quad_of D v0 (zvof v0 (Some v1)) v1 (dot D v0 v0) = quad_of D v1 (zvof v1 (Some v0)) v0 (dot D v1 v1).
Proof.
  intros H0 H1. pose proof (dot_self_pos D L _ H0) as Hp. pose proof (dot_self_pos D L _ H1) as Hq.
  unfold quad_of. cbv zeta. rewrite !zv_det, !zv_dot. rewrite (dot_comm D L v0 v1).
  set (p := dot D v0 v0) in *. set (q := dot D v1 v1) in *. set (d := dot D v1 v0).
  replace (q *' p -' d *' d) with (p *' q -' d *' d) by ring.
  set (a := p *' q -' d *' d).
  rewrite (feqb_refl D L). rewrite !andb_true_r.
  destruct (feqb D a (f0 D)) eqn:Ea; [reflexivity|].
  assert (Ha : fltb D (f0 D) (a *' a) = true) by (apply (sq_pos D L), (feqb_false D L); exact Ea).
  replace (f0 D *' f0 D) with (f0 D) by ring.
  rewrite (ol_mul_pos D L _ _ Ha Hp), (ol_mul_pos D L _ _ Ha Hq). reflexivity.
Qed.

Lemma code1_sym x0 x1 :
  feqb D (dot D (nb_vec x0) (nb_vec x0)) (f0 D) = false ->
  feqb D (dot D (nb_vec x1) (nb_vec x1)) (f0 D) = false ->
  code1 (nb_vec x0) (Some (nb_vec x1)) false x1 = code1 (nb_vec x1) (Some (nb_vec x0)) false x0.
Proof.
  intros H0 H1. unfold code1. cbv zeta. rewrite H0, H1.
  rewrite (quad_sym _ _ H0 H1). rewrite (dot_comm D L (nb_vec x0) (nb_vec x1)).
  unfold is_pole. rewrite H0, H1.
  replace (dot D (nb_vec x0) (nb_vec x0) *' dot D (nb_vec x1) (nb_vec x1))
    with (dot D (nb_vec x1) (nb_vec x1) *' dot D (nb_vec x0) (nb_vec x0)) by ring.
  reflexivity.
Qed.

Lemma codes_two x0 x1 :
  nb_key D x0 = nb_key D x1 ->
  feqb D (dot D (nb_vec x0) (nb_vec x0)) (f0 D) = false ->
  feqb D (dot D (nb_vec x1) (nb_vec x1)) (f0 D) = false ->
  codes D C unit2 [x0; x1] = [1; code1 (nb_vec x0) (Some (nb_vec x1)) false x1].
Proof.
  intros Hk H0 H1. rewrite codes_unfold, (pick_y_two _ _ Hk). unfold zvec. rewrite (pick_z_two _ _ H1).
  unfold indexed. cbn [length seq combine map fst snd opt_nat_eqb Nat.eqb option_map].
  rewrite (code1_self _ _ _ H0). reflexivity.
Qed.

Theorem two_identical_symmetric x0 x1 :
  nb_key D x0 = nb_key D x1 ->
  feqb D (dot D (nb_vec x0) (nb_vec x0)) (f0 D) = false ->
  feqb D (dot D (nb_vec x1) (nb_vec x1)) (f0 D) = false ->
  Permutation (coded [x0; x1]) (coded [x1; x0]).
Proof.
  intros Hk H0 H1. unfold coded.
  rewrite (codes_two x0 x1 Hk H0 H1), (codes_two x1 x0 (eq_sym Hk) H1 H0), (code1_sym x0 x1 H0 H1).
  cbn [combine map fst snd]. unfold nb_key in Hk. inversion Hk as [[Hc Hi]]. rewrite Hc, Hi. reflexivity.
Qed.

(* the nonzero hypothesis is only used when there are exactly two neighbours, with equal keys *)
Theorem codes_perm_strong ns ns' :
  Permutation ns ns' -> key_sorted ns -> key_sorted ns' -> (two_identical ns -> nonzero ns) ->
  Permutation (coded ns) (coded ns').
Proof.
  intros HP HS HS' HN0.
  assert (Hdec : two_identical ns \/ ~ two_identical ns).
  { unfold two_identical. destruct (Nat.eq_dec (length ns) 2) as [E|N]; [|right; tauto].
    destruct (first_unique key2_eqb (map (nb_key D) ns)); [right; intros [_ H]; discriminate|left; tauto]. }
  destruct Hdec as [Hti|Hnot]; [|apply codes_perm_generic; assumption].
  pose proof (HN0 Hti) as HN. destruct Hti as [E2 FU].
  destruct ns as [|x0 [|x1 [|? ?]]]; try discriminate E2. clear E2.
  assert (Hk : nb_key D x0 = nb_key D x1).
  { apply first_unique_none in FU. specialize (FU (nb_key D x0) (or_introl eq_refl)).
    cbn [map] in FU. unfold count_key, filter in FU. rewrite key2_eqb_refl in FU.
    destruct (key2_eqb (nb_key D x0) (nb_key D x1)) eqn:E; [apply key2_eqb_eq; exact E|].
    exfalso. apply FU. reflexivity. }
  assert (H0 := HN x0 (or_introl eq_refl)). assert (H1 := HN x1 (or_intror (or_introl eq_refl))).
  apply Permutation_length_2_inv in HP. destruct HP as [->| ->]; [reflexivity|].
  apply two_identical_symmetric; assumption.
Qed.

Theorem codes_perm ns ns' :
  Permutation ns ns' -> key_sorted ns -> key_sorted ns' -> nonzero ns -> Permutation (coded ns) (coded ns').
Proof. intros HP HS HS' HN. apply codes_perm_strong; auto. Qed.
End Relabel.

(* ---- the nonzero hypothesis is necessary ----------------------------------------------------------------------- *)
(* a neighbour sitting on the centre atom (v0 = 0) next to an identical, properly placed one: listing the coincident
   neighbour first gives the codes {0, 2}, listing it second gives {1, 0} *)
Example codes_coincident_asymmetric : forall unit2 : F ZD,
  exists x0 x1 : nb ZD,
    nb_key ZD x0 = nb_key ZD x1 /\
    ~ Permutation (coded ZD e3fp_consts unit2 [x0; x1]) (coded ZD e3fp_consts unit2 [x1; x0]).
Proof.
  intro unit2.
  exists (mknb (D := ZD) 1 6 (mkvec (D := ZD) 0 0 0)), (mknb (D := ZD) 1 6 (mkvec (D := ZD) 1 0 0)).
  split; [reflexivity|]. intro HP.
  assert (E1 : coded ZD e3fp_consts unit2
                 [mknb (D := ZD) 1 6 (mkvec (D := ZD) 0 0 0); mknb (D := ZD) 1 6 (mkvec (D := ZD) 1 0 0)]
               = [(1, 6, 0); (1, 6, 2)]) by (vm_compute; reflexivity).
  assert (E2 : coded ZD e3fp_consts unit2
                 [mknb (D := ZD) 1 6 (mkvec (D := ZD) 1 0 0); mknb (D := ZD) 1 6 (mkvec (D := ZD) 0 0 0)]
               = [(1, 6, 1); (1, 6, 0)]) by (vm_compute; reflexivity).
  rewrite E1, E2 in HP.
  assert (Hin : In (1, 6, 2) [(1, 6, 1); (1, 6, 0)]).
  { eapply Permutation_in; [exact HP|]. right. left. reflexivity. }
  destruct Hin as [H|[H|[]]]; discriminate H.
Qed.

(* the instance exists: the theorem is not vacuous *)
Corollary codes_perm_ZD unit2 ns ns' :
  Permutation ns ns' -> key_sorted ZD ns -> key_sorted ZD ns' -> nonzero ZD ns ->
  Permutation (coded ZD e3fp_consts unit2 ns) (coded ZD e3fp_consts unit2 ns').
Proof. apply codes_perm; [exact ZD_ordlaws|exact e3fp_consts_cone_ok]. Qed.
