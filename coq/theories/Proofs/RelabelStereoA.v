(* C03 (independence of atom numbering) - part 2a: generic list facts used by RelabelStereo.v.

   - `indexed`, filter/flat_map/permutation plumbing;
   - counting keys (`count_key` of Model/Stereo.v) is permutation invariant; a key of multiplicity one denotes one
     position and one element;
   - `first_unique` on a weakly sorted key list returns the position of the MINIMUM among the keys of multiplicity one
     (`kmin_unique`), a position-free and permutation-invariant description; it returns None iff no key has
     multiplicity one (`no_unique`). *)
From Coq Require Import ZArith List Bool Lia Permutation Sorting.Sorted Arith.
From E3FP Require Import Base.Prelude Model.Geometry Model.Stereo Proofs.RelabelSort.
Import ListNotations.
Local Open Scope nat_scope.

(* ---- plumbing -------------------------------------------------------------------------------------------------- *)
Section ListFacts.
Variables A B : Type.

Lemma perm_filter (p : A -> bool) l l' : Permutation l l' -> Permutation (filter p l) (filter p l').
Proof.
  induction 1 as [|x l l' HP IH|x y l|l l' l'' _ IH1 _ IH2]; simpl.
  - constructor.
  - destruct (p x); [constructor|]; exact IH.
  - destruct (p x), (p y); try apply perm_swap; reflexivity.
  - etransitivity; eassumption.
Qed.

Lemma in_combine_seq (l : list A) : forall s i x,
  In (i, x) (combine (seq s (length l)) l) <-> exists n, i = s + n /\ nth_error l n = Some x.
Proof.
  induction l as [|a t IH]; intros s i x; simpl.
  - split; [tauto|]. intros (n & _ & H). destruct n; discriminate.
  - rewrite IH. split.
    + intros [H|(n & -> & Hn)].
      * inversion H; subst. exists 0. split; [lia|reflexivity].
      * exists (S n). split; [lia|exact Hn].
    + intros (n & -> & Hn). destruct n as [|n]; simpl in Hn.
      * left. inversion Hn. f_equal. lia.
      * right. exists n. split; [lia|exact Hn].
Qed.

Lemma in_indexed (l : list A) i x : In (i, x) (indexed l) <-> nth_error l i = Some x.
Proof.
  unfold indexed. rewrite in_combine_seq. split.
  - intros (n & -> & H). exact H.
  - intro H. exists i. split; [reflexivity|exact H].
Qed.

Lemma map_snd_combine_seq (l : list A) : forall s, map snd (combine (seq s (length l)) l) = l.
Proof. induction l as [|a t IH]; intro s; simpl; [reflexivity|]. rewrite IH. reflexivity. Qed.

Lemma map_snd_indexed (l : list A) : map snd (indexed l) = l.
Proof. apply map_snd_combine_seq. Qed.

Lemma map_indexed (f : A -> B) (l : list A) : map (fun ix => f (snd ix)) (indexed l) = map f l.
Proof. rewrite <- (map_snd_indexed l) at 2. rewrite map_map. reflexivity. Qed.

Lemma filter_map_snd (C : Type) (p : A -> bool) (l : list (C * A)) :
  map snd (filter (fun ix => p (snd ix)) l) = filter p (map snd l).
Proof.
  induction l as [|a t IH]; simpl; [reflexivity|].
  destruct (p (snd a)); simpl; rewrite IH; reflexivity.
Qed.

Lemma flat_map_if_in (c p : A -> bool) (g : A -> B) (l : list A) :
  (forall a, In a l -> c a = p a) ->
  flat_map (fun a => if c a then [g a] else []) l = map g (filter p l).
Proof.
  induction l as [|a t IH]; intro H; simpl; [reflexivity|].
  rewrite (H a (or_introl eq_refl)). rewrite IH by (intros; apply H; right; assumption).
  destruct (p a); reflexivity.
Qed.

Lemma combine_map_self (g : A -> B) (l : list A) : combine l (map g l) = map (fun x => (x, g x)) l.
Proof. induction l as [|a t IH]; simpl; [reflexivity|]. rewrite IH. reflexivity. Qed.

Lemma lsorted_map (leb : B -> B -> bool) (f : A -> B) (l : list A) :
  lsorted (fun a b => leb (f a) (f b)) l -> lsorted leb (map f l).
Proof.
  unfold lsorted. induction 1 as [|x t Ht IH Hall]; simpl; constructor; [exact IH|].
  rewrite Forall_forall in *. intros y Hy. apply in_map_iff in Hy. destruct Hy as (z & <- & Hz). auto.
Qed.

Lemma lsorted_weaken (leb leb' : A -> A -> bool) (l : list A) :
  (forall a b, leb a b = true -> leb' a b = true) -> lsorted leb l -> lsorted leb' l.
Proof.
  intro H. unfold lsorted. induction 1 as [|x t Ht IH Hall]; constructor; [exact IH|].
  rewrite Forall_forall in *. auto.
Qed.

Lemma lsorted_nth (leb : A -> A -> bool) (l : list A) :
  lsorted leb l -> forall m n a b, m < n -> nth_error l m = Some a -> nth_error l n = Some b -> leb a b = true.
Proof.
  unfold lsorted. induction 1 as [|x t Ht IH Hall]; intros m n a b Hmn Ha Hb.
  - destruct m; discriminate.
  - destruct n as [|n]; [lia|]. simpl in Hb. destruct m as [|m]; simpl in Ha.
    + inversion Ha; subst. rewrite Forall_forall in Hall. apply Hall. eapply nth_error_In; exact Hb.
    + eapply IH; [|exact Ha|exact Hb]. lia.
Qed.
End ListFacts.

Arguments perm_filter {A} p l l' _.
Arguments in_indexed {A} l i x.
Arguments map_snd_indexed {A} l.
Arguments map_indexed {A B} f l.
Arguments filter_map_snd {A C} p l.
Arguments flat_map_if_in {A B} c p g l _.
Arguments combine_map_self {A B} g l.
Arguments lsorted_map {A B} leb f l _.
Arguments lsorted_weaken {A} leb leb' l _ _.
Arguments lsorted_nth {A} leb l _ m n a b _ _ _.

(* ---- counting keys --------------------------------------------------------------------------------------------- *)
Section KeyCount.
Variable K : Type.
Variable keqb : K -> K -> bool.
Hypothesis keqb_eq : forall a b, keqb a b = true <-> a = b.

Notation cnt := (count_key K keqb).

Lemma keqb_refl k : keqb k k = true.
Proof. apply keqb_eq. reflexivity. Qed.

Lemma cnt_cons k a l : cnt k (a :: l) = (if keqb k a then 1 else 0) + cnt k l.
Proof. unfold count_key. simpl. destruct (keqb k a); reflexivity. Qed.

Lemma cnt_perm k l l' : Permutation l l' -> cnt k l = cnt k l'.
Proof. intro H. unfold count_key. apply Permutation_length. apply perm_filter. exact H. Qed.

Lemma cnt_in_pos k l : In k l -> 1 <= cnt k l.
Proof.
  induction l as [|a t IH]; intro H; [destruct H|]. rewrite cnt_cons. destruct H as [->|H].
  - rewrite keqb_refl. lia.
  - specialize (IH H). lia.
Qed.

(* minimum among the keys of multiplicity one / absence of such a key *)
Variable kleb : K -> K -> bool.
Hypothesis kleb_refl : forall a, kleb a a = true.
Hypothesis kleb_antisym : forall a b, kleb a b = true -> kleb b a = true -> a = b.

Definition kmin_unique (ks : list K) (k : K) : Prop :=
  In k ks /\ cnt k ks = 1 /\ forall k', In k' ks -> cnt k' ks = 1 -> kleb k k' = true.

Definition no_unique (ks : list K) : Prop := forall k, In k ks -> cnt k ks <> 1.

Lemma kmin_unique_perm ks ks' k : Permutation ks ks' -> kmin_unique ks k -> kmin_unique ks' k.
Proof.
  intros HP (Hin & Hc & Hmin). split; [|split].
  - eapply Permutation_in; eassumption.
  - rewrite <- (cnt_perm k _ _ HP). exact Hc.
  - intros k' Hin' Hc'. apply Hmin.
    + eapply Permutation_in; [symmetry; exact HP|exact Hin'].
    + rewrite (cnt_perm k' _ _ HP). exact Hc'.
Qed.

Lemma kmin_unique_fun ks k k' : kmin_unique ks k -> kmin_unique ks k' -> k = k'.
Proof.
  intros (Hin & Hc & Hmin) (Hin' & Hc' & Hmin'). apply kleb_antisym; [apply Hmin|apply Hmin']; assumption.
Qed.

Lemma no_unique_perm ks ks' : Permutation ks ks' -> no_unique ks -> no_unique ks'.
Proof.
  intros HP H k Hin. rewrite <- (cnt_perm k _ _ HP). apply H.
  eapply Permutation_in; [symmetry; exact HP|exact Hin].
Qed.

Lemma kmin_no_unique ks k : kmin_unique ks k -> no_unique ks -> False.
Proof. intros (Hin & Hc & _) H. exact (H k Hin Hc). Qed.

(* first_unique *)
Lemma fuf_some all : forall l i j, first_unique_from K keqb all l i = Some j ->
  exists n k, j = i + n /\ nth_error l n = Some k /\ cnt k all = 1 /\
              forall m k', m < n -> nth_error l m = Some k' -> cnt k' all <> 1.
Proof.
  induction l as [|a t IH]; intros i j H; simpl in H; [discriminate|].
  destruct (Nat.eqb (cnt a all) 1) eqn:E.
  - inversion H; subst. exists 0, a. split; [lia|]. split; [reflexivity|]. split; [apply Nat.eqb_eq; exact E|].
    intros m k' Hm. lia.
  - destruct (IH _ _ H) as (n & k & -> & Hn & Hc & Hbefore). exists (S n), k.
    split; [lia|]. split; [exact Hn|]. split; [exact Hc|].
    intros m k' Hm Hk'. destruct m as [|m]; simpl in Hk'.
    + inversion Hk'; subst. apply Nat.eqb_neq. exact E.
    + eapply Hbefore; [|exact Hk']. lia.
Qed.

Lemma fuf_none all : forall l i, first_unique_from K keqb all l i = None -> forall k, In k l -> cnt k all <> 1.
Proof.
  induction l as [|a t IH]; intros i H k Hin; [destruct Hin|]. simpl in H.
  destruct (Nat.eqb (cnt a all) 1) eqn:E; [discriminate|]. destruct Hin as [<-|Hin].
  - apply Nat.eqb_neq. exact E.
  - eapply IH; eassumption.
Qed.

Lemma first_unique_sorted ks j : lsorted kleb ks -> first_unique keqb ks = Some j ->
  exists k, nth_error ks j = Some k /\ kmin_unique ks k.
Proof.
  intros HS H. destruct (fuf_some _ _ _ _ H) as (n & k & -> & Hn & Hc & Hbefore). simpl.
  exists k. split; [exact Hn|]. split; [eapply nth_error_In; exact Hn|]. split; [exact Hc|].
  intros k' Hin' Hc'. destruct (In_nth_error _ _ Hin') as (m & Hm).
  destruct (lt_eq_lt_dec m n) as [[Hlt|Heq]|Hgt].
  - exfalso. exact (Hbefore m k' Hlt Hm Hc').
  - subst m. rewrite Hn in Hm. inversion Hm; subst. apply kleb_refl.
  - eapply lsorted_nth; [exact HS|exact Hgt|exact Hn|exact Hm].
Qed.

Lemma first_unique_none ks : first_unique keqb ks = None -> no_unique ks.
Proof. intros H k Hin. eapply fuf_none; eassumption. Qed.

(* a key of multiplicity one denotes one position, hence one element *)
Variable A : Type.
Variable key : A -> K.

Lemma cnt1_pos_unique k : forall l, cnt k (map key l) = 1 -> forall i j x x',
  nth_error l i = Some x -> nth_error l j = Some x' -> key x = k -> key x' = k -> i = j.
Proof.
  assert (Hpos : forall l n x, nth_error l n = Some x -> key x = k -> 1 <= cnt k (map key l)).
  { intros l n x Hn Hk. apply cnt_in_pos. rewrite <- Hk. apply in_map. eapply nth_error_In; exact Hn. }
  induction l as [|a t IH]; intros Hc i j x x' Hi Hj Hx Hx'; [destruct i; discriminate|].
  simpl in Hc. rewrite cnt_cons in Hc.
  destruct i as [|i], j as [|j]; simpl in Hi, Hj.
  - reflexivity.
  - inversion Hi; subst a. rewrite Hx, keqb_refl in Hc. specialize (Hpos _ _ _ Hj Hx'). lia.
  - inversion Hj; subst a. rewrite Hx', keqb_refl in Hc. specialize (Hpos _ _ _ Hi Hx). lia.
  - f_equal. destruct (keqb k (key a)).
    + specialize (Hpos _ _ _ Hi Hx). lia.
    + eapply IH; eauto.
Qed.

Lemma cnt1_elem_unique k l x x' :
  cnt k (map key l) = 1 -> In x l -> In x' l -> key x = k -> key x' = k -> x = x'.
Proof.
  intros Hc Hx Hx' Hk Hk'. destruct (In_nth_error _ _ Hx) as (i & Hi). destruct (In_nth_error _ _ Hx') as (j & Hj).
  assert (i = j) by (eapply cnt1_pos_unique; eauto). subst j. congruence.
Qed.
End KeyCount.

Arguments kmin_unique {K} keqb kleb ks k.
Arguments no_unique {K} keqb ks.
