(* C01, part 2: the stereo codes of a shell are unchanged when every neighbour vector is mapped by a proper
   orthogonal matrix.  The reference axis y and the scaled second axis Zv are covariant vectors (they go to M y, M Zv),
   every branch condition is a function of dot products (invariant for orth M) and of one triple product
   (invariant when det M = 1). *)
From Coq Require Import ZArith List Bool Ring.
From E3FP Require Import Model.Geometry Model.Stereo Proofs.GeomLaws.
Import ListNotations.
Open Scope Z_scope.

(* ---- list plumbing --------------------------------------------------------------------------- *)
Lemma combine_map_r : forall {A B B'} (f : B -> B') (l : list A) (l' : list B),
  combine l (map f l') = map (fun p => (fst p, f (snd p))) (combine l l').
Proof.
  induction l as [|a l IH]; intros [|b l']; cbn; try reflexivity. rewrite IH. reflexivity.
Qed.

Lemma combine_map_l : forall {A A' B} (f : A -> A') (l : list A) (l' : list B),
  combine (map f l) l' = map (fun p => (f (fst p), snd p)) (combine l l').
Proof.
  induction l as [|a l IH]; intros [|b l']; cbn; try reflexivity. rewrite IH. reflexivity.
Qed.

Lemma indexed_map : forall {A B} (f : A -> B) (l : list A),
  indexed (map f l) = map (fun ix => (fst ix, f (snd ix))) (indexed l).
Proof. intros. unfold indexed. rewrite map_length. apply combine_map_r. Qed.

Lemma flat_map_map : forall {A B C} (g : A -> B) (f : B -> list C) (l : list A),
  flat_map f (map g l) = flat_map (fun x => f (g x)) l.
Proof. induction l as [|a l IH]; cbn; [reflexivity|]. rewrite IH. reflexivity. Qed.

Lemma insert_by_map : forall {A B} (f : A -> B) (lebA : A -> A -> bool) (lebB : B -> B -> bool),
  (forall x y, lebB (f x) (f y) = lebA x y) ->
  forall x l, insert_by lebB (f x) (map f l) = map f (insert_by lebA x l).
Proof.
  intros A B f lebA lebB H x l. induction l as [|y l IH]; cbn; [reflexivity|].
  rewrite H. destruct (lebA x y); cbn; [reflexivity|]. rewrite IH. reflexivity.
Qed.

Lemma sort_by_map : forall {A B} (f : A -> B) (lebA : A -> A -> bool) (lebB : B -> B -> bool),
  (forall x y, lebB (f x) (f y) = lebA x y) ->
  forall l, sort_by lebB (map f l) = map f (sort_by lebA l).
Proof.
  intros A B f lebA lebB H l. unfold sort_by. induction l as [|x l IH]; cbn; [reflexivity|].
  rewrite IH. apply insert_by_map. exact H.
Qed.

(* ---- the codes --------------------------------------------------------------------------------- *)
Section StereoMotion.
Variable D : ringdict.
Hypothesis L : ringlaws D.
Variable C : sconsts.
Variable unit2 : F D.
Variable M : mat D.
Hypothesis HO : orth D M.

Definition mvnb (x : nb D) : nb D := mknb (nb_conn x) (nb_ident x) (mv D M (nb_vec x)).

Lemma nb_key_mvnb : forall x, nb_key D (mvnb x) = nb_key D x.
Proof. reflexivity. Qed.

Lemma map_key_mvnb : forall ns, map (nb_key D) (map mvnb ns) = map (nb_key D) ns.
Proof. intros. rewrite map_map. apply map_ext. intro; reflexivity. Qed.

Lemma map_vec_mvnb : forall ns, map nb_vec (map mvnb ns) = map (mv D M) (map nb_vec ns).
Proof. intros. rewrite !map_map. reflexivity. Qed.

Lemma nth_vec_mvnb : forall ns i, nth_vec D (map mvnb ns) i = mv D M (nth_vec D ns i).
Proof.
  intros. unfold nth_vec. rewrite nth_error_map. destruct (nth_error ns i); cbn; [reflexivity|].
  symmetry. apply mv_vzero. exact L.
Qed.

(* pick_y: the same index, the vector mapped by M (orth M only) *)
Lemma pick_y_mvnb : forall ns,
  pick_y D C unit2 (map mvnb ns) =
  match pick_y D C unit2 ns with Some (y, yind) => Some (mv D M y, yind) | None => None end.
Proof.
  intros. unfold pick_y. cbv zeta. rewrite map_key_mvnb, map_length.
  destruct (first_unique key2_eqb (map (nb_key D) ns)) as [i|].
  - rewrite nth_vec_mvnb. reflexivity.
  - destruct (Nat.eqb (length ns) 2).
    + rewrite nth_vec_mvnb. reflexivity.
    + rewrite map_vec_mvnb, <- (mv_vsum D L), (dot_mv D L) by exact HO.
      destruct (fleb D _ _); reflexivity.
Qed.

(* pick_z: the same index (orth M only) *)
Lemma pick_z_mvnb : forall ns y yind,
  pick_z D C (map mvnb ns) (mv D M y) yind = pick_z D C ns y yind.
Proof.
  intros. unfold pick_z. cbv zeta. rewrite indexed_map, flat_map_map.
  rewrite (flat_map_ext _
    (fun ix : nat * nb D =>
       if negb (feqb D (dot D (nb_vec (snd ix)) (nb_vec (snd ix))) (f0 D)) && negb (opt_nat_eqb yind (fst ix))
       then [(bin_of D C (dot D (nb_vec (snd ix)) y) (dot D (nb_vec (snd ix)) (nb_vec (snd ix))) (dot D y y),
              nb_conn (snd ix), nb_ident (snd ix), Z.of_nat (fst ix))] else [])).
  - reflexivity.
  - intros [i x]. cbn. rewrite !(dot_mv D L) by exact HO. reflexivity.
Qed.

(* the quadrant: needs det M = 1 *)
Lemma quad_of_mv : forall y Zv v yy, mdet D M = f1 D ->
  quad_of D (mv D M y) (mv D M Zv) (mv D M v) yy = quad_of D y Zv v yy.
Proof.
  intros. unfold quad_of. rewrite (dot_mv D L) by exact HO. rewrite (det3_mv_proper D L) by assumption. reflexivity.
Qed.

(* the scaled second axis is covariant *)
Lemma zvec_mv : forall (vm y : vec D),
  vsub D (vscl D (dot D (mv D M y) (mv D M y)) (mv D M vm)) (vscl D (dot D (mv D M vm) (mv D M y)) (mv D M y))
  = mv D M (vsub D (vscl D (dot D y y) vm) (vscl D (dot D vm y) y)).
Proof.
  intros. rewrite !(dot_mv D L) by exact HO. rewrite (mv_vsub D L), !(mv_vscl D L). reflexivity.
Qed.

Theorem codes_equivariant : mdet D M = f1 D ->
  forall ns, codes D C unit2 (map mvnb ns) = codes D C unit2 ns.
Proof.
  intros HD ns. unfold codes. rewrite pick_y_mvnb.
  destruct (pick_y D C unit2 ns) as [[y yind]|].
  - cbv zeta. rewrite pick_z_mvnb. rewrite indexed_map, map_map.
    destruct (pick_z D C ns y yind) as [m|].
    + apply map_ext. intros [i x]. cbn.
      rewrite nth_vec_mvnb, zvec_mv, quad_of_mv by exact HD.
      rewrite !(dot_mv D L) by exact HO. reflexivity.
    + apply map_ext. intros [i x]. cbn. rewrite !(dot_mv D L) by exact HO. reflexivity.
  - rewrite map_map. reflexivity.
Qed.

(* Without the determinant hypothesis everything up to the choice of the two axes is still invariant: an improper
   isometry can change the codes only through the sign of the triple product in `quad_of` (quadrants 3 and 5). *)
Theorem axes_isometry_invariant : forall ns,
  pick_y D C unit2 (map mvnb ns) =
    match pick_y D C unit2 ns with Some (y, yind) => Some (mv D M y, yind) | None => None end
  /\ forall y yind, pick_z D C (map mvnb ns) (mv D M y) yind = pick_z D C ns y yind.
Proof. intro ns. split; [apply pick_y_mvnb | apply pick_z_mvnb]. Qed.

(* codes never exceed the neighbour list: one code per neighbour, aligned *)
Lemma codes_length : forall ns, length (codes D C unit2 ns) = length ns.
Proof.
  intro ns. unfold codes. destruct (pick_y D C unit2 ns) as [[y yind]|]; cbv zeta; rewrite map_length.
  - unfold indexed. rewrite combine_length, seq_length. apply Nat.min_id.
  - reflexivity.
Qed.

End StereoMotion.
