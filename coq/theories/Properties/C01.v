(* C01 - fingerprints are invariant to rigid motion of the conformer.
   Statements only; proofs are in Proofs/GeomLaws.v, Proofs/StereoMotion.v, Proofs/E3FPMotion.v.
   Model: Model/Geometry.v, Model/Stereo.v, Model/E3FP.v (M1).

   Reading guide.  `D : ringdict` is the scalar arithmetic the model runs on; `ringlaws D` says its operations form a
   commutative ring and `feqb` decides equality (no law about the order `fleb` is needed).  `orth D M` is M^T M = I,
   `mdet D M` the determinant, `mv D M v` the product M v.  `move D M t m` is the molecule m with every atom position p
   replaced by M p + t and nothing else changed.  `run D C fuel o m` is Fingerprinter(options o).run on m: the complete
   final state (current level, every level's shells with identifier, centre, substructure), or the exception raised;
   a state contains no coordinates, so `=` below is plain equality of everything the fingerprinter exposes.
   `fp_of` / `shells_of` are get_fingerprint_at_level / get_shells_at_level applied to that run.
   The theorems are proved once for every law-abiding dictionary and then instantiated at `ZD` (the integers, the
   arithmetic that is executed and validated against the implementation) and at `RD` (Coq's real numbers). *)
From Coq Require Import ZArith List Bool QArith Reals.
From E3FP Require Import Base.Prelude Base.ZSet Model.Geometry Model.Stereo Model.Fprint Model.E3FP
  Gen.Constants Gen.AngleTable Proofs.GeomLaws Proofs.StereoMotion Proofs.E3FPMotion.
Import ListNotations.
Open Scope Z_scope.

(* ---------------------------------------------------------------------------------------------- *)
(* the algebra: an orthogonal matrix preserves dot products, scales triple products by its determinant, is linear *)

Theorem dot_mv : forall D, ringlaws D -> forall (M : mat D) (u v : vec D),
  orth D M -> dot D (mv D M u) (mv D M v) = dot D u v.
Proof. exact GeomLaws.dot_mv. Qed.
Print Assumptions dot_mv.

Theorem det3_mv : forall D, ringlaws D -> forall (M : mat D) (u v w : vec D),
  det3 D (mv D M u) (mv D M v) (mv D M w) = fmul D (mdet D M) (det3 D u v w).
Proof. exact GeomLaws.det3_mv. Qed.
Print Assumptions det3_mv.

Theorem mv_linear : forall D, ringlaws D -> forall (M : mat D),
  (forall u v, mv D M (vadd D u v) = vadd D (mv D M u) (mv D M v)) /\
  (forall u v, mv D M (vsub D u v) = vsub D (mv D M u) (mv D M v)) /\
  (forall a u, mv D M (vscl D a u) = vscl D a (mv D M u)) /\
  (forall l, mv D M (vsum D l) = vsum D (map (mv D M) l)) /\
  mv D M (vzero D) = vzero D.
Proof.
  exact (fun D L M => conj (mv_vadd D L M) (conj (mv_vsub D L M) (conj (mv_vscl D L M) (conj (mv_vsum D L M) (mv_vzero D L M))))).
Qed.
Print Assumptions mv_linear.

(* both dictionaries obey the laws *)
Theorem ZD_lawful : ringlaws ZD.
Proof. exact ZD_laws. Qed.
Print Assumptions ZD_lawful.

Theorem RD_lawful : ringlaws RD.
Proof. exact RD_laws. Qed.
Print Assumptions RD_lawful.

(* ---------------------------------------------------------------------------------------------- *)
(* stereo codes of one shell: unchanged when every neighbour vector is mapped by a proper orthogonal matrix *)

Theorem stereo_codes_equivariant : forall D, ringlaws D -> forall (C : sconsts) (unit2 : F D) (M : mat D),
  orth D M -> mdet D M = f1 D ->
  forall ns : list (nb D),
  codes D C unit2 (map (fun x => mknb (nb_conn x) (nb_ident x) (mv D M (nb_vec x))) ns) = codes D C unit2 ns.
Proof. exact codes_equivariant. Qed.
Print Assumptions stereo_codes_equivariant.

(* the two reference axes are chosen identically under every isometry, improper ones included *)
Theorem stereo_axes_isometry_invariant : forall D, ringlaws D -> forall (C : sconsts) (unit2 : F D) (M : mat D),
  orth D M -> forall ns : list (nb D),
  pick_y D C unit2 (map (mvnb D M) ns) =
    match pick_y D C unit2 ns with Some (y, yind) => Some (mv D M y, yind) | None => None end
  /\ forall y yind, pick_z D C (map (mvnb D M) ns) (mv D M y) yind = pick_z D C ns y yind.
Proof. exact axes_isometry_invariant. Qed.
Print Assumptions stereo_axes_isometry_invariant.

(* ---------------------------------------------------------------------------------------------- *)
(* the scene: moving the molecule maps every link vector by M; squared distances, bond codes, atoms, level-0
   identifiers, the length unit and the exceptions are equal (any isometry, any translation) *)

Theorem scene_of_move : forall D, ringlaws D -> forall (M : mat D) (t : vec D), orth D M ->
  forall (o : opts) (m : mol D),
  scene_of D o (move D M t m) =
  match scene_of D o m with Ok sc => Ok (mvscene D M sc) | Raises e => Raises e end.
Proof. exact E3FPMotion.scene_of_move. Qed.
Print Assumptions scene_of_move.

(* neighbour sets at every radius are the same atoms (they depend on squared distances only) *)
Theorem neighbours_invariant : forall D (M : mat D) (o : opts) (sc : scene D) (k a : Z),
  nbrs D o (mvscene D M sc) k a = map (mvlink D M) (nbrs D o sc k a).
Proof. exact nbrs_mv. Qed.
Print Assumptions neighbours_invariant.

(* ---------------------------------------------------------------------------------------------- *)
(* the headline theorems, for every law-abiding dictionary *)

(* proper rigid motions: every option setting, every fuel *)
Theorem fp_rigid_invariant : forall D, ringlaws D -> forall (C : sconsts) (M : mat D) (t : vec D),
  orth D M -> mdet D M = f1 D ->
  forall (fuel : nat) (o : opts) (m : mol D), run D C fuel o (move D M t m) = run D C fuel o m.
Proof. exact E3FPMotion.fp_rigid_invariant. Qed.
Print Assumptions fp_rigid_invariant.

(* every isometry (mirror reflections included) when stereo is off *)
Theorem fp_isometry_invariant_nostereo : forall D, ringlaws D -> forall (C : sconsts) (M : mat D) (t : vec D),
  orth D M ->
  forall (fuel : nat) (o : opts) (m : mol D), o_stereo o = false ->
  run D C fuel o (move D M t m) = run D C fuel o m.
Proof. exact E3FPMotion.fp_isometry_invariant_nostereo. Qed.
Print Assumptions fp_isometry_invariant_nostereo.

(* hence every fingerprint and every shell list that can be requested: any level request, fold size, bits or counts,
   atom mask *)
Theorem fingerprint_rigid_invariant : forall D, ringlaws D -> forall (C : sconsts) (M : mat D) (t : vec D),
  orth D M -> mdet D M = f1 D ->
  forall fuel o (m : mol D) counts bits req mask,
  fp_of D C fuel o (move D M t m) counts bits req mask = fp_of D C fuel o m counts bits req mask
  /\ shells_of D C fuel o (move D M t m) req mask = shells_of D C fuel o m req mask.
Proof. exact E3FPMotion.fingerprint_rigid_invariant. Qed.
Print Assumptions fingerprint_rigid_invariant.

Theorem fingerprint_isometry_invariant_nostereo : forall D, ringlaws D -> forall (C : sconsts) (M : mat D) (t : vec D),
  orth D M ->
  forall fuel o (m : mol D) counts bits req mask, o_stereo o = false ->
  fp_of D C fuel o (move D M t m) counts bits req mask = fp_of D C fuel o m counts bits req mask
  /\ shells_of D C fuel o (move D M t m) req mask = shells_of D C fuel o m req mask.
Proof. exact E3FPMotion.fingerprint_isometry_invariant_nostereo. Qed.
Print Assumptions fingerprint_isometry_invariant_nostereo.

(* ---------------------------------------------------------------------------------------------- *)
(* instance: the integers - the arithmetic of the executed, implementation-validated model, with its constants *)

Theorem fp_rigid_invariant_Z : forall (M : mat ZD) (t : vec ZD), orth ZD M -> mdet ZD M = 1 ->
  forall (fuel : nat) (o : opts) (m : mol ZD),
  run ZD e3fp_consts fuel o (move ZD M t m) = run ZD e3fp_consts fuel o m.
Proof. exact (E3FPMotion.fp_rigid_invariant ZD ZD_laws e3fp_consts). Qed.
Print Assumptions fp_rigid_invariant_Z.

Theorem fp_isometry_invariant_nostereo_Z : forall (M : mat ZD) (t : vec ZD), orth ZD M ->
  forall (fuel : nat) (o : opts) (m : mol ZD), o_stereo o = false ->
  run ZD e3fp_consts fuel o (move ZD M t m) = run ZD e3fp_consts fuel o m.
Proof. exact (E3FPMotion.fp_isometry_invariant_nostereo ZD ZD_laws e3fp_consts). Qed.
Print Assumptions fp_isometry_invariant_nostereo_Z.

(* instance: the real numbers - all of SE(3) / E(3) *)

Theorem fp_rigid_invariant_R : forall (C : sconsts) (M : mat RD) (t : vec RD), orth RD M -> mdet RD M = 1%R ->
  forall (fuel : nat) (o : opts) (m : mol RD), run RD C fuel o (move RD M t m) = run RD C fuel o m.
Proof. exact (E3FPMotion.fp_rigid_invariant RD RD_laws). Qed.
Print Assumptions fp_rigid_invariant_R.

Theorem fp_isometry_invariant_nostereo_R : forall (C : sconsts) (M : mat RD) (t : vec RD), orth RD M ->
  forall (fuel : nat) (o : opts) (m : mol RD), o_stereo o = false ->
  run RD C fuel o (move RD M t m) = run RD C fuel o m.
Proof. exact (E3FPMotion.fp_isometry_invariant_nostereo RD RD_laws). Qed.
Print Assumptions fp_isometry_invariant_nostereo_R.

Theorem fingerprint_rigid_invariant_R : forall (C : sconsts) (M : mat RD) (t : vec RD), orth RD M -> mdet RD M = 1%R ->
  forall fuel o (m : mol RD) counts bits req mask,
  fp_of RD C fuel o (move RD M t m) counts bits req mask = fp_of RD C fuel o m counts bits req mask
  /\ shells_of RD C fuel o (move RD M t m) req mask = shells_of RD C fuel o m req mask.
Proof. exact (E3FPMotion.fingerprint_rigid_invariant RD RD_laws). Qed.
Print Assumptions fingerprint_rigid_invariant_R.

(* ---------------------------------------------------------------------------------------------- *)
(* non-vacuity *)

(* orthogonal matrices exist in both instances, proper and improper, axis-aligned and tilted *)
Example orth_Z_rotation : orth ZD rotZperm /\ orth_rows ZD rotZperm /\ mdet ZD rotZperm = 1.
Proof. exact rotZperm_orth. Qed.
Example orth_Z_quarter_turn : orth ZD rotZ90 /\ orth_rows ZD rotZ90 /\ mdet ZD rotZ90 = 1.
Proof. exact rotZ90_orth. Qed.
Example orth_Z_reflection : orth ZD reflZ /\ orth_rows ZD reflZ /\ mdet ZD reflZ = -1.
Proof. exact reflZ_orth. Qed.
Example orth_R_rotation_345 : orth RD rot345 /\ orth_rows RD rot345 /\ mdet RD rot345 = 1%R.
Proof. exact rot345_orth. Qed.
Example orth_R_rotation_122 : orth RD rot122 /\ orth_rows RD rot122 /\ mdet RD rot122 = 1%R.
Proof. exact rot122_orth. Qed.
Example orth_R_reflection_122 : orth RD refl122 /\ orth_rows RD refl122 /\ mdet RD refl122 = (-(1))%R.
Proof. exact refl122_orth. Qed.

(* a chiral five-atom molecule on which the stereo branch with a unique y and a unique z axis is taken: all of the
   quadrant codes occur; the run succeeds *)
Example stereo_branch_taken : codes ZD e3fp_consts 1000000 ex_ns = [1; -2; -5; -3].
Proof. exact ex_codes. Qed.
Example stereo_branch_rotated : codes ZD e3fp_consts 1000000 (map (mvnb ZD rotZperm) ex_ns) = [1; -2; -5; -3].
Proof. exact ex_codes_rot. Qed.
Example run_succeeds : is_ok (run ZD e3fp_consts 50 ex_opts ex_mol) = true
                    /\ is_ok (run ZD e3fp_consts 50 ex_opts_nostereo ex_mol) = true.
Proof. exact ex_run_ok. Qed.

(* the determinant hypothesis cannot be dropped: a mirror image has other codes and, with stereo on, another fingerprint *)
Example reflection_changes_codes : codes ZD e3fp_consts 1000000 (map (mvnb ZD reflZ) ex_ns) = [1; -2; -3; -5].
Proof. exact ex_codes_refl. Qed.
Example reflection_changes_stereo_fp :
  orth ZD reflZ /\ run ZD e3fp_consts 50 ex_opts (move ZD reflZ ex_t ex_mol) <> run ZD e3fp_consts 50 ex_opts ex_mol.
Proof. exact ex_reflection_changes_stereo_fp. Qed.

(* ============ an executable, axiom-free dictionary with general rotations: the canonical rationals Qc ============ *)
From Coq Require Import Qcanon.
From E3FP Require Import Proofs.GeomLawsQc.

Theorem QcD_lawful : ringlaws QcD.
Proof. exact QcD_laws. Qed.
Print Assumptions QcD_lawful.

Theorem fp_rigid_invariant_Qc : forall C fuel o (M : mat QcD) t m,
  orth QcD M -> mdet QcD M = f1 QcD -> run QcD C fuel o (move QcD M t m) = run QcD C fuel o m.
Proof. exact fp_rigid_invariant_Qc. Qed.
Print Assumptions fp_rigid_invariant_Qc.

(* a rotation that is not a signed permutation satisfies the hypotheses and the model EXECUTES on it (vm_compute) *)
Example rot122q_is_proper_rotation : orth QcD rot122q /\ mdet QcD rot122q = f1 QcD.
Proof. exact rot122q_orth. Qed.
Example rational_rotation_executes :
  state_sig (run QcD e3fp_consts 50 ex_opts (move QcD rot122q ex_tq ex_molq))
  = state_sig (run QcD e3fp_consts 50 ex_opts ex_molq)
  /\ exists k ids, state_sig (run QcD e3fp_consts 50 ex_opts ex_molq) = Ok (k, ids) /\ 1 <= k.
Proof. exact rational_rotation_executes. Qed.
Example reflection_changes_stereo_Qc :
  state_sig (run QcD e3fp_consts 50 ex_opts (move QcD refl122q ex_tq ex_molq))
  <> state_sig (run QcD e3fp_consts 50 ex_opts ex_molq).
Proof. exact reflection_changes_stereo_Qc. Qed.
