(* C02 - identifiers are exactly those of the published E3FP algorithm.  Statements only.
   The executable model Model/{Geometry,Stereo,E3FP}.v + Base/Murmur3.v IS the independent specification; the
   theorems below state the structural facts the property names.  (More statements are added as their proofs land.) *)
From E3FP Require Import Base.Prelude Base.Murmur3 Gen.Constants.
Open Scope Z_scope.

Theorem seed_is_published : mmh3_seed = 0.
Proof. reflexivity. Qed.
Print Assumptions seed_is_published.
