(* C02 - identifiers are exactly those of the published E3FP algorithm.  Statements only.
   The executable model Model/{Geometry,Stereo,E3FP}.v + Base/Murmur3.v IS the independent specification the property
   asks for (own MurmurHash3, own root-free geometry); it is compared with the implementation on every run.  The theorems
   below state the structural facts the property names: hashing and the signed->unsigned conversion, the published
   constants (regenerated from the source on every run), the angle thresholds certified against the real sine/cosine.
   Proofs: Proofs/HashFacts.v, Proofs/AngleTableCert.v.  Iteration/dedup/termination statements: see the second half. *)
From Coq Require Import QArith Reals Qreals.
From E3FP Require Import Base.Prelude Base.ZSet Base.Murmur3 Model.Geometry Model.Stereo Gen.Constants Gen.AngleTable Model.E3FP
  Proofs.HashFacts Proofs.AngleTableCert.
Open Scope Z_scope.

(* signed_to_unsigned_int on the int32 range: a 32-bit word, congruent to the input, inverse of the signed view, injective *)
Theorem signed_to_unsigned_spec :
  forall a, -two31 <= a < two31 ->
    0 <= unsigned32 a < two32 /\
    (unsigned32 a - a) mod two32 = 0 /\
    to_signed32 (unsigned32 a) = a /\
    forall b, -two31 <= b < two31 -> unsigned32 a = unsigned32 b -> a = b.
Proof. exact signed_to_unsigned_spec. Qed.
Print Assumptions signed_to_unsigned_spec.
Example signed_to_unsigned_nonvacuous : unsigned32 (-1) = 4294967295 /\ unsigned32 (-two31) = two31 /\ unsigned32 5 = 5.
Proof. vm_compute. repeat split. Qed.

(* hash_int64_array returns an int32 for every seed and array, so the conversion above applies to every identifier *)
Theorem hash_range : forall seed xs, -two31 <= hash_i64 seed xs < two31.
Proof. exact hash_range. Qed.
Print Assumptions hash_range.

Theorem unsigned_hash_injective : forall seed1 xs1 seed2 xs2,
  unsigned32 (hash_i64 seed1 xs1) = unsigned32 (hash_i64 seed2 xs2) -> hash_i64 seed1 xs1 = hash_i64 seed2 xs2.
Proof. exact unsigned_hash_injective. Qed.
Print Assumptions unsigned_hash_injective.

(* the hash reads the array through its little-endian 32-bit words only; entries count modulo 2^64, the seed modulo 2^32;
   conversely the words determine the array entries modulo 2^64 *)
Theorem hash_depends_on_words_only :
  forall seed xs ys, flat_map words_of_i64 xs = flat_map words_of_i64 ys -> hash_i64 seed xs = hash_i64 seed ys.
Proof. exact hash_depends_on_words_only. Qed.
Print Assumptions hash_depends_on_words_only.

Theorem hash_int64_wrap :
  forall seed seed' xs ys, seed mod two32 = seed' mod two32 ->
    Forall2 (fun x y => x mod two64 = y mod two64) xs ys -> hash_i64 seed xs = hash_i64 seed' ys.
Proof. exact hash_int64_wrap. Qed.
Print Assumptions hash_int64_wrap.
Example hash_int64_wrap_nonvacuous : hash_i64 0 [-1; 7] = hash_i64 two32 [two64 - 1; 7 + two64] /\ hash_i64 0 [-1; 7] <> hash_i64 0 [7; -1].
Proof. vm_compute. split; [reflexivity | discriminate]. Qed.

Theorem words_determine_array :
  forall xs ys, flat_map words_of_i64 xs = flat_map words_of_i64 ys -> Forall2 (fun x y => x mod two64 = y mod two64) xs ys.
Proof. exact words_determine_array. Qed.
Print Assumptions words_determine_array.

(* BOND_TYPES: None -> 5, SINGLE -> 1, DOUBLE -> 2, TRIPLE -> 3, AROMATIC -> 4, nothing else; distinct codes *)
Theorem bond_codes_published : forall t, lookup_bond t bond_types_table = bond_code_published t.
Proof. exact bond_codes_published. Qed.
Print Assumptions bond_codes_published.

Theorem bond_codes_injective :
  forall t1 t2 c, lookup_bond t1 bond_types_table = Some c -> lookup_bond t2 bond_types_table = Some c -> t1 = t2.
Proof. exact bond_codes_injective. Qed.
Print Assumptions bond_codes_injective.

(* the constants read from the source tree are the published ones (finite facts over Gen/Constants.v, Gen/AngleTable.v):
   `double_nearest p q y` = y is a binary64 number within half a unit in the last place of p/q *)
Theorem constants_are_published :
  mmh3_seed = 0 /\
  (forall t, lookup_bond t bond_types_table = bond_code_published t) /\ length bond_types_table = 5%nat /\
  double_nearest 1 10 y_axis_precision = true /\
  double_nearest 1 100 z_axis_precision = true /\
  polar_cone_is_pi_over_36 = true /\
  fprinter_bits = 2 ^ 32 /\
  ident_dtype_is_int64 = true /\
  bsize sin2_tree = 157 /\ bflatten sin2_tree = sin2_table /\ length sin2_table = 157%nat /\
  Forall (fun nd => snd nd = 2 ^ angle_den_bits /\ 0 < fst nd < snd nd) sin2_table /\
  ssorted (map fst sin2_table) /\
  snd cos2_cone = 2 ^ angle_den_bits /\ 0 < fst cos2_cone < snd cos2_cone /\
  fst yprec2 = Qnum y_axis_precision ^ 2 /\ snd yprec2 = Zpos (Qden y_axis_precision) ^ 2 /\
  e3fp_consts = mksconsts sin2_tree cos2_cone yprec2.
Proof. exact constants_are_published. Qed.
Print Assumptions constants_are_published.

(* the tree search of Stereo.bin_of counts the thresholds passed by a downward-closed test ("floor") *)
Theorem brank_count : forall test t,
  downclosed test (bflatten t) -> brank test t = Z.of_nat (length (filter test (bflatten t))).
Proof. exact brank_count. Qed.
Print Assumptions brank_count.

Theorem bin_of_is_count_Z : forall uy uu yy : Z,
  0 <= uu * yy ->
  bin_of ZD e3fp_consts uy uu yy =
  Z.of_nat (length (filter (fun nd => Z.leb (fst nd * (uu * yy)) (snd nd * (uy * uy))) sin2_table)).
Proof. exact bin_of_is_count_Z. Qed.
Print Assumptions bin_of_is_count_Z.
(* u = (1,1,0), y = (1,0,0): angle to the equatorial plane 45 degrees = 0.785 rad -> bin 78 *)
Example bin_of_nonvacuous : bin_of ZD e3fp_consts 1 2 1 = 78.
Proof. vm_compute. reflexivity. Qed.

(* the thresholds are those of the real sine and cosine (Interval; real-number axioms) *)
Theorem sin2_table_certified : Forall entry_ok (numbering sin2_table 1).
Proof. exact sin2_table_certified. Qed.
Print Assumptions sin2_table_certified.
Theorem sin2_table_entry : forall (k : nat) (n d : Z),
  nth_error sin2_table k = Some (n, d) ->
  (Rabs (IZR n / IZR d - (sin (IZR (Z.of_nat k + 1) * Q2R z_axis_precision)) ^ 2) <= / 2 ^ 48)%R.
Proof. exact sin2_table_entry. Qed.
Print Assumptions sin2_table_entry.
Theorem sin2_table_complete :
  (IZR (Z.of_nat (length sin2_table)) * Q2R z_axis_precision < PI / 2 < (IZR (Z.of_nat (length sin2_table)) + 1) * Q2R z_axis_precision)%R.
Proof. exact sin2_table_complete. Qed.
Print Assumptions sin2_table_complete.
Theorem cos2_cone_certified :
  (Rabs (IZR (fst cos2_cone) / IZR (snd cos2_cone) - (cos (PI / 36)) ^ 2) <= / 2 ^ 48)%R.
Proof. exact cos2_cone_certified. Qed.
Print Assumptions cos2_cone_certified.
Theorem polar_cone_certified : (Rabs (Q2R polar_cone_rad - PI / 36) <= / 2 ^ 57)%R.
Proof. exact polar_cone_certified. Qed.
Print Assumptions polar_cone_certified.

(* ============ second half: iteration structure, duplicate removal, stopping rules, termination ============ *)
(* C02 (fragment: the iteration-structure theorems) - to be merged into Properties/C02.v.
   Proofs: Proofs/E3FPDedup.v (dedup, sort, union, mask), Proofs/E3FPIterTerm.v (substructures, termination),
   Proofs/E3FPIterRun.v (stopping rules, concrete instance).
   Reading guide.  `sub_of l a` = the substructure (strictly increasing atom list) of atom a at level record l;
   `levels_wf D C sc o k levels` = `levels` is the model's level history after k iterations (level0, then
   `next_level` on top of it, most recent first) - every reachable state has such a history (`reachable_levels`).
   `shell_leb` = the order of Fingerprinter._shell_to_tuple, (identifier, centre atom).
   `dedup cands past` = the loop over `accepted_shells` filtering `past_substructs`; `dedup_ref past cands` = the
   sub-list of cands whose substructure is neither in `past` nor carried by an earlier candidate. *)
From E3FP Require Import Base.Prelude Base.ZSet Model.Geometry Model.Stereo Model.Fprint Model.E3FP
  Gen.Constants Gen.AngleTable Proofs.E3FPDedup Proofs.E3FPIter Proofs.E3FPIterTerm Proofs.E3FPIterRun Proofs.E3FPIterExp Proofs.GeomLaws Proofs.E3FPIterReal.



(* ---- substructures --------------------------------------------------------------------------------------------- *)
Theorem substruct_0 : forall D sc a, In a (sc_atoms D sc) -> sub_of (level0 D sc) a = [a].
Proof. exact substruct_0. Qed.
Print Assumptions substruct_0.

(* substruct (k) a = {a} U union of substruct (k-1) b over the neighbours b of a within k * multiplier *)
Theorem substruct_rec : forall D C sc o k prev rest a, In a (sc_atoms D sc) ->
  sub_of (next_level D C o sc k (prev :: rest)) a =
  usort (a :: flat_map (fun l => sub_of prev (lk_b D l)) (nbrs D o sc k a)).
Proof. exact substruct_rec. Qed.
Print Assumptions substruct_rec.
Example substruct_rec_nonvacuous : zmem 2 (sc_atoms ZD ex_scene) = true.
Proof. vm_compute. reflexivity. Qed.

(* every reachable state carries the model's level history, and every stored shell is the shell of a retained atom
   at one of those levels - its identifier is attributable to that atom's substructure at that level *)
Theorem reachable_levels : forall D C sc o fuel st,
  iterate D C o sc fuel (init_state D sc) = Some st ->
  levels_wf D C sc o (st_k st) (st_levels st) /\
  forall S s, In S (st_shells st) -> In s S ->
    exists l a, In l (st_levels st) /\ In a (sc_atoms D sc) /\ s = shell_of l a.
Proof. exact sinv_run. Qed.
Print Assumptions reachable_levels.
Example reachable_levels_nonvacuous : match ex_iter (-1) with Some st => st_k st =? 2 | None => false end = true.
Proof. vm_compute. reflexivity. Qed.

(* substructures only grow with the level, provided the neighbour test is monotone in the level from level 1 on
   (the iteration evaluates it at levels >= 1 only) ... *)
Theorem substruct_mono : forall D C sc o,
  (forall k l, 1 <= k -> near D o sc k l = true -> near D o sc (k + 1) l = true) ->
  forall k levels, levels_wf D C sc o k levels -> forall cur rest, levels = cur :: rest ->
  forall a, incl (sub_of cur a) (sub_of (next_level D C o sc (k + 1) levels) a).
Proof. exact substruct_mono. Qed.
Print Assumptions substruct_mono.
(* ... which holds over the integers whenever the squared length unit is not negative (a radius k * multiplier >= 0
   at some level k >= 1 forces multiplier >= 0; no sign premise on the multiplier is needed) *)
Theorem near_mono_ZD : forall (sc : scene ZD) o, 0 <= sc_unit2 ZD sc ->
  forall k l, 1 <= k -> near ZD o sc k l = true -> near ZD o sc (k + 1) l = true.
Proof. exact near_mono_ZD. Qed.
Print Assumptions near_mono_ZD.
Example near_mono_ZD_nonvacuous :
  (0 <=? sc_unit2 ZD ex_scene) = true /\
  existsb (near ZD (ex_opts (-1)) ex_scene 1) (links_of ZD ex_scene 0) = true.
Proof. vm_compute. split; reflexivity. Qed.

(* ---- duplicate removal ------------------------------------------------------------------------------------------ *)
Theorem dedup_spec : forall cands past acc past',
  dedup cands past = (acc, past') ->
  acc = dedup_ref past cands /\ past' = rev (map s_sub acc) ++ past.
Proof. exact dedup_spec. Qed.
Print Assumptions dedup_spec.

(* s is accepted iff it stands at a position of the candidate list before which no candidate carries its
   substructure, and its substructure is not in `past` *)
Theorem dedup_In : forall cands past acc past' s,
  dedup cands past = (acc, past') ->
  (In s acc <-> exists l1 l2, cands = l1 ++ s :: l2 /\ ~ In (s_sub s) past /\ forall x, In x l1 -> s_sub x <> s_sub s).
Proof. exact dedup_In. Qed.
Print Assumptions dedup_In.

Theorem accepted_substructs_distinct : forall cands past acc past',
  dedup cands past = (acc, past') ->
  NoDup (map s_sub acc) /\ forall s, In s acc -> ~ In (s_sub s) past.
Proof. exact accepted_substructs_distinct. Qed.
Print Assumptions accepted_substructs_distinct.

(* "duplicate substructures are dropped in identifier order": over the candidates sorted by (identifier, centre),
   of all candidates sharing a substructure not yet seen exactly one is accepted, and it is least in that order *)
Theorem dedup_keeps_min : forall l past acc past',
  dedup (sort_by shell_leb l) past = (acc, past') ->
  (forall s x, In s acc -> In x l -> s_sub x = s_sub s -> shell_leb s x = true) /\
  (forall x, In x l -> ~ In (s_sub x) past -> exists s, In s acc /\ s_sub s = s_sub x) /\
  (forall s s', In s acc -> In s' acc -> s_sub s = s_sub s' -> s = s') /\
  NoDup (map s_sub acc).
Proof. exact dedup_keeps_min. Qed.
Print Assumptions dedup_keeps_min.
(* three candidates, two sharing the unseen substructure [0;1;2]: the one with the smaller identifier is kept;
   the candidate whose substructure [3] is in `past` is dropped *)
Example dedup_nonvacuous :
  dedup (sort_by shell_leb [mkshell 2 1 50 [0; 1; 2]; mkshell 1 1 40 [0; 1; 2]; mkshell 3 1 10 [3]]) [[3]; [0]]
  = ([mkshell 1 1 40 [0; 1; 2]], [[0; 1; 2]; [3]; [0]]).
Proof. vm_compute. reflexivity. Qed.

Theorem sort_by_sorts : forall l, Sorted.StronglySorted (fun x y => shell_leb x y = true) (sort_by shell_leb l).
Proof. exact (sort_by_sorted shell shell_leb shell_leb_total shell_leb_trans). Qed.
Print Assumptions sort_by_sorts.
Theorem sort_by_permutes : forall l, Permutation.Permutation (sort_by shell_leb l) l.
Proof. exact (sort_by_perm shell shell_leb). Qed.
Print Assumptions sort_by_permutes.

(* ---- stopping rules --------------------------------------------------------------------------------------------- *)
Theorem stop_rules_spec : forall D C sc o st cur lr cs sr,
  st_levels st = cur :: lr -> st_shells st = cs :: sr ->
  (step D C o sc st = Stop st <->
     (o_level o <> -1 /\ o_level o <= st_k st) \/
     (o_remdup o = true /\ all_full D sc cur = true) \/
     length (union_shells cs (accepted_next D C sc o st)) = length cs) /\
  (step D C o sc st = Stop st \/ exists s, step D C o sc st = Continue s /\ st_k s = st_k st + 1).
Proof. exact stop_rules_spec. Qed.
Print Assumptions stop_rules_spec.
Theorem all_full_spec : forall D sc l,
  all_full D sc l = true <-> forall a, In a (sc_atoms D sc) -> length (sub_of l a) = length (sc_atoms D sc).
Proof. exact all_full_spec. Qed.
Print Assumptions all_full_spec.
Example stop_rules_nonvacuous :   (* the initial state has one level and one shell list *)
  length (st_levels (init_state ZD ex_scene)) = 1%nat /\ length (st_shells (init_state ZD ex_scene)) = 1%nat.
Proof. vm_compute. split; reflexivity. Qed.

(* ---- termination ------------------------------------------------------------------------------------------------ *)
(* with duplicate removal, n^2 - n + 1 iterations of fuel are never exhausted (n = retained atoms) *)
Theorem run_terminates : forall C fuel o m,
  o_remdup o = true -> 0 <= m_unit2 ZD m ->
  (length (retained ZD o m) * length (retained ZD o m) - length (retained ZD o m) < fuel)%nat ->
  run ZD C fuel o m <> Raises ERecursion.
Proof. exact run_terminates. Qed.
Print Assumptions run_terminates.
Example run_terminates_nonvacuous :
  o_remdup (ex_opts (-1)) = true /\ (0 <=? m_unit2 ZD ex_mol) = true /\
  Nat.ltb (length (retained ZD (ex_opts (-1)) ex_mol) * length (retained ZD (ex_opts (-1)) ex_mol)
           - length (retained ZD (ex_opts (-1)) ex_mol)) 400 = true.
Proof. vm_compute. repeat split; reflexivity. Qed.

(* the same over any ring dictionary in which the neighbour test is monotone in the level *)
Theorem run_terminates_gen : forall D C fuel o m,
  o_remdup o = true ->
  (forall sc, scene_of D o m = Ok sc ->
     forall k l, 1 <= k -> near D o sc k l = true -> near D o sc (k + 1) l = true) ->
  (length (retained D o m) * length (retained D o m) - length (retained D o m) < fuel)%nat ->
  run D C fuel o m <> Raises ERecursion.
Proof. exact run_terminates_gen. Qed.
Print Assumptions run_terminates_gen.

(* no assumption at all on the dictionary: 2^n + 1 iterations of fuel are never exhausted (every continuing
   iteration records a substructure - a subset of the n retained atoms - never recorded before) *)
Theorem run_terminates_exp : forall D C fuel o m,
  o_remdup o = true -> (2 ^ length (retained D o m) < fuel)%nat ->
  run D C fuel o m <> Raises ERecursion.
Proof. exact run_terminates_exp. Qed.
Print Assumptions run_terminates_exp.

(* a level cap L <> -1 bounds the iterations by L, for every dictionary, unconditionally *)
Theorem run_terminates_capped : forall D C fuel o m,
  o_level o <> -1 -> (Z.to_nat (o_level o) < fuel)%nat ->
  run D C fuel o m <> Raises ERecursion.
Proof. exact run_terminates_capped. Qed.
Print Assumptions run_terminates_capped.

(* ... and over the reals (dictionary RD of Proofs/GeomLaws.v; these two statements use the axioms of Coq's reals) *)
Theorem near_mono_RD : forall (sc : scene RD) o, (0 <= sc_unit2 RD sc)%R ->
  forall k l, 1 <= k -> near RD o sc k l = true -> near RD o sc (k + 1) l = true.
Proof. exact near_mono_RD. Qed.
Print Assumptions near_mono_RD.
Theorem run_terminates_RD : forall C fuel o m,
  o_remdup o = true -> (0 <= m_unit2 RD m)%R ->
  (length (retained RD o m) * length (retained RD o m) - length (retained RD o m) < fuel)%nat ->
  run RD C fuel o m <> Raises ERecursion.
Proof. exact run_terminates_RD. Qed.
Print Assumptions run_terminates_RD.

(* every option setting, integer dictionary *)
Theorem run_never_out_of_fuel : forall C fuel o m,
  0 <= m_unit2 ZD m ->
  (if o_level o =? -1
   then (length (retained ZD o m) * length (retained ZD o m) - length (retained ZD o m) < fuel)%nat
   else (Z.to_nat (o_level o) < fuel)%nat) ->
  run ZD C fuel o m <> Raises ERecursion.
Proof. exact run_never_out_of_fuel. Qed.
Print Assumptions run_never_out_of_fuel.

(* positive form: when the options are accepted and the scene can be built (at least one atom retained, every bond
   type in the table), the run returns a state - fingerprinting succeeds *)
Theorem run_succeeds : forall C fuel o m sc,
  check_opts o = true -> scene_of ZD o m = Ok sc -> 0 <= m_unit2 ZD m ->
  (if o_level o =? -1
   then (length (retained ZD o m) * length (retained ZD o m) - length (retained ZD o m) < fuel)%nat
   else (Z.to_nat (o_level o) < fuel)%nat) ->
  exists st, run ZD C fuel o m = Ok st.
Proof. exact run_succeeds. Qed.
Print Assumptions run_succeeds.
Example run_succeeds_nonvacuous :
  check_opts (ex_opts (-1)) = true /\ is_ok (scene_of ZD (ex_opts (-1)) ex_mol) = true /\
  (0 <=? m_unit2 ZD ex_mol) = true /\ length (retained ZD (ex_opts (-1)) ex_mol) = 4%nat.
Proof. vm_compute. repeat split; reflexivity. Qed.

(* the fuel of the executable runs (Exec/RunM1.v: FUEL = Z.to_nat 20000) is never exhausted on molecules with at most
   141 retained atoms at level -1 (141^2 - 141 = 19740), nor with any level cap below 20000 *)
Theorem fuel_exec_suffices : forall C o m,
  0 <= m_unit2 ZD m ->
  (if o_level o =? -1 then (length (retained ZD o m) <= 141)%nat else o_level o < 20000) ->
  run ZD C (Z.to_nat 20000) o m <> Raises ERecursion.
Proof. exact fuel_exec_suffices. Qed.
Print Assumptions fuel_exec_suffices.
Theorem exec_run_succeeds : forall C o m sc,
  check_opts o = true -> scene_of ZD o m = Ok sc -> 0 <= m_unit2 ZD m ->
  (if o_level o =? -1 then (length (retained ZD o m) <= 141)%nat else o_level o < 20000) ->
  exists st, run ZD C (Z.to_nat 20000) o m = Ok st.
Proof. exact exec_run_succeeds. Qed.
Print Assumptions exec_run_succeeds.
Example fuel_exec_nonvacuous :
  (o_level (ex_opts (-1)) =? -1) = true /\ Nat.leb (length (retained ZD (ex_opts (-1)) ex_mol)) 141 = true /\
  ex_k (run ZD e3fp_consts (Z.to_nat 20000) (ex_opts (-1)) ex_mol) = Some 2.
Proof. vm_compute. repeat split; reflexivity. Qed.

(* ---- atom masks ------------------------------------------------------------------------------------------------- *)
Theorem mask_exact : forall o st req mask,
  shells_query o st req mask = filter (fun s => disjointb (s_sub s) mask) (shells_query o st req []).
Proof. exact mask_exact. Qed.
Print Assumptions mask_exact.
Theorem mask_exact_In : forall o st req mask s,
  In s (shells_query o st req mask) <->
  In s (shells_query o st req []) /\ forall x, In x (s_sub s) -> ~ In x mask.
Proof. exact mask_exact_In. Qed.
Print Assumptions mask_exact_In.
