(* C02 - identifiers are exactly those of the published E3FP algorithm.  Statements only.
   The executable model Model/{Geometry,Stereo,E3FP}.v + Base/Murmur3.v IS the independent specification the property
   asks for (own MurmurHash3, own root-free geometry); it is compared with the implementation on every run.  The theorems
   below state the structural facts the property names: hashing and the signed->unsigned conversion, the published
   constants (regenerated from the source on every run), the angle thresholds certified against the real sine/cosine.
   Proofs: Proofs/HashFacts.v, Proofs/AngleTableCert.v.  Iteration/dedup/termination statements: see the second half. *)
From Coq Require Import QArith Reals Qreals.
From E3FP Require Import Base.Prelude Base.ZSet Base.Murmur3 Model.Geometry Model.Stereo Gen.Constants Gen.AngleTable Model.E3FP
  Proofs.HashFacts Proofs.AngleTableCert.
Open Scope Z_scope.

(* signed_to_unsigned_int on the int32 range: a 32-bit word, congruent to the input, inverse of the signed view, injective *)
Theorem signed_to_unsigned_spec :
  forall a, -two31 <= a < two31 ->
    0 <= unsigned32 a < two32 /\
    (unsigned32 a - a) mod two32 = 0 /\
    to_signed32 (unsigned32 a) = a /\
    forall b, -two31 <= b < two31 -> unsigned32 a = unsigned32 b -> a = b.
Proof. exact signed_to_unsigned_spec. Qed.
Print Assumptions signed_to_unsigned_spec.
Example signed_to_unsigned_nonvacuous : unsigned32 (-1) = 4294967295 /\ unsigned32 (-two31) = two31 /\ unsigned32 5 = 5.
Proof. vm_compute. repeat split. Qed.

(* hash_int64_array returns an int32 for every seed and array, so the conversion above applies to every identifier *)
Theorem hash_range : forall seed xs, -two31 <= hash_i64 seed xs < two31.
Proof. exact hash_range. Qed.
Print Assumptions hash_range.

Theorem unsigned_hash_injective : forall seed1 xs1 seed2 xs2,
  unsigned32 (hash_i64 seed1 xs1) = unsigned32 (hash_i64 seed2 xs2) -> hash_i64 seed1 xs1 = hash_i64 seed2 xs2.
Proof. exact unsigned_hash_injective. Qed.
Print Assumptions unsigned_hash_injective.

(* the hash reads the array through its little-endian 32-bit words only; entries count modulo 2^64, the seed modulo 2^32;
   conversely the words determine the array entries modulo 2^64 *)
Theorem hash_depends_on_words_only :
  forall seed xs ys, flat_map words_of_i64 xs = flat_map words_of_i64 ys -> hash_i64 seed xs = hash_i64 seed ys.
Proof. exact hash_depends_on_words_only. Qed.
Print Assumptions hash_depends_on_words_only.

Theorem hash_int64_wrap :
  forall seed seed' xs ys, seed mod two32 = seed' mod two32 ->
    Forall2 (fun x y => x mod two64 = y mod two64) xs ys -> hash_i64 seed xs = hash_i64 seed' ys.
Proof. exact hash_int64_wrap. Qed.
Print Assumptions hash_int64_wrap.
Example hash_int64_wrap_nonvacuous : hash_i64 0 [-1; 7] = hash_i64 two32 [two64 - 1; 7 + two64] /\ hash_i64 0 [-1; 7] <> hash_i64 0 [7; -1].
Proof. vm_compute. split; [reflexivity | discriminate]. Qed.

Theorem words_determine_array :
  forall xs ys, flat_map words_of_i64 xs = flat_map words_of_i64 ys -> Forall2 (fun x y => x mod two64 = y mod two64) xs ys.
Proof. exact words_determine_array. Qed.
Print Assumptions words_determine_array.

(* BOND_TYPES: None -> 5, SINGLE -> 1, DOUBLE -> 2, TRIPLE -> 3, AROMATIC -> 4, nothing else; distinct codes *)
Theorem bond_codes_published : forall t, lookup_bond t bond_types_table = bond_code_published t.
Proof. exact bond_codes_published. Qed.
Print Assumptions bond_codes_published.

Theorem bond_codes_injective :
  forall t1 t2 c, lookup_bond t1 bond_types_table = Some c -> lookup_bond t2 bond_types_table = Some c -> t1 = t2.
Proof. exact bond_codes_injective. Qed.
Print Assumptions bond_codes_injective.

(* the constants read from the source tree are the published ones (finite facts over Gen/Constants.v, Gen/AngleTable.v):
   `double_nearest p q y` = y is a binary64 number within half a unit in the last place of p/q *)
Theorem constants_are_published :
  mmh3_seed = 0 /\
  (forall t, lookup_bond t bond_types_table = bond_code_published t) /\ length bond_types_table = 5%nat /\
  double_nearest 1 10 y_axis_precision = true /\
  double_nearest 1 100 z_axis_precision = true /\
  polar_cone_is_pi_over_36 = true /\
  fprinter_bits = 2 ^ 32 /\
  ident_dtype_is_int64 = true /\
  bsize sin2_tree = 157 /\ bflatten sin2_tree = sin2_table /\ length sin2_table = 157%nat /\
  Forall (fun nd => snd nd = 2 ^ angle_den_bits /\ 0 < fst nd < snd nd) sin2_table /\
  ssorted (map fst sin2_table) /\
  snd cos2_cone = 2 ^ angle_den_bits /\ 0 < fst cos2_cone < snd cos2_cone /\
  fst yprec2 = Qnum y_axis_precision ^ 2 /\ snd yprec2 = Zpos (Qden y_axis_precision) ^ 2 /\
  e3fp_consts = mksconsts sin2_tree cos2_cone yprec2.
Proof. exact constants_are_published. Qed.
Print Assumptions constants_are_published.

(* the tree search of Stereo.bin_of counts the thresholds passed by a downward-closed test ("floor") *)
Theorem brank_count : forall test t,
  downclosed test (bflatten t) -> brank test t = Z.of_nat (length (filter test (bflatten t))).
Proof. exact brank_count. Qed.
Print Assumptions brank_count.

Theorem bin_of_is_count_Z : forall uy uu yy : Z,
  0 <= uu * yy ->
  bin_of ZD e3fp_consts uy uu yy =
  Z.of_nat (length (filter (fun nd => Z.leb (fst nd * (uu * yy)) (snd nd * (uy * uy))) sin2_table)).
Proof. exact bin_of_is_count_Z. Qed.
Print Assumptions bin_of_is_count_Z.
(* u = (1,1,0), y = (1,0,0): angle to the equatorial plane 45 degrees = 0.785 rad -> bin 78 *)
Example bin_of_nonvacuous : bin_of ZD e3fp_consts 1 2 1 = 78.
Proof. vm_compute. reflexivity. Qed.

(* the thresholds are those of the real sine and cosine (Interval; real-number axioms) *)
Theorem sin2_table_certified : Forall entry_ok (numbering sin2_table 1).
Proof. exact sin2_table_certified. Qed.
Print Assumptions sin2_table_certified.
Theorem sin2_table_entry : forall (k : nat) (n d : Z),
  nth_error sin2_table k = Some (n, d) ->
  (Rabs (IZR n / IZR d - (sin (IZR (Z.of_nat k + 1) * Q2R z_axis_precision)) ^ 2) <= / 2 ^ 48)%R.
Proof. exact sin2_table_entry. Qed.
Print Assumptions sin2_table_entry.
Theorem sin2_table_complete :
  (IZR (Z.of_nat (length sin2_table)) * Q2R z_axis_precision < PI / 2 < (IZR (Z.of_nat (length sin2_table)) + 1) * Q2R z_axis_precision)%R.
Proof. exact sin2_table_complete. Qed.
Print Assumptions sin2_table_complete.
Theorem cos2_cone_certified :
  (Rabs (IZR (fst cos2_cone) / IZR (snd cos2_cone) - (cos (PI / 36)) ^ 2) <= / 2 ^ 48)%R.
Proof. exact cos2_cone_certified. Qed.
Print Assumptions cos2_cone_certified.
Theorem polar_cone_certified : (Rabs (Q2R polar_cone_rad - PI / 36) <= / 2 ^ 57)%R.
Proof. exact polar_cone_certified. Qed.
Print Assumptions polar_cone_certified.
