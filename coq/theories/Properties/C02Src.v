(* C02 (source-derived obligations) - the hand-written model equals definitions TRANSLATED FROM THE SOURCE TEXT on this run.
   harness/facts_m1src.py (a fail-closed Python-`ast` translator) writes Gen/M1Source.v from src/e3fp/fingerprint/fprinter.py on
   every run.  When the translator cannot read the source, this file is reported as not attempted (see harness/core.py,
   check_properties_file); when it can, every theorem below must hold.  Statements only. *)
From Coq Require Import QArith.
From E3FP Require Import Base.Prelude Base.ZSet Base.Murmur3 Model.Geometry Model.Stereo Gen.Constants Gen.AngleTable Model.E3FP
  Proofs.HashFacts.
Open Scope Z_scope.
(* ---- formulas re-derived from the SOURCE TEXT on every run (harness/facts_m1src.py -> Gen/M1Source.v) ---------------
   The hand-written model is proved equal to what a small fail-closed `ast` translator reads out of fprinter.py: the order
   and composition of the atom invariants, signed->unsigned, the hash input layout, the sort keys and the level-cap test.
   Editing one of these expressions in the source changes Gen/M1Source.v (or makes the translator raise) and breaks these. *)
From E3FP Require Import Gen.M1Source.

Theorem invariants_match_source : forall D (a : atom D),
  daylight_inv D a = daylight_inv_src D a /\ rdkit_inv D a = rdkit_inv_src D a.
Proof. intros; split; reflexivity. Qed.
Print Assumptions invariants_match_source.

Theorem unsigned_matches_source : forall a, unsigned32 a = signed_to_unsigned_src a fprinter_bits.
Proof. intro a. reflexivity. Qed.
Print Assumptions unsigned_matches_source.

Theorem hash_input_matches_source : forall k prev flat, k :: prev :: flat = hash_input_src k prev flat.
Proof. reflexivity. Qed.
Print Assumptions hash_input_matches_source.

Theorem sort_keys_match_source :
  (forall x y : nb ZD, key2_leb (nb_key ZD x) (nb_key ZD y)
                       = key2_leb (first_two_src (nb_conn x, nb_ident x, 0)) (first_two_src (nb_conn y, nb_ident y, 0))) /\
  (forall x y : shell, zpair_leb (s_ident x, s_center x) (s_ident y, s_center y)
                       = zpair_leb (shell_key_src (s_ident x) (s_center x)) (shell_key_src (s_ident y) (s_center y))).
Proof. split; intros; reflexivity. Qed.
Print Assumptions sort_keys_match_source.

Theorem level_cap_matches_source : forall o st,
  negb (o_level o =? -1) && (o_level o <=? st_k st) = level_cap_reached_src (st_k st) (o_level o).
Proof. intros. unfold level_cap_reached_src. apply andb_comm. Qed.
Print Assumptions level_cap_matches_source.

