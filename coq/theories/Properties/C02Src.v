(* C02 (source-derived obligations) - the hand-written model equals definitions TRANSLATED FROM THE SOURCE TEXT on this run.
   harness/facts_m1src.py (a fail-closed Python-`ast` translator) writes Gen/M1Source.v from src/e3fp/fingerprint/fprinter.py on
   every run.  When the translator cannot read the source, this file is reported as not attempted (see harness/core.py,
   check_properties_file); when it can, every theorem below must hold.  Statements only. *)
From Coq Require Import QArith.
From E3FP Require Import Base.Prelude Base.ZSet Base.Murmur3 Model.Geometry Model.Stereo Gen.Constants Gen.AngleTable Model.E3FP
  Proofs.HashFacts.
Open Scope Z_scope.
(* ---- formulas re-derived from the SOURCE TEXT on every run (harness/facts_m1src.py -> Gen/M1Source.v) ---------------
   Three constructs are TRANSLATED by a small `ast` grammar (a different formula yields a different definition, hence a failing
   theorem; a construct outside the grammar makes the translator raise, and this file is then reported as not attempted):
   the element lists of the two atom-invariant functions, the integer expression returned by signed_to_unsigned_int, and the
   boolean test of the level cap in Fingerprinter.__next__.  The other facts the translator looks at (hash-input layout, sort
   keys, atom-tuple layout, radius, `<= rad`) are GUARDS only: string comparisons that make the translator raise; no theorem
   is stated about them - they are tied to the model by the correspondence alone. *)
From Coq Require Import Lia ZifyBool.
From E3FP Require Import Gen.M1Source.
Ltac Zify.zify_post_hook ::= Z.to_euclidean_division_equations.

Theorem invariants_match_source : forall D (a : atom D),
  daylight_inv D a = daylight_inv_src D a /\ rdkit_inv D a = rdkit_inv_src D a.
Proof. intros; split; reflexivity. Qed.
Print Assumptions invariants_match_source.

(* on the int32 range of identifiers the model's conversion is the source's formula (whatever equivalent way it is written) *)
Theorem unsigned_matches_source : forall a, - two31 <= a < two31 -> unsigned32 a = signed_to_unsigned_src a fprinter_bits.
Proof. intros a H. unfold unsigned32, signed_to_unsigned_src, fprinter_bits, two32, two31 in *. lia. Qed.
Print Assumptions unsigned_matches_source.

Theorem level_cap_matches_source : forall o st,
  negb (o_level o =? -1) && (o_level o <=? st_k st) = level_cap_reached_src (st_k st) (o_level o).
Proof. intros. unfold level_cap_reached_src. lia. Qed.
Print Assumptions level_cap_matches_source.
