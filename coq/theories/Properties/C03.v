(* C03 - the fingerprint does not depend on atom numbering (nor on conformer storage order).
   Statements only; proofs are in Proofs/Relabel*.v.  Model: Model/E3FP.v, Model/Stereo.v, Model/Geometry.v (M1).

   Reading guide.
   `relabel D p m` (Proofs/RelabelScene.v) = Chem.RenumberAtoms: every atom index i becomes p i - in the atoms, in both
     ends of every bond -, coordinates and all atom properties are carried along, and the atom list is re-sorted into
     increasing NEW index (the model, like the code, visits atoms in index order).
   `injective p` : p x = p y -> x = y.  Every permutation of the atom indices is (the restriction of) such a p.
   `run D C fuel o m` = Fingerprinter(options o).run(conf, mol); `st_k` = current_level; `shells_at_true st lv` =
     level_shells[lv]; `shells_query` = get_shells_at_level(level, atom_mask); `fingerprint_query o counts bits st req mask`
     = get_fingerprint_at_level(req, bits, mask) as a Fingerprint (counts = false) or CountFingerprint (counts = true).
   `P p s` = usort (map p s): the image of a sorted atom set.  `prP p s` = (identifier of s, P p (substructure of s)),
     `pr s` = (identifier, substructure), `R p s` = s with centre AND substructure mapped (RelabelStep.v).
   `gp_mol D o m` : no two retained atoms have the same coordinates (|x_a - x_b|^2 <> 0) - the part of "general position"
     that C03 needs, and only with stereo = true (see fp_relabel_refuted_coincident: it cannot be dropped).
   `ordlaws D` (RelabelStereo.v): the ring dictionary is a totally ordered commutative ring with Leibniz equality
     (ring_theory, decidable = and <=, a <= b -> a+c <= b+c, product of positives positive, fofZ strictly monotone);
     proved for the executable instance ZD (ZD_ordlaws).  `cone_ok C` : 0 < cos^2(POLAR_CONE_RAD) < 1 as a fraction.

   What is and what is not invariant.  For every level, the multiset of (identifier, substructure) of the accepted
   shells is the p-image of the original one; hence every fingerprint (bits or counts, any folding, any level, any atom
   mask - the mask being renumbered along) is EQUAL, and so is current_level.  With remove_duplicate_substructs = False
   the shells correspond one by one, centre included.  With duplicate removal the CENTRE atom recorded in an accepted shell
   is not invariant: when two atoms carry the same identifier and the same substructure the lower index is kept
   (Example centre_not_equivariant) - the identifier and the substructure of the kept shell are the same either way. *)
From Coq Require Import ZArith List Bool Permutation.
From E3FP Require Import Base.Prelude Base.ZSet Model.Geometry Model.Stereo Model.Fprint Model.E3FP Gen.Constants Gen.AngleTable
  Proofs.RelabelSort Proofs.RelabelScene Proofs.RelabelLevel Proofs.RelabelInv Proofs.RelabelDedup Proofs.RelabelStep
  Proofs.RelabelStereoA Proofs.RelabelStereo Proofs.RelabelMain Proofs.RelabelExamples.
Import ListNotations.
Open Scope Z_scope.

(* ---------------------------------------------------------------------------------------------------------------------- *)
(* the main theorem: every ring dictionary obeying the ordered-ring laws (Z as executed, and e.g. the reals), every
   constant table with 0 < cos^2(cone) < 1, every fuel, options, molecule with distinct atom indices, renumbering *)
Theorem fp_relabel_invariant :
  forall (D : ringdict) (C : sconsts) (fuel : nat) (o : opts) (p : Z -> Z) (m : mol D),
  ordlaws D -> cone_ok C -> injective p -> NoDup (map (a_idx D) (m_atoms D m)) ->
  (o_stereo o = true -> gp_mol D o m) ->
  match run D C fuel o m, run D C fuel o (relabel D p m) with
  | Ok st, Ok st' =>
      st_k st' = st_k st /\
      (forall lv, Permutation (map s_ident (shells_at_true st lv)) (map s_ident (shells_at_true st' lv))) /\
      (forall req mask, Permutation (map (prP p) (shells_query o st req mask)) (map pr (shells_query o st' req (map p mask)))) /\
      (forall counts bits req mask,
         fingerprint_query o counts bits st' req (map p mask) = fingerprint_query o counts bits st req mask) /\
      (o_remdup o = false -> forall lv, Permutation (map (R p) (shells_at_true st lv)) (shells_at_true st' lv))
  | Raises e, Raises e' => e = e'
  | _, _ => False
  end.
Proof. exact fp_relabel_invariant_lemma. Qed.
Print Assumptions fp_relabel_invariant.

(* stage 1 on its own: stereo = False needs nothing about the ring dictionary, the constants or the geometry *)
Theorem fp_relabel_invariant_nostereo :
  forall (D : ringdict) (C : sconsts) (fuel : nat) (o : opts) (p : Z -> Z) (m : mol D),
  o_stereo o = false -> injective p -> NoDup (map (a_idx D) (m_atoms D m)) ->
  match run D C fuel o m, run D C fuel o (relabel D p m) with
  | Ok st, Ok st' =>
      st_k st' = st_k st /\
      (forall lv, Permutation (map s_ident (shells_at_true st lv)) (map s_ident (shells_at_true st' lv))) /\
      (forall req mask, Permutation (map (prP p) (shells_query o st req mask)) (map pr (shells_query o st' req (map p mask)))) /\
      (forall counts bits req mask,
         fingerprint_query o counts bits st' req (map p mask) = fingerprint_query o counts bits st req mask) /\
      (o_remdup o = false -> forall lv, Permutation (map (R p) (shells_at_true st lv)) (shells_at_true st' lv))
  | Raises e, Raises e' => e = e'
  | _, _ => False
  end.
Proof. exact fp_relabel_invariant_nostereo_lemma. Qed.
Print Assumptions fp_relabel_invariant_nostereo.

(* the instance that the correspondence check executes: integers, the constants generated from the source *)
Theorem fp_relabel_invariant_ZD :
  forall (fuel : nat) (o : opts) (p : Z -> Z) (m : mol ZD),
  injective p -> NoDup (map (a_idx ZD) (m_atoms ZD m)) -> (o_stereo o = true -> gp_mol ZD o m) ->
  match run ZD e3fp_consts fuel o m, run ZD e3fp_consts fuel o (relabel ZD p m) with
  | Ok st, Ok st' =>
      st_k st' = st_k st /\
      (forall lv, Permutation (map s_ident (shells_at_true st lv)) (map s_ident (shells_at_true st' lv))) /\
      (forall req mask, Permutation (map (prP p) (shells_query o st req mask)) (map pr (shells_query o st' req (map p mask)))) /\
      (forall counts bits req mask,
         fingerprint_query o counts bits st' req (map p mask) = fingerprint_query o counts bits st req mask) /\
      (o_remdup o = false -> forall lv, Permutation (map (R p) (shells_at_true st lv)) (shells_at_true st' lv))
  | Raises e, Raises e' => e = e'
  | _, _ => False
  end.
Proof. exact fp_relabel_invariant_ZD_lemma. Qed.
Print Assumptions fp_relabel_invariant_ZD.

(* "all n! atom permutations", explicitly: a permutation given as a table t of pairs (old index, new index) whose right
   column is a rearrangement of its left column; `table_fun t x` = t[x] for a key x, x otherwise *)
Theorem fp_relabel_invariant_all_permutations :
  forall (D : ringdict) (C : sconsts) (fuel : nat) (o : opts) (t : list (Z * Z)) (m : mol D),
  ordlaws D -> cone_ok C ->
  NoDup (map fst t) -> Permutation (map fst t) (map snd t) ->
  NoDup (map (a_idx D) (m_atoms D m)) -> (o_stereo o = true -> gp_mol D o m) ->
  let p := table_fun t in
  match run D C fuel o m, run D C fuel o (relabel D p m) with
  | Ok st, Ok st' =>
      st_k st' = st_k st /\
      (forall lv, Permutation (map s_ident (shells_at_true st lv)) (map s_ident (shells_at_true st' lv))) /\
      (forall req mask, Permutation (map (prP p) (shells_query o st req mask)) (map pr (shells_query o st' req (map p mask)))) /\
      (forall counts bits req mask,
         fingerprint_query o counts bits st' req (map p mask) = fingerprint_query o counts bits st req mask) /\
      (o_remdup o = false -> forall lv, Permutation (map (R p) (shells_at_true st lv)) (shells_at_true st' lv))
  | Raises e, Raises e' => e = e'
  | _, _ => False
  end.
Proof. exact fp_relabel_invariant_perm_lemma. Qed.
Print Assumptions fp_relabel_invariant_all_permutations.

(* the atoms of the renumbered molecule may be listed in any order, not only sorted (mol_rel) *)
Theorem fp_relabel_invariant_any_order :
  forall (D : ringdict) (C : sconsts) (fuel : nat) (o : opts) (p : Z -> Z) (m m' : mol D),
  injective p -> NoDup (map (a_idx D) (m_atoms D m)) ->
  Permutation (map (relabel_atom D p) (m_atoms D m)) (m_atoms D m') /\
  m_bonds D m' = map (relabel_bond p) (m_bonds D m) /\ m_unit2 D m' = m_unit2 D m ->
  (o_stereo o = true -> codes_perm_ok D C (m_unit2 D m) /\ gp_mol D o m) ->
  match run D C fuel o m, run D C fuel o m' with
  | Ok st, Ok st' => st_k st' = st_k st /\
      forall lv, Permutation (map (prP p) (shells_at_true st lv)) (map pr (shells_at_true st' lv)) /\
                 (o_remdup o = false -> Permutation (map (R p) (shells_at_true st lv)) (shells_at_true st' lv))
  | Raises e, Raises e' => e = e'
  | _, _ => False
  end.
Proof. exact run_rel_general. Qed.
Print Assumptions fp_relabel_invariant_any_order.

(* ---------------------------------------------------------------------------------------------------------------------- *)
(* the lemmas the anchors of the property name *)

(* "neighbour tuples sorted by (bond, identifier) before stereo and again before hashing": the final sort is canonical *)
Theorem sorted_tuples_canonical : forall l l' : list (Z * Z * Z), Permutation l l' -> sort_by lex3_leb l = sort_by lex3_leb l'.
Proof. exact sort_lex3_perm_eq. Qed.
Print Assumptions sorted_tuples_canonical.

(* the stereo codes: the multiset of (bond, identifier, code) of a shell does not depend on the order in which
   neighbours with equal keys are listed (pick_y, pick_z by first-unique, the mean vector, the two-identical rule) *)
Theorem codes_order_independent :
  forall (D : ringdict) (C : sconsts) (unit2 : F D), ordlaws D -> cone_ok C ->
  forall ns ns' : list (nb D), Permutation ns ns' -> key_sorted D ns -> key_sorted D ns' -> nonzero D ns ->
  Permutation (coded D C unit2 ns) (coded D C unit2 ns').
Proof. exact codes_perm. Qed.
Print Assumptions codes_order_independent.

(* "two-identical-neighbours rule takes list element 0 as y (must be symmetric)" *)
Theorem two_identical_symmetric :
  forall (D : ringdict) (C : sconsts) (unit2 : F D), ordlaws D -> cone_ok C ->
  forall x0 x1 : nb D, nb_key D x0 = nb_key D x1 ->
  feqb D (dot D (nb_vec x0) (nb_vec x0)) (f0 D) = false -> feqb D (dot D (nb_vec x1) (nb_vec x1)) (f0 D) = false ->
  Permutation (coded D C unit2 [x0; x1]) (coded D C unit2 [x1; x0]).
Proof. exact two_identical_symmetric. Qed.
Print Assumptions two_identical_symmetric.

(* ... and it is NOT symmetric when one of the two sits on the centre atom *)
Theorem two_identical_asymmetric_when_coincident :
  forall unit2 : F ZD, exists x0 x1 : nb ZD, nb_key ZD x0 = nb_key ZD x1 /\
    ~ Permutation (coded ZD e3fp_consts unit2 [x0; x1]) (coded ZD e3fp_consts unit2 [x1; x0]).
Proof. exact codes_coincident_asymmetric. Qed.
Print Assumptions two_identical_asymmetric_when_coincident.

(* "duplicate-substructure removal ordered by (identifier, center atom)": the accepted multiset of
   (identifier, substructure) does not depend on how ties are ordered - for lists sorted by identifier the filter keeps,
   for every unseen substructure, a carrier with the least identifier *)
Theorem dedup_keeps_min :
  forall cands past acc past2, dedup cands past = (acc, past2) ->
  past2 = rev (map s_sub acc) ++ past /\
  (forall s, In s acc -> In s cands /\ ~ In (s_sub s) past) /\
  (forall t, In t cands -> ~ In (s_sub t) past -> exists s, In s acc /\ s_sub s = s_sub t) /\
  NoDup (map s_sub acc) /\
  (NoDup (map s_center cands) -> NoDup (map s_center acc)) /\
  (ident_sorted cands -> forall s t, In s acc -> In t cands -> s_sub t = s_sub s -> s_ident s <= s_ident t).
Proof. exact dedup_spec. Qed.
Print Assumptions dedup_keeps_min.

(* "Shell members held in a frozenset" / Shell.__eq__: the substructure of a shell is a function of (centre, class), so
   with duplicate removal a newly accepted shell never equals an older one and the union is a plain append *)
Theorem substructure_function_of_class :
  forall (D : ringdict) (C : sconsts) (o : opts) (sc : scene D), sc_wf D sc ->
  forall (n1 n2 : nat) (a : Z), In a (sc_atoms D sc) ->
  aget 0 (l_canon (lev D C o sc n1)) a = aget 0 (l_canon (lev D C o sc n2)) a ->
  aget [] (l_sub (lev D C o sc n1)) a = aget [] (l_sub (lev D C o sc n2)) a.
Proof. exact sub_functional. Qed.
Print Assumptions substructure_function_of_class.

(* ---------------------------------------------------------------------------------------------------------------------- *)
(* necessity of the general-position hypothesis: a molecule with two atoms at the same coordinates whose stereo
   fingerprint changes under renumbering (model level; atoms 0 and 1 of mBad coincide) *)
Theorem fp_relabel_refuted_coincident :
  exists (o : opts) (p : Z -> Z) (m : mol ZD) (lv : Z),
    injective p /\ NoDup (map (a_idx ZD) (m_atoms ZD m)) /\ o_stereo o = true /\ gp_molb ZD o m = false /\
    is_ok (run ZD e3fp_consts 50 o m) = true /\ is_ok (run ZD e3fp_consts 50 o (relabel ZD p m)) = true /\
    ~ Permutation (map s_ident (shells_of_run (run ZD e3fp_consts 50 o m) lv))
                  (map s_ident (shells_of_run (run ZD e3fp_consts 50 o (relabel ZD p m)) lv)).
Proof. exact fp_relabel_refuted_coincident_lemma. Qed.
Print Assumptions fp_relabel_refuted_coincident.

(* conformer storage order: a `mol` value carries the coordinates of exactly one conformer and `run` is a function of that
   value, so the result for a conformer cannot depend on the other conformers of the RDKit molecule or on their order
   (object reuse across conformers is C04) *)
Theorem fp_conformer_order :
  forall (D : ringdict) (C : sconsts) (fuel : nat) (o : opts) (m1 m2 : mol D),
  m_atoms D m1 = m_atoms D m2 -> m_bonds D m1 = m_bonds D m2 -> m_unit2 D m1 = m_unit2 D m2 ->
  run D C fuel o m1 = run D C fuel o m2.
Proof. exact fp_conformer_order_lemma. Qed.
Print Assumptions fp_conformer_order.

(* ---------------------------------------------------------------------------------------------------------------------- *)
(* non-vacuity and concrete instances (dimethyl ether + chloride, 4 heavy atoms not coplanar; renumbering 0->2 1->3 2->0 3->1) *)
Example hypotheses_satisfiable :
  injective pE /\ NoDup (map (a_idx ZD) (m_atoms ZD mE)) /\ gp_mol ZD (oE true true) mE /\ ordlaws ZD /\ cone_ok e3fp_consts.
Proof. exact (conj pE_injective (conj mE_nodup (conj (mE_gp true true) (conj ZD_ordlaws e3fp_consts_cone_ok)))). Qed.

Example relabelled_molecule_is_resorted :
  map (a_idx ZD) (m_atoms ZD (relabel ZD pE mE)) = [0; 1; 2; 3] /\ map (a_num ZD) (m_atoms ZD (relabel ZD pE mE)) = [6; 17; 8; 6].
Proof. exact ex_relabelled_atoms. Qed.

Example computed_identifiers_agree :
  ident_obs (runE (oE true true) mE) = ident_obs (runE (oE true true) (relabel ZD pE mE)) /\
  ident_obs (runE (oE true true) mE) =
  Some (2, [[-1778521339; -1282435739; -222326110; -222326110; 189018378; 628239467; 628239467; 1612004027];
            [-1282435739; -222326110; -222326110; 189018378; 628239467; 628239467; 1612004027];
            [-222326110; -222326110; 189018378; 1612004027]]).
Proof. exact ex_computed_stereo. Qed.

Example computed_fingerprints_equal_with_mask :
  match runE (oE true true) mE, runE (oE true true) (relabel ZD pE mE) with
  | Ok st, Ok st' =>
      fingerprint_query (oE true true) true 1024 st' None (map pE [3]) = fingerprint_query (oE true true) true 1024 st None [3] /\
      is_ok (fingerprint_query (oE true true) true 1024 st None [3]) = true /\
      length (shells_query (oE true true) st None [3]) = 6%nat
  | _, _ => False
  end.
Proof. exact ex_computed_fingerprint. Qed.

(* seen from the oxygen the two carbons have identical keys: the two-identical rule (y = list element 0) is exercised *)
Example two_identical_rule_exercised :
  map (nb_key ZD) (nsE sceneE 0) = [(1, -222326110); (1, -222326110)] /\
  first_unique key2_eqb (map (nb_key ZD) (nsE sceneE 0)) = None /\
  codes ZD e3fp_consts 1000000 (nsE sceneE 0) = [1; -2].
Proof. exact ex_two_identical. Qed.

(* with duplicate removal the centre of an accepted shell is not carried along by the renumbering (identifiers are) *)
Example centre_not_equivariant :
  let l := shells_of_run (runE (oE false true) mE) 2 in
  let l' := shells_of_run (runE (oE false true) (relabel ZD pE mE)) 2 in
  Permutation (map s_ident l) (map s_ident l') /\ ~ Permutation (map pE (map s_center l)) (map s_center l').
Proof. exact centre_not_equivariant. Qed.
