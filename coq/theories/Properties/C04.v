(* C04 - fingerprinting is a pure function of (molecule, conformer, options).  Statements only.
   Model: Model/Fprinter.v (one Fingerprinter object across a history of run() calls) over Model/E3FP.v.
   The model has no shared state between objects, so interleavings of independent jobs cannot interact in it; that the
   implementation has none either is what the correspondence checks under threads / processes / hash seeds (partial). *)
From Coq Require Import QArith.
From E3FP Require Import Base.Prelude Model.Geometry Model.Stereo Model.Fprint Model.E3FP Model.Fprinter
  Proofs.FprinterHistory Gen.Constants Gen.AngleTable Exec.RunM1.
Open Scope Z_scope.

(* For every ring dictionary, options, fuel and every history of run() calls in which no molecule object was edited in
   place (the same identity always carries the same atoms/bonds; coordinates - the conformer - may differ freely):
   the outcome of the last run is the outcome of a fresh fingerprinter on that input. *)
Theorem history_independent_partial :
  forall D C fuel (o : opts) (p : list (Z * mol D)) (i : Z) (m : mol D),
    consistent D (p ++ [(i, m)]) ->
    f_last D (frun_all D C fuel (new_fprinter D o) (p ++ [(i, m)])) = Some (run D C fuel o m).
Proof. exact history_independent. Qed.
Print Assumptions history_independent_partial.

Theorem query_history_independent_partial :
  forall D C fuel (o : opts) p i m counts bits req mask,
    consistent D (p ++ [(i, m)]) ->
    fquery D (frun_all D C fuel (new_fprinter D o) (p ++ [(i, m)])) counts bits req mask
    = fquery D (frun D C fuel (new_fprinter D o) i m) counts bits req mask.
Proof. exact query_history_independent. Qed.
Print Assumptions query_history_independent_partial.

(* Queries (get_fingerprint_at_level) are reads: in the model `fquery` returns a value and the object is not among its
   outputs; that the implementation's queries write nothing is checked by the correspondence (every object is re-observed
   after interleaved queries, and the mutable default arguments are compared before/after every history). *)

(* The full statement (no hypothesis on the history) is FALSE of the faithful model: a molecule object edited in place
   between two runs is fingerprinted with the tables cached for its identity.  Witness: C-O, then the same object with the
   oxygen turned into sulfur.  Replayed on the implementation this is the known finding C04-mol-mutated-in-place. *)
Definition w_atom (i num mass : Z) (x : Z) : atom ZD :=
  mkatom ZD i num 1 1 1 0 mass 0 0 0 (mkvec (D:=ZD) x 0 0).
Definition w_mol (num2 mass2 : Z) : mol ZD :=
  mkmol ZD [w_atom 0 6 12 0; w_atom 1 num2 mass2 90000] [(0, 1, BtSingle)] 4294967296.
Definition w_opts : opts := mkopts 2 1718 1000 true true true false true.

Theorem history_independent_refuted :
  exists (h : list (Z * mol ZD)) (i : Z) (m : mol ZD),
    result_eqb fp_obs_eqb
      (fquery ZD (frun_allZ (new_fprinter ZD w_opts) (h ++ [(i, m)])) false 4294967296 None [])
      (fquery ZD (frunZ (new_fprinter ZD w_opts) i m) false 4294967296 None []) = false.
Proof. exists [(7, w_mol 8 15)], 7, (w_mol 16 32). vm_compute. reflexivity. Qed.
Print Assumptions history_independent_refuted.

(* non-vacuity: a history that reuses a molecule object with another conformer, and another molecule in between, is consistent *)
Example consistent_history_exists :
  consistent ZD ([(7, w_mol 8 15); (9, w_mol 16 32)] ++ [(7, mkmol ZD [w_atom 0 6 12 5; w_atom 1 8 15 70000] [(0, 1, BtSingle)] 4294967296)]).
Proof.
  split.
  - intros i a b Ha Hb. simpl in Ha, Hb.
    destruct Ha as [Ha|[Ha|[Ha|[]]]]; destruct Hb as [Hb|[Hb|[Hb|[]]]]; inversion Ha; inversion Hb; subst;
      try discriminate; split; reflexivity.
  - intros i a Ha. simpl in Ha. destruct Ha as [Ha|[Ha|[Ha|[]]]]; inversion Ha; subst;
      unfold wf_mol; simpl; repeat constructor; simpl; intuition discriminate.
Qed.
