(* C04 - fingerprinting is a pure function of (molecule, conformer, options).  Statements only.
   Model: Model/Fprinter.v (one Fingerprinter object across a history of run() calls: the molecule-level tables cached
   by object identity AND the conformer-level state level_shells / past_substructs / current_level, with reset_mol,
   reset_conf and the queries through the dictionary as in fprinter.py) over Model/E3FP.v.
   The model has no shared state between objects, so interleavings of independent jobs cannot interact in it; that the
   implementation has none either is what the correspondence checks under threads / processes / hash seeds (partial). *)
From Coq Require Import QArith.
From E3FP Require Import Base.Prelude Model.Geometry Model.Stereo Model.Fprint Model.E3FP Model.Fprinter
  Proofs.FprinterHistory Gen.Constants Gen.AngleTable Exec.RunM1.
Open Scope Z_scope.

(* What one iteration writes into an EMPTY dictionary: exactly the keys 0..k with that run's levels.  This is the only
   place where "reset_conf ran first" enters: on a dictionary that was not emptied, keys beyond k survive. *)
Theorem store_into_empty_dictionary :
  forall st : state, store st [] = enum_from 0 (rev (st_shells st)).
Proof. exact store_fresh. Qed.
Print Assumptions store_into_empty_dictionary.

Theorem store_keeps_stale_keys :
  forall (st : state) (d : list (Z * list shell)) (j : Z),
    Z.of_nat (length (st_shells st)) <= j -> dget j (store st d) = dget j d.
Proof. exact store_keeps_stale. Qed.
Print Assumptions store_keeps_stale_keys.

(* For every ring dictionary, constants, fuel, and ANY previous object state f (whatever its dictionary holds): after a
   run() that returns normally, the keys of level_shells are exactly 0..k, each entry is the corresponding level of
   THIS run's state, current_level = k and past_substructs is this run's. *)
Theorem frun_levels_exact :
  forall D C fuel (f : fprinter D) (id : Z) (m : mol D),
    f_exn D (frun D C fuel f id m) = None ->
    exists base st, f_tables D (frun D C fuel f id m) = Some base /\
      run D C fuel (f_opts D f) (with_positions D base m) = Ok st /\
      map fst (f_level_shells D (frun D C fuel f id m)) = zseq 0 (S (Z.to_nat (st_k st))) /\
      (forall l, dget l (f_level_shells D (frun D C fuel f id m))
                 = if (0 <=? l) && (l <=? st_k st) then Some (shells_at_true st l) else None) /\
      f_cur D (frun D C fuel f id m) = Some (st_k st) /\ f_past D (frun D C fuel f id m) = st_past st.
Proof. exact FprinterHistory.frun_levels_exact. Qed.
Print Assumptions frun_levels_exact.

(* ... and every get_fingerprint_at_level on the object (resolution `level not in self.level_shells` through the
   dictionary) is the range-based query of Model/E3FP.v on that run's state. *)
Theorem fquery_eq_fingerprint_query :
  forall D C fuel (f : fprinter D) (id : Z) (m : mol D),
    f_exn D (frun D C fuel f id m) = None ->
    exists base st, f_tables D (frun D C fuel f id m) = Some base /\
      run D C fuel (f_opts D f) (with_positions D base m) = Ok st /\
      forall counts bits req mask,
        fquery D (frun D C fuel f id m) counts bits req mask = fingerprint_query (f_opts D f) counts bits st req mask.
Proof. exact FprinterHistory.fquery_eq_fingerprint_query. Qed.
Print Assumptions fquery_eq_fingerprint_query.

(* Without the clearing of level_shells in reset_conf (Model/Fprinter.v's seeded-bug variant frun_noreset) this fails on
   a consistent history: the explicit query for a level the new conformer did not reach returns the previous
   conformer's shells; the faithful model answers as a fresh object does. *)
Theorem stale_levels_without_reset :
  exists (o : opts) (i : Z) (mA mB : mol ZD) (L : Z),
    let f1 := frun_noresetZ (new_fprinter ZD o) i mA in
    let f2 := frun_noresetZ f1 i mB in
    consistent ZD [(i, mA); (i, mB)] /\
    f_exn ZD f2 = None /\ f_cur ZD f2 = Some 0 /\ 0 < L /\
    dmem L (f_level_shells ZD f2) = true /\
    fshells ZD f2 (Some L) = fshells ZD f1 (Some L) /\
    result_eqb fp_obs_eqb (fquery ZD f2 false 1024 (Some L) [])
                          (fquery ZD (frunZ (new_fprinter ZD o) i mB) false 1024 (Some L) []) = false /\
    result_eqb fp_obs_eqb (fquery ZD (frun_allZ (new_fprinter ZD o) [(i, mA); (i, mB)]) false 1024 (Some L) [])
                          (fquery ZD (frunZ (new_fprinter ZD o) i mB) false 1024 (Some L) []) = true.
Proof. exact stale_levels_without_reset_w. Qed.
Print Assumptions stale_levels_without_reset.

(* For every ring dictionary, options, fuel and every history of run() calls in which no molecule object was edited in
   place (the same identity always carries the same atoms/bonds; coordinates - the conformer - may differ freely):
   the conformer-level state after the last run (level_shells with all its keys, past_substructs, current_level, the
   exception if the run raised) is that of a fresh fingerprinter's run on that input. *)
Theorem history_independent_partial :
  forall D C fuel (o : opts) (p : list (Z * mol D)) (i : Z) (m : mol D),
    consistent D (p ++ [(i, m)]) ->
    conf_state D (frun_all D C fuel (new_fprinter D o) (p ++ [(i, m)])) = fresh_state (run D C fuel o m)
    /\ f_opts D (frun_all D C fuel (new_fprinter D o) (p ++ [(i, m)])) = o.
Proof. exact history_independent. Qed.
Print Assumptions history_independent_partial.

Theorem query_history_independent_partial :
  forall D C fuel (o : opts) p i m counts bits req mask,
    consistent D (p ++ [(i, m)]) ->
    fquery D (frun_all D C fuel (new_fprinter D o) (p ++ [(i, m)])) counts bits req mask
    = fquery D (frun D C fuel (new_fprinter D o) i m) counts bits req mask.
Proof. exact query_history_independent. Qed.
Print Assumptions query_history_independent_partial.

(* and when that run succeeds, it is the query of Model/E3FP.v (C02, C12, C17, C18 are stated about it) *)
Theorem query_after_history_is_run_query :
  forall D C fuel (o : opts) p i m st counts bits req mask,
    consistent D (p ++ [(i, m)]) -> run D C fuel o m = Ok st ->
    fquery D (frun_all D C fuel (new_fprinter D o) (p ++ [(i, m)])) counts bits req mask
    = fingerprint_query o counts bits st req mask.
Proof. exact query_history_is_run_query. Qed.
Print Assumptions query_after_history_is_run_query.

(* Queries (get_fingerprint_at_level) are reads: in the model `fquery` returns a value and the object is not among its
   outputs; that the implementation's queries write nothing is checked by the correspondence (every object is re-observed
   after interleaved queries, and the mutable default arguments are compared before/after every history). *)

(* The full statement (no hypothesis on the history) is FALSE of the faithful model: a molecule object edited in place
   between two runs is fingerprinted with the tables cached for its identity.  Witness: C-O, then the same object with the
   oxygen turned into sulfur.  Replayed on the implementation this is the known finding C04-mol-mutated-in-place. *)
Theorem history_independent_refuted :
  exists (h : list (Z * mol ZD)) (i : Z) (m : mol ZD),
    result_eqb fp_obs_eqb
      (fquery ZD (frun_allZ (new_fprinter ZD w_opts) (h ++ [(i, m)])) false 4294967296 None [])
      (fquery ZD (frunZ (new_fprinter ZD w_opts) i m) false 4294967296 None []) = false.
Proof. exact history_independent_refuted_w. Qed.
Print Assumptions history_independent_refuted.

(* non-vacuity: a history that reuses a molecule object with another conformer, and another molecule in between, is
   consistent; and a run on an object with a stale history returns normally *)
Example consistent_history_exists :
  consistent ZD ([(7, w_mol 8 15); (9, w_mol 16 32)] ++ [(7, mkmol ZD [w_atom 0 6 12 5; w_atom 1 8 15 70000] [(0, 1, BtSingle)] 4294967296)]).
Proof. exact consistent_history_exists_w. Qed.

Example frun_ok_exists :
  f_exn ZD (frunZ (frunZ (new_fprinter ZD w3_opts) 7 (w3 98304 196608)) 7 (w3 400000 800000)) = None.
Proof. exact frun_ok_exists_w. Qed.
