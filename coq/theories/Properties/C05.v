(* C05 - a fingerprint database is a faithful, order-preserving container; derived databases are independent snapshots;
   reads change nothing.  Statements only; proofs in Proofs/Db{Base,Refuse,Inv,Frame,Spec,Fold}.v.
   Model: Model/Db.v (M3): a pool of database objects over a store of NumPy buffers (CSR data / indices / indptr and
   property arrays are buffer ids, so aliasing between databases is representable);
   `step : state -> op -> state * result out`, `run`, `view` (object -> abstract database), `handle_db`. *)
From Coq Require Import QArith.
From E3FP Require Import Base.Prelude Base.ZSet Model.Fprint Model.Db
  Proofs.DbBase Proofs.DbRefuse Proofs.DbInv Proofs.DbFrame Proofs.DbSpec Proofs.DbFold Proofs.DbRows.
Open Scope Z_scope.

(* ---------------------------------------------------------------- invariant over ANY operation list *)
(* `state_ok`: for every object - buffer ids valid, one property cell per name, one name per row, the name index equals
   the index rebuilt from the names.  No hypothesis on the operations: property columns declared on an empty database,
   from_array with a wrong number of names (refused), every argument value - all are covered. *)
Theorem invariant_any_history : forall ops s, state_ok s -> state_ok (run s ops).
Proof. exact run_ok. Qed.
Print Assumptions invariant_any_history.

(* index[k] = the rows named k, increasing, nothing else; an entry exists iff a row carries the name; no empty entries *)
Theorem index_complete : forall ops h d, handle_db (run init ops) h = Some d ->
  (forall k, idx_get k (dindex d) = positions k (dnames d) 0)
  /\ (forall k p, In p (positions k (dnames d) 0) <-> exists i, nth_error (dnames d) i = Some k /\ p = Z.of_nat i)
  /\ (forall k, ssorted (positions k (dnames d) 0))
  /\ (forall k, idx_mem k (dindex d) = true <-> In k (dnames d))
  /\ Forall (fun kl => snd kl <> []) (dindex d).
Proof. exact index_complete. Qed.
Print Assumptions index_complete.

Theorem props_aligned : forall ops h d, handle_db (run init ops) h = Some d ->
  length (dnames d) = fp_num d /\ forall k v, aget k (dprops d) = Some v -> length v = fp_num d.
Proof. exact props_aligned. Qed.
Print Assumptions props_aligned.

(* rows_wf: over any history whose inputs are well formed (`op_wf`: added fingerprints have strictly increasing indices in
   [0, bits) - what every constructor of fprint.py produces -, from_array is given canonical rows), every stored row of every
   database has strictly increasing columns in [0, bits).  (Unsorted from_array input is outside this theorem; the
   correspondence covers it.) *)
Theorem rows_wf : forall ops, Forall op_wf ops -> forall h d, handle_db (run init ops) h = Some d ->
  match dbits d with
  | Some b => Forall (fun r => ssorted (map fst r) /\ forall j, In j (map fst r) -> 0 <= j < b) (drows d)
  | None => drows d = []
  end.
Proof. exact rows_wf_any_history. Qed.
Print Assumptions rows_wf.

(* ---------------------------------------------------------------- refinement, per operation *)
(* rows and names are appended in batch order, every fingerprint cast to the database's type (fp_row) *)
Theorem add_appends : forall s h oid o fps s',
  state_ok s -> lookup s h = Some (oid, o) -> step s (OpAdd h fps) = (s', Ok ONone) ->
  exists d', handle_db s' h = Some d'
    /\ drows d' = drows (view (bufs s) o) ++ map (fun f => fp_row (okind o) (fi_fp f)) fps
    /\ dnames d' = onames o ++ map (fun f => fname (fi_fp f)) fps
    /\ dkind d' = okind o /\ dlevel d' = olevel o.
Proof. exact add_appends. Qed.
Print Assumptions add_appends.

Theorem concat_is_app : forall s hs os s' hn,
  lookup_all s hs = Some os -> step s (OpConcat hs) = (s', Ok (ONew hn)) ->
  exists d', handle_db s' hn = Some d'
    /\ drows d' = flat_map (fun o => drows (view (bufs s) o)) os
    /\ dnames d' = flat_map onames os.
Proof. exact concat_is_app. Qed.
Print Assumptions concat_is_app.

(* for every requested name in request order (duplicates kept), the rows carrying it in row order, with their properties *)
Theorem subset_spec : forall s h oid o names s' hn,
  state_ok s -> lookup s h = Some (oid, o) -> step s (OpSubset h names) = (s', Ok (ONew hn)) ->
  let d := view (bufs s) o in
  let pairs := flat_map (fun x => map (fun y => (y, x)) (positions x (dnames d) 0)) names in
  exists d', handle_db s' hn = Some d'
    /\ drows d' = map (fun p => nth_row (drows d) (fst p)) pairs
    /\ dnames d' = map snd pairs
    /\ dprops d' = map (take_col (map fst pairs)) (dprops d).
Proof. exact subset_spec. Qed.
Print Assumptions subset_spec.

(* as_type: same names, index and properties, every stored value cast; same type and copy=False: the database itself *)
Theorem as_type_casts : forall s oid o k cp s' hn,
  state_ok s -> nth_error (objs s) oid = Some o ->
  h_astype s oid o k cp = (s', Ok (ONew hn)) ->
  handle_db s' hn = Some (if kind_eqb k (okind o) && negb cp then view (bufs s) o else astype_db k (view (bufs s) o)).
Proof. exact as_type_casts. Qed.
Print Assumptions as_type_casts.

Theorem copy_eq : forall s oid o s' hn,
  state_ok s -> nth_error (objs s) oid = Some o ->
  h_astype s oid o (okind o) true = (s', Ok (ONew hn)) ->
  handle_db s' hn = Some (view (bufs s) o).
Proof. exact copy_eq. Qed.
Print Assumptions copy_eq.

(* pickle / deepcopy and reloading from a .fpz (savez/load) or .fps (save/load) file: a new database denoting the same
   abstract database - rows, names incl. None, name index, property columns, type, level, bits *)
Theorem reload_id : forall s h oid o fpz s' hn,
  state_ok s -> lookup s h = Some (oid, o) -> step s (OpReload h fpz) = (s', Ok (ONew hn)) ->
  handle_db s' hn = Some (view (bufs s) o).
Proof. exact reload_id. Qed.
Print Assumptions reload_id.

Theorem pickle_id : forall s h oid o s' hn,
  state_ok s -> lookup s h = Some (oid, o) -> step s (OpPickle h) = (s', Ok (ONew hn)) ->
  handle_db s' hn = Some (view (bufs s) o).
Proof. exact pickle_id. Qed.
Print Assumptions pickle_id.

Theorem getitem_int_spec : forall d b i,
  dbits d = Some b ->
  let n := Z.of_nat (fp_num d) in
  get_int d i =
    if (i <? - n) || (n <=? i) then Raises EIndex
    else let j := Z.to_nat (if i <? 0 then i + n else i) in
         Ok (OFp (row_fp (dkind d) b (dlevel d) (nth j (dnames d) None) (nth j (drows d) [])) (row_props d j)).
Proof. exact getitem_int_spec. Qed.
Print Assumptions getitem_int_spec.

(* exactly the rows carrying the name, in row order; an absent name raises KeyError; the state is returned unchanged *)
Theorem getitem_name_spec : forall s h oid o nm,
  state_ok s -> lookup s h = Some (oid, o) ->
  let d := view (bufs s) o in
  step s (OpGetName h nm) =
    (s, if existsb (okey_eqb (Some nm)) (dnames d)
        then match dbits d with
             | Some b => Ok (OFps (map (fun i => fprint_at d b (Z.to_nat i)) (positions (Some nm) (dnames d) 0)))
             | None => Raises EType
             end
        else Raises EKey).
Proof. exact getitem_name_spec. Qed.
Print Assumptions getitem_name_spec.

(* rows produced by folding: columns strictly increasing and below the new length *)
Theorem fold_rows_wf : forall k nb r, 0 < nb ->
  ssorted (map fst (fold_row k nb r)) /\ forall j, In j (map fst (fold_row k nb r)) -> 0 <= j < nb.
Proof. exact fold_rows_wf. Qed.
Print Assumptions fold_rows_wf.

(* ---------------------------------------------------------------- ownership *)
(* no operation writes a buffer that existed before it, or an object other than its target: the store and the pool only grow *)
Theorem store_only_grows : forall s o, ext s (fst (step s o)) (target_of s o).
Proof. exact step_ext. Qed.
Print Assumptions store_only_grows.

(* lookups (also of absent names), iteration, ==, density, len, similarity: the state itself is returned *)
Theorem pure_reads_change_nothing : forall s o, is_pure_read o = true -> fst (step s o) = s.
Proof. exact pure_reads_change_nothing. Qed.
Print Assumptions pure_reads_change_nothing.

(* every operation except add / set_prop / update_props (so also fold, get_subset, as_type, copy, pickle, concat) leaves
   every database of the pool as it was ... *)
Theorem reads_do_not_change : forall s o h d,
  state_ok s -> is_mutator o = false -> handle_db s h = Some d -> handle_db (fst (step s o)) h = Some d.
Proof. exact reads_do_not_change. Qed.
Print Assumptions reads_do_not_change.

(* ... hence its contents and its equality to any other database *)
Theorem reads_keep_eq : forall s o h1 h2 d1 d2,
  state_ok s -> is_mutator o = false -> handle_db s h1 = Some d1 -> handle_db s h2 = Some d2 ->
  exists d1' d2', handle_db (fst (step s o)) h1 = Some d1' /\ handle_db (fst (step s o)) h2 = Some d2'
                  /\ abs d1' = abs d1 /\ db_eq d1' d2' = db_eq d1 d2.
Proof. exact reads_keep_eq. Qed.
Print Assumptions reads_keep_eq.

(* over any history: an operation leaves every database unchanged that is not the very object it is applied to (two
   handles denote the same object only through as_type(same type, copy=False), which returns self) *)
Theorem snapshots_independent : forall ops o h oid ob,
  let s := run init ops in
  lookup s h = Some (oid, ob) -> Some oid <> target_of s o ->
  handle_db (fst (step s o)) h = handle_db s h.
Proof. exact snapshots_independent. Qed.
Print Assumptions snapshots_independent.

(* ---------------------------------------------------------------- non-vacuity *)
Definition ex_fp (nm : option string) (i : Z) (p : Z) : fpin := mkfpin (mkfp KCount 16 (Some 5) [i; i + 8] [(i, 2%Q); (i + 8, 3%Q)] nm) [("p"%string, VInt p)].
(* duplicate and None names; a copy; a fold (collision 1/9 -> 1); an addition to the copy only *)
Definition ex_hist : list op :=
  [OpNew KCount (Some 5); OpAdd 0 [ex_fp (Some "a"%string) 1 10; ex_fp None 2 20; ex_fp (Some "a"%string) 3 30];
   OpCopy 0; OpFold 0 8 None; OpAdd 1 [ex_fp (Some "b"%string) 4 40];
   OpNew KCount (Some 5); OpSetProp 3 "p"%string []; OpAdd 3 [ex_fp None 5 50]; OpReload 3 true].
Example ex_hist_wf : Forall op_wf ex_hist.
Proof.
  unfold ex_hist.
  repeat match goal with |- Forall _ (_ :: _) => apply Forall_cons | |- Forall _ [] => apply Forall_nil end; try exact I; unfold op_wf;
  repeat match goal with |- Forall _ (_ :: _) => apply Forall_cons | |- Forall _ [] => apply Forall_nil end;
  unfold fp_wf, ex_fp, ssorted; cbn [fi_fp fidx fbits];
  (split; [repeat match goal with |- Sorted.StronglySorted _ _ => constructor | |- Forall _ _ => constructor end; lia
          | intros i Hi; simpl in Hi; intuition lia]).
Qed.
Example ex_hist_facts :
  let s := run init ex_hist in
  option_map fp_num (handle_db s 0) = Some 3%nat /\ option_map fp_num (handle_db s 1) = Some 4%nat
  /\ option_map dindex (handle_db s 0) = Some [(Some "a"%string, [0; 2]); (None, [1])]
  /\ option_map drows (handle_db s 2) = Some [[(1, 5%Q)]; [(2, 5%Q)]; [(3, 5%Q)]]
  /\ snd (step s (OpGetName 0 "zz"%string)) = Raises EKey
  /\ option_map dprops (handle_db s 4) = Some [("p"%string, [VInt 50])].                (* declared on the empty database, reloaded *)
Proof. vm_compute. repeat split. Qed.
