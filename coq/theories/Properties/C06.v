(* C06 - similarity measures equal their definitions in every representation.
   Statements only; proofs are in Proofs/Metrics*.v.  Model: Model/Metrics.v (M4). *)
From Coq Require Import QArith Qabs Qminmax.
From E3FP Require Import Base.Prelude Base.ZSet Model.Fprint Model.Metrics Proofs.Metrics.
Open Scope Z_scope.

Theorem width_mismatch_rejected_array : forall m X Y,
  arr_width X <> arr_width Y -> array_metric m X (Some Y) = Raises EValue.
Proof. exact width_mismatch_array. Qed.
Print Assumptions width_mismatch_rejected_array.
