(* C06 - similarity measures equal their definitions in every representation.
   Statements only; proofs are in Proofs/Metrics*.v.  Model: Model/Metrics.v (M4), exact rationals.
   Reading guide:
     vec = list Q (dense vector);  row = list (Z * Q) (a CSR row as stored: any order, explicit zeros, repeated columns);
     expand n r = the dense vector of a row (toarray);  fp_dense a = the dense vector of a fingerprint (to_vector);
     rooted values (cosine, Pearson) num/sqrt(den2) are compared through their signed square rsq = num*|num|/den2, a
     rational: t |-> t|t| is strictly increasing, so equality / order of signed squares is equality / order of the values;
     nonneg / binary / allzero : Forall (0 <= .) / (. == 0 \/ . == 1) / (. == 0);  in_range n r: columns in [0, n);
     row_nonneg r: stored values >= 0;  wf_fp a: indices strictly increasing and < bits, counts keyed by the indices, >= 0;
     no_stored_zero a: no count stored as 0;  value_eqv: == on rationals, rsq-equality on rooted values. *)
From Coq Require Import QArith Qabs Qminmax.
From E3FP Require Import Base.Prelude Base.ZSet Model.Fprint Model.Metrics.
From E3FP Require Import Proofs.MetricsBase Proofs.MetricsDefs Proofs.MetricsDense Proofs.MetricsSparse Proofs.MetricsFp Proofs.Metrics.
Open Scope Q_scope.

(* the sums of the model (kept in lowest terms for evaluation) are plain sums *)
Theorem qsumr_is_sum : forall l, qsumr l == fold_right Qplus 0 l.
Proof. exact qsumr_qsum. Qed.
Print Assumptions qsumr_is_sum.

(* ------------------------------------------------------------------ consequences of the definitions *)
Theorem tanimoto_symmetric : forall x y, tanimoto_def x y == tanimoto_def y x.
Proof. exact tanimoto_symmetric. Qed.
Print Assumptions tanimoto_symmetric.

Theorem dice_symmetric : forall x y, dice_def x y == dice_def y x.
Proof. exact dice_symmetric. Qed.
Print Assumptions dice_symmetric.

Theorem cosine_symmetric : forall x y, rsq (cosine_def x y) == rsq (cosine_def y x).
Proof. exact cosine_symmetric. Qed.
Print Assumptions cosine_symmetric.

Theorem pearson_symmetric : forall x y, rsq (pearson_def x y) == rsq (pearson_def y x).
Proof. exact pearson_symmetric. Qed.
Print Assumptions pearson_symmetric.

Theorem soergel_symmetric : forall x y, soergel_def x y == soergel_def y x.
Proof. exact soergel_symmetric. Qed.
Print Assumptions soergel_symmetric.

(* a non-empty (Pearson: non-constant) vector has similarity 1 to itself *)
Theorem tanimoto_self_one : forall x, (exists a, In a x /\ ~ a == 0) -> tanimoto_def x x == 1.
Proof. exact tanimoto_self_one. Qed.
Print Assumptions tanimoto_self_one.

Theorem dice_self_one : forall x, (exists a, In a x /\ ~ a == 0) -> dice_def x x == 1.
Proof. exact dice_self_one. Qed.
Print Assumptions dice_self_one.

Theorem cosine_self_one : forall x, (exists a, In a x /\ ~ a == 0) -> rsq (cosine_def x x) == 1.
Proof. exact cosine_self_one. Qed.
Print Assumptions cosine_self_one.

Theorem pearson_self_one : forall x, (exists a b, In a x /\ In b x /\ ~ a == b) -> rsq (pearson_def x x) == 1.
Proof. exact pearson_self_one. Qed.
Print Assumptions pearson_self_one.

Theorem soergel_self_one : forall x, nonneg x -> (exists a, In a x /\ ~ a == 0) -> soergel_def x x == 1.
Proof. exact soergel_self_one. Qed.
Print Assumptions soergel_self_one.

(* the binary measures and Soergel lie in [0, 1] *)
Theorem tanimoto_range_01 : forall x y, 0 <= tanimoto_def x y <= 1.
Proof. exact tanimoto_range. Qed.
Print Assumptions tanimoto_range_01.

Theorem dice_range_01 : forall x y, length x = length y -> 0 <= dice_def x y <= 1.
Proof. exact dice_range. Qed.
Print Assumptions dice_range_01.

Theorem soergel_range_01 : forall x y, nonneg x -> nonneg y -> 0 <= soergel_def x y <= 1.
Proof. exact soergel_range. Qed.
Print Assumptions soergel_range_01.

(* Cauchy-Schwarz over lists, and its consequences in squared form *)
Theorem cauchy_schwarz : forall x y, dot x y * dot x y <= dot x x * dot y y.
Proof. exact cauchy_schwarz. Qed.
Print Assumptions cauchy_schwarz.

Theorem cosine_sq_le_1 : forall x y, -1 <= rsq (cosine_def x y) <= 1.
Proof. exact cosine_sq_le_1. Qed.
Print Assumptions cosine_sq_le_1.

Theorem pearson_sq_le_1 : forall x y, -1 <= rsq (pearson_def x y) <= 1.
Proof. exact pearson_sq_le_1. Qed.
Print Assumptions pearson_sq_le_1.

Theorem cosine_nonneg : forall x y, nonneg x -> nonneg y -> 0 <= rsq (cosine_def x y).
Proof. exact cosine_nonneg. Qed.
Print Assumptions cosine_nonneg.

Theorem soergel_binary_eq_tanimoto : forall x y, binary x -> binary y -> soergel_def x y == tanimoto_def x y.
Proof. exact soergel_binary_eq_tanimoto. Qed.
Print Assumptions soergel_binary_eq_tanimoto.

(* an all-zero vector scores 0 (never NaN, never an error), for all five *)
Theorem tanimoto_zero_vector_zero : forall x y, allzero x -> tanimoto_def x y == 0.
Proof. exact tanimoto_zero. Qed.
Print Assumptions tanimoto_zero_vector_zero.

Theorem dice_zero_vector_zero : forall x y, allzero x -> dice_def x y == 0.
Proof. exact dice_zero. Qed.
Print Assumptions dice_zero_vector_zero.

Theorem cosine_zero_vector_zero : forall x y, allzero x -> rsq (cosine_def x y) == 0.
Proof. exact cosine_zero. Qed.
Print Assumptions cosine_zero_vector_zero.

Theorem pearson_zero_vector_zero : forall x y, allzero x -> rsq (pearson_def x y) == 0.
Proof. exact pearson_zero. Qed.
Print Assumptions pearson_zero_vector_zero.

Theorem soergel_zero_vector_zero : forall x y, length x = length y -> allzero x -> nonneg y -> soergel_def x y == 0.
Proof. exact soergel_zero. Qed.
Print Assumptions soergel_zero_vector_zero.

(* ------------------------------------------------------------------ dense-array paths = definitions *)
(* array_metrics.tanimoto/dice: "Data must be binary. This is not checked." - hence the hypothesis `binary`
   (see arr_tanimoto_nonbinary_outside_contract below) *)
Theorem arr_tanimoto_eq_def : forall x y, length x = length y -> binary x -> binary y ->
  arr_tanimoto x y == tanimoto_def x y.
Proof. exact arr_tanimoto_eq_def. Qed.
Print Assumptions arr_tanimoto_eq_def.

Theorem arr_dice_eq_def : forall x y, length x = length y -> binary x -> binary y -> arr_dice x y == dice_def x y.
Proof. exact arr_dice_eq_def. Qed.
Print Assumptions arr_dice_eq_def.

Theorem arr_cosine_eq_def : forall x y, rsq (arr_cosine x y) == rsq (cosine_def x y).
Proof. exact arr_cosine_eq_def. Qed.
Print Assumptions arr_cosine_eq_def.

Theorem arr_pearson_eq_def : forall x y, length x = length y -> rsq (arr_pearson x y) == rsq (pearson_def x y).
Proof. exact arr_pearson_eq_def. Qed.
Print Assumptions arr_pearson_eq_def.

Theorem arr_soergel_eq_def : forall x y, arr_soergel x y == soergel_def x y.
Proof. exact arr_soergel_eq_def. Qed.
Print Assumptions arr_soergel_eq_def.

(* ------------------------------------------------------------------ CSR paths = definitions on the expansions *)
Theorem sp_tanimoto_eq_def : forall n r s, (0 <= n)%Z -> in_range n r -> in_range n s -> row_binary n r -> row_binary n s ->
  sp_tanimoto r s == tanimoto_def (expand n r) (expand n s).
Proof. exact sp_tanimoto_eq_def. Qed.
Print Assumptions sp_tanimoto_eq_def.

Theorem sp_dice_eq_def : forall n r s, (0 <= n)%Z -> in_range n r -> in_range n s -> row_binary n r -> row_binary n s ->
  sp_dice r s == dice_def (expand n r) (expand n s).
Proof. exact sp_dice_eq_def. Qed.
Print Assumptions sp_dice_eq_def.

Theorem sp_cosine_eq_def : forall n r s, in_range n r -> in_range n s ->
  rsq (sp_cosine r s) == rsq (cosine_def (expand n r) (expand n s)).
Proof. exact sp_cosine_eq_def. Qed.
Print Assumptions sp_cosine_eq_def.

Theorem sp_pearson_eq_def : forall n r s, (0 <= n)%Z -> in_range n r -> in_range n s ->
  rsq (sp_pearson n r s) == rsq (pearson_def (expand n r) (expand n s)).
Proof. exact sp_pearson_eq_def. Qed.
Print Assumptions sp_pearson_eq_def.

(* the merge loop with its two tail loops and empty-row short-cuts, after canonicalisation: rows stored in ANY order,
   with explicit zeros and repeated column indices, non-negative stored values *)
Theorem sparse_soergel_eq_def : forall n rx ry,
  (0 <= n)%Z -> in_range n rx -> in_range n ry -> row_nonneg rx -> row_nonneg ry ->
  sp_soergel rx ry == soergel_def (expand n rx) (expand n ry).
Proof. exact sp_soergel_eq_def. Qed.
Print Assumptions sparse_soergel_eq_def.

(* the kernel itself on strictly sorted rows: sums of |x-y| and max(x,y) in terms of row sums and common minima *)
Theorem sparse_soergel_sorted : forall rx ry sad smax,
  rsorted rx -> rsorted ry -> row_nonneg rx -> row_nonneg ry ->
  fst (smerge rx ry sad smax) == sad + (rsum rx + rsum ry - 2 * rmin rx ry) /\
  snd (smerge rx ry sad smax) == smax + (rsum rx + rsum ry - rmin rx ry).
Proof. exact (fun rx ry sad smax => smerge_spec rx ry sad smax). Qed.
Print Assumptions sparse_soergel_sorted.

(* ------------------------------------------------------------------ fingerprint-pair paths = definitions *)
(* _partial: holds for fingerprints without a stored zero count ... *)
Theorem fp_tanimoto_eq_def_partial : forall a b, wf_fp a -> wf_fp b -> no_stored_zero a -> no_stored_zero b ->
  (0 <= fbits a)%Z -> fbits a = fbits b -> fp_tanimoto a b == tanimoto_def (fp_dense a) (fp_dense b).
Proof. exact fp_tanimoto_eq_def. Qed.
Print Assumptions fp_tanimoto_eq_def_partial.

Theorem fp_dice_eq_def_partial : forall a b, wf_fp a -> wf_fp b -> no_stored_zero a -> no_stored_zero b ->
  fbits a = fbits b -> fp_dice a b == dice_def (fp_dense a) (fp_dense b).
Proof. exact fp_dice_eq_def. Qed.
Print Assumptions fp_dice_eq_def_partial.

(* ... _refuted with one (known finding fp-tanimoto-dice-explicit-zero-count): z = d - d is an all-zero fingerprint and
   scores 1 against d, while the definition and the fingerprint-vs-database form give 0 *)
Theorem fp_tanimoto_explicit_zero_refuted :
  exists a b, wf_fp a /\ wf_fp b /\ fbits a = fbits b /\ allzero (fp_dense a) /\
              fp_tanimoto a b == 1 /\ tanimoto_def (fp_dense a) (fp_dense b) == 0 /\
              (exists v, dispatch MTanimoto (IFp a) (Some (IDb (own_db b))) = Ok (Matrix [[VQ v]]) /\ v == 0).
Proof. exact fp_tanimoto_explicit_zero_refuted. Qed.
Print Assumptions fp_tanimoto_explicit_zero_refuted.

Theorem fp_dice_explicit_zero_refuted :
  exists a b, wf_fp a /\ wf_fp b /\ fbits a = fbits b /\ allzero (fp_dense a) /\
              fp_dice a b == 1 /\ dice_def (fp_dense a) (fp_dense b) == 0.
Proof. exact fp_dice_explicit_zero_refuted. Qed.
Print Assumptions fp_dice_explicit_zero_refuted.

Theorem fp_cosine_eq_def : forall a b, wf_fp a -> wf_fp b -> fbits a = fbits b ->
  rsq (fp_cosine a b) == rsq (cosine_def (fp_dense a) (fp_dense b)).
Proof. exact fp_cosine_eq_def. Qed.
Print Assumptions fp_cosine_eq_def.

(* E[xy] - E[x]E[y] over std*std (population 1/bits) equals the centred form *)
Theorem fp_pearson_eq_def : forall a b, wf_fp a -> wf_fp b -> (0 < fbits a)%Z -> fbits a = fbits b ->
  rsq (fp_pearson a b) == rsq (pearson_def (fp_dense a) (fp_dense b)).
Proof. exact fp_pearson_eq_def. Qed.
Print Assumptions fp_pearson_eq_def.

(* the 1/(n-1) of the array form and the 1/bits of the fingerprint form cancel *)
Theorem pearson_array_eq_fp : forall a b, wf_fp a -> wf_fp b -> (0 < fbits a)%Z -> fbits a = fbits b ->
  rsq (arr_pearson (fp_dense a) (fp_dense b)) == rsq (fp_pearson a b).
Proof. exact pearson_array_eq_fp. Qed.
Print Assumptions pearson_array_eq_fp.

(* bit/bit: Tanimoto; otherwise the counts of both (a bit fingerprint counts 1 per index) *)
Theorem fp_soergel_eq_def : forall a b, wf_fp a -> wf_fp b -> (0 <= fbits a)%Z -> fbits a = fbits b ->
  fp_soergel a b == soergel_def (fp_dense a) (fp_dense b).
Proof. exact fp_soergel_eq_def. Qed.
Print Assumptions fp_soergel_eq_def.

(* a note, not an alarm: outside the documented contract of array_metrics.tanimoto/dice *)
Theorem arr_tanimoto_nonbinary_outside_contract :
  arr_tanimoto [inject_Z 2; 0; inject_Z 3; 0] [inject_Z 2; 1; inject_Z 3; 0] == - (13 # 2) /\
  tanimoto_def [inject_Z 2; 0; inject_Z 3; 0] [inject_Z 2; 1; inject_Z 3; 0] == 2 # 3.
Proof. exact arr_tanimoto_nonbinary_note. Qed.
Print Assumptions arr_tanimoto_nonbinary_outside_contract.

(* ------------------------------------------------------------------ calling conventions *)
Theorem width_mismatch_rejected : forall m A B x y,
  item_bits A = Some x -> item_bits B = Some y -> x <> y -> dispatch m A (Some B) = Raises EBits.
Proof. exact bits_mismatch_dispatch. Qed.
Print Assumptions width_mismatch_rejected.

Theorem width_mismatch_rejected_array : forall m X Y,
  arr_width X <> arr_width Y -> array_metric m X (Some Y) = Raises EValue.
Proof. exact width_mismatch_array. Qed.
Print Assumptions width_mismatch_rejected_array.

Theorem non_fingerprint_rejected : forall m A,
  dispatch m IOther (Some A) = Raises EType /\ dispatch m A (Some IOther) = Raises EType.
Proof. exact (fun m A => conj (non_fingerprint_dispatch_l m A) (non_fingerprint_dispatch_r m A)). Qed.
Print Assumptions non_fingerprint_rejected.

(* the four calling forms on two fingerprints (own_db x = the one-row database holding x) reach paths that all return
   the definition on the fingerprints' dense vectors; Tanimoto/Dice: no stored zero count (only the (fp,fp) form needs it) *)
Theorem dispatch_consistent : forall m a b,
  wf_fp a -> wf_fp b -> (0 < fbits a)%Z -> fbits a = fbits b ->
  (cast_type m <> None -> no_stored_zero a /\ no_stored_zero b) ->
  let d := def_metric m (fp_dense a) (fp_dense b) in
  (exists v, dispatch m (IFp a) (Some (IFp b)) = Ok (Scalar v) /\ value_eqv v d) /\
  (exists v, dispatch m (IFp a) (Some (IDb (own_db b))) = Ok (Matrix [[v]]) /\ value_eqv v d) /\
  (exists v, dispatch m (IDb (own_db a)) (Some (IFp b)) = Ok (Matrix [[v]]) /\ value_eqv v d) /\
  (exists v, dispatch m (IDb (own_db a)) (Some (IDb (own_db b))) = Ok (Matrix [[v]]) /\ value_eqv v d).
Proof. exact dispatch_consistent. Qed.
Print Assumptions dispatch_consistent.

(* ------------------------------------------------------------------ the hypotheses are satisfiable *)
Example ex_fp_a : fp := mkfp KCount 16 (Some 5%Z) [1%Z; 4%Z; 9%Z] [(1%Z, inject_Z 2); (4%Z, 1); (9%Z, inject_Z 7)] None.
Example ex_fp_b : fp := mkfp KBit 16 None [4%Z; 9%Z; 15%Z] [] None.

Example ex_hypotheses : wf_fp ex_fp_a /\ wf_fp ex_fp_b /\ no_stored_zero ex_fp_a /\ no_stored_zero ex_fp_b /\
                        (0 < fbits ex_fp_a)%Z /\ fbits ex_fp_a = fbits ex_fp_b.
Proof.
  unfold wf_fp, no_stored_zero, ssorted. simpl.
  repeat split; repeat constructor; try lia; try reflexivity; simpl; unfold Qle, Qeq; simpl; lia.
Qed.

(* a count fingerprint against a bit fingerprint through the database form: Soergel = 1 - (2+6+1)/(2+1+7+1) = 2/11 *)
Example ex_dispatch_value :
  exists v, dispatch MSoergel (IFp ex_fp_a) (Some (IDb (own_db ex_fp_b))) = Ok (Matrix [[VQ v]]) /\ v == 2 # 11.
Proof. eexists. split; vm_compute; reflexivity. Qed.

(* an unsorted row with a repeated column and an explicit zero satisfies the hypotheses of sparse_soergel_eq_def *)
Example ex_noncanonical_row :
  let r := [(3%Z, inject_Z 2); (1%Z, 0); (3%Z, 1); (0%Z, inject_Z 5)] in
  in_range 4 r /\ row_nonneg r /\ sp_soergel r [(0%Z, inject_Z 5); (3%Z, inject_Z 3)] == 1.
Proof.
  unfold in_range, row_nonneg. simpl. repeat split; repeat constructor; try lia; simpl; unfold Qle; simpl; lia.
Qed.
