(* C06, source-derived obligations: the hand-written model of Model/Metrics.v equals the formulas TRANSLATED from the source
   text on this run (Gen/MetricsSource.v, written by harness/facts_metricsrc.py on every run).
   The translator reads the scalar arithmetic of the return expressions of fprint_metrics.py (tanimoto, dice, soergel, cosine,
   pearson), array_metrics.py (tanimoto, dice, _sparse_cosine, the loop bodies and the closing formula of _dense_soergel /
   _sparse_soergel) and fprint.py (Fingerprint / CountFingerprint .mean, .std) into Gallina over Q with the combinators of
   Base/PyExpr.v: a Python scalar is `option Q` (None = ZeroDivisionError raised), `try/except ZeroDivisionError: return c` is
   `handle (Some c)`, a quotient num / sqrt den2 is the pair (num, den2) (the model's `rooted`, through `rpair`), numpy's
   float division followed by nan_to_num is np_nan_to_num (np_div n d).  Everything that is not arithmetic is a named parameter
   of the generated definition; each theorem says which sub-term of the model it is instantiated with.
   Every theorem is proved by the one tactic `src_tie` of Proofs/MetricsSrc.v (which does not depend on the generated file): it
   decides the zero tests of the two sides separately and closes the cases by ring / field / linear arithmetic, so an
   algebraically equivalent reformulation of a Python expression is still proved, a different formula is not.
   Relations: oeq / oeq2 = `==` under option (on both components of a pair); qeq2 / qeq4 = componentwise `==`. *)
From Coq Require Import QArith Qabs Qminmax.
From E3FP Require Import Base.Prelude Base.ZSet Model.Fprint Model.Metrics.
From E3FP Require Import Proofs.MetricsBase Proofs.MetricsSparse.
From E3FP Require Import Base.PyExpr Gen.MetricsSource Proofs.MetricsSrc.
Open Scope Q_scope.

Theorem fp_tanimoto_matches_source : forall a b,
  oeq (Some (fp_tanimoto a b))
      (handle fp_tanimoto_zde_src (fp_tanimoto_src (qlen (zinter (fidx a) (fidx b))) (qlen (fidx a)) (qlen (fidx b)))).
Proof. src_tie. Qed.
Print Assumptions fp_tanimoto_matches_source.

Theorem fp_dice_matches_source : forall a b,
  oeq (Some (fp_dice a b))
      (handle fp_dice_zde_src (fp_dice_src (qlen (zinter (fidx a) (fidx b))) (qlen (fidx a)) (qlen (fidx b)))).
Proof. src_tie. Qed.
Print Assumptions fp_dice_matches_source.

Theorem fp_cosine_matches_source : forall a b,
  oeq2 (Some (rpair (fp_cosine a b)))
       (handle (root_of_q fp_cosine_zde_src)
          (oroot_div (fp_cosine_num_src (counts_of a) (counts_of b) (get_count b))
                     (fp_cosine_den2_src (counts_of a) (counts_of b) (get_count b)))).
Proof. src_tie. Qed.
Print Assumptions fp_cosine_matches_source.

(* mean() / std() of the class of a: Fingerprint for bit fingerprints, CountFingerprint otherwise *)
Definition src_mean (a : fp) : option Q :=
  match fkind a with
  | KBit => handle bit_mean_zde_src (bit_mean_src (qlen (fidx a)) (inject_Z (fbits a)))
  | _ => handle count_mean_zde_src (count_mean_src (fcnt a) (inject_Z (fbits a)))
  end.
Definition src_std_coef (a : fp) : option Q :=
  match fkind a with
  | KBit => handle bit_std_zde_src (bit_std_coef_src (src_mean a))
  | _ => handle count_std_zde_src (count_std_coef_src (fcnt a) (inject_Z (fbits a)) (src_mean a))
  end.
Definition src_std_sq (a : fp) : option Q :=
  match fkind a with
  | KBit => handle bit_std_zde_src (bit_std_sq_src (src_mean a))
  | _ => handle count_std_zde_src (count_std_sq_src (fcnt a) (inject_Z (fbits a)) (src_mean a))
  end.
#[local] Hint Unfold src_mean src_std_coef src_std_sq : metric_src.

Theorem fp_mean_matches_source : forall a,
  oeq (if (fbits a =? 0)%Z then None else Some (fp_mean a)) (src_mean a).
Proof. src_tie. Qed.
Print Assumptions fp_mean_matches_source.

Theorem fp_std_matches_source : forall a,
  oeq (if (fbits a =? 0)%Z then None else Some 1) (src_std_coef a) /\
  oeq (if (fbits a =? 0)%Z then None else Some (fp_var a)) (src_std_sq a).
Proof. src_tie. Qed.
Print Assumptions fp_std_matches_source.

Definition src_pearson (a b : fp) : option (Q * Q) :=
  handle (root_of_q fp_pearson_zde_src)
    (oroot_div
       (fp_pearson_num_src (counts_of a) (get_count b) (inject_Z (fbits a)) (src_mean a) (src_mean b)
                           (src_std_coef a) (src_std_sq a) (src_std_coef b) (src_std_sq b))
       (fp_pearson_den2_src (counts_of a) (get_count b) (inject_Z (fbits a)) (src_mean a) (src_mean b)
                            (src_std_coef a) (src_std_sq a) (src_std_coef b) (src_std_sq b))).
#[local] Hint Unfold src_pearson : metric_src.

Theorem fp_pearson_matches_source : forall a b, oeq2 (Some (rpair (fp_pearson a b))) (src_pearson a b).
Proof. src_tie. Qed.
Print Assumptions fp_pearson_matches_source.

Theorem fp_soergel_matches_source : forall a b,
  oeq (Some (fp_soergel a b))
      (handle fp_soergel_zde_src
         (fp_soergel_src (is_count_like a) (is_count_like b)
            (handle fp_tanimoto_zde_src (fp_tanimoto_src (qlen (zinter (fidx a) (fidx b))) (qlen (fidx a)) (qlen (fidx b))))
            (diff_keys a b) (fun k => cget (counts_of a) k - cget (counts_of b) k) (get_count a) (get_count b))).
Proof. src_tie. Qed.
Print Assumptions fp_soergel_matches_source.

Theorem arr_tanimoto_dice_match_source : forall x y,
  arr_tanimoto x y == arr_tanimoto_src (qsumr x) (qsumr y) (dot x y) /\
  arr_dice x y == arr_dice_src (qsumr x) (qsumr y) (dot x y).
Proof. src_tie. Qed.
Print Assumptions arr_tanimoto_dice_match_source.

Theorem sp_tanimoto_dice_match_source : forall r s,
  sp_tanimoto r s == arr_tanimoto_src (rsum r) (rsum s) (rdot r s) /\
  sp_dice r s == arr_dice_src (rsum r) (rsum s) (rdot r s).
Proof. src_tie. Qed.
Print Assumptions sp_tanimoto_dice_match_source.

Theorem sp_cosine_matches_source : forall n r s, in_range n r -> in_range n s ->
  qeq2 (rpair (sp_cosine r s)) (sparse_cosine_src (rsumsq r) (rsumsq s) (rdot r s)).
Proof. src_tie. Qed.
Print Assumptions sp_cosine_matches_source.

Theorem soergel_finish_matches_source : forall sad smax,
  oeq (Some (soergel_finish (sad, smax))) (dense_soergel_entry_src sad smax) /\
  oeq (Some (soergel_finish (sad, smax))) (sparse_soergel_entry_src sad smax).
Proof. src_tie. Qed.
Print Assumptions soergel_finish_matches_source.

Theorem dense_soergel_step_matches_source : forall a b x y sad smax, exists sad' smax',
  dsoergel_loop (a :: x) (b :: y) sad smax = dsoergel_loop x y sad' smax' /\
  qeq2 (sad', smax') (dense_soergel_step_src a b sad smax).
Proof. src_tie. Qed.
Print Assumptions dense_soergel_step_matches_source.

Theorem sparse_soergel_merge_matches_source : forall i v rx j w ry sad smax, exists sad' smax' (dx dy : bool),
  smerge ((i, v) :: rx) ((j, w) :: ry) sad smax
    = smerge (if dx then rx else (i, v) :: rx) (if dy then ry else (j, w) :: ry) sad' smax' /\
  qeq4 (sad', smax', b01 dx, b01 dy) (sparse_soergel_merge_src i j v w sad smax 0 0).
Proof. src_tie. Qed.
Print Assumptions sparse_soergel_merge_matches_source.

Theorem sparse_soergel_tails_match_source : forall i v t sad smax, exists sad' smax',
  stail ((i, v) :: t) sad smax = stail t sad' smax' /\
  qeq4 (sad', smax', 1, 0) (sparse_soergel_tail_x_src v sad smax 0 0) /\
  qeq4 (sad', smax', 0, 1) (sparse_soergel_tail_y_src v sad smax 0 0).
Proof. src_tie. Qed.
Print Assumptions sparse_soergel_tails_match_source.
