(* C07 - folding is index reduction and commutes with every route to a folded result: the FINGERPRINT part.
   Statements only; proofs are in Proofs/FprintFold.v.  Model: Model/Fprint.v (M2): fp_fold, fp_fold_cm, fold_index,
   fold_check, unfold_map, folding_map.
   (The database route and the fingerprinter route of the property are added to this file by their builders; the
   correspondence harness props/c07.py has the matching hook points.)

   Reading guide.  `fp_fold a nb method` models `a.fold(bits=nb, method=method)` for the three classes; `fidx` = indices,
   `fcnt` = the counts dict, `cget m i` = m.get(i, 0), `get_count a i` = a.get_count(i), `fibre a nb method j` = the
   original positions that land on folded position j, `cast_value k` = the counts setter of class k (int() / float()).
   `==` is equality of rationals.  Every implication is followed by an `Example` satisfying its hypotheses.

   Value semantics.  In the model a fingerprint is an immutable value, so "folding returns a new object", "the source is
   unchanged" and "linked=False gives the same folded value" hold by construction; they are statements about the
   implementation's objects and are checked there by props/c07.py on every case (source re-observed after every fold,
   repeated calls, options, and whether results handed out earlier keep their value). *)
From Coq Require Import QArith.
From E3FP Require Import Base.Prelude Base.ZSet Model.Fprint Proofs.FprintOps Proofs.FprintFold.
Open Scope Z_scope.

(* ---------------------------------------------------------------------------------------------- *)
(* which folds are accepted                                                                         *)
Theorem pow2_ratio_spec : forall bits nb, pow2_ratio bits nb = true <-> 0 < nb /\ exists k, 0 <= k /\ bits = nb * 2 ^ k.
Proof. exact pow2_ratio_spec. Qed.
Print Assumptions pow2_ratio_spec.

(* accepted iff 0 < nb <= bits, bits = nb * 2^k for some k >= 0, and method is 0 or 1 *)
Theorem fold_accepts : forall a nb m,
  (0 < nb <= fbits a /\ (exists k, 0 <= k /\ fbits a = nb * 2 ^ k) /\ (m = 0 \/ m = 1)) <-> exists r, fp_fold a nb m = Ok r.
Proof. exact fold_accepts. Qed.
Print Assumptions fold_accepts.
Example fold_accepts_nonvacuous :
  fp_fold (mkfp KBit 12 (Some 5) [1; 4; 7; 10] [] None) 3 0 = Ok (mkfp KBit 3 (Some 5) [1] [] None) /\ 12 = 3 * 2 ^ 2.
Proof. split; vm_compute; reflexivity. Qed.

(* rejections, in the order of the code's tests: too long; division by zero; ratio not a power of two (also every
   negative length); method *)
Theorem fold_rejects : forall a nb m,
  (fbits a < nb -> fp_fold a nb m = Raises EBits) /\
  (nb = 0 -> 0 <= fbits a -> fp_fold a nb m = Raises EOther) /\
  (nb <= fbits a -> nb <> 0 -> ~ (0 < nb /\ exists k, 0 <= k /\ fbits a = nb * 2 ^ k) -> fp_fold a nb m = Raises EBits) /\
  (0 < nb <= fbits a -> (exists k, 0 <= k /\ fbits a = nb * 2 ^ k) -> m <> 0 -> m <> 1 -> fp_fold a nb m = Raises EOption).
Proof. exact fold_rejects. Qed.
Print Assumptions fold_rejects.
Example fold_rejects_nonvacuous :
  let a := mkfp KCount 8 (Some 5) [1; 5] [(1, 2 # 1); (5, 3 # 1)] None in
  fp_fold a 16 0 = Raises EBits /\ fp_fold a 0 0 = Raises EOther /\ fp_fold a 3 0 = Raises EBits /\
  fp_fold a 6 1 = Raises EBits /\ fp_fold a (-4) 0 = Raises EBits /\ fp_fold a 4 2 = Raises EOption.
Proof. vm_compute. repeat split. Qed.

(* nothing else can happen *)
Theorem fold_total : forall a nb m, exists x, fp_fold a nb m = x /\
  match x with Ok _ => fold_ok a nb m | Raises e => ~ fold_ok a nb m /\ (e = EBits \/ e = EOther \/ e = EOption) end.
Proof. exact fold_total. Qed.
Print Assumptions fold_total.

(* ---------------------------------------------------------------------------------------------- *)
(* positions                                                                                        *)
(* method 0 (partition): each position goes to its remainder modulo the new length *)
Theorem fold_partition_spec : forall a nb r, fp_fold a nb 0 = Ok r ->
  forall j, In j (fidx r) <-> exists i, In i (fidx a) /\ i mod nb = j.
Proof. exact fold_partition_spec. Qed.
Print Assumptions fold_partition_spec.
Example fold_partition_nonvacuous :
  fp_fold (mkfp KBit 16 (Some 5) [1; 4; 9; 15] [] (Some "m"%string)) 8 0 = Ok (mkfp KBit 8 (Some 5) [1; 4; 7] [] (Some "m"%string)).
Proof. vm_compute. reflexivity. Qed.

(* method 1 (compression): each position goes to its quotient by the length ratio *)
Theorem fold_compress_spec : forall a nb r, fp_fold a nb 1 = Ok r ->
  forall j, In j (fidx r) <-> exists i, In i (fidx a) /\ i / (fbits a / nb) = j.
Proof. exact fold_compress_spec. Qed.
Print Assumptions fold_compress_spec.
Example fold_compress_nonvacuous :
  fp_fold (mkfp KBit 16 (Some 5) [1; 4; 5; 15] [] None) 8 1 = Ok (mkfp KBit 8 (Some 5) [0; 2; 7] [] None).
Proof. vm_compute. reflexivity. Qed.

(* class, level and name are kept, the length is the requested one, indices are strictly increasing, and the count keys
   are the indices *)
Theorem fold_keeps_level_bits_kind : forall a nb m r, fp_fold a nb m = Ok r ->
  fkind r = fkind a /\ fbits r = nb /\ flevel r = flevel a /\ fname r = fname a /\ ssorted (fidx r) /\
  (is_count_like a = true -> ckeys (fcnt r) = fidx r) /\ (fkind a = KBit -> fcnt r = []).
Proof. exact fold_keeps_level_bits_kind. Qed.
Print Assumptions fold_keeps_level_bits_kind.

(* positions of a well-formed source (all in [0, length)) land in [0, nb); with method 0 even negative ones do *)
Theorem fold_result_in_range : forall a nb m r, wf_range a -> fp_fold a nb m = Ok r -> wf_range r.
Proof. exact fold_result_in_range. Qed.
Print Assumptions fold_result_in_range.
Theorem fold_partition_in_range : forall a nb r, fp_fold a nb 0 = Ok r -> Forall (fun j => 0 <= j < nb) (fidx r).
Proof. exact fold_partition_in_range. Qed.
Print Assumptions fold_partition_in_range.
Example fold_in_range_nonvacuous : wf_range (mkfp KBit 16 (Some 5) [1; 4; 9; 15] [] None).
Proof. unfold wf_range; simpl. repeat (constructor; [lia|]). constructor. Qed.

(* ---------------------------------------------------------------------------------------------- *)
(* bit fingerprints: collisions are combined with OR                                                *)
Theorem fold_bit_or : forall a nb m r, fp_fold a nb m = Ok r -> fkind a = KBit ->
  forall j, get_count r j = if existsb (fun i => fold_index m (fbits a) nb i =? j) (fidx a) then 1%Q else 0%Q.
Proof. exact fold_bit_or. Qed.
Print Assumptions fold_bit_or.

(* the docstring's reading: the array is cut into blocks of length nb that are OR-ed position by position ... *)
Theorem fold_bit_or_partition : forall a nb r, fp_fold a nb 0 = Ok r -> forall j, 0 <= j < nb ->
  (In j (fidx r) <-> exists q, In (j + q * nb) (fidx a)).
Proof. exact fold_bit_or_partition. Qed.
Print Assumptions fold_bit_or_partition.

(* ... or every run of bits/nb adjacent positions is OR-ed *)
Theorem fold_bit_or_compress : forall a nb r, fp_fold a nb 1 = Ok r -> forall j,
  (In j (fidx r) <-> exists t, 0 <= t < fbits a / nb /\ In (j * (fbits a / nb) + t) (fidx a)).
Proof. exact fold_bit_or_compress. Qed.
Print Assumptions fold_bit_or_compress.

(* ---------------------------------------------------------------------------------------------- *)
(* count / float fingerprints: collisions are summed, the total is conserved                         *)
Theorem fold_count_value : forall a nb m r, fp_fold a nb m = Ok r -> is_count_like a = true ->
  forall j, cget (fcnt r) j = cast_value (fkind a) (qsum (map (get_count a) (fibre a nb m j))).
Proof. exact fold_count_value. Qed.
Print Assumptions fold_count_value.

(* float counts, or integer-valued counts (every CountFingerprint): the class cast is the identity *)
Theorem fold_count_value_sum : forall a nb m r, fp_fold a nb m = Ok r -> is_count_like a = true -> exact_counts a ->
  forall j, cget (fcnt r) j = qsum (map (get_count a) (fibre a nb m j)).
Proof. exact fold_count_value_sum. Qed.
Print Assumptions fold_count_value_sum.
Example fold_count_value_nonvacuous :
  let a := mkfp KCount 16 (Some 5) [1; 4; 9; 12] [(1, 2 # 1); (4, 7 # 1); (9, 3 # 1); (12, 1 # 1)] None in
  fp_fold a 8 0 = Ok (mkfp KCount 8 (Some 5) [1; 4] [(1, 5 # 1); (4, 8 # 1)] None) /\
  fibre a 8 0 1 = [1; 9] /\ exact_counts a.
Proof.
  split; [vm_compute; reflexivity|]. split; [vm_compute; reflexivity|]. right. intro i. unfold get_count. simpl.
  destruct (i =? 1); [exists 2; reflexivity|]. destruct (i =? 4); [exists 7; reflexivity|].
  destruct (i =? 9); [exists 3; reflexivity|]. destruct (i =? 12); [exists 1; reflexivity|]. exists 0. reflexivity.
Qed.

Theorem fold_count_total : forall a nb m r, fp_fold a nb m = Ok r -> is_count_like a = true -> exact_counts a ->
  ckeys (fcnt a) = fidx a -> NoDup (fidx a) ->
  qsum (map snd (fcnt r)) == qsum (map snd (fcnt a)).
Proof. exact fold_count_total. Qed.
Print Assumptions fold_count_total.

(* without the consistency hypothesis: the counts of the result's indices sum to the counts of the source's indices *)
Theorem fold_count_total_idx : forall a nb m r, fp_fold a nb m = Ok r -> is_count_like a = true -> exact_counts a ->
  qsum (map (cget (fcnt r)) (fidx r)) == qsum (map (get_count a) (fidx a)).
Proof. exact fold_count_total_idx. Qed.
Print Assumptions fold_count_total_idx.
Example fold_count_total_nonvacuous :
  let a := mkfp KFloat 16 None [1; 4; 9; 12] [(1, 5 # 2); (4, 7 # 1); (9, 3 # 4); (12, 1 # 1)] None in
  result_eqb fp_obs_eqb (fp_fold a 4 1) (Ok (mkfp KFloat 4 None [0; 1; 2; 3] [(0, 5 # 2); (1, 7 # 1); (2, 3 # 4); (3, 1 # 1)] None)) = true /\
  result_eqb fp_obs_eqb (fp_fold a 2 1) (Ok (mkfp KFloat 2 None [0; 1] [(0, 19 # 2); (1, 7 # 4)] None)) = true /\
  exact_counts a /\ ckeys (fcnt a) = fidx a.
Proof. split; [vm_compute; reflexivity|]. split; [vm_compute; reflexivity|]. split; [left|]; reflexivity. Qed.

(* ---------------------------------------------------------------------------------------------- *)
(* the recorded index maps: unfolding map = the fibres, which partition the source's indices         *)
Theorem unfold_map_spec : forall a nb m r, fp_fold a nb m = Ok r ->
  map fst (unfold_map a nb m) = fidx r /\
  (forall j s, In (j, s) (unfold_map a nb m) -> s = fibre a nb m j /\ s <> [] /\
               forall i, In i s <-> In i (fidx a) /\ fold_index m (fbits a) nb i = j) /\
  (forall i, In i (fidx a) -> exists s, In (fold_index m (fbits a) nb i, s) (unfold_map a nb m) /\ In i s) /\
  (forall j j' s s' i, In (j, s) (unfold_map a nb m) -> In (j', s') (unfold_map a nb m) -> In i s -> In i s' -> j = j').
Proof. exact unfold_map_spec. Qed.
Print Assumptions unfold_map_spec.
Example unfold_map_nonvacuous :
  unfold_map (mkfp KBit 16 (Some 5) [1; 4; 9; 15] [] None) 8 0 = [(1, [1; 9]); (4, [4]); (7, [15])].
Proof. vm_compute. reflexivity. Qed.

Theorem folding_map_spec : forall a nb m,
  map fst (folding_map a nb m) = fidx a /\
  forall i j, In (i, j) (folding_map a nb m) <-> In i (fidx a) /\ j = fold_index m (fbits a) nb i.
Proof. exact folding_map_spec. Qed.
Print Assumptions folding_map_spec.

(* ---------------------------------------------------------------------------------------------- *)
(* folding in two steps through an intermediate length equals folding directly                       *)
Theorem fold_index_compose : forall m bits mid nb k1 k2 i,
  0 < nb -> 0 <= k1 -> 0 <= k2 -> bits = mid * 2 ^ k1 -> mid = nb * 2 ^ k2 -> (m = 0 \/ m = 1) ->
  fold_index m mid nb (fold_index m bits mid i) = fold_index m bits nb i.
Proof. exact fold_index_compose. Qed.
Print Assumptions fold_index_compose.

(* every chain nb | mid | bits with power-of-two quotients is accepted step by step and directly ... *)
Theorem fold_chain_accepts : forall a mid nb m k1 k2, 0 < nb -> 0 <= k1 -> 0 <= k2 -> fbits a = mid * 2 ^ k1 -> mid = nb * 2 ^ k2 ->
  (m = 0 \/ m = 1) -> exists x y z, fp_fold a mid m = Ok x /\ fp_fold x nb m = Ok y /\ fp_fold a nb m = Ok z.
Proof. exact fold_chain_accepts. Qed.
Print Assumptions fold_chain_accepts.
Theorem fold_compose_accepts : forall a mid nb m x y,
  fp_fold a mid m = Ok x -> fp_fold x nb m = Ok y -> exists z, fp_fold a nb m = Ok z.
Proof. exact fold_compose_accepts. Qed.
Print Assumptions fold_compose_accepts.

(* ... with the same class, length, level, name and positions (all three classes, both methods) *)
Theorem fold_compose : forall a x y z mid nb m,
  fp_fold a mid m = Ok x -> fp_fold x nb m = Ok y -> fp_fold a nb m = Ok z ->
  fkind y = fkind z /\ fbits y = fbits z /\ flevel y = flevel z /\ fname y = fname z /\ fidx y = fidx z.
Proof. exact fold_compose_shape. Qed.
Print Assumptions fold_compose.

(* bit fingerprints: the very same value *)
Theorem fold_compose_bit : forall a x y z mid nb m,
  fp_fold a mid m = Ok x -> fp_fold x nb m = Ok y -> fp_fold a nb m = Ok z -> fkind a = KBit -> y = z.
Proof. exact fold_compose_bit. Qed.
Print Assumptions fold_compose_bit.

(* count / float fingerprints: every count agrees *)
Theorem fold_compose_counts : forall a x y z mid nb m,
  fp_fold a mid m = Ok x -> fp_fold x nb m = Ok y -> fp_fold a nb m = Ok z ->
  is_count_like a = true -> exact_counts a -> forall j, cget (fcnt y) j == cget (fcnt z) j.
Proof. exact fold_compose_counts. Qed.
Print Assumptions fold_compose_counts.
Example fold_compose_nonvacuous :
  let a := mkfp KCount 16 (Some 5) [1; 4; 5; 9; 12] [(1, 2 # 1); (4, 7 # 1); (5, 1 # 1); (9, 3 # 1); (12, 1 # 1)] None in
  let x := mkfp KCount 8 (Some 5) [1; 4; 5] [(1, 5 # 1); (4, 8 # 1); (5, 1 # 1)] None in
  let y := mkfp KCount 4 (Some 5) [0; 1] [(0, 8 # 1); (1, 6 # 1)] None in
  fp_fold a 8 0 = Ok x /\ fp_fold x 4 0 = Ok y /\ fp_fold a 4 0 = Ok y /\
  (exists x1 y1, fp_fold a 8 1 = Ok x1 /\ fp_fold x1 2 1 = Ok y1 /\ fp_fold a 2 1 = Ok y1).
Proof.
  split; [vm_compute; reflexivity|]. split; [vm_compute; reflexivity|]. split; [vm_compute; reflexivity|].
  eexists. eexists. split; [vm_compute; reflexivity|]. split; vm_compute; reflexivity.
Qed.

(* ---------------------------------------------------------------------------------------------- *)
(* the documented option counts_method (count / float classes; the base class has no such keyword)   *)
Theorem fold_option_counts_method_default : forall a nb m, is_count_like a = true -> fp_fold_cm CMSum a nb m = fp_fold a nb m.
Proof. exact fp_fold_cm_sum. Qed.
Print Assumptions fold_option_counts_method_default.

(* any reducer: acceptance and every field but the counts are those of the plain fold; each count is the reducer applied
   to the counts of the fibre *)
Theorem fold_option_counts_method : forall cm a nb m r, fp_fold_cm cm a nb m = Ok r ->
  is_count_like a = true /\
  exists r0, fp_fold a nb m = Ok r0 /\
    fkind r = fkind r0 /\ fbits r = fbits r0 /\ flevel r = flevel r0 /\ fname r = fname r0 /\ fidx r = fidx r0 /\
    ckeys (fcnt r) = fidx r /\
    forall j, In j (fidx r) -> cget (fcnt r) j = cast_value (fkind a) (creduce cm (map (get_count a) (fibre a nb m j))).
Proof. exact fp_fold_cm_spec. Qed.
Print Assumptions fold_option_counts_method.

(* max / min: the reducer's argument is never empty, and its value is an element bounding all others *)
Theorem fold_reducer_nonempty : forall a nb m r j, fp_fold a nb m = Ok r -> In j (fidx r) -> map (get_count a) (fibre a nb m j) <> [].
Proof. exact fold_reducer_nonempty. Qed.
Print Assumptions fold_reducer_nonempty.
Theorem counts_method_max_spec : forall l, l <> [] -> In (creduce CMMax l) l /\ forall y, In y l -> (y <= creduce CMMax l)%Q.
Proof. exact creduce_max_spec. Qed.
Print Assumptions counts_method_max_spec.
Theorem counts_method_min_spec : forall l, l <> [] -> In (creduce CMMin l) l /\ forall y, In y l -> (creduce CMMin l <= y)%Q.
Proof. exact creduce_min_spec. Qed.
Print Assumptions counts_method_min_spec.
Example fold_option_counts_method_nonvacuous :
  let a := mkfp KCount 16 (Some 5) [1; 4; 9; 12] [(1, 2 # 1); (4, 7 # 1); (9, 3 # 1); (12, 1 # 1)] None in
  fp_fold_cm CMMax a 8 0 = Ok (mkfp KCount 8 (Some 5) [1; 4] [(1, 3 # 1); (4, 7 # 1)] None) /\
  fp_fold_cm CMMin a 8 0 = Ok (mkfp KCount 8 (Some 5) [1; 4] [(1, 2 # 1); (4, 1 # 1)] None) /\
  fp_fold_cm CMSum a 8 0 = Ok (mkfp KCount 8 (Some 5) [1; 4] [(1, 5 # 1); (4, 8 # 1)] None).
Proof. vm_compute. repeat split. Qed.

(* ============ the fingerprinter route (model M1): asking for b bits = folding the 2^32-bit fingerprint ============ *)
From E3FP Require Import Base.Murmur3 Model.Geometry Model.Stereo Model.E3FP Gen.Constants Proofs.FprinterFold.

Theorem fprinter_bits_eq_fold : forall o counts bits st req mask g y z,
  fingerprint_query o counts fprinter_bits st req mask = Ok g ->
  fp_fold g bits 0 = Ok y ->
  fingerprint_query o counts bits st req mask = Ok z ->
  fkind y = fkind z /\ fbits y = fbits z /\ flevel y = flevel z /\ fname y = fname z /\ fidx y = fidx z /\
  (counts = false -> y = z) /\ (forall j, cget (fcnt y) j == cget (fcnt z) j).
Proof. exact fprinter_bits_eq_fold. Qed.
Print Assumptions fprinter_bits_eq_fold.

Theorem fprinter_two_step_accepts : forall o counts bits st req mask g y,
  fingerprint_query o counts fprinter_bits st req mask = Ok g -> fp_fold g bits 0 = Ok y ->
  exists z, fingerprint_query o counts bits st req mask = Ok z.
Proof. exact fprinter_two_step_accepts. Qed.
Print Assumptions fprinter_two_step_accepts.

(* ============ the database route (model M3): FingerprintDatabase.fold = row-wise fold, source untouched ============ *)
From E3FP Require Import Model.Db Proofs.DbBase Proofs.DbInv Proofs.DbFrame Proofs.DbFold.

(* positions of every folded row are those of the fingerprint fold of that row (any kind, method 0) *)
Theorem db_fold_rows : forall k k' bits lv nm nb r a',
  fp_fold (row_fp k bits lv nm r) nb 0 = Ok a' ->
  fidx (row_fp k' nb lv nm (fold_row k nb r)) = fidx a' /\ fbits a' = nb /\ flevel a' = lv /\ fname a' = nm.
Proof. exact db_fold_rows. Qed.
Print Assumptions db_fold_rows.

(* each stored value of a folded row is the OR (bit) / sum (count, float) over the colliding source entries *)
Theorem db_fold_values : forall k nb r j,
  In j (map fst (fold_row k nb r)) ->
  rget (fold_row k nb r) j = ksum k (map snd (filter (fun iv => fst iv mod nb =? j) r)).
Proof. exact db_fold_values. Qed.
Print Assumptions db_fold_values.

(* the new database: same names and level, requested type, rows = row-wise fold of the source rows *)
Theorem db_fold_view : forall s h oid o nb ko s' hn,
  state_ok s -> lookup s h = Some (oid, o) -> step s (OpFold h nb ko) = (s', Ok (ONew hn)) ->
  let k' := match ko with Some k => k | None => okind o end in
  exists d', handle_db s' hn = Some d' /\ dkind d' = k' /\ dbits d' = Some nb /\ dlevel d' = olevel o /\ dnames d' = onames o
    /\ drows d' = map (fun r => (if kind_eqb (okind o) k' then (fun x => x) else cast_row k') (filter (fun iv => fst iv <? nb) (fold_row (okind o) nb r)))
                      (drows (view (bufs s) o)).
Proof. exact db_fold_view. Qed.
Print Assumptions db_fold_view.

(* folding leaves every live database - the source included - exactly as it was (buffer-level ownership, any state) *)
Theorem db_fold_frame : forall s h nb ko g d,
  state_ok s -> handle_db s g = Some d -> handle_db (fst (step s (OpFold h nb ko))) g = Some d.
Proof. exact db_fold_frame. Qed.
Print Assumptions db_fold_frame.

(* count databases store uint16: a folded count is the exact sum of the colliding counts whenever that sum is at most
   count_dtype_max = 65535, and the sum modulo 2^16 beyond it (representability limit of COUNT_FP_DTYPE; Fingerprint.fold
   has no such limit, so database fold = fingerprint fold exactly on the premise "every folded sum <= 65535") *)
Theorem db_fold_count_no_overflow : forall zs,
  0 <= fold_right Z.add 0 zs <= count_dtype_max ->
  ksum KCount (map inject_Z zs) = inject_Z (fold_right Z.add 0 zs).
Proof. exact db_fold_count_no_overflow. Qed.
Print Assumptions db_fold_count_no_overflow.

Theorem db_fold_count_wraps : forall zs,
  ksum KCount (map inject_Z zs) = inject_Z (fold_right Z.add 0 zs mod (count_dtype_max + 1)).
Proof. exact db_fold_count_wraps. Qed.
Print Assumptions db_fold_count_wraps.

Example fold_overflow_example :
  fold_row KCount 8 [(1, inject_Z 40000); (9, inject_Z 40000)] = [(1, inject_Z 14464)]
  /\ fold_row KCount 8 [(1, inject_Z 30000); (9, inject_Z 30000)] = [(1, inject_Z 60000)].
Proof. exact fold_overflow_example. Qed.
