(* C07 (source-derived obligations) - the hand-written folding models equal definitions TRANSLATED FROM THE SOURCE TEXT on this run.
   harness/facts_foldsrc.py (a fail-closed Python-`ast` translator) writes Gen/FoldSource.v from Fingerprint.fold (fprint.py),
   FingerprintDatabase.fold (db.py) and Fingerprinter.substructs_to_pdb (fprinter.py) on every run.  When the translator cannot read
   the source this file is reported as not attempted (harness/core.py, check_properties_file); when it can, every theorem holds.
   TRANSLATED (a different formula, order of guards or exception class gives a different definition and a failing theorem): the
   `if <test>: raise <Error>` guards of both fold methods in source order, the position map of each folding method, the column
   expression of the database fold, the folded identifier naming a substructure file.  `pow2` is an opaque parameter standing for
   `np.log2(self.bits / bits).is_integer()`; the model's reading of it, pow2_ratio, is characterised by C07.pow2_ratio_spec and
   tied to the code by the correspondence.  The division `self.bits / bits` raises ZeroDivisionError for bits = 0 before the log2
   test is evaluated: the guard theorems assume nb <> 0 and `fold_zero_length` covers that branch of the model.
   Statements only. *)
From Coq Require Import ZArith List Bool Lia ZifyBool.
From E3FP Require Import Base.Prelude Base.ZSet Base.Murmur3 Model.Fprint Model.Db Gen.Constants Gen.M1Source Gen.FoldSource.
Import ListNotations.
Open Scope Z_scope.
Ltac Zify.zify_post_hook ::= Z.to_euclidean_division_equations.

(* the checks of Fingerprint.fold: same tests, same exception classes, same order as the source *)
Theorem fp_fold_guards_match_source : forall a nb method, nb <> 0 ->
  fold_check a nb method = fp_fold_guards_src nb (fbits a) method (pow2_ratio (fbits a) nb).
Proof.
  intros a nb method Hnb. unfold fold_check, fp_fold_guards_src.
  destruct (fbits a <? nb) eqn:E1; [reflexivity|].
  destruct (nb =? 0) eqn:E2; [lia|].
  destruct (pow2_ratio (fbits a) nb); cbn [negb]; [|reflexivity].
  destruct (method =? 0) eqn:E3; destruct (method =? 1) eqn:E4; reflexivity.
Qed.
Print Assumptions fp_fold_guards_match_source.

(* bits = 0: the model answers with the ZeroDivisionError of `self.bits / bits` unless `bits > self.bits` already raised *)
Theorem fold_zero_length : forall a method, fold_check a 0 method = if fbits a <? 0 then Some EBits else Some EOther.
Proof. intros. unfold fold_check. destruct (fbits a <? 0); reflexivity. Qed.
Print Assumptions fold_zero_length.

(* the position map of both folding methods is the source's *)
Theorem fp_fold_index_matches_source : forall method bits nb i, method = 0 \/ method = 1 ->
  fold_index method bits nb i = fp_fold_index_src method bits nb i.
Proof.
  intros method bits nb i [H|H]; subst; unfold fold_index, fp_fold_index_src; cbn [Z.eqb];
  first [reflexivity | f_equal; lia | f_equal; f_equal; lia | lia].
Qed.
Print Assumptions fp_fold_index_matches_source.

(* the source's position map sends every position into [0, nb) whenever the fold is accepted (so from_indices accepts it) *)
Theorem fp_fold_index_src_in_range : forall method bits nb i k, method = 0 \/ method = 1 ->
  0 < nb -> 0 <= k -> bits = nb * 2 ^ k -> 0 <= i < bits -> 0 <= fp_fold_index_src method bits nb i < nb.
Proof.
  intros method bits nb i k [H|H] Hnb Hk Hb Hi; subst method; unfold fp_fold_index_src; cbn [Z.eqb].
  - apply Z.mod_pos_bound; lia.
  - assert (Hp : 0 < 2 ^ k) by (apply Z.pow_pos_nonneg; lia).
    assert (Hq : bits / nb = 2 ^ k) by (subst bits; rewrite Z.mul_comm; apply Z.div_mul; lia).
    rewrite Hq. split; [apply Z.div_pos; lia|].
    apply Z.div_lt_upper_bound; [lia|]. subst bits. lia.
Qed.
Print Assumptions fp_fold_index_src_in_range.

(* FingerprintDatabase.fold: the folded row is the source's column expression followed by sum_duplicates *)
Theorem db_fold_col_matches_source : forall k nb r,
  fold_row k nb r = sum_dups k (map (fun iv => (db_fold_col_src (fst iv) nb, snd iv)) r).
Proof.
  intros k nb r. unfold fold_row.
  replace (map (fun iv => (db_fold_col_src (fst iv) nb, snd iv)) r) with (map (fun iv => (fst iv mod nb, snd iv)) r); [reflexivity|].
  apply map_ext. intros [j v]. cbn [fst snd]. unfold db_fold_col_src. first [reflexivity | f_equal; lia].
Qed.
Print Assumptions db_fold_col_matches_source.

(* FingerprintDatabase.fold refuses exactly when the source's guards do, with the source's exception class, and changes nothing *)
Theorem db_fold_guards_match_source : forall s oid o c nb ko e, oarr o = Some c -> nb <> 0 ->
  db_fold_guards_src nb (cbits c) (pow2_ratio (cbits c) nb) = Some e -> h_fold s oid o nb ko = (s, Raises e).
Proof.
  intros s oid o c nb ko e Ho Hnb. unfold db_fold_guards_src, h_fold. rewrite Ho.
  destruct (cbits c <? nb) eqn:E1; [intros H; injection H as <-; reflexivity|].
  destruct (nb =? 0) eqn:E2; [lia|].
  destruct (pow2_ratio (cbits c) nb); cbn [negb]; [discriminate|].
  intros H; injection H as <-; reflexivity.
Qed.
Print Assumptions db_fold_guards_match_source.

(* the two fold methods of the library refuse the same lengths (database folding has no `method`: it is method 0) *)
Theorem db_and_fp_guards_agree : forall nb bits pow2, db_fold_guards_src nb bits pow2 = fp_fold_guards_src nb bits 0 pow2.
Proof. intros. unfold db_fold_guards_src, fp_fold_guards_src. destruct (bits <? nb); [reflexivity|]. destruct pow2; reflexivity. Qed.
Print Assumptions db_and_fp_guards_agree.

(* the name of a substructure file is the position the shell's identifier takes in the fingerprint folded to `bits` *)
Theorem shell_fold_identifier_matches_source : forall ident bits, - two31 <= ident < two31 ->
  shell_fold_identifier_src ident bits = fold_index 0 fprinter_bits bits (unsigned32 ident).
Proof.
  intros ident bits H. unfold shell_fold_identifier_src, fold_index, signed_to_unsigned_src, unsigned32, fprinter_bits, two32, two31 in *.
  cbn [Z.eqb]. first [reflexivity | f_equal; lia | lia].
Qed.
Print Assumptions shell_fold_identifier_matches_source.

(* non-vacuity: concrete instances of the hypotheses above *)
Example fold_guards_example :
  fp_fold_guards_src 1024 4294967296 0 (pow2_ratio 4294967296 1024) = None /\
  fp_fold_guards_src 1000 4294967296 0 (pow2_ratio 4294967296 1000) = Some EBits /\
  fp_fold_guards_src 1024 4294967296 2 (pow2_ratio 4294967296 1024) = Some EOption /\
  fp_fold_guards_src 8192 4096 5 (pow2_ratio 4096 8192) = Some EBits /\
  fp_fold_index_src 0 4096 1024 3000 = 952 /\ fp_fold_index_src 1 4096 1024 3000 = 750 /\
  shell_fold_identifier_src (-5) 1024 = 1019.
Proof. vm_compute. repeat split; reflexivity. Qed.
