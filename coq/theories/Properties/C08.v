(* C08 - saving and loading a database is lossless; the text export writes one bit string per row.
   Statements only; proofs are in Proofs/DbIO.v, Proofs/DbIOText.v (source-derived constants: C08Src.v).  Model: Model/DbIO.v (M3, I/O part).

   Trusted, not modelled: the NumPy archive and pickle.  They appear as the universally quantified functions
   npz_write/npz_read and pkl_dumps/pkl_loads together with the hypothesis that reading returns what was written
   (key -> array map with dtype, 0-d flag and values; keys are distinct because they are members of a zip file). *)
From Coq Require Import Ascii.
From E3FP Require Import Base.Prelude Base.ZSet Model.DbIO Proofs.DbIO Proofs.DbIOText.
Open Scope Z_scope.

(* For ANY property name k (also "_x", "data", "shape", ...): "_" + k is none of the eight fixed keys, one character
   stripped gives k back, the prefix is injective, no fixed key starts with "_"; and for ANY database the archive
   dictionary is the fixed part, untouched, followed by keys that all start with "_". *)
Theorem savez_keys_disjoint :
  (forall k, ~ In (prefix_key k) fixed_keys) /\
  (forall k, drop1 (prefix_key k) = k /\ starts_underscore (prefix_key k) = true) /\
  (forall k k', prefix_key k = prefix_key k' -> k = k') /\
  (forall k, In k fixed_keys -> starts_underscore k = false) /\
  (forall x, exists rest, savez x = fixed_part x ++ rest /\ forall k, In k (map fst rest) -> starts_underscore k = true).
Proof. exact savez_keys_disjoint_lemma. Qed.
Print Assumptions savez_keys_disjoint.

(* exactly the eight fixed keys plus one "_" ++ k per property column, in order *)
Theorem savez_keys_layout : forall x,
  NoDup (map fst (d_props x)) -> map fst (savez x) = fixed_keys ++ map prefix_key (map fst (d_props x)).
Proof. exact savez_keys. Qed.
Print Assumptions savez_keys_layout.

(* load (savez db) = db, every field: kind, level, name, shape, index dtype, data, indices, indptr, names, name index,
   property columns (keys, order, dtype, values).  wfb is the decidable invariant that the harness checks on every
   generated database: props is a dict, index dtype is SciPy's choice, the name index is the one update_names_map
   builds, no name ends in NUL, property columns are 1-d of length fp_num. *)
Theorem load_savez_id : forall x, wfb x = true -> load (savez x) = Ok x.
Proof. exact load_savez_id_lemma. Qed.
Print Assumptions load_savez_id.

Theorem load_savez_file_id :
  forall (zfile : Type) (npz_write : dict -> zfile) (npz_read : zfile -> dict),
    (forall d, NoDup (map fst d) -> npz_read (npz_write d) = d) ->
    forall x, wfb x = true -> load_fpz zfile npz_read (savez_file zfile npz_write x) = Ok x.
Proof. exact load_fpz_id. Qed.
Print Assumptions load_savez_file_id.

(* without the invariant: one cycle normalises (or is refused by update_props), for every database value *)
Theorem load_savez_normal_form : forall x,
  NoDup (map fst (d_props x)) ->
  load (savez x) = rbind (check_props (d_props x) (Z.of_nat (length (d_names x)))) (fun _ => Ok (normalize x)).
Proof. exact load_savez_normal. Qed.
Print Assumptions load_savez_normal_form.

(* the name index built batch by batch by add_fingerprints is the index rebuilt in one pass by load / __setstate__,
   for every sequence of batches and every mix of names (None and duplicates included) *)
Theorem index_batches : forall bs, snd (add_batches bs) = names_index (fst (add_batches bs)).
Proof. exact index_batches_lemma. Qed.
Print Assumptions index_batches.

Theorem index_lookup_spec : forall ns n i,
  In i (idx_get (names_index ns) n) <-> exists k, nth_error ns k = Some n /\ i = Z.of_nat k.
Proof. exact index_lookup_spec_lemma. Qed.
Print Assumptions index_lookup_spec.

(* __setstate__ (__getstate__ db) = db for a database filled by any history of add_fingerprints batches *)
Theorem load_pickle_id : forall x bs, (d_names x, d_index x) = add_batches bs -> setstate (getstate x) = x.
Proof. exact pickle_id_batches_lemma. Qed.
Print Assumptions load_pickle_id.

Theorem load_pickle_file_id :
  forall (pfile : Type) (pkl_dumps : pstate -> pfile) (pkl_loads : pfile -> pstate),
    (forall s, pkl_loads (pkl_dumps s) = s) ->
    forall x, wfb x = true -> load_fps pfile pkl_loads (save_file pfile pkl_dumps x) = x.
Proof. exact load_fps_id. Qed.
Print Assumptions load_pickle_file_id.

(* n + 1 cycles = 1 cycle, for every database value (also a non-normal one, also when load refuses it) *)
Theorem save_load_idempotent :
  forall (zfile : Type) (npz_write : dict -> zfile) (npz_read : zfile -> dict),
    (forall d, NoDup (map fst d) -> npz_read (npz_write d) = d) ->
    forall n x, NoDup (map fst (d_props x)) ->
                cycles_fpz zfile npz_write npz_read (S n) x = cycles_fpz zfile npz_write npz_read 1 x.
Proof. exact cycles_fpz_idem. Qed.
Print Assumptions save_load_idempotent.

Theorem save_load_idempotent_pickle :
  forall (pfile : Type) (pkl_dumps : pstate -> pfile) (pkl_loads : pfile -> pstate),
    (forall s, pkl_loads (pkl_dumps s) = s) ->
    forall n x, cycles_fps pfile pkl_dumps pkl_loads (S n) x = cycles_fps pfile pkl_dumps pkl_loads 1 x.
Proof. exact cycles_fps_idem. Qed.
Print Assumptions save_load_idempotent_pickle.

(* "1".join("0" * gap ...): for strictly increasing columns within [0, bits) the string has exactly bits characters
   and character i is '1' iff column i is in the row - any bits, any number of columns *)
Theorem savetxt_row_spec : forall idx bits,
  ssorted idx -> (forall i, In i idx -> 0 <= i < bits) -> 0 <= bits ->
  String.length (row_string idx bits) = Z.to_nat bits /\
  forall i, 0 <= i < bits ->
            String.get (Z.to_nat i) (row_string idx bits) = Some (if zmem i idx then "1"%char else "0"%char).
Proof. exact row_string_spec. Qed.
Print Assumptions savetxt_row_spec.

(* one line per row, in row order, " " ++ name appended when names are requested (all fingerprints named), "\n" after each *)
Theorem savetxt_lines : forall x wn,
  d_kind x = KBit -> length (d_indptr x) = S (Z.to_nat (d_nrows x)) -> length (d_names x) = Z.to_nat (d_nrows x) ->
  (wn = true -> forall nm, In nm (d_names x) -> nm <> None) ->
  savetxt x wn = Ok (text_of (map (fun rn => line wn (d_bits x) (fst rn) (snd rn)) (combine (rows x) (d_names x)))).
Proof. exact savetxt_lines_lemma. Qed.
Print Assumptions savetxt_lines.

Theorem savetxt_rejects_nonbinary : forall x wn, d_kind x <> KBit -> savetxt x wn = Raises EInvalidFp.
Proof. exact savetxt_kind_lemma. Qed.
Print Assumptions savetxt_rejects_nonbinary.

(* outside the hypotheses: unsorted or repeated columns (possible only for a CSR handed to from_array) give a string of
   the wrong length; a name ending in NUL is cut by the <U array of savez.  Both witnesses are replayed on the
   implementation by the harness on every run. *)
Theorem savetxt_unsorted_refuted :
  exists idx bits, (forall i, In i idx -> 0 <= i < bits) /\ NoDup idx /\ String.length (row_string idx bits) <> Z.to_nat bits.
Proof. exact savetxt_unsorted_refuted_lemma. Qed.
Print Assumptions savetxt_unsorted_refuted.

Theorem savetxt_duplicate_refuted :
  exists idx bits, (forall i, In i idx -> 0 <= i < bits) /\ String.length (row_string idx bits) <> Z.to_nat bits.
Proof. exact savetxt_duplicate_refuted_lemma. Qed.
Print Assumptions savetxt_duplicate_refuted.

Theorem load_savez_nul_refuted : exists x y, load (savez x) = Ok y /\ d_names y <> d_names x /\ d_index y <> d_index x.
Proof. exact load_savez_nul_refuted_lemma. Qed.
Print Assumptions load_savez_nul_refuted.

(* ---- the hypotheses are satisfiable: a database with duplicate and None names, None level, tricky property keys --- *)
Definition ex_db : db :=
  mkdb KCount None None 3 4294967296 8 [3; 1; 65535] [0; 4294967295; 7] [0; 2; 2; 3]
       [Some "a"; None; Some "a"]%string [(Some "a"%string, [0; 2]); (None, [1])]
       [("_x"%string, mkarr (DFloat 8) false (PNum [4607182418800017408; 9221120237041090560; 0]));
        ("data"%string, mkarr (DStr 3) false (PStr ["CCO"; ""; "s"]%string));
        ("level"%string, mkarr DBool false (PNum [1; 0; 1]))].

Example ex_db_wf : wfb ex_db = true.
Proof. vm_compute. reflexivity. Qed.

Example ex_db_keys :
  map fst (savez ex_db) = ["data"; "shape"; "indices"; "indptr"; "fp_names"; "level"; "name"; "fp_type"; "__x"; "_data"; "_level"]%string.
Proof. vm_compute. reflexivity. Qed.

Example ex_db_batches : (d_names ex_db, d_index ex_db) = add_batches [[Some "a"%string]; [None; Some "a"%string]].
Proof. vm_compute. reflexivity. Qed.

Example ex_row : ssorted [0; 3; 4] /\ row_string [0; 3; 4] 8 = "10011000"%string.
Proof. split; [repeat constructor | vm_compute; reflexivity]. Qed.
