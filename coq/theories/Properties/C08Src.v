(* C08 (source-derived obligations) - the constants of Model/DbIO.v are the constants found in the SOURCE TEXT of db.py on this
   run (harness/facts_dbio.py, `ast` -> Gen/DbIOFacts.v).  When the extractor cannot read the source this file is reported as not
   attempted (harness/core.py, check_properties_file); when it can, the theorem must hold. *)
From E3FP Require Import Base.Prelude Model.DbIO Gen.DbIOFacts.
Open Scope Z_scope.

Definition dtype_code (d : dtype) : string * Z :=
  match d with
  | DBool => ("b"%string, 1) | DInt n => ("i"%string, n) | DUInt n => ("u"%string, n) | DFloat n => ("f"%string, n)
  | DStr w => ("U"%string, 4 * w) | DObj => ("O"%string, 8)
  end.

Definition subset (a b : list string) : bool := forallb (fun k => existsb (String.eqb k) b) a.

Theorem source_constants :
  src_extraction_ok = true /\
  src_savez_keys = fixed_keys /\
  (forall k, (src_savez_prefix ++ k)%string = prefix_key k) /\
  src_load_prefix = src_savez_prefix /\ src_load_strip = 1 /\
  subset src_load_keys_read fixed_keys = true /\ subset fixed_keys src_load_keys_read = true /\
  src_savez_ext = src_load_ext /\
  src_txt_one = "1"%string /\ src_txt_zero = "0"%string /\ src_txt_sentinel = -1 /\ src_txt_minus = 1 /\
  src_txt_formats = ["{0:s}"; " {1:s}"]%string /\ src_txt_terminator_is_newline = true /\
  src_dtypes = map (fun k => dtype_code (kind_dtype k)) [KBit; KCount; KFloat].
Proof. repeat split; reflexivity. Qed.
Print Assumptions source_constants.
