(* C09 - fingerprint equality is a content-based equivalence; copies are independent values.
   Statements only; proofs are in Proofs/FprintEq.v and Proofs/FprintConv.v.
   Model: Model/Fprint.v (fp_eq, from_fingerprint) and Model/FprintIO.v (fp_ne, py_eq, py_ne, wf_fp).
   "Shares no mutable state" is a statement about Python objects: it is decided on the implementation by
   harness/props/c09.py (the model is value-semantic). *)
From Coq Require Import QArith.
From E3FP Require Import Base.Prelude Base.ZSet Model.Fprint Model.FprintIO Model.Db Proofs.DbFold Proofs.FprintEq Proofs.FprintConv.
Open Scope Z_scope.

(* == is true exactly for the same type, length, level, set bits and counts (counts up to equality of rationals).
   wf_fp_signed: indices strictly increasing in [0,bits), counts keyed by the indices (any sign). *)
Theorem eq_spec : forall a b, wf_fp_signed a -> wf_fp_signed b ->
  (fp_eq a b = Ok true <->
   fkind a = fkind b /\ fbits a = fbits b /\ flevel a = flevel b /\ fidx a = fidx b /\ cmap_equiv (fcnt a) (fcnt b)).
Proof. exact fp_eq_spec. Qed.
Print Assumptions eq_spec.

Theorem eq_spec_false : forall a b, wf_fp_signed a -> wf_fp_signed b -> fkind a = fkind b ->
  (fp_eq a b = Ok false <-> ~ fp_content_same a b).
Proof. exact fp_eq_false_iff. Qed.
Print Assumptions eq_spec_false.

(* what the code compares, without any hypothesis on the operands *)
Theorem eq_compares : forall a b,
  fp_eq a b = Ok true <->
  flevel a = flevel b /\ fbits a = fbits b /\ fkind a = fkind b /\
  match fkind a with KBit => fidx a = fidx b | _ => cmap_equiv (fcnt a) (fcnt b) end.
Proof. exact fp_eq_true_iff. Qed.
Print Assumptions eq_compares.

(* never raises for two fingerprints of one kind; raises exactly for (count or float).__eq__(bit), with InvalidFingerprint *)
Theorem eq_total : forall a b, fkind a = fkind b -> exists r, fp_eq a b = Ok r.
Proof. exact fp_eq_total. Qed.
Print Assumptions eq_total.

Theorem eq_raises_only_mixed : forall a b, (exists e, fp_eq a b = Raises e) <-> (fkind a <> KBit /\ fkind b = KBit).
Proof. exact fp_eq_raises_iff. Qed.
Print Assumptions eq_raises_only_mixed.

Theorem eq_refl : forall a, fp_eq a a = Ok true.
Proof. exact fp_eq_refl. Qed.
Print Assumptions eq_refl.

Theorem eq_sym : forall a b, fkind a = fkind b -> fp_eq a b = fp_eq b a.
Proof. exact fp_eq_sym. Qed.
Print Assumptions eq_sym.

Theorem eq_trans : forall a b c, fp_eq a b = Ok true -> fp_eq b c = Ok true -> fp_eq a c = Ok true.
Proof. exact fp_eq_trans. Qed.
Print Assumptions eq_trans.

(* != is the negation of == (and raises when == raises), for the methods and for the operators *)
Theorem ne_is_negb : forall a b, fp_ne a b = match fp_eq a b with Ok r => Ok (negb r) | Raises e => Raises e end.
Proof. exact fp_ne_negb. Qed.
Print Assumptions ne_is_negb.

Theorem operator_ne_is_negb : forall a b, py_ne a b = match py_eq a b with Ok r => Ok (negb r) | Raises e => Raises e end.
Proof. exact py_ne_negb. Qed.
Print Assumptions operator_ne_is_negb.

(* for operands of one kind the operators `==`, `!=` are the methods (no reflected dispatch) *)
Theorem operator_eq_same_kind : forall a b, fkind a = fkind b -> py_eq a b = fp_eq a b.
Proof. exact py_eq_same_kind. Qed.
Print Assumptions operator_eq_same_kind.

Theorem operator_ne_same_kind : forall a b, fkind a = fkind b -> py_ne a b = fp_ne a b.
Proof. exact py_ne_same_kind. Qed.
Print Assumptions operator_ne_same_kind.

(* copy: cls.from_fingerprint of a well-formed fingerprint (positive counts) is that fingerprint *)
Theorem copy_eq : forall a, wf_fp a -> from_fingerprint (fkind a) a = Ok a.
Proof. exact from_fingerprint_copy. Qed.
Print Assumptions copy_eq.

Theorem copy_is_equal : forall a, wf_fp a ->
  exists r, from_fingerprint (fkind a) a = Ok r /\ fp_eq a r = Ok true /\ fp_eq r a = Ok true /\ fname r = fname a.
Proof. exact copy_is_equal. Qed.
Print Assumptions copy_is_equal.

(* positivity is needed: count/float from_fingerprint drops positions whose count is <= 0 (subtraction can make them) *)
Theorem copy_nonpositive_refuted :
  exists a r, wf_fp_signed a /\ from_fingerprint (fkind a) a = Ok r /\ fp_eq a r = Ok false /\ fidx r <> fidx a.
Proof. exact copy_nonpositive_witness. Qed.
Print Assumptions copy_nonpositive_refuted.

(* conversion to another kind and back, where representable *)
Theorem convert_back_eq_bit : forall k a, wf_fp a -> fkind a = KBit ->
  exists r, from_fingerprint k a = Ok r /\ from_fingerprint KBit r = Ok a.
Proof. exact bit_other_bit. Qed.
Print Assumptions convert_back_eq_bit.

Theorem convert_back_eq_count_float : forall a, wf_fp a -> fkind a = KCount ->
  exists r, from_fingerprint KFloat a = Ok r /\ from_fingerprint KCount r = Ok a.
Proof. exact count_float_count. Qed.
Print Assumptions convert_back_eq_count_float.

(* float -> count -> float: representable when every value is an integer (int() keeps it) *)
Theorem convert_back_eq_float_count : forall a, wf_fp a -> fkind a = KFloat ->
  (forall kv, In kv (fcnt a) -> (qtrunc (snd kv) == snd kv)%Q) ->
  exists c r, from_fingerprint KCount a = Ok c /\ from_fingerprint KFloat c = Ok r /\ fp_same a r.
Proof. exact float_count_float. Qed.
Print Assumptions convert_back_eq_float_count.

Theorem int_keeps_integers : forall v, (qtrunc v == v)%Q <-> exists n, (v == inject_Z n)%Q.
Proof. exact qtrunc_fixed_iff. Qed.
Print Assumptions int_keeps_integers.

(* count -> bit -> count: representable when every count is 1 *)
Theorem convert_back_eq_count_bit : forall a, wf_fp a -> fkind a = KCount -> (forall kv, In kv (fcnt a) -> snd kv = 1%Q) ->
  exists r, from_fingerprint KBit a = Ok r /\ from_fingerprint KCount r = Ok a.
Proof. exact count_bit_count. Qed.
Print Assumptions convert_back_eq_count_bit.

Theorem convert_back_not_representable :
  (exists a c r, wf_fp a /\ from_fingerprint KCount a = Ok c /\ from_fingerprint KFloat c = Ok r /\ fp_eq a r = Ok false) /\
  (exists a c r, wf_fp a /\ from_fingerprint KBit a = Ok c /\ from_fingerprint KCount c = Ok r /\ fp_eq a r = Ok false).
Proof. exact (conj float_count_float_witness count_bit_count_witness). Qed.
Print Assumptions convert_back_not_representable.

(* FingerprintDatabase.__eq__ (Model/Db.v db_eq; lemma of the database development, Proofs/DbFold.v): equal exactly for the
   same fingerprint type, level, length, number of rows, name index and an all-zero row difference *)
Theorem db_eq_spec : forall a b,
  db_eq a b = true <->
  dkind a = dkind b /\ dlevel a = dlevel b /\ dbits a = dbits b /\ fp_num a = fp_num b /\ index_eqb (dindex a) (dindex b) = true
  /\ (dbits a <> None -> rows_diff_zero (dkind a) (drows a) (drows b) = true).
Proof. exact db_eq_spec. Qed.
Print Assumptions db_eq_spec.

(* non-vacuity: well-formed fingerprints of every kind exist (with several set positions, level None, a name), and
   the executable test used on every generated input implies the predicate of the theorems *)
Example wf_examples :
  wf_fp (mkfp KBit 1024 minus1 [0; 5; 1023] [] (Some "a"%string)) /\
  wf_fp (mkfp KCount 4294967296 (Some 5) [3; 70; 4294967295] [(3, 2%Q); (70, 1%Q); (4294967295, 65535%Q)] None) /\
  wf_fp (mkfp KFloat 16 None [0; 9] [(0, Qmake 3 2); (9, 250%Q)] None).
Proof. split; [|split]; apply wf_fpb_sound; vm_compute; reflexivity. Qed.

Theorem wf_test_sound : forall a, wf_fpb a = true -> wf_fp a.
Proof. exact wf_fpb_sound. Qed.
Print Assumptions wf_test_sound.
