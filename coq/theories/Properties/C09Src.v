(* C09 (source-derived obligations) - `==` / `!=` of the model are the expressions TRANSLATED FROM THE SOURCE TEXT on this run.
   harness/facts_eqsrc.py (a fail-closed Python-`ast` translator) writes Gen/EqSource.v from Fingerprint.__eq__/__ne__ and
   CountFingerprint.__eq__/__ne__ (fprint.py) on every run.  When the translator cannot read the source this file is reported as
   not attempted (harness/core.py, check_properties_file); when it can, every theorem below holds.
   TRANSLATED: the boolean structure of each returned expression over five named atomic comparisons, the class tested by the
   isinstance guard, the returned expression of __ne__.  A conjunct dropped, added, negated or replaced by `or` gives a different
   definition and a failing theorem; reordering conjuncts does not (the proofs are by case analysis on the atoms).
   The atoms are read as: level_eq = option_eqb Z.eqb on levels, bits_eq = Z.eqb on lengths, class_eq = kind_eqb,
   indices_eq = list_eqb Z.eqb on the sorted index arrays, counts_eq = cmap_eqb on the counts dicts.  Statements only. *)
From Coq Require Import ZArith List Bool.
From E3FP Require Import Base.Prelude Base.ZSet Model.Fprint Model.FprintIO Gen.EqSource.
Open Scope Z_scope.

(* Fingerprint.__eq__: any fingerprint passes the isinstance(other, Fingerprint) guard *)
Theorem bit_eq_matches_source : forall a b, fkind a = KBit ->
  fp_eq a b = if fp_eq_accepts_src true (is_count_like b) then
                Ok (fp_eq_src (option_eqb Z.eqb (flevel a) (flevel b)) (fbits a =? fbits b) (kind_eqb (fkind a) (fkind b))
                              (list_eqb Z.eqb (fidx a) (fidx b)) (cmap_eqb (fcnt a) (fcnt b)))
              else Raises EInvalidFp.
Proof.
  intros a b Ha. unfold fp_eq, fp_eq_accepts_src, fp_eq_src. rewrite Ha.
  destruct (option_eqb Z.eqb (flevel a) (flevel b)), (fbits a =? fbits b), (kind_eqb KBit (fkind b)),
    (list_eqb Z.eqb (fidx a) (fidx b)), (cmap_eqb (fcnt a) (fcnt b)); reflexivity.
Qed.
Print Assumptions bit_eq_matches_source.

(* CountFingerprint.__eq__ (inherited by FloatFingerprint): raises unless the other operand is count-like *)
Theorem count_eq_matches_source : forall a b, fkind a <> KBit ->
  fp_eq a b = if cfp_eq_accepts_src true (is_count_like b) then
                Ok (cfp_eq_src (option_eqb Z.eqb (flevel a) (flevel b)) (fbits a =? fbits b) (kind_eqb (fkind a) (fkind b))
                               (list_eqb Z.eqb (fidx a) (fidx b)) (cmap_eqb (fcnt a) (fcnt b)))
              else Raises EInvalidFp.
Proof.
  intros a b Ha. unfold fp_eq, cfp_eq_accepts_src, cfp_eq_src.
  destruct (fkind a) eqn:Ek; [congruence| |];
  destruct (is_count_like b); cbn [negb]; try reflexivity;
  destruct (option_eqb Z.eqb (flevel a) (flevel b)), (fbits a =? fbits b), (kind_eqb _ (fkind b)),
    (list_eqb Z.eqb (fidx a) (fidx b)), (cmap_eqb (fcnt a) (fcnt b)); reflexivity.
Qed.
Print Assumptions count_eq_matches_source.

(* __ne__ of both classes: its own guard accepts every fingerprint, then it is the source's expression over the result of __eq__
   (an exception of __eq__ propagates) *)
Theorem ne_matches_source : forall a b,
  fp_ne_accepts_src true (is_count_like b) = true /\ cfp_ne_accepts_src true (is_count_like b) = true /\
  fp_ne a b = match fp_eq a b with
              | Ok r => Ok (if is_count_like a then cfp_ne_src r else fp_ne_src r)
              | Raises e => Raises e end.
Proof.
  intros a b. unfold fp_ne_accepts_src, cfp_ne_accepts_src, fp_ne, rbind, fp_ne_src, cfp_ne_src.
  repeat split. destruct (fp_eq a b) as [r|e]; [|reflexivity]. destruct (is_count_like a); reflexivity.
Qed.
Print Assumptions ne_matches_source.

(* non-vacuity: the translated expressions are not constant *)
Example eq_src_example :
  fp_eq_src true true true true false = true /\ fp_eq_src true true false true true = false /\
  cfp_eq_src true true true false true = true /\ cfp_eq_src true true true true false = false /\
  fp_ne_src true = false /\ cfp_ne_src false = true.
Proof. vm_compute. repeat split; reflexivity. Qed.
