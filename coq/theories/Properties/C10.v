(* C10 - fingerprint representations round-trip without loss.
   Statements only; proofs are in Proofs/FprintIO.v (and Proofs/FprintConv.v).
   Model: Model/Fprint.v (value type, constructors) and Model/FprintIO.v (the representations).

   Hypotheses used below (all defined in Model/FprintIO.v / Proofs/FprintIO.v):
     wf_fp a      : indices strictly increasing in [0, bits), bits >= 0; count/float: counts keyed by exactly the indices,
                    every count positive, CountFingerprint counts are integers; bit: no counts dict.
     fits_dtype a : a CountFingerprint's counts are <= count_dtype_max (regenerated from COUNT_FP_DTYPE: uint16).
     unit_counts a: every stored count is 1 (what a bit string / RDKit vector can express).
   What a format carries: every from_* takes level and name only from its keywords (`level_arg None` = -1,
   `name_arg`); set_meta a lv nm is a with that level and name.  Passing a's own level and name gives a back. *)
From Coq Require Import QArith Ascii.
From E3FP Require Import Base.Prelude Base.ZSet Model.Fprint Model.FprintIO Gen.Constants
  Proofs.FprintEq Proofs.FprintConv Proofs.FprintIO.
Open Scope Z_scope.

Theorem indices_rt : forall a lv nm, wf_fp a ->
  from_indices_of a lv nm = Ok (set_meta a (level_arg lv) (name_arg nm)).
Proof. exact indices_rt. Qed.
Print Assumptions indices_rt.

Theorem dense_vector_rt : forall a lv nm, wf_fp a -> fits_dtype a ->
  rbind (to_dense None a) (fun v => from_dense (fkind a) v None lv nm) = Ok (set_meta a (level_arg lv) (name_arg nm)).
Proof. exact dense_vector_rt. Qed.
Print Assumptions dense_vector_rt.

Theorem csr_vector_rt : forall a lv nm, wf_fp a -> fits_dtype a ->
  rbind (to_csr None a) (fun m => from_csr (fkind a) m None lv nm) = Ok (set_meta a (level_arg lv) (name_arg nm)).
Proof. exact csr_vector_rt. Qed.
Print Assumptions csr_vector_rt.

(* reading a vector with another class is the conversion to that kind (Fingerprint.from_vector on a count vector
   gives the support, CountFingerprint.from_vector on a float vector truncates, ...) *)
Theorem dense_reads_as_conversion : forall k a lv nm, wf_fp a -> fits_dtype a ->
  rbind (to_dense None a) (fun v => from_dense k v None lv nm) = Ok (set_meta (conv k a) (level_arg lv) (name_arg nm)).
Proof. exact dense_roundtrip_conv. Qed.
Print Assumptions dense_reads_as_conversion.

Theorem csr_reads_as_conversion : forall k a lv nm, wf_fp a -> fits_dtype a ->
  rbind (to_csr None a) (fun m => from_csr k m None lv nm) = Ok (set_meta (conv k a) (level_arg lv) (name_arg nm)).
Proof. exact csr_roundtrip_conv. Qed.
Print Assumptions csr_reads_as_conversion.

(* the uint16 forms of a count fingerprint exist exactly when every count fits; otherwise OverflowError *)
Theorem count_dtype_limit : forall a, wf_fp a -> fkind a = KCount ->
  (is_ok (to_dense None a) = true <-> fits_dtype a) /\ (is_ok (to_csr None a) = true <-> fits_dtype a).
Proof. exact count_dtype_limit. Qed.
Print Assumptions count_dtype_limit.

Theorem bitstring_rt : forall a lv nm, wf_fp a -> unit_counts a ->
  rbind (to_bitstring a) (fun s => from_bitstring (fkind a) s None lv nm) = Ok (set_meta a (level_arg lv) (name_arg nm)).
Proof. exact bitstring_rt. Qed.
Print Assumptions bitstring_rt.

(* in general the bit string carries the support only *)
Theorem bitstring_reads_unit : forall k a lv nm, wf_fp a ->
  rbind (to_bitstring a) (fun s => from_bitstring k s None lv nm) = Ok (set_meta (unit_fp k a) (level_arg lv) (name_arg nm)).
Proof. exact bitstring_roundtrip_unit. Qed.
Print Assumptions bitstring_reads_unit.

Theorem bitstring_length : forall a s, wf_fp a -> to_bitstring a = Ok s -> Z.of_nat (String.length s) = fbits a.
Proof. exact to_bitstring_length. Qed.
Print Assumptions bitstring_length.

Theorem rdkit_rt : forall a lv nm, wf_fp a -> fbits a <= rdkit_max -> unit_counts a ->
  rbind (to_rdkit a) (fun r => from_rdkit (fkind a) r None lv nm) = Ok (set_meta a (level_arg lv) (name_arg nm)).
Proof. exact rdkit_rt. Qed.
Print Assumptions rdkit_rt.

Theorem rdkit_reads_unit : forall k a lv nm, wf_fp a -> fbits a <= rdkit_max ->
  rbind (to_rdkit a) (fun r => from_rdkit k r None lv nm) = Ok (set_meta (unit_fp k a) (level_arg lv) (name_arg nm)).
Proof. exact rdkit_roundtrip_unit. Qed.
Print Assumptions rdkit_reads_unit.

Theorem rdkit_max_is : rdkit_max = 2 ^ 31 - 1.
Proof. exact (eq_refl rdkit_max). Qed.
Print Assumptions rdkit_max_is.

Theorem from_rdkit_bits_keyword_rejected : forall k r b lv nm, from_rdkit k r (Some b) lv nm = Raises EType.
Proof. exact from_rdkit_bits_kw. Qed.
Print Assumptions from_rdkit_bits_keyword_rejected.

(* above the property's bound: two different 2^32-bit fingerprints share one RDKit vector; length 2^31 comes back as 2^31-1 *)
Theorem rdkit_collides_refuted :
  wf_fp ex_rdkit_a /\ wf_fp ex_rdkit_b /\ fbits ex_rdkit_a = 2 ^ 32 /\ fbits ex_rdkit_b = 2 ^ 32 /\
  fidx ex_rdkit_a <> fidx ex_rdkit_b /\ to_rdkit ex_rdkit_a = to_rdkit ex_rdkit_b /\
  (forall lv nm r, rbind (to_rdkit ex_rdkit_b) (fun v => from_rdkit KBit v None lv nm) = Ok r ->
                   fbits r <> fbits ex_rdkit_b /\ fidx r <> fidx ex_rdkit_b).
Proof. exact rdkit_collides. Qed.
Print Assumptions rdkit_collides_refuted.

Theorem rdkit_length_2_31_lost :
  wf_fp ex_rdkit_c /\ forall lv nm r, rbind (to_rdkit ex_rdkit_c) (fun v => from_rdkit KBit v None lv nm) = Ok r -> fbits r = 2 ^ 31 - 1.
Proof. exact rdkit_length_lost. Qed.
Print Assumptions rdkit_length_2_31_lost.

(* pickle (also copy / deepcopy, which go through __getstate__/__setstate__): the whole object incl. name and props *)
Theorem pickle_rt : forall x, wf_fp (xfp x) -> pickle_roundtrip x = x.
Proof. exact pickle_rt. Qed.
Print Assumptions pickle_rt.

Theorem pickle_keeps : forall x,
  let y := pickle_roundtrip x in
  fkind (xfp y) = fkind (xfp x) /\ fbits (xfp y) = fbits (xfp x) /\ flevel (xfp y) = flevel (xfp x) /\
  fcnt (xfp y) = fcnt (xfp x) /\ fname (xfp y) = fname (xfp x) /\ xprops y = xprops x /\
  fidx (xfp y) = match fkind (xfp x) with KBit => fidx (xfp x) | _ => usort (ckeys (fcnt (xfp x))) end.
Proof. exact pickle_keeps. Qed.
Print Assumptions pickle_keeps.

(* files: save/load and savez/loadz, both values of update_structure (the three extensions differ by a byte codec) *)
Theorem file_rt : forall u x, wf_fp (xfp x) -> file_roundtrip u x = Ok x.
Proof. exact file_rt. Qed.
Print Assumptions file_rt.

Theorem filez_rt : forall u xs, (forall x, In x xs -> wf_fp (xfp x)) -> filez_roundtrip u xs = Ok xs.
Proof. exact filez_rt. Qed.
Print Assumptions filez_rt.

(* non-vacuity *)
Example hypotheses_satisfiable :
  (wf_fp ex_count /\ fits_dtype ex_count) /\ (wf_fp ex_float /\ fits_dtype ex_float) /\
  (wf_fp ex_bit /\ unit_counts ex_bit /\ fbits ex_bit <= rdkit_max) /\
  (wf_fp ex_count_big /\ ~ fits_dtype ex_count_big /\ to_dense None ex_count_big = Raises EOther /\ to_csr None ex_count_big = Raises EOther).
Proof. exact (conj ex_count_wf (conj ex_float_wf (conj ex_bit_wf ex_count_big_limit))). Qed.

Example roundtrips_compute :
  rbind (to_csr None ex_count) (fun m => from_csr KCount m None (Some (Some 5)) (Some "mol_0"%string)) = Ok ex_count /\
  rbind (to_dense None ex_float) (fun v => from_dense KFloat v None (Some None) None) = Ok ex_float /\
  rbind (to_bitstring ex_bit) (fun s => from_bitstring KBit s None None (Some "a"%string)) = Ok ex_bit /\
  rbind (to_rdkit ex_bit) (fun r => from_rdkit KBit r None None (Some "a"%string)) = Ok ex_bit.
Proof. repeat split; vm_compute; reflexivity. Qed.
