(* C10 - fingerprint representations round-trip without loss.
   Statements only; proofs are in Proofs/FprintIO.v (and Proofs/FprintConv.v).
   Model: Model/Fprint.v (value type, constructors) and Model/FprintIO.v (the representations).

   Hypotheses used below (all defined in Model/FprintIO.v / Proofs/FprintIO.v):
     wf_fp a      : indices strictly increasing in [0, bits), bits >= 0; count/float: counts keyed by exactly the indices,
                    every count positive, CountFingerprint counts are integers; bit: no counts dict.
     fits_dtype a : a CountFingerprint's counts are <= count_dtype_max (regenerated from COUNT_FP_DTYPE: uint16).
     unit_counts a: every stored count is 1 (what a bit string / RDKit vector can express).
   What a format carries.  Index array, dense / CSR vector, bit string and RDKit vector carry type (through the class
   used to read), length, set bits and counts only: every from_* takes level and name from its keywords alone
   (`level_arg None` = -1, `name_arg`).  The `*_rt_content` theorems therefore conclude `set_meta a lv' nm'` - a with the
   level and name THE CALLER passed - and the `*_rt_resupplied` corollaries say that passing a's own level and name
   again gives a itself.  Pickle and files carry level, name and props themselves (pickle_rt, file_rt, file_carries_meta).
   pickle and the file layer (smart_open, gzip, bz2) are parameters: the theorems about them take
   `forall s, pkl_loads (pkl_dumps s) = s` and `forall e l, file_read e (file_write e l) = l` as explicit hypotheses. *)
From Coq Require Import QArith Ascii.
From E3FP Require Import Base.Prelude Base.ZSet Model.Fprint Model.FprintIO Gen.Constants
  Proofs.FprintEq Proofs.FprintConv Proofs.FprintIO.
Open Scope Z_scope.

Theorem indices_rt_content : forall a lv nm, wf_fp a ->
  from_indices_of a lv nm = Ok (set_meta a (level_arg lv) (name_arg nm)).
Proof. exact indices_rt. Qed.
Print Assumptions indices_rt_content.

Theorem dense_vector_rt_content : forall a lv nm, wf_fp a -> fits_dtype a ->
  rbind (to_dense None a) (fun v => from_dense (fkind a) v None lv nm) = Ok (set_meta a (level_arg lv) (name_arg nm)).
Proof. exact dense_vector_rt. Qed.
Print Assumptions dense_vector_rt_content.

Theorem csr_vector_rt_content : forall a lv nm, wf_fp a -> fits_dtype a ->
  rbind (to_csr None a) (fun m => from_csr (fkind a) m None lv nm) = Ok (set_meta a (level_arg lv) (name_arg nm)).
Proof. exact csr_vector_rt. Qed.
Print Assumptions csr_vector_rt_content.

(* reading a vector with another class is the conversion to that kind (Fingerprint.from_vector on a count vector
   gives the support, CountFingerprint.from_vector on a float vector truncates, ...) *)
Theorem dense_reads_as_conversion : forall k a lv nm, wf_fp a -> fits_dtype a ->
  rbind (to_dense None a) (fun v => from_dense k v None lv nm) = Ok (set_meta (conv k a) (level_arg lv) (name_arg nm)).
Proof. exact dense_roundtrip_conv. Qed.
Print Assumptions dense_reads_as_conversion.

Theorem csr_reads_as_conversion : forall k a lv nm, wf_fp a -> fits_dtype a ->
  rbind (to_csr None a) (fun m => from_csr k m None lv nm) = Ok (set_meta (conv k a) (level_arg lv) (name_arg nm)).
Proof. exact csr_roundtrip_conv. Qed.
Print Assumptions csr_reads_as_conversion.

(* the uint16 forms of a count fingerprint exist exactly when every count fits; otherwise OverflowError *)
Theorem count_dtype_limit : forall a, wf_fp a -> fkind a = KCount ->
  (is_ok (to_dense None a) = true <-> fits_dtype a) /\ (is_ok (to_csr None a) = true <-> fits_dtype a).
Proof. exact count_dtype_limit. Qed.
Print Assumptions count_dtype_limit.

Theorem bitstring_rt_content : forall a lv nm, wf_fp a -> unit_counts a ->
  rbind (to_bitstring a) (fun s => from_bitstring (fkind a) s None lv nm) = Ok (set_meta a (level_arg lv) (name_arg nm)).
Proof. exact bitstring_rt. Qed.
Print Assumptions bitstring_rt_content.

(* in general the bit string carries the support only *)
Theorem bitstring_reads_unit : forall k a lv nm, wf_fp a ->
  rbind (to_bitstring a) (fun s => from_bitstring k s None lv nm) = Ok (set_meta (unit_fp k a) (level_arg lv) (name_arg nm)).
Proof. exact bitstring_roundtrip_unit. Qed.
Print Assumptions bitstring_reads_unit.

Theorem bitstring_length : forall a s, wf_fp a -> to_bitstring a = Ok s -> Z.of_nat (String.length s) = fbits a.
Proof. exact to_bitstring_length. Qed.
Print Assumptions bitstring_length.

Theorem rdkit_rt_content : forall a lv nm, wf_fp a -> fbits a <= rdkit_max -> unit_counts a ->
  rbind (to_rdkit a) (fun r => from_rdkit (fkind a) r None lv nm) = Ok (set_meta a (level_arg lv) (name_arg nm)).
Proof. exact rdkit_rt. Qed.
Print Assumptions rdkit_rt_content.

Theorem rdkit_reads_unit : forall k a lv nm, wf_fp a -> fbits a <= rdkit_max ->
  rbind (to_rdkit a) (fun r => from_rdkit k r None lv nm) = Ok (set_meta (unit_fp k a) (level_arg lv) (name_arg nm)).
Proof. exact rdkit_roundtrip_unit. Qed.
Print Assumptions rdkit_reads_unit.

(* with the caller passing the fingerprint's own level and (non-empty) name again, the fingerprint itself comes back *)
Theorem indices_rt_resupplied : forall a, wf_fp a -> fname a <> Some EmptyString ->
  from_indices_of a (Some (flevel a)) (fname a) = Ok a.
Proof. exact indices_rt_resupplied. Qed.
Print Assumptions indices_rt_resupplied.

Theorem dense_vector_rt_resupplied : forall a, wf_fp a -> fits_dtype a -> fname a <> Some EmptyString ->
  rbind (to_dense None a) (fun v => from_dense (fkind a) v None (Some (flevel a)) (fname a)) = Ok a.
Proof. exact dense_vector_rt_resupplied. Qed.
Print Assumptions dense_vector_rt_resupplied.

Theorem csr_vector_rt_resupplied : forall a, wf_fp a -> fits_dtype a -> fname a <> Some EmptyString ->
  rbind (to_csr None a) (fun m => from_csr (fkind a) m None (Some (flevel a)) (fname a)) = Ok a.
Proof. exact csr_vector_rt_resupplied. Qed.
Print Assumptions csr_vector_rt_resupplied.

Theorem bitstring_rt_resupplied : forall a, wf_fp a -> unit_counts a -> fname a <> Some EmptyString ->
  rbind (to_bitstring a) (fun s => from_bitstring (fkind a) s None (Some (flevel a)) (fname a)) = Ok a.
Proof. exact bitstring_rt_resupplied. Qed.
Print Assumptions bitstring_rt_resupplied.

Theorem rdkit_rt_resupplied : forall a, wf_fp a -> fbits a <= rdkit_max -> unit_counts a -> fname a <> Some EmptyString ->
  rbind (to_rdkit a) (fun r => from_rdkit (fkind a) r None (Some (flevel a)) (fname a)) = Ok a.
Proof. exact rdkit_rt_resupplied. Qed.
Print Assumptions rdkit_rt_resupplied.

(* a level that is not passed is not carried: it comes back as -1 *)
Theorem level_not_carried : forall a nm, flevel (set_meta a (level_arg None) nm) = Some (-1).
Proof. exact level_not_carried. Qed.
Print Assumptions level_not_carried.

Theorem rdkit_max_is : rdkit_max = 2 ^ 31 - 1.
Proof. exact (eq_refl rdkit_max). Qed.
Print Assumptions rdkit_max_is.

Theorem from_rdkit_bits_keyword_rejected : forall k r b lv nm, from_rdkit k r (Some b) lv nm = Raises EType.
Proof. exact from_rdkit_bits_kw. Qed.
Print Assumptions from_rdkit_bits_keyword_rejected.

(* above the property's bound: two different 2^32-bit fingerprints share one RDKit vector; length 2^31 comes back as 2^31-1 *)
Theorem rdkit_collides_refuted :
  wf_fp ex_rdkit_a /\ wf_fp ex_rdkit_b /\ fbits ex_rdkit_a = 2 ^ 32 /\ fbits ex_rdkit_b = 2 ^ 32 /\
  fidx ex_rdkit_a <> fidx ex_rdkit_b /\ to_rdkit ex_rdkit_a = to_rdkit ex_rdkit_b /\
  (forall lv nm r, rbind (to_rdkit ex_rdkit_b) (fun v => from_rdkit KBit v None lv nm) = Ok r ->
                   fbits r <> fbits ex_rdkit_b /\ fidx r <> fidx ex_rdkit_b).
Proof. exact rdkit_collides. Qed.
Print Assumptions rdkit_collides_refuted.

Theorem rdkit_length_2_31_lost :
  wf_fp ex_rdkit_c /\ forall lv nm r, rbind (to_rdkit ex_rdkit_c) (fun v => from_rdkit KBit v None lv nm) = Ok r -> fbits r = 2 ^ 31 - 1.
Proof. exact rdkit_length_lost. Qed.
Print Assumptions rdkit_length_2_31_lost.

(* pickle (also copy / deepcopy, which go through __getstate__/__setstate__) carries the whole object incl. level, name
   and props.  ASSUMED about the pickle module, as a hypothesis: loads inverts dumps on state dictionaries. *)
Theorem pickle_rt : forall (pbytes : Type) (pkl_dumps : pstate -> pbytes) (pkl_loads : pbytes -> pstate),
  (forall s, pkl_loads (pkl_dumps s) = s) ->
  forall x, wf_fp (xfp x) -> pickle_via pbytes pkl_dumps pkl_loads x = x.
Proof. exact pickle_rt_via. Qed.
Print Assumptions pickle_rt.

(* without well-formedness: everything but the index array is kept; count kinds rebuild it from the counts *)
Theorem pickle_keeps : forall (pbytes : Type) (pkl_dumps : pstate -> pbytes) (pkl_loads : pbytes -> pstate),
  (forall s, pkl_loads (pkl_dumps s) = s) ->
  forall x, let y := pickle_via pbytes pkl_dumps pkl_loads x in
  fkind (xfp y) = fkind (xfp x) /\ fbits (xfp y) = fbits (xfp x) /\ flevel (xfp y) = flevel (xfp x) /\
  fcnt (xfp y) = fcnt (xfp x) /\ fname (xfp y) = fname (xfp x) /\ xprops y = xprops x /\
  fidx (xfp y) = match fkind (xfp x) with KBit => fidx (xfp x) | _ => usort (ckeys (fcnt (xfp x))) end.
Proof. exact pickle_keeps_via. Qed.
Print Assumptions pickle_keeps.

(* files: save/load and savez/loadz, every extension e and both values u of update_structure.  ASSUMED, as
   hypotheses: pickle as above, and reading a file written through smart_open (plain / gzip / bz2) returns the
   written pickles in order. *)
Theorem file_rt : forall (pbytes fbytes : Type) (pkl_dumps : pstate -> pbytes) (pkl_loads : pbytes -> pstate)
    (file_write : file_ext -> list pbytes -> fbytes) (file_read : file_ext -> fbytes -> list pbytes),
  (forall s, pkl_loads (pkl_dumps s) = s) -> (forall e l, file_read e (file_write e l) = l) ->
  forall e u x, wf_fp (xfp x) ->
  file_via pbytes fbytes pkl_dumps pkl_loads file_write file_read e u x = Ok (Some x).
Proof. exact file_rt_via. Qed.
Print Assumptions file_rt.

Theorem filez_rt : forall (pbytes fbytes : Type) (pkl_dumps : pstate -> pbytes) (pkl_loads : pbytes -> pstate)
    (file_write : file_ext -> list pbytes -> fbytes) (file_read : file_ext -> fbytes -> list pbytes),
  (forall s, pkl_loads (pkl_dumps s) = s) -> (forall e l, file_read e (file_write e l) = l) ->
  forall e u xs, (forall x, In x xs -> wf_fp (xfp x)) ->
  filez_via pbytes fbytes pkl_dumps pkl_loads file_write file_read e u xs = Ok xs.
Proof. exact filez_rt_via. Qed.
Print Assumptions filez_rt.

Theorem file_carries_meta : forall (pbytes fbytes : Type) (pkl_dumps : pstate -> pbytes) (pkl_loads : pbytes -> pstate)
    (file_write : file_ext -> list pbytes -> fbytes) (file_read : file_ext -> fbytes -> list pbytes),
  (forall s, pkl_loads (pkl_dumps s) = s) -> (forall e l, file_read e (file_write e l) = l) ->
  forall e u x y, wf_fp (xfp x) ->
  file_via pbytes fbytes pkl_dumps pkl_loads file_write file_read e u x = Ok (Some y) ->
  flevel (xfp y) = flevel (xfp x) /\ fname (xfp y) = fname (xfp x) /\ xprops y = xprops x.
Proof. exact file_carries_meta. Qed.
Print Assumptions file_carries_meta.

(* the functions the correspondence evaluates are these at the identity codec *)
Theorem evaluated_instance : forall u xs,
  filez_via pstate (list pstate) (fun s => s) (fun s => s) (fun _ l => l) (fun _ l => l) XGz u xs = filez_roundtrip u xs /\
  forall x, pickle_via pstate (fun s => s) (fun s => s) x = pickle_roundtrip x.
Proof. exact (fun u xs => conj (filez_via_is pstate (list pstate) (fun s => s) (fun s => s) (fun _ l => l) (fun _ l => l) (fun s => eq_refl) (fun e l => eq_refl) XGz u xs) (fun x => eq_refl)). Qed.
Print Assumptions evaluated_instance.

(* non-vacuity *)
Example hypotheses_satisfiable :
  (wf_fp ex_count /\ fits_dtype ex_count) /\ (wf_fp ex_float /\ fits_dtype ex_float) /\
  (wf_fp ex_bit /\ unit_counts ex_bit /\ fbits ex_bit <= rdkit_max) /\
  (wf_fp ex_count_big /\ ~ fits_dtype ex_count_big /\ to_dense None ex_count_big = Raises EOther /\ to_csr None ex_count_big = Raises EOther).
Proof. exact (conj ex_count_wf (conj ex_float_wf (conj ex_bit_wf ex_count_big_limit))). Qed.

Example roundtrips_compute :
  rbind (to_csr None ex_count) (fun m => from_csr KCount m None (Some (Some 5)) (Some "mol_0"%string)) = Ok ex_count /\
  rbind (to_dense None ex_float) (fun v => from_dense KFloat v None (Some None) None) = Ok ex_float /\
  rbind (to_bitstring ex_bit) (fun s => from_bitstring KBit s None None (Some "a"%string)) = Ok ex_bit /\
  rbind (to_rdkit ex_bit) (fun r => from_rdkit KBit r None None (Some "a"%string)) = Ok ex_bit.
Proof. repeat split; vm_compute; reflexivity. Qed.
