(* C11 - fingerprint operators implement set algebra and pointwise arithmetic. Statements only. *)
From Coq Require Import QArith.
From E3FP Require Import Base.Prelude Base.ZSet Model.Fprint.

Theorem or_spec_placeholder : forall x a b, In x (zunion a b) <-> In x a \/ In x b.
Proof. exact In_zunion. Qed.
Print Assumptions or_spec_placeholder.
