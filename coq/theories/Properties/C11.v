(* C11 - fingerprint operators implement set algebra and pointwise arithmetic.
   Statements only; proofs are in Proofs/FprintOps.v.  Model: Model/Fprint.v (M2). *)
From Coq Require Import QArith.
From E3FP Require Import Base.Prelude Base.ZSet Model.Fprint Proofs.FprintOps.
Open Scope Z_scope.

(* | and + on bit fingerprints: union of the set bits, operands' length kept *)
Theorem or_spec : forall a b r, fp_or a b = Ok r ->
  fbits r = fbits a /\ forall i, In i (fidx r) <-> In i (fidx a) \/ In i (fidx b).
Proof. exact or_spec. Qed.
Print Assumptions or_spec.

Theorem and_spec : forall a b r, fp_and a b = Ok r ->
  fbits r = fbits a /\ forall i, In i (fidx r) <-> In i (fidx a) /\ In i (fidx b).
Proof. exact and_spec. Qed.
Print Assumptions and_spec.

Theorem sub_spec : forall a b r, fp_bit_sub a b = Ok r ->
  fbits r = fbits a /\ forall i, In i (fidx r) <-> In i (fidx a) /\ ~ In i (fidx b).
Proof. exact bit_sub_spec. Qed.
Print Assumptions sub_spec.

Theorem xor_spec : forall a b r, fp_xor a b = Ok r ->
  fbits r = fbits a /\
  forall i, In i (fidx r) <-> (In i (fidx a) /\ ~ In i (fidx b)) \/ (In i (fidx b) /\ ~ In i (fidx a)).
Proof. exact xor_spec. Qed.
Print Assumptions xor_spec.

Theorem bits_mismatch_rejected : forall op a b, fbits a <> fbits b -> bit_binop op a b = Raises EBits.
Proof. exact bit_binop_mismatch. Qed.
Print Assumptions bits_mismatch_rejected.
