(* C11 - fingerprint operators implement set algebra and pointwise arithmetic.
   Statements only; proofs are in Proofs/FprintOps.v.  Model: Model/Fprint.v (M2).

   Reading guide.  `fidx` = the `indices` array, `fcnt` = the `_counts` dict (association list), `cget m i` = m.get(i, 0),
   `ckeys` = the dict's keys, `cast_value k` = the counts setter of class k (int() = truncation for CountFingerprint,
   float() = identity for FloatFingerprint).  `==` is equality of rationals (Qeq), `=` is syntactic equality.
   Every implication is followed by an `Example` exhibiting a concrete input that satisfies its hypotheses.

   In-place forms (a |= b, a += b, a *= x, ...) and reflected forms: the code implements `__iop__`/`__rop__` by calling
   the plain method, so the model has one function per operator; the correspondence (harness/props/c11.py) checks on the
   implementation that `a op= b` returns the value of `a op b`, that `b.__rop__(a)` returns `b op a`, and that no operand
   is changed by any form.  "Operands unchanged" holds by construction in the model (values are immutable); it is a
   statement about the implementation only and is checked there, on every case. *)
From Coq Require Import QArith.
From E3FP Require Import Base.Prelude Base.ZSet Model.Fprint Proofs.FprintOps.
Open Scope Z_scope.

(* ---------------------------------------------------------------------------------------------- *)
(* set operators on bit fingerprints                                                               *)

(* | : union of the set bits, operands' length kept *)
Theorem or_spec : forall a b r, fp_or a b = Ok r ->
  fbits r = fbits a /\ forall i, In i (fidx r) <-> In i (fidx a) \/ In i (fidx b).
Proof. exact or_spec. Qed.
Print Assumptions or_spec.
Example or_spec_nonvacuous :
  fp_or (mkfp KBit 8 (Some 5) [1; 3] [] None) (mkfp KBit 8 (Some 5) [3; 6] [] None) = Ok (mkfp KBit 8 (Some (-1)) [1; 3; 6] [] None).
Proof. vm_compute. reflexivity. Qed.

Theorem and_spec : forall a b r, fp_and a b = Ok r ->
  fbits r = fbits a /\ forall i, In i (fidx r) <-> In i (fidx a) /\ In i (fidx b).
Proof. exact and_spec. Qed.
Print Assumptions and_spec.
Example and_spec_nonvacuous :
  fp_and (mkfp KBit 8 (Some 5) [1; 3] [] None) (mkfp KBit 8 (Some 5) [3; 6] [] None) = Ok (mkfp KBit 8 (Some (-1)) [3] [] None).
Proof. vm_compute. reflexivity. Qed.

Theorem sub_spec : forall a b r, fp_bit_sub a b = Ok r ->
  fbits r = fbits a /\ forall i, In i (fidx r) <-> In i (fidx a) /\ ~ In i (fidx b).
Proof. exact bit_sub_spec. Qed.
Print Assumptions sub_spec.
Example sub_spec_nonvacuous :
  fp_bit_sub (mkfp KBit 8 (Some 5) [1; 3] [] None) (mkfp KBit 8 (Some 5) [3; 6] [] None) = Ok (mkfp KBit 8 (Some (-1)) [1] [] None).
Proof. vm_compute. reflexivity. Qed.

Theorem xor_spec : forall a b r, fp_xor a b = Ok r ->
  fbits r = fbits a /\
  forall i, In i (fidx r) <-> (In i (fidx a) /\ ~ In i (fidx b)) \/ (In i (fidx b) /\ ~ In i (fidx a)).
Proof. exact xor_spec. Qed.
Print Assumptions xor_spec.
Example xor_spec_nonvacuous :
  fp_xor (mkfp KBit 8 (Some 5) [1; 3] [] None) (mkfp KBit 8 (Some 5) [3; 6] [] None) = Ok (mkfp KBit 8 (Some (-1)) [1; 6] [] None).
Proof. vm_compute. reflexivity. Qed.

(* + on bit fingerprints is | ; Python's dispatch of + and - on a bit left operand *)
Theorem add_bit_is_or : forall a b, fp_bit_add a b = fp_or a b.
Proof. exact add_bit_is_or. Qed.
Print Assumptions add_bit_is_or.

Theorem add_dispatch_bit : forall a b, fkind a = KBit -> fp_add a b = fp_or a b /\ fp_sub a b = fp_bit_sub a b.
Proof. exact add_dispatch_bit. Qed.
Print Assumptions add_dispatch_bit.

(* reflected forms of the commutative operators: b.__ror__(a) is computed as b | a, which is a | b (whole results
   are equal, including the rejection of unequal lengths) *)
Theorem reflected_forms_equal_plain : forall a b,
  fp_or b a = fp_or a b /\ fp_and b a = fp_and a b /\ fp_xor b a = fp_xor a b /\ fp_bit_add b a = fp_bit_add a b.
Proof. exact reflected_forms_equal_plain. Qed.
Print Assumptions reflected_forms_equal_plain.

(* totality: on well-formed operands (every stored position < length; the code does not reject negative positions,
   nor does this) of equal length no set operator raises; the result is given explicitly *)
Theorem set_ops_total : forall a b, wf_idx a -> wf_idx b -> fbits a = fbits b ->
  (exists r, fp_or a b = Ok r) /\ (exists r, fp_bit_add a b = Ok r) /\ (exists r, fp_and a b = Ok r) /\
  (exists r, fp_bit_sub a b = Ok r) /\ (exists r, fp_xor a b = Ok r).
Proof. exact set_ops_total. Qed.
Print Assumptions set_ops_total.
Example set_ops_total_nonvacuous :
  wf_idx (mkfp KBit 8 None [0; 7] [] None) /\ wf_idx (mkfp KBit 8 (Some 2) [-3; 7] [] None).
Proof. split; repeat constructor. Qed.

(* results are again well-formed, strictly increasing index lists *)
Theorem set_op_result_wf : forall op a b r, bit_binop op a b = Ok r -> wf_idx r /\ ssorted (fidx r).
Proof. exact bit_binop_wf. Qed.
Print Assumptions set_op_result_wf.

Theorem bits_mismatch_rejected : forall op a b, fbits a <> fbits b -> bit_binop op a b = Raises EBits.
Proof. exact bit_binop_mismatch. Qed.
Print Assumptions bits_mismatch_rejected.
Example bits_mismatch_nonvacuous :
  fp_or (mkfp KBit 8 None [1] [] None) (mkfp KBit 16 None [1] [] None) = Raises EBits.
Proof. vm_compute. reflexivity. Qed.

(* ---------------------------------------------------------------------------------------------- *)
(* + and - on count / float fingerprints: position by position on the union of the supports        *)
Theorem count_add_spec : forall a b r, count_binop Qplus a b = Ok r ->
  fbits r = fbits a /\ fkind r = result_kind a b /\ flevel r = merged_level a b /\ fname r = None /\
  fidx r = zunion (ckeys (fcnt a)) (ckeys (fcnt b)) /\ ckeys (fcnt r) = fidx r /\
  (forall i, In i (fidx r) <-> In i (ckeys (fcnt a)) \/ In i (ckeys (fcnt b))) /\
  (forall i, cget (fcnt r) i = cast_value (fkind r) (cget (fcnt a) i + cget (fcnt b) i)%Q).
Proof. exact count_add_spec. Qed.
Print Assumptions count_add_spec.
Example count_add_nonvacuous :
  count_binop Qplus (mkfp KCount 8 (Some 5) [1; 3] [(1, 2 # 1); (3, 7 # 1)] None)
                    (mkfp KCount 8 (Some 2) [3; 6] [(3, 1 # 1); (6, 4 # 1)] None)
  = Ok (mkfp KCount 8 (Some (-1)) [1; 3; 6] [(1, 2 # 1); (3, 8 # 1); (6, 4 # 1)] None).
Proof. vm_compute. reflexivity. Qed.

Theorem count_sub_spec : forall a b r, count_binop Qminus a b = Ok r ->
  fbits r = fbits a /\ fkind r = result_kind a b /\ flevel r = merged_level a b /\ fname r = None /\
  fidx r = zunion (ckeys (fcnt a)) (ckeys (fcnt b)) /\ ckeys (fcnt r) = fidx r /\
  (forall i, In i (fidx r) <-> In i (ckeys (fcnt a)) \/ In i (ckeys (fcnt b))) /\
  (forall i, cget (fcnt r) i = cast_value (fkind r) (cget (fcnt a) i - cget (fcnt b) i)%Q).
Proof. exact count_sub_spec. Qed.
Print Assumptions count_sub_spec.
Example count_sub_nonvacuous :
  count_binop Qminus (mkfp KFloat 8 (Some 5) [1; 3] [(1, 5 # 2); (3, 7 # 1)] None)
                     (mkfp KCount 8 (Some 5) [3; 6] [(3, 1 # 1); (6, 4 # 1)] None)
  = Ok (mkfp KFloat 8 (Some 5) [1; 3; 6] [(1, 5 # 2); (3, 6 # 1); (6, (-4) # 1)] None).
Proof. vm_compute. reflexivity. Qed.

(* integer-valued counts: the int() cast changes nothing, the result is the integer sum / difference *)
Theorem count_add_int : forall a b r i n m, count_binop Qplus a b = Ok r ->
  cget (fcnt a) i = inject_Z n -> cget (fcnt b) i = inject_Z m -> cget (fcnt r) i = inject_Z (n + m).
Proof. exact count_add_int. Qed.
Print Assumptions count_add_int.

Theorem count_sub_int : forall a b r i n m, count_binop Qminus a b = Ok r ->
  cget (fcnt a) i = inject_Z n -> cget (fcnt b) i = inject_Z m -> cget (fcnt r) i = inject_Z (n - m).
Proof. exact count_sub_int. Qed.
Print Assumptions count_sub_int.
Example count_int_nonvacuous :
  cget (fcnt (mkfp KCount 8 (Some 5) [1; 3] [(1, 2 # 1); (3, 7 # 1)] None)) 3 = inject_Z 7 /\
  cget (fcnt (mkfp KCount 8 (Some 2) [3; 6] [(3, 1 # 1); (6, 4 # 1)] None)) 3 = inject_Z 1.
Proof. split; reflexivity. Qed.

(* Python dispatch: + / - with a count or float left operand is the count arithmetic above *)
Theorem add_dispatch_count : forall a b, is_count_like a = true ->
  fp_add a b = count_binop Qplus a b /\ fp_sub a b = count_binop Qminus a b.
Proof. exact add_dispatch_count. Qed.
Print Assumptions add_dispatch_count.

Theorem count_ops_total : forall f a b, is_count_like a = true -> is_count_like b = true -> fbits a = fbits b ->
  wf_cnt a -> wf_cnt b -> exists r, count_binop f a b = Ok r.
Proof. exact count_binop_total. Qed.
Print Assumptions count_ops_total.
Example count_ops_total_nonvacuous :
  wf_cnt (mkfp KCount 8 (Some 5) [1; 3] [(1, 2 # 1); (3, 7 # 1)] None) /\
  wf_cnt (mkfp KFloat 8 (Some 2) [3; 6] [(3, 1 # 2); (6, 4 # 1)] None).
Proof. split; repeat constructor. Qed.

Theorem count_bits_mismatch_rejected : forall f a b, is_count_like a = true -> is_count_like b = true ->
  fbits a <> fbits b -> count_binop f a b = Raises EBits.
Proof. exact count_bits_mismatch_rejected. Qed.
Print Assumptions count_bits_mismatch_rejected.
Example count_bits_mismatch_nonvacuous :
  fp_add (mkfp KCount 8 None [1] [(1, 2 # 1)] None) (mkfp KCount 16 None [1] [(1, 2 # 1)] None) = Raises EBits.
Proof. vm_compute. reflexivity. Qed.

(* ---------------------------------------------------------------------------------------------- *)
(* scalar * / //                                                                                    *)
(* a * x: same class, every count multiplied (and cast by the class: int() for CountFingerprint) *)
Theorem mul_spec : forall a x r, is_count_like a = true -> fp_mul a x = Ok r ->
  fkind r = fkind a /\ fbits r = fbits a /\ flevel r = flevel a /\ fname r = fname a /\
  ckeys (fcnt r) = ckeys (fcnt a) /\
  (forall i, In i (ckeys (fcnt a)) -> cget (fcnt r) i = cast_value (fkind a) (cget (fcnt a) i * x)%Q) /\
  (forall i, cget (fcnt r) i == cast_value (fkind a) (cget (fcnt a) i * x)%Q).
Proof. exact mul_spec. Qed.
Print Assumptions mul_spec.
Example mul_nonvacuous :
  fp_mul (mkfp KCount 8 (Some 5) [1; 3] [(1, 2 # 1); (3, 7 # 1)] (Some "m"%string)) (3 # 1)
  = Ok (mkfp KCount 8 (Some 5) [1; 3] [(1, 6 # 1); (3, 21 # 1)] (Some "m"%string)).
Proof. vm_compute. reflexivity. Qed.

(* a / x: a FloatFingerprint with every count divided *)
Theorem div_spec : forall a x r, is_count_like a = true -> fp_div a x = Ok r ->
  (x == 0 -> fcnt a = []) /\ fkind r = KFloat /\ fbits r = fbits a /\ flevel r = flevel a /\ fname r = fname a /\
  ckeys (fcnt r) = ckeys (fcnt a) /\
  (forall i, In i (ckeys (fcnt a)) -> cget (fcnt r) i = (cget (fcnt a) i / x)%Q) /\
  (forall i, cget (fcnt r) i == (cget (fcnt a) i / x)%Q).
Proof. exact div_spec. Qed.
Print Assumptions div_spec.
Example div_nonvacuous :
  fp_div (mkfp KCount 8 (Some 5) [1; 3] [(1, 2 # 1); (3, 7 # 1)] None) (2 # 1)
  = Ok (mkfp KFloat 8 (Some 5) [1; 3] [(1, 2 # 2); (3, 7 # 2)] None).
Proof. vm_compute. reflexivity. Qed.

(* division by zero: ZeroDivisionError as soon as there is a count to divide (an empty fingerprint divides silently) *)
Theorem div_by_zero : forall a x cf, from_fingerprint KFloat a = Ok cf -> x == 0 ->
  fp_div a x = if match fcnt a with [] => true | _ => false end then Ok (set_counts KFloat cf []) else Raises EOther.
Proof. exact div_by_zero. Qed.
Print Assumptions div_by_zero.
Example div_by_zero_nonvacuous :
  fp_div (mkfp KCount 8 (Some 5) [1] [(1, 2 # 1)] None) 0 = Raises EOther /\
  fp_div (mkfp KCount 8 (Some 5) [] [] None) 0 = Ok (mkfp KFloat 8 (Some 5) [] [] None).
Proof. split; vm_compute; reflexivity. Qed.

(* a // x: a CountFingerprint; exactly the positions holding a count v >= x are kept (indices and count keys agree),
   each with int(v / x); positions with v < x are dropped *)
Theorem floordiv_spec : forall a x r, is_count_like a = true -> fp_floordiv a x = Ok r ->
  (x == 0 -> fidx r = []) /\ fkind r = KCount /\ fbits r = fbits a /\ flevel r = flevel a /\ fname r = fname a /\
  (forall i, In i (fidx r) <-> exists v, In (i, v) (fcnt a) /\ (x <= v)%Q) /\
  (forall i, In i (ckeys (fcnt r)) <-> In i (fidx r)) /\ ssorted (fidx r) /\
  (NoDup (ckeys (fcnt a)) -> forall i,
     cget (fcnt r) i = if zmem i (ckeys (fcnt a)) && Qle_bool x (cget (fcnt a) i)
                       then qtrunc (cget (fcnt a) i / x)%Q else 0%Q).
Proof. exact floordiv_spec. Qed.
Print Assumptions floordiv_spec.

Theorem floordiv_kept : forall a x r i, is_count_like a = true -> NoDup (ckeys (fcnt a)) -> fp_floordiv a x = Ok r ->
  In i (ckeys (fcnt a)) -> (x <= cget (fcnt a) i)%Q ->
  In i (fidx r) /\ cget (fcnt r) i = qtrunc (cget (fcnt a) i / x)%Q.
Proof. exact floordiv_kept. Qed.
Print Assumptions floordiv_kept.

Theorem floordiv_dropped : forall a x r i, is_count_like a = true -> NoDup (ckeys (fcnt a)) -> fp_floordiv a x = Ok r ->
  (cget (fcnt a) i < x)%Q -> ~ In i (fidx r) /\ cget (fcnt r) i = 0%Q.
Proof. exact floordiv_dropped. Qed.
Print Assumptions floordiv_dropped.
Example floordiv_nonvacuous :
  fp_floordiv (mkfp KCount 8 (Some 5) [1; 3; 6] [(1, 2 # 1); (3, 7 # 1); (6, 3 # 1)] None) (3 # 1)
  = Ok (mkfp KCount 8 (Some 5) [3; 6] [(3, 2 # 1); (6, 1 # 1)] None)
  /\ NoDup (ckeys [(1, 2 # 1); (3, 7 # 1); (6, 3 # 1)]).
Proof. split; [vm_compute; reflexivity|]. repeat constructor; simpl; intuition discriminate. Qed.

Theorem floordiv_by_zero : forall a x cf v i, from_fingerprint KCount a = Ok cf -> x == 0 -> In (i, v) (fcnt a) -> (0 <= v)%Q ->
  fp_floordiv a x = Raises EOther.
Proof. exact floordiv_by_zero. Qed.
Print Assumptions floordiv_by_zero.
Example floordiv_by_zero_nonvacuous :
  fp_floordiv (mkfp KCount 8 (Some 5) [1] [(1, 2 # 1)] None) 0 = Raises EOther.
Proof. vm_compute. reflexivity. Qed.

(* ---------------------------------------------------------------------------------------------- *)
(* batch sum and mean: `wsum l w i` is the sum over the paired members of count_a(i) * w_a;           *)
(* `csum l i` the plain sum of count_a(i); `counts_of` gives 1 per set bit for bit fingerprints      *)
Theorem wsum_is_weighted_sum : forall l w i,
  wsum l w i = qsum (map (fun aw => (cget (counts_of (fst aw)) i * snd aw)%Q) (combine l w)).
Proof. exact wsum_combine. Qed.
Print Assumptions wsum_is_weighted_sum.

Theorem wsum_ones_is_sum : forall l i, wsum l (ones (length l)) i == csum l i.
Proof. exact wsum_ones. Qed.
Print Assumptions wsum_ones_is_sum.

Theorem batch_add_spec : forall l r, batch_add l None = Ok (Some r) ->
  (exists a0 l', l = a0 :: l' /\ fbits r = fbits a0 /\ flevel r = flevel a0) /\ (forall a, In a l -> fbits a = fbits r) /\
  fkind r = batch_kind l /\ fname r = None /\
  fidx r = all_keys l /\ ckeys (fcnt r) = fidx r /\
  (forall i, In i (fidx r) <-> exists a, In a l /\ In i (ckeys (counts_of a))) /\
  (forall i, cget (fcnt r) i = cast_value (fkind r) (wsum l (ones (length l)) i)).
Proof. exact batch_add_spec. Qed.
Print Assumptions batch_add_spec.

(* ... which is the plain sum whenever the int() cast is the identity: a float member makes the result a
   FloatFingerprint; otherwise all members are integer-valued (bit and count fingerprints always are) *)
Theorem batch_add_sum : forall l r, batch_add l None = Ok (Some r) ->
  (any_float l = true \/ forall a, In a l -> int_counts a) ->
  forall i, cget (fcnt r) i == csum l i.
Proof. exact batch_add_sum. Qed.
Print Assumptions batch_add_sum.
Example batch_add_nonvacuous :
  batch_add [mkfp KBit 8 (Some 5) [1; 3] [] None; mkfp KCount 8 (Some 2) [3; 6] [(3, 2 # 1); (6, 4 # 1)] None;
             mkfp KCount 8 None [1] [(1, 9 # 1)] None] None
  = Ok (Some (mkfp KCount 8 (Some 5) [1; 3; 6] [(1, 10 # 1); (3, 3 # 1); (6, 4 # 1)] None)).
Proof. vm_compute. reflexivity. Qed.

Theorem batch_add_weighted_spec : forall l ws r, batch_add l (Some ws) = Ok (Some r) ->
  length ws = length l /\
  (exists a0 l', l = a0 :: l' /\ fbits r = fbits a0 /\ flevel r = flevel a0) /\ (forall a, In a l -> fbits a = fbits r) /\
  fkind r = KFloat /\ fname r = None /\ fidx r = all_keys l /\ ckeys (fcnt r) = fidx r /\
  (forall i, In i (fidx r) <-> exists a, In a l /\ In i (ckeys (counts_of a))) /\
  (forall i, In i (fidx r) -> cget (fcnt r) i = wsum l ws i) /\
  (forall i, cget (fcnt r) i == wsum l ws i).
Proof. exact batch_add_weighted_spec. Qed.
Print Assumptions batch_add_weighted_spec.
Example batch_add_weighted_nonvacuous :
  result_eqb (option_eqb (fp_obs_eqb))
    (batch_add [mkfp KBit 8 (Some 5) [1; 3] [] None; mkfp KCount 8 (Some 2) [3; 6] [(3, 2 # 1); (6, 4 # 1)] None]
               (Some [1 # 2; 3 # 1]))
    (Ok (Some (mkfp KFloat 8 (Some 5) [1; 3; 6] [(1, 1 # 2); (3, 13 # 2); (6, 12 # 1)] None))) = true.
Proof. vm_compute. reflexivity. Qed.

(* weighted mean: weights normalised by their sum *)
Theorem batch_mean_weighted_spec : forall l ws r, batch_mean l (Some ws) = Ok (Some r) ->
  ~ qsum ws == 0 /\ length ws = length l /\ fkind r = KFloat /\ fidx r = all_keys l /\ ckeys (fcnt r) = fidx r /\
  (exists a0 l', l = a0 :: l' /\ fbits r = fbits a0 /\ flevel r = flevel a0) /\
  (forall i, cget (fcnt r) i == (wsum l ws i / qsum ws)%Q).
Proof. exact batch_mean_weighted_spec. Qed.
Print Assumptions batch_mean_weighted_spec.
Example batch_mean_weighted_nonvacuous :
  result_eqb (option_eqb (fp_obs_eqb))
    (batch_mean [mkfp KBit 8 (Some 5) [1; 3] [] None; mkfp KCount 8 (Some 2) [3; 6] [(3, 2 # 1); (6, 4 # 1)] None]
                (Some [1 # 1; 3 # 1]))
    (Ok (Some (mkfp KFloat 8 (Some 5) [1; 3; 6] [(1, 1 # 4); (3, 7 # 4); (6, 3 # 1)] None))) = true.
Proof. vm_compute. reflexivity. Qed.

(* unweighted mean = sum / n *)
Theorem batch_mean_spec : forall l r, batch_mean l None = Ok (Some r) ->
  l <> [] /\ fkind r = KFloat /\ ckeys (fcnt r) = all_keys l /\
  (exists a0 l', l = a0 :: l' /\ fbits r = fbits a0 /\ flevel r = flevel a0) /\
  (forall i, cget (fcnt r) i ==
             (cast_value (batch_kind l) (wsum l (ones (length l)) i) / inject_Z (Z.of_nat (length l)))%Q).
Proof. exact batch_mean_spec. Qed.
Print Assumptions batch_mean_spec.

Theorem batch_mean_is_sum_over_n : forall l r, batch_mean l None = Ok (Some r) ->
  (any_float l = true \/ forall a, In a l -> int_counts a) ->
  forall i, cget (fcnt r) i == (csum l i / inject_Z (Z.of_nat (length l)))%Q.
Proof. exact batch_mean_is_sum_over_n. Qed.
Print Assumptions batch_mean_is_sum_over_n.
Example batch_mean_nonvacuous :
  result_eqb (option_eqb (fp_obs_eqb))
    (batch_mean [mkfp KBit 8 (Some 5) [1; 3] [] None; mkfp KFloat 8 (Some 2) [3; 6] [(3, 5 # 2); (6, 4 # 1)] None] None)
    (Ok (Some (mkfp KFloat 8 (Some 5) [1; 3; 6] [(1, 1 # 2); (3, 7 # 4); (6, 2 # 1)] None))) = true
  /\ any_float [mkfp KBit 8 (Some 5) [1; 3] [] None; mkfp KFloat 8 (Some 2) [3; 6] [(3, 5 # 2); (6, 4 # 1)] None] = true.
Proof. split; vm_compute; reflexivity. Qed.

(* bit fingerprints are integer-valued (the hypothesis of the two `_sum` theorems is satisfiable for mixed batches) *)
Theorem bit_members_int_valued : forall a, fkind a = KBit -> int_counts a.
Proof. exact bit_int_counts. Qed.
Print Assumptions bit_members_int_valued.

(* rejections of the batch functions *)
Theorem batch_rejections :
  (batch_add [] None = Ok None /\ batch_mean [] None = Raises EType) /\
  (forall l ws, l <> [] -> batch_bits_ok l = true -> length ws <> length l -> batch_add l (Some ws) = Raises EValue) /\
  (forall l ws, qsum ws == 0 -> batch_mean l (Some ws) = Raises EValue).
Proof. exact batch_rejections. Qed.
Print Assumptions batch_rejections.

(* members of different lengths are rejected by add() and mean(), weighted or not (E3FPBitsValueError; mean() reports
   a zero weight sum first) *)
Theorem batch_bits_mismatch_rejected : forall l a, l <> [] -> In a l -> fbits a <> fbits (hd a l) ->
  (forall w, batch_add l w = Raises EBits) /\ batch_mean l None = Raises EBits /\
  (forall ws, ~ qsum ws == 0 -> batch_mean l (Some ws) = Raises EBits).
Proof. exact batch_bits_mismatch_rejected. Qed.
Print Assumptions batch_bits_mismatch_rejected.
Example batch_bits_mismatch_nonvacuous :
  let l := [mkfp KBit 8 None [1] [] None; mkfp KCount 16 None [1] [(1, 2 # 1)] None] in
  batch_add l None = Raises EBits /\ batch_add l (Some [1 # 1; 2 # 1]) = Raises EBits /\ batch_mean l None = Raises EBits /\
  batch_mean l (Some [1 # 1; 2 # 1]) = Raises EBits /\ batch_mean l (Some [1 # 1; (-1) # 1]) = Raises EValue /\
  batch_add l (Some [1 # 1]) = Raises EBits.
Proof. vm_compute. repeat split. Qed.
