(* C11 (source-derived obligations) - the five set operators of bit fingerprints in the model are those TRANSLATED FROM THE SOURCE TEXT.
   harness/facts_setopsrc.py (a fail-closed Python-`ast` translator) writes Gen/SetOpSource.v from Fingerprint.__add__ / __sub__ /
   __and__ / __or__ / __xor__ (fprint.py) on every run: per operator the `if <test>: raise <Error>` guards in source order with their
   exception classes, the NumPy set function applied and the ORDER of its operands, and the operand whose length the result takes.
   When the translator cannot read the source this file is reported as not attempted; when it can, every theorem holds.
   Trusted table: np.union1d = zunion, np.intersect1d = zinter, np.setdiff1d = zdiff, np.setxor1d = zxor (Base/ZSet.v; tied by the
   correspondence).  `is_fp` is true for every operand the model can express (all three classes derive from Fingerprint); the
   result is a plain bit fingerprint with level -1 and no name (REQUIRED by the translator: no level/name keyword).  Statements only. *)
From Coq Require Import ZArith List Bool.
From E3FP Require Import Base.Prelude Base.ZSet Model.Fprint Gen.SetOpSource.
Open Scope Z_scope.

Definition op_src (g : bool -> bool -> option err) (ix : list Z -> list Z -> list Z) (bs : Z -> Z -> Z) (a b : fp) : result fp :=
  match g true (fbits a =? fbits b) with
  | Some e => Raises e
  | None => mk_bit (ix (fidx a) (fidx b)) (bs (fbits a) (fbits b)) minus1 None
  end.

Ltac src_op := intros a b; unfold op_src, fp_bit_add, fp_bit_sub, fp_and, fp_or, fp_xor, bit_binop;
  let E := fresh "E" in
  match goal with |- context [fbits ?x =? fbits ?y] => destruct (fbits x =? fbits y) eqn:E end; cbn;
  first [reflexivity | apply Z.eqb_eq in E; rewrite E; reflexivity | apply Z.eqb_eq in E; rewrite <- E; reflexivity].

Theorem bit_add_matches_source : forall a b, fp_bit_add a b = op_src bit_add_guards_src bit_add_indices_src bit_add_bits_src a b.
Proof. src_op. Qed.
Print Assumptions bit_add_matches_source.

Theorem bit_sub_matches_source : forall a b, fp_bit_sub a b = op_src bit_sub_guards_src bit_sub_indices_src bit_sub_bits_src a b.
Proof. src_op. Qed.
Print Assumptions bit_sub_matches_source.

Theorem bit_and_matches_source : forall a b, fp_and a b = op_src bit_and_guards_src bit_and_indices_src bit_and_bits_src a b.
Proof. src_op. Qed.
Print Assumptions bit_and_matches_source.

Theorem bit_or_matches_source : forall a b, fp_or a b = op_src bit_or_guards_src bit_or_indices_src bit_or_bits_src a b.
Proof. src_op. Qed.
Print Assumptions bit_or_matches_source.

Theorem bit_xor_matches_source : forall a b, fp_xor a b = op_src bit_xor_guards_src bit_xor_indices_src bit_xor_bits_src a b.
Proof. src_op. Qed.
Print Assumptions bit_xor_matches_source.

(* non-vacuity: the translated pieces are not constant and distinguish the operators *)
Example setop_src_example :
  bit_and_guards_src true true = None /\ bit_and_guards_src true false = Some EBits /\ bit_xor_guards_src false true = Some EInvalidFp /\
  bit_sub_indices_src (1 :: 4 :: 7 :: nil) (4 :: 9 :: nil) = 1 :: 7 :: nil /\
  bit_and_indices_src (1 :: 4 :: 7 :: nil) (4 :: 9 :: nil) = 4 :: nil /\
  bit_xor_indices_src (1 :: 4 :: 7 :: nil) (4 :: 9 :: nil) = 1 :: 7 :: 9 :: nil /\
  bit_or_indices_src (1 :: 4 :: 7 :: nil) (4 :: 9 :: nil) = 1 :: 4 :: 7 :: 9 :: nil.
Proof. vm_compute. repeat split; reflexivity. Qed.
