(* C12 - levels nest, truncate consistently, and level -1 means convergence.
   Statements only; proofs are in Proofs/E3FPIter.v (structure of the iteration, any scene), Proofs/E3FPIterTerm.v
   (termination), Proofs/E3FPIterRun.v (the forms below, over `run`) and Proofs/E3FPDedup.v.  Model: Model/E3FP.v (M1).

   Reading guide.  `run D C fuel o m` = Fingerprinter(level = o_level o, ...).run(conf, mol) over the ring dictionary D
   (ZD = exact integer coordinates, the dictionary of the executable runs); the result `Ok st` carries
   `st_k st` = current_level and, per level, `level_shells` (`shells_at_true st j`).  `o_with_level o L` = the same
   options with level cap L (-1 = until convergence).  `shells_query o st req mask` = get_shells_at_level(req, atom_mask)
   and `fingerprint_query o counts bits st req mask` = get_fingerprint_at_level(req, bits, atom_mask) for a fingerprinter
   built with `counts`; `req : option Z` is the `level` argument (None = Python None).  `ids_of` = the unsigned 32-bit
   identifiers of a shell list *before folding*; `count_occ_Z i l` = multiplicity of i in l, which is what a count
   fingerprint stores.  `fuel` bounds the number of iterations; `Raises ERecursion` = fuel exhausted.
   All theorems hold for every molecule, option setting, mask, fold size, and every pair of levels - no bound on the
   number of atoms or levels.  The same theorems over an arbitrary scene (not only those built from a molecule) are
   `E3FPIter.run_prefix`, `levels_nest`, `truncation`, `beyond_convergence`, `minus_one_is_limit`.
   Every implication is followed by an `Example` (four carbon atoms on a line, 1 Angstrom apart, radius multiplier 1.5,
   stereo on, duplicate removal on: converges at level 2) showing that its hypotheses are satisfiable. *)
From E3FP Require Import Base.Prelude Base.ZSet Model.Geometry Model.Stereo Model.Fprint Model.E3FP
  Gen.Constants Gen.AngleTable Proofs.E3FPDedup Proofs.E3FPIter Proofs.E3FPIterTerm Proofs.E3FPIterRun.
Open Scope Z_scope.

(* ---------------------------------------------------------------------------------------------- *)
(* levels nest: level_shells[j+1] extends level_shells[j]; hence, before folding, every identifier present at
   level j is present at level j+1, with at least the same multiplicity (count fingerprints), under every mask *)
Theorem levels_nest : forall D C fuel o m st j mask,
  run D C fuel o m = Ok st -> 0 <= j -> j + 1 <= st_k st ->
  (exists ext, shells_query o st (Some (j + 1)) mask = shells_query o st (Some j) mask ++ ext) /\
  (forall i, In i (ids_of (shells_query o st (Some j) mask)) -> In i (ids_of (shells_query o st (Some (j + 1)) mask))) /\
  (forall i, count_occ_Z i (ids_of (shells_query o st (Some j) mask)) <=
             count_occ_Z i (ids_of (shells_query o st (Some (j + 1)) mask))).
Proof. exact levels_nest_run. Qed.
Print Assumptions levels_nest.
Example levels_nest_nonvacuous :   (* a run reaching level 2: j = 0 and j = 1 qualify *)
  ex_k (run ZD e3fp_consts 400 (ex_opts (-1)) ex_mol) = Some 2.
Proof. vm_compute. reflexivity. Qed.

(* every returned state has exactly current_level + 1 levels of shells (levels 0 .. current_level) *)
Theorem state_shape : forall D C fuel o m st, run D C fuel o m = Ok st ->
  0 <= st_k st /\
  length (st_shells st) = S (Z.to_nat (st_k st)) /\
  length (st_levels st) = S (Z.to_nat (st_k st)).
Proof. exact run_state_shape. Qed.
Print Assumptions state_shape.
Example state_shape_nonvacuous : is_ok (run ZD e3fp_consts 400 (ex_opts 1) ex_mol) = true.
Proof. vm_compute. reflexivity. Qed.

(* ---------------------------------------------------------------------------------------------- *)
(* a run capped at k is a prefix of a run capped at L >= k (or uncapped): it exists with k+1 iterations of fuel,
   stops at min(k, level reached by the longer run), agrees with it on every level it has, and is the very same
   state when the longer run stopped at or below k *)
Theorem run_prefix : forall D C o m k L fuelL fuelk stL,
  0 <= k -> (k <= L \/ L = -1) ->
  run D C fuelL (o_with_level o L) m = Ok stL ->
  (Z.to_nat k < fuelk)%nat ->
  exists stk, run D C fuelk (o_with_level o k) m = Ok stk /\
    st_k stk = Z.min k (st_k stL) /\
    (forall j, j <= st_k stk -> shells_at_true stk j = shells_at_true stL j) /\
    (st_k stL <= k -> stk = stL).
Proof. exact run_prefix_run. Qed.
Print Assumptions run_prefix.
Example run_prefix_nonvacuous :
  ex_k (run ZD e3fp_consts 400 (o_with_level (ex_opts 0) 5) ex_mol) = Some 2 /\
  ex_k (run ZD e3fp_consts 400 (o_with_level (ex_opts 0) (-1)) ex_mol) = Some 2 /\
  ex_k (run ZD e3fp_consts 400 (o_with_level (ex_opts 0) 1) ex_mol) = Some 1.
Proof. vm_compute. repeat split; reflexivity. Qed.

(* truncation: the shells and the fingerprint requested at level k from a run to level L >= k equal those of a
   run limited to level k - same identifiers, same counts, same fold, same label *)
Theorem truncation : forall D C o m k L fuelL fuelk stL stk mask,
  0 <= k <= L ->
  run D C fuelL (o_with_level o L) m = Ok stL ->
  run D C fuelk (o_with_level o k) m = Ok stk ->
  shells_query (o_with_level o L) stL (Some k) mask = shells_query (o_with_level o k) stk (Some k) mask /\
  forall counts bits,
    fingerprint_query (o_with_level o L) counts bits stL (Some k) mask =
    fingerprint_query (o_with_level o k) counts bits stk (Some k) mask.
Proof. exact truncation_run. Qed.
Print Assumptions truncation.
Example truncation_nonvacuous :   (* k = 1, L = 5; the level-1 count fingerprint folded to 1024 has 4 indices *)
  match run ZD e3fp_consts 400 (o_with_level (ex_opts 0) 5) ex_mol,
        run ZD e3fp_consts 400 (o_with_level (ex_opts 0) 1) ex_mol with
  | Ok stL, Ok stk =>
    match fingerprint_query (o_with_level (ex_opts 0) 5) true 1024 stL (Some 1) [0] with
    | Ok f => Z.of_nat (length (fidx f)) =? 4
    | Raises _ => false
    end
  | _, _ => false
  end = true.
Proof. vm_compute. reflexivity. Qed.

(* ---------------------------------------------------------------------------------------------- *)
(* level -1 is the limit: if the run with level -1 ends at level c, then for every L >= c the run capped at L
   (c+1 iterations of fuel suffice) ends in the very same state, so every query - any request (explicit level,
   -1, None), any mask, bits or counts, any fold - returns the same shells and the same fingerprint *)
Theorem minus_one_is_limit : forall D C o m fuel sconv L,
  run D C fuel (o_with_level o (-1)) m = Ok sconv -> st_k sconv <= L ->
  (forall fuelL, (Z.to_nat (st_k sconv) < fuelL)%nat -> run D C fuelL (o_with_level o L) m = Ok sconv) /\
  (forall fuelL stL, run D C fuelL (o_with_level o L) m = Ok stL ->
     stL = sconv /\
     forall counts bits req mask,
       shells_query (o_with_level o L) stL req mask = shells_query (o_with_level o (-1)) sconv req mask /\
       fingerprint_query (o_with_level o L) counts bits stL req mask =
       fingerprint_query (o_with_level o (-1)) counts bits sconv req mask).
Proof. exact minus_one_is_limit_run. Qed.
Print Assumptions minus_one_is_limit.
Example minus_one_is_limit_nonvacuous :   (* c = 2 <= L = 5 *)
  ex_k (run ZD e3fp_consts 400 (o_with_level (ex_opts 0) (-1)) ex_mol) = Some 2 /\ (2 <=? 5) = true.
Proof. vm_compute. split; reflexivity. Qed.

(* beyond convergence: a request for a level k beyond the level c at which the run ended is answered with level c *)
Theorem beyond_convergence : forall D C o m fuel sconv k mask,
  run D C fuel (o_with_level o (-1)) m = Ok sconv -> st_k sconv < k ->
  forall o', shells_query o' sconv (Some k) mask = shells_query o' sconv (Some (st_k sconv)) mask.
Proof. exact beyond_convergence_run. Qed.
Print Assumptions beyond_convergence.
Example beyond_convergence_nonvacuous :   (* c = 2 < k = 7 *)
  ex_k (run ZD e3fp_consts 400 (o_with_level (ex_opts 0) (-1)) ex_mol) = Some 2 /\ (2 <? 7) = true.
Proof. vm_compute. split; reflexivity. Qed.

(* running with level -1 always terminates: with n retained atoms, n^2 - n + 1 iterations of fuel are never
   exhausted (each continuing iteration strictly enlarges the substructure of some centre, none shrinks).
   Stated on the integer dictionary; `0 <= m_unit2 m` says the squared length unit is not negative.
   The general form (any dictionary in which the neighbour test is monotone in the level) is
   E3FPIterTerm.run_terminates_gen (reals: E3FPIterReal.run_terminates_RD); the fuel Z.to_nat 20000 of the executable runs
   covers n <= 141 (fuel_exec_suffices).  The positive form (run = Ok) is C02.run_succeeds. *)
Theorem minus_one_terminates : forall C fuel o m,
  o_level o = -1 -> 0 <= m_unit2 ZD m ->
  (length (retained ZD o m) * length (retained ZD o m) - length (retained ZD o m) < fuel)%nat ->
  run ZD C fuel o m <> Raises ERecursion.
Proof. exact minus_one_terminates. Qed.
Print Assumptions minus_one_terminates.
Example minus_one_terminates_nonvacuous :
  (o_level (ex_opts (-1)) =? -1) = true /\ (0 <=? m_unit2 ZD ex_mol) = true /\
  length (retained ZD (ex_opts (-1)) ex_mol) = 4%nat /\ Nat.ltb (4 * 4 - 4) 400 = true.
Proof. vm_compute. repeat split; reflexivity. Qed.

(* ---------------------------------------------------------------------------------------------- *)
(* labels: the fingerprint returned for request `req` carries `req` itself as its level - `Some l` for an explicit
   level (whether or not level l was generated), `Some (-1)` for -1, `None` for None.  This is the property's
   "labelled with the level that was requested", read literally: the label is the caller's argument, not the level
   actually delivered (which is min(l, level reached), or the level reached for -1 / None). *)
Theorem label_is_requested : forall o counts bits st req mask r,
  fingerprint_query o counts bits st req mask = Ok r -> flevel r = req.
Proof. exact label_is_requested. Qed.
Print Assumptions label_is_requested.
Example label_is_requested_nonvacuous :
  match run ZD e3fp_consts 400 (ex_opts 5) ex_mol with
  | Ok st => is_ok (fingerprint_query (ex_opts 5) false 1024 st None []) &&
             is_ok (fingerprint_query (ex_opts 5) true 4096 st (Some 7) [1])
  | Raises _ => false
  end = true.
Proof. vm_compute. reflexivity. Qed.
