(* C13 - conformer selection contract (the part e3fp itself computes).
   Statements only; proofs are in Proofs/Conformer.v.  Model: Model/Conformer.v (M5).

   `rmsd a b` is the oracle for GetBestRMS(probe conformer a, reference conformer b), `energies` the force-field energies
   of the pool, `order` ANY permutation an argsort may return (NumPy's default sort is not stable), `o` the three attributes
   filter_conformers reads.  `accepted`, `out_energies`, `out_rmsds` are the three returned values. *)
From Coq Require Import QArith Sorting.Sorted.
From E3FP Require Import Base.Prelude Model.Conformer Proofs.Conformer.
Open Scope Z_scope.

(* the stable argsort used when the model is executed is one of the permutations the theorems quantify over *)
Theorem argsort_is_sorting_perm : forall energies, sorting_perm energies (argsort energies).
Proof. exact argsort_sorting_perm. Qed.
Print Assumptions argsort_is_sorting_perm.

(* returned energies are non-decreasing *)
Theorem accepted_sorted : forall rmsd energies o order,
  sorting_perm energies order -> StronglySorted Qle (out_energies rmsd energies o order).
Proof. exact accepted_sorted. Qed.
Print Assumptions accepted_sorted.

(* no accepted conformer twice, all of them conformers of the pool, in the order of `order` *)
Theorem accepted_nodup_subset : forall rmsd energies o order,
  sorting_perm energies order ->
  NoDup (accepted rmsd energies o order) /\
  (forall i, In i (accepted rmsd energies o order) -> (i < length energies)%nat) /\
  subseq (accepted rmsd energies o order) order.
Proof. exact accepted_nodup_subset. Qed.
Print Assumptions accepted_nodup_subset.

(* every measured pair (earlier accepted as probe, later accepted as reference) is at least the cut-off apart: no symmetry needed *)
Theorem accepted_far_ordered : forall rmsd energies o order,
  ForallOrdPairs (fun a b => (o_cutoff o <= rmsd a b)%Q) (accepted rmsd energies o order).
Proof. exact accepted_far_ordered. Qed.
Print Assumptions accepted_far_ordered.

(* with a symmetric oracle: any two distinct accepted conformers are at least the cut-off apart *)
Theorem accepted_far : forall rmsd energies o order,
  (forall a b, rmsd a b == rmsd b a)%Q ->
  forall a b, In a (accepted rmsd energies o order) -> In b (accepted rmsd energies o order) -> a <> b ->
  (o_cutoff o <= rmsd a b)%Q.
Proof. exact accepted_far. Qed.
Print Assumptions accepted_far.

(* energy window: when enabled (max_energy_diff <> -1.0; the constructor only lets -1.0 or values >= 0 through) every accepted
   conformer is within max_energy_diff of the first accepted one *)
Theorem accepted_window : forall rmsd energies o order,
  sorting_perm energies order -> ~ (o_ediff o == -1)%Q -> (0 <= o_ediff o)%Q ->
  forall a0 t, accepted rmsd energies o order = a0 :: t ->
  forall a, In a (accepted rmsd energies o order) -> (en energies a <= en energies a0 + o_ediff o)%Q.
Proof. exact accepted_window_all. Qed.
Print Assumptions accepted_window.

(* at most first_conformers are accepted (one is always accepted) *)
Theorem accepted_le_first : forall rmsd energies o order,
  Z.of_nat (length (accepted rmsd energies o order)) <= Z.max 1 (o_first o).
Proof. exact accepted_le_first. Qed.
Print Assumptions accepted_le_first.

(* the first accepted conformer is the first of the sort order and a global energy minimum of the pool *)
Theorem lowest_first : forall rmsd energies o order,
  sorting_perm energies order -> order <> [] ->
  exists a0 t, accepted rmsd energies o order = a0 :: t /\ a0 = hd 0%nat order /\
               forall i, (i < length energies)%nat -> (en energies a0 <= en energies i)%Q.
Proof. exact lowest_first. Qed.
Print Assumptions lowest_first.

(* the energies returned are those of the accepted conformers, in the returned order *)
Theorem energies_reported : forall rmsd energies o order,
  out_energies rmsd energies o order = map (en energies) (accepted rmsd energies o order).
Proof. exact energies_reported. Qed.
Print Assumptions energies_reported.

(* the matrix returned is square over the accepted conformers; entry (i,j) is the value the oracle gave for the pair
   (the one accepted earlier as probe, the one accepted later as reference); the diagonal is 0 *)
Theorem rmsd_reported : forall rmsd energies o order, NoDup order ->
  (length (out_rmsds rmsd energies o order) = length (accepted rmsd energies o order) /\
   forall r, In r (out_rmsds rmsd energies o order) -> length r = length (accepted rmsd energies o order)) /\
  forall i j, (i < length (accepted rmsd energies o order))%nat -> (j < length (accepted rmsd energies o order))%nat ->
    nth j (nth i (out_rmsds rmsd energies o order) []) 0%Q =
    if Nat.eqb i j then 0%Q
    else rmsd (nth (Nat.min i j) (accepted rmsd energies o order) 0%nat) (nth (Nat.max i j) (accepted rmsd energies o order) 0%nat).
Proof. exact rmsd_reported_full. Qed.
Print Assumptions rmsd_reported.

(* hence, for a symmetric oracle that vanishes on the diagonal: entry (i,j) = oracle (i-th returned, j-th returned) *)
Theorem rmsd_reported_sym : forall rmsd energies o order, NoDup order ->
  (forall a b, rmsd a b == rmsd b a)%Q -> (forall a, rmsd a a == 0)%Q ->
  forall i j, (i < length (accepted rmsd energies o order))%nat -> (j < length (accepted rmsd energies o order))%nat ->
    (nth j (nth i (out_rmsds rmsd energies o order) []) 0%Q ==
     rmsd (nth i (accepted rmsd energies o order) 0%nat) (nth j (accepted rmsd energies o order) 0%nat))%Q.
Proof. exact rmsd_reported_sym. Qed.
Print Assumptions rmsd_reported_sym.

(* maximality: a conformer that is not returned was turned down, when its turn came, because `first` had been reached, or it
   lies outside the energy window of the first accepted conformer, or it is closer than the cut-off to a conformer accepted
   before it (the third disjunct, an index outside the pool, cannot occur for a sorting permutation) *)
Theorem maximality : forall rmsd energies o order pre r post,
  order = pre ++ r :: post -> NoDup order -> ~ In r (accepted rmsd energies o order) ->
  exists A t, s_acc (run rmsd energies o pre) = A /\ accepted rmsd energies o order = A ++ t /\ A <> [] /\
    (o_first o <= Z.of_nat (length A) \/
     (~ (o_ediff o == -1)%Q /\ (r < length energies)%nat /\ ~ (en energies r <= en energies (hd 0%nat A) + o_ediff o)%Q) \/
     (length energies <= r)%nat \/
     exists a, In a A /\ (rmsd a r < o_cutoff o)%Q).
Proof. exact maximality. Qed.
Print Assumptions maximality.

(* ---- the generator object -------------------------------------------------------------------------------------- *)
(* what the constructor lets through *)
Theorem constructor_normalises : forall nc f c d p g, mk_generator nc f c d p = Ok g ->
  g_num_conf g = nc /\ g_first g = f /\ g_pool g = p /\ (nc = -1 \/ 1 <= nc) /\ (f = -1 \/ 1 <= f) /\ 1 <= p /\
  (g_ediff g = (-1)%Q \/ (0 <= g_ediff g)%Q) /\ (g_cutoff g = (-1)%Q \/ (0 < g_cutoff g)%Q) /\
  g_max_conformers g = nc /\ g_first_conformers g = f.
Proof. exact mk_generator_wf. Qed.
Print Assumptions constructor_normalises.

(* reuse: for ANY history of molecules fed to one generator object, the next call returns what a generator that has seen
   nothing returns (and leaves the object in the same state); molecules, rotatable-bond counts and pools are arbitrary *)
Theorem generator_reusable : forall (molecule : Type) nrot pool_energies pool_rmsd g (ms : list molecule) m,
  generate molecule nrot pool_energies pool_rmsd (after_history molecule nrot pool_energies pool_rmsd g ms) m =
  generate molecule nrot pool_energies pool_rmsd g m.
Proof. exact generator_reusable. Qed.
Print Assumptions generator_reusable.

(* the resolved values are functions of the configured ones and the current molecule; thresholds on rotatable bonds *)
Theorem generator_resolved : forall (molecule : Type) nrot pool_energies pool_rmsd g (m : molecule),
  let g' := fst (generate molecule nrot pool_energies pool_rmsd g m) in
  g_max_conformers g' = (if g_num_conf g =? -1 then get_num_conformers (nrot m) else g_num_conf g) /\
  g_first_conformers g' = (if g_first g =? -1 then g_max_conformers g' else Z.min (g_first g) (g_max_conformers g')).
Proof. exact generate_resolved. Qed.
Print Assumptions generator_resolved.

Theorem num_conformers_thresholds : forall r,
  (r < 8 -> get_num_conformers r = 50) /\ (8 <= r <= 12 -> get_num_conformers r = 200) /\ (12 < r -> get_num_conformers r = 300).
Proof. exact get_num_conformers_spec. Qed.
Print Assumptions num_conformers_thresholds.

(* count: no more than `first` when given, never more than max_conformers (= num_conf, or 50/200/300 when num_conf = -1),
   never more than the pool; for every history of the generator object *)
Theorem accepted_le_requested : forall (molecule : Type) nrot pool_energies pool_rmsd nc f c d p g0 ms (m : molecule) g' mx acc es M,
  mk_generator nc f c d p = Ok g0 ->
  generate molecule nrot pool_energies pool_rmsd (after_history molecule nrot pool_energies pool_rmsd g0 ms) m
    = (g', Ok (mx, (acc, es, M))) ->
  mx = (if nc =? -1 then get_num_conformers (nrot m) else nc) /\ 1 <= mx /\
  Z.of_nat (length acc) <= (if f =? -1 then mx else Z.min f mx) /\
  (length acc <= length (pool_energies m (mx * p)%Z))%nat.
Proof. exact generate_count_mk. Qed.
Print Assumptions accepted_le_requested.

Theorem accepted_le_max : forall (molecule : Type) nrot pool_energies pool_rmsd nc f c d p g0 ms (m : molecule) g' mx acc es M,
  mk_generator nc f c d p = Ok g0 ->
  generate molecule nrot pool_energies pool_rmsd (after_history molecule nrot pool_energies pool_rmsd g0 ms) m
    = (g', Ok (mx, (acc, es, M))) ->
  Z.of_nat (length acc) <= mx.
Proof. exact accepted_le_max. Qed.
Print Assumptions accepted_le_max.

(* ---- non-vacuity ------------------------------------------------------------------------------------------------- *)
(* a symmetric oracle with zero diagonal, energies with a tie, a sorting permutation that is NOT the stable one *)
Definition ex_table : list (list Q) :=
  [[0; 3#10; 1; 1; 1]; [3#10; 0; 1; 1; 1]; [1; 1; 0; 1; 6#10]; [1; 1; 1; 0; 1]; [1; 1; 6#10; 1; 0]]%Q.
Definition ex_energies : list Q := [2; 1; 2; 5; 3]%Q.

Example ex_sorting_perm_unstable : sorting_perm ex_energies [1; 2; 0; 4; 3]%nat /\ argsort ex_energies = [1; 0; 2; 4; 3]%nat.
Proof.
  split; [|reflexivity]. split; [|split].
  - repeat constructor; simpl; intuition discriminate.
  - intro i. simpl. split.
    + intros [<-|[<-|[<-|[<-|[<-|[]]]]]]; lia.
    + intro H. do 5 (destruct i as [|i]; [tauto|]). lia.
  - repeat constructor; vm_compute; discriminate.
Qed.

Example ex_symmetric : forall a b, (table_rmsd ex_table a b == table_rmsd ex_table b a)%Q.
Proof.
  intros a b. do 5 (destruct a as [|a]; [do 5 (destruct b as [|b]; [reflexivity|]); destruct b; reflexivity|]).
  do 5 (destruct b as [|b]; [destruct a; reflexivity|]). destruct a, b; reflexivity.
Qed.

(* cut-off 0.5, window 2, first 3: conformer 0 is too close to 1, conformer 3 is outside the window; three are returned and the
   matrix carries the oracle's values for them *)
Example ex_filter :
  filter_conformers (table_rmsd ex_table) ex_energies (mkfopts 3 2 (1#2)) =
  ([1; 2; 4]%nat, [1; 2; 3]%Q, [[0; 1; 1]; [1; 0; 6#10]; [1; 6#10; 0]]%Q).
Proof. vm_compute. reflexivity. Qed.

(* a generator configured with -1/-1 resolves 50 for a rigid molecule and 200 for one with 9 rotatable bonds, in either order *)
Example ex_reuse :
  exists g, mk_generator (-1) (-1) (Some (1#2)%Q) None 1 = Ok g /\
  let gen := generate bool (fun b : bool => if b then 9 else 0) (fun _ _ => [0%Q]) (fun _ _ _ _ => 0%Q) in
  g_max_conformers (fst (gen (fst (gen g false)) true)) = 200 /\ g_max_conformers (fst (gen (fst (gen g true)) false)) = 50.
Proof. eexists. split; [reflexivity|]. vm_compute. split; reflexivity. Qed.

(* an explicit first above num_conf with a pool twice as large: capped at num_conf (before the repair 2 were returned) *)
Example ex_first_above_num_conf :
  exists g g' es M, mk_generator 1 2 None None 2 = Ok g /\
    generate unit (fun _ => 0) (fun _ _ => [0%Q; 1%Q]) (fun _ _ _ _ => 1%Q) g tt = (g', Ok (1, ([0%nat], es, M))).
Proof. eexists. eexists. eexists. eexists. split; [reflexivity|]. vm_compute. reflexivity. Qed.
