(* C14 - high-level entry points equal direct fingerprinting of the first N conformers.
   Statements only; proofs are in Proofs/Pipeline*.v.  Model: Model/Pipeline.v (M6).

   Reading guide.  `fprint o bits c L k` is the per-conformer function (model M1, built separately): the fingerprint
   queried at level k after Fingerprinter(bits, level=L, **o).run(c); `g c k` names its value where the statement
   needs it to succeed.  `expected_dict g nmf levels P` = for every level k of `levels`, in order, the list
   [tag (g c k) (nmf j) | (j, c) in enumerate(P)]  (`column`), and the empty dict when P is empty.
   `cutoff first n` = number of conformers fingerprinted (theorem first_cases).
   Hypotheses on Section variables that theorems rely on are visible as premises: `fprint_truncation` in
   all_iters_spec (property C12; discharged for the real per-conformer model M1 in all_iters_spec_M1),
   `unpickle (pickle l) = Some l` in saved_reload_*. *)
From Coq Require Import Ascii.
From E3FP Require Import Base.Prelude Model.Fprint Model.Pipeline Gen.PipelineFacts.
From E3FP Require Import Proofs.PipelineNames Proofs.Pipeline Proofs.PipelineFs Proofs.PipelineSpec.
From E3FP Require Model.E3FP Model.Geometry Model.Stereo Proofs.PipelineM1.
Open Scope Z_scope.

(* regenerated facts: the regex, the delimiters and the defaults are the ones the model was written for *)
Theorem source_facts :
  mol_item_regex_is_modelled = true /\ proto_name_delim = "-"%string /\ conf_name_delim = "_"%string /\
  fd_flags_def_all_false = true /\ fd_out_dir_base_def_is_none = true /\ pl_smiles_default_dicts_empty = true /\
  fd_bits_def = fprinter_bits_const /\ pl_select_level_def = -1 /\ pl_get_level_def = -1 /\ pl_get_first_def = -1.
Proof. repeat split; reflexivity. Qed.
Print Assumptions source_facts.

(* ---- the dict: one fingerprint per conformer, in conformer order, for the first N conformers ------------------- *)
Theorem dict_spec :
  forall (conformer opts : Type) (fprint : opts -> Z -> conformer -> Z -> Z -> result fp)
         (fp_init : opts -> Z -> Z -> result unit) (content : Type) (pickle : list fp -> content)
         (g : conformer -> Z -> fp) (nmf : Z -> option string) (fs : fsmap content)
         (m : mol conformer) (a : fargs opts),
    let level := normal_level (a_level a) in
    let bits := normal_bits (a_bits a) in
    let levels := level_range level (a_all_iters a) in
    let N := cutoff (a_first a) (length (mconfs m)) in
    a_save a = false ->
    mconfs m <> [] ->
    fp_init (a_opts a) bits level = Ok tt ->
    (forall (c : conformer) (k : Z),
        In c (firstn N (mconfs m)) -> In k levels -> fprint (a_opts a) bits c level k = Ok (g c k)) ->
    (forall j : Z, namer (effective_name conformer m) j = Ok (nmf j)) ->
    fprints_dict_from_mol conformer opts fprint fp_init content pickle fs m a =
    mkout (Ok (expected_dict conformer g nmf levels (firstn N (mconfs m)))) fs (Some (Z.of_nat N)).
Proof. exact dict_spec. Qed.
Print Assumptions dict_spec.

(* N: all conformers for first = -1 or first >= n, `first` for 1 <= first < n.  Outside the property's quantifier:
   first < -1 behaves like -1, first = 0 fingerprints nothing (the dict is {} and fprints_from_mol raises ValueError) *)
Theorem first_cases : forall first n,
  ((first = -1 \/ Z.of_nat n <= first) -> cutoff first n = n) /\
  (1 <= first < Z.of_nat n -> cutoff first n = Z.to_nat first) /\
  (first < -1 -> cutoff first n = n) /\
  ((1 <= n)%nat -> cutoff 0 n = 0%nat).
Proof. exact cutoff_cases. Qed.
Print Assumptions first_cases.

(* for a plainly named molecule conformer j is named <name>_<j> *)
Theorem dict_spec_named :
  forall (conformer opts : Type) (fprint : opts -> Z -> conformer -> Z -> Z -> result fp)
         (fp_init : opts -> Z -> Z -> result unit) (content : Type) (pickle : list fp -> content)
         (g : conformer -> Z -> fp) (fs : fsmap content) (m : mol conformer) (a : fargs opts) (s : string),
    let level := normal_level (a_level a) in
    let bits := normal_bits (a_bits a) in
    let levels := level_range level (a_all_iters a) in
    let N := cutoff (a_first a) (length (mconfs m)) in
    mname m = Some s -> plain_name s ->
    a_save a = false -> mconfs m <> [] ->
    fp_init (a_opts a) bits level = Ok tt ->
    (forall c k, In c (firstn N (mconfs m)) -> In k levels -> fprint (a_opts a) bits c level k = Ok (g c k)) ->
    fprints_dict_from_mol conformer opts fprint fp_init content pickle fs m a =
    mkout (Ok (expected_dict conformer g (fun j => Some (s ++ "_" ++ dec j)%string) levels (firstn N (mconfs m))))
          fs (Some (Z.of_nat N)).
Proof. exact dict_spec_named. Qed.
Print Assumptions dict_spec_named.

(* ---- names ----------------------------------------------------------------------------------------------------- *)
(* plain_name s: s is non-empty, has no newline, and is not p ++ [-|_] ++ digits for a non-empty p *)
Theorem names_spec : forall (s : string) (j : Z),
  plain_name s -> 0 <= j ->
  from_str s = Ok (mkitem s None None) /\
  conf_name_of s j = Ok (s ++ "_" ++ dec j)%string /\
  from_str (s ++ "_" ++ dec j) = Ok (mkitem s None (Some j)).
Proof. exact names_spec. Qed.
Print Assumptions names_spec.

Theorem names_injective : forall (s1 s2 : string) (j1 j2 : Z) (n : string),
  plain_name s1 -> plain_name s2 -> 0 <= j1 -> 0 <= j2 ->
  conf_name_of s1 j1 = Ok n -> conf_name_of s2 j2 = Ok n -> s1 = s2 /\ j1 = j2.
Proof. exact names_injective. Qed.
Print Assumptions names_injective.

Theorem dec_injective : forall a b, 0 <= a -> 0 <= b -> dec a = dec b -> a = b.
Proof. exact dec_injective. Qed.
Print Assumptions dec_injective.

(* why the property excludes names with a numeric suffix: "mol_1" is parsed as molecule "mol", conformer 1 *)
Theorem names_suffix_refuted :
  ~ plain_name "mol_1" /\ conf_name_of "mol_1" 0 = Ok "mol_0"%string /\
  conf_name_of "mol_1" 0 <> Ok ("mol_1" ++ "_" ++ dec 0)%string /\
  conf_name_of "mol_1" 3 = conf_name_of "mol_2" 3.
Proof. exact names_suffix_refuted. Qed.
Print Assumptions names_suffix_refuted.

(* ---- all_iters: each level's list equals a separate run limited to that level (from C12 truncation) ------------- *)
Theorem all_iters_spec :
  forall (conformer opts : Type) (fprint : opts -> Z -> conformer -> Z -> Z -> result fp)
         (fp_init : opts -> Z -> Z -> result unit) (content : Type) (pickle : list fp -> content)
         (g : conformer -> Z -> fp) (nmf : Z -> option string)
         (fs : fsmap content) (m : mol conformer) (a : fargs opts) (L k : Z),
    let bits := normal_bits (a_bits a) in
    let N := cutoff (a_first a) (length (mconfs m)) in
    let a_k := mkfargs (a_bits a) (Some k) (a_first a) (a_opts a) (a_out_dir_base a) (a_out_ext a) false false (a_overwrite a) in
    (* fprint_truncation, for the level cap L of this call *)
    (forall (c : conformer) (i : Z) (x : fp), In c (firstn N (mconfs m)) -> 0 <= i <= L ->
        fprint (a_opts a) bits c L i = Ok x -> fprint (a_opts a) bits c i i = Ok x) ->
    a_level a = Some L -> 0 <= k <= L -> a_all_iters a = true -> a_save a = false ->
    mconfs m <> [] -> (1 <= N)%nat ->
    fp_init (a_opts a) bits L = Ok tt -> fp_init (a_opts a) bits k = Ok tt ->
    (forall (c : conformer) (i : Z),
        In c (firstn N (mconfs m)) -> 0 <= i <= L -> fprint (a_opts a) bits c L i = Ok (g c i)) ->
    (forall j : Z, namer (effective_name conformer m) j = Ok (nmf j)) ->
    exists d dk : fdict,
      o_val (fprints_dict_from_mol conformer opts fprint fp_init content pickle fs m a) = Ok d /\
      o_val (fprints_dict_from_mol conformer opts fprint fp_init content pickle fs m a_k) = Ok dk /\
      dict_get d k = Some (column conformer g nmf (firstn N (mconfs m)) k) /\ dict_get dk k = dict_get d k.
Proof. exact all_iters_spec. Qed.
Print Assumptions all_iters_spec.

(* the same with the per-conformer function of model M1 (Model/E3FP.v: run to the level cap, then
   get_fingerprint_at_level): the truncation premise is discharged by C12 (run_prefix, truncation); what remains is that
   the iteration bound `fuel` of the model exceeds the level cap *)
Theorem all_iters_spec_M1 :
  forall (D : Model.Geometry.ringdict) (C : Model.Stereo.sconsts) (fuel : nat) (counts : bool) (mask : list Z)
         (fp_init : Model.E3FP.opts -> Z -> Z -> result unit) (content : Type) (pickle : list fp -> content)
         (g : Model.E3FP.mol D -> Z -> fp) (nmf : Z -> option string)
         (fs : fsmap content) (m : mol (Model.E3FP.mol D)) (a : fargs Model.E3FP.opts) (L k : Z),
    let bits := normal_bits (a_bits a) in
    let N := cutoff (a_first a) (length (mconfs m)) in
    let a_k := mkfargs (a_bits a) (Some k) (a_first a) (a_opts a) (a_out_dir_base a) (a_out_ext a) false false (a_overwrite a) in
    let dict := fprints_dict_from_mol (Model.E3FP.mol D) Model.E3FP.opts (PipelineM1.fprint_M1 D C fuel counts mask) fp_init content pickle in
    (Z.to_nat L < fuel)%nat ->
    a_level a = Some L -> 0 <= k <= L -> a_all_iters a = true -> a_save a = false ->
    mconfs m <> [] -> (1 <= N)%nat ->
    fp_init (a_opts a) bits L = Ok tt -> fp_init (a_opts a) bits k = Ok tt ->
    (forall c i, In c (firstn N (mconfs m)) -> 0 <= i <= L ->
                 PipelineM1.fprint_M1 D C fuel counts mask (a_opts a) bits c L i = Ok (g c i)) ->
    (forall j, namer (effective_name (Model.E3FP.mol D) m) j = Ok (nmf j)) ->
    exists d dk,
      o_val (dict fs m a) = Ok d /\ o_val (dict fs m a_k) = Ok dk /\
      dict_get d k = Some (column (Model.E3FP.mol D) g nmf (firstn N (mconfs m)) k) /\ dict_get dk k = dict_get d k.
Proof. exact PipelineM1.all_iters_spec_M1. Qed.
Print Assumptions all_iters_spec_M1.

(* ---- level selection ---------------------------------------------------------------------------------------------- *)
Theorem level_select_spec :
  (forall level, fprints_from_fprints_dict [] level = Raises EValue) /\
  (forall (f : Z -> list fp) (levels : list Z) (M : Z) (req : option Z),
      In M levels -> (forall k : Z, In k levels -> k <= M) ->
      fprints_from_fprints_dict (map (fun k : Z => (k, f k)) levels) req =
      Ok match req with
         | Some l => if in_dec Z.eq_dec l levels then f l else f M
         | None => f M
         end).
Proof. exact (conj select_empty select_from_levels). Qed.
Print Assumptions level_select_spec.

(* fprints_from_mol returns the list of the requested level (level absent / None / -1 / n, with or without all_iters) *)
Theorem from_mol_spec :
  forall (conformer opts : Type) (fprint : opts -> Z -> conformer -> Z -> Z -> result fp)
         (fp_init : opts -> Z -> Z -> result unit) (content : Type) (pickle : list fp -> content)
         (g : conformer -> Z -> fp) (nmf : Z -> option string) (fs : fsmap content)
         (m : mol conformer) (p : fparams opts),
    let a := args_of_params opts p false in
    let level := normal_level (a_level a) in
    let bits := normal_bits (a_bits a) in
    let N := cutoff (a_first a) (length (mconfs m)) in
    -1 <= level -> mconfs m <> [] -> (1 <= N)%nat ->
    fp_init (a_opts a) bits level = Ok tt ->
    (forall (c : conformer) (k : Z),
        In c (firstn N (mconfs m)) -> In k (level_range level (a_all_iters a)) ->
        fprint (a_opts a) bits c level k = Ok (g c k)) ->
    (forall j : Z, namer (effective_name conformer m) j = Ok (nmf j)) ->
    fprints_from_mol conformer opts fprint fp_init content pickle fs m p false =
    mkout (Ok (column conformer g nmf (firstn N (mconfs m)) level)) fs (Some (Z.of_nat N)).
Proof. exact from_mol_spec. Qed.
Print Assumptions from_mol_spec.

Theorem from_sdf_eq_from_mol :
  forall (conformer opts : Type) (fprint : opts -> Z -> conformer -> Z -> Z -> result fp)
         (fp_init : opts -> Z -> Z -> result unit) (content : Type) (pickle : list fp -> content)
         (sdf_file : Type) (read_sdf : sdf_file -> result (mol conformer)) (fs : fsmap content)
         (f : sdf_file) (m : mol conformer) (p : fparams opts) (save : bool),
    read_sdf f = Ok m ->
    fprints_from_sdf conformer opts fprint fp_init content pickle sdf_file read_sdf fs f p save =
    fprints_from_mol conformer opts fprint fp_init content pickle fs m p save.
Proof. exact from_sdf_eq_from_mol. Qed.
Print Assumptions from_sdf_eq_from_mol.

(* ---- unnamed molecules (no _Name, or the empty _Name of an SDF record without title) --------------------------- *)
Theorem unnamed_spec :
  forall (conformer opts : Type) (fprint : opts -> Z -> conformer -> Z -> Z -> result fp)
         (fp_init : opts -> Z -> Z -> result unit) (content : Type) (pickle : list fp -> content)
         (g : conformer -> Z -> fp) (fs : fsmap content) (m : mol conformer) (a : fargs opts),
    let level := normal_level (a_level a) in
    let bits := normal_bits (a_bits a) in
    let levels := level_range level (a_all_iters a) in
    let N := cutoff (a_first a) (length (mconfs m)) in
    effective_name conformer m = None ->
    a_save a = false -> mconfs m <> [] ->
    fp_init (a_opts a) bits level = Ok tt ->
    (forall (c : conformer) (k : Z),
        In c (firstn N (mconfs m)) -> In k levels -> fprint (a_opts a) bits c level k = Ok (g c k)) ->
    fprints_dict_from_mol conformer opts fprint fp_init content pickle fs m a =
    mkout (Ok (expected_dict conformer g (fun _ : Z => None) levels (firstn N (mconfs m)))) fs (Some (Z.of_nat N)) /\
    (forall k : Z,
        column conformer g (fun _ : Z => None) (firstn N (mconfs m)) k =
        map (fun c : conformer => g c k) (firstn N (mconfs m))).
Proof. exact unnamed_spec. Qed.
Print Assumptions unnamed_spec.

Theorem empty_name_is_unnamed : forall (conformer : Type) (m : mol conformer),
  mname m = Some ""%string -> effective_name conformer m = None.
Proof. exact effective_name_empty. Qed.
Print Assumptions empty_name_is_unnamed.

(* ---- saved files reload to the returned fingerprints (under the pickle round-trip hypothesis) ------------------- *)
Theorem saved_reload :
  forall (conformer opts : Type) (fprint : opts -> Z -> conformer -> Z -> Z -> result fp)
         (fp_init : opts -> Z -> Z -> result unit) (content : Type) (pickle : list fp -> content)
         (g : conformer -> Z -> fp) (nmf : Z -> option string) (unpickle : content -> option (list fp)),
    (* unpickle_pickle *)
    (forall l : list fp, unpickle (pickle l) = Some l) ->
    forall (fs : fsmap content) (m : mol conformer) (a : fargs opts) (nm : string),
    let level := normal_level (a_level a) in
    let bits := normal_bits (a_bits a) in
    let N := cutoff (a_first a) (length (mconfs m)) in
    let P := firstn N (mconfs m) in
    let file : path :=
        ((str_of_base (a_out_dir_base a) ++ (if (level =? -1)%Z then "_complete" else dec level))%string,
         (nm ++ a_out_ext a)%string) in
    a_save a = true ->
    effective_name conformer m = Some nm ->
    single_level level (a_all_iters a) = true ->
    fs_isfile fs file && negb (a_overwrite a) = false ->
    mconfs m <> [] -> (1 <= N)%nat ->
    fp_init (a_opts a) bits level = Ok tt ->
    (forall (c : conformer) (k : Z),
        In c P -> In k (level_range level (a_all_iters a)) -> fprint (a_opts a) bits c level k = Ok (g c k)) ->
    (forall j : Z, namer (effective_name conformer m) j = Ok (nmf j)) ->
    let out := fprints_dict_from_mol conformer opts fprint fp_init content pickle fs m a in
    o_val out = Ok [(level, column conformer g nmf P level)] /\
    o_logged out = Some (Z.of_nat N) /\
    (exists c : content,
        fs_lookup (o_fs out) file = Some c /\ unpickle c = Some (column conformer g nmf P level)) /\
    (forall q : path, q <> file -> fs_lookup (o_fs out) q = fs_lookup fs q).
Proof. exact saved_reload_single. Qed.
Print Assumptions saved_reload.

Theorem saved_reload_all_iters :
  forall (conformer opts : Type) (fprint : opts -> Z -> conformer -> Z -> Z -> result fp)
         (fp_init : opts -> Z -> Z -> result unit) (content : Type) (pickle : list fp -> content)
         (g : conformer -> Z -> fp) (nmf : Z -> option string) (unpickle : content -> option (list fp)),
    (forall l : list fp, unpickle (pickle l) = Some l) ->
    forall (fs : fsmap content) (m : mol conformer) (a : fargs opts) (nm b : string) (L : Z),
    let bits := normal_bits (a_bits a) in
    let N := cutoff (a_first a) (length (mconfs m)) in
    let P := firstn N (mconfs m) in
    let file : Z -> path := fun k : Z => ((b ++ dec k)%string, (nm ++ a_out_ext a)%string) in
    a_save a = true ->
    effective_name conformer m = Some nm ->
    a_all_iters a = true -> a_level a = Some L -> 0 <= L -> a_out_dir_base a = Some b ->
    forallb (fs_isfile fs) (map file (zrange (L + 1))) && negb (a_overwrite a) = false ->
    mconfs m <> [] -> (1 <= N)%nat ->
    fp_init (a_opts a) bits L = Ok tt ->
    (forall (c : conformer) (k : Z), In c P -> 0 <= k <= L -> fprint (a_opts a) bits c L k = Ok (g c k)) ->
    (forall j : Z, namer (effective_name conformer m) j = Ok (nmf j)) ->
    let out := fprints_dict_from_mol conformer opts fprint fp_init content pickle fs m a in
    exists d : fdict,
      o_val out = Ok d /\
      (forall k : Z, 0 <= k <= L ->
         dict_get d k = Some (column conformer g nmf P k) /\
         (* repair e0cef96: a level file that exists is left untouched unless overwrite; the others reload *)
         (fs_isfile fs (file k) && negb (a_overwrite a) = true -> fs_lookup (o_fs out) (file k) = fs_lookup fs (file k)) /\
         (fs_isfile fs (file k) && negb (a_overwrite a) = false ->
          exists c : content,
             fs_lookup (o_fs out) (file k) = Some c /\ unpickle c = Some (column conformer g nmf P k))).
Proof. exact saved_reload_all_iters. Qed.
Print Assumptions saved_reload_all_iters.

(* ---- fprints_from_smiles: no leakage between calls through the default confgen_params dict ------------------- *)
Theorem smiles_no_leak :
  forall (conformer opts : Type) (fprint : opts -> Z -> conformer -> Z -> Z -> result fp)
         (fp_init : opts -> Z -> Z -> result unit) (content : Type) (pickle : list fp -> content)
         (smiles : Type) (confgen : cparams -> bool -> smiles -> string -> result (list conformer))
         (h : list (smiles_call opts smiles)) (c : smiles_call opts smiles) (fs : fsmap content) (dflt : cparams),
    let '(d, fs', _) :=
        smiles_history conformer opts fprint fp_init content pickle smiles confgen (smiles_step opts smiles) fs dflt h in
    d = dflt /\
    fprints_from_smiles conformer opts fprint fp_init content pickle smiles confgen fs' d c =
    fprints_from_smiles conformer opts fprint fp_init content pickle smiles confgen fs' dflt c.
Proof. exact smiles_no_leak. Qed.
Print Assumptions smiles_no_leak.

(* what the repair (996117d) removed: with the write going into the default object a later call inherited first = 1 *)
Theorem smiles_inplace_leaked :
  let p1 := mkfparams (opts := unit) PAbsent PAbsent (Some 1) tt None None None None in
  let p2 := mkfparams (opts := unit) PAbsent PAbsent None tt None None None None in
  let c1 := mkcall (smiles := unit) tt "a" None p1 false in
  let c2 := mkcall (smiles := unit) tt "b" None p2 false in
  smiles_effective unit unit (fst (smiles_step_inplace unit unit [] c1)) c2 = [("first"%string, 1)] /\
  smiles_effective unit unit (fst (smiles_step unit unit [] c1)) c2 = [("first"%string, -1)].
Proof. exact smiles_inplace_leaked. Qed.
Print Assumptions smiles_inplace_leaked.

(* ---- non-vacuity: hypotheses are satisfiable -------------------------------------------------------------------- *)
Example plain_name_example : plain_name "CHEMBL116226" /\ plain_name "a-1_" /\ plain_name "_1" /\ plain_name "x_y".
Proof. exact plain_examples. Qed.

Example dict_spec_example :
  let fpr := fun (o : unit) (b : Z) (c : Z) (L k : Z) => Ok (mkfp KBit b (Some k) [c; c + k + 10] [] None) in
  o_val (fprints_dict_from_mol Z unit fpr (fun _ _ _ => Ok tt) fcontent Pickled []
           (mkmol (Some "mol"%string) [7; 8; 9]) (mkfargs (Some 32) (Some 1) 2 tt None ".fp.bz2" false true false))
  = Ok [(0, [mkfp KBit 32 (Some 0) [7; 17] [] (Some "mol_0"%string); mkfp KBit 32 (Some 0) [8; 18] [] (Some "mol_1"%string)]);
        (1, [mkfp KBit 32 (Some 1) [7; 18] [] (Some "mol_0"%string); mkfp KBit 32 (Some 1) [8; 19] [] (Some "mol_1"%string)])].
Proof. reflexivity. Qed.
