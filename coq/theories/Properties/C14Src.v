(* C14 (source-derived obligations) - the decision rules of the fingerprinting entry point in the model are those TRANSLATED FROM THE
   SOURCE TEXT.  harness/facts_gensrc.py (a fail-closed Python-`ast` translator) writes Gen/GenerateSource.v from
   e3fp.fingerprint.generate.fprints_dict_from_mol on every run: every `if` test that mentions all_iters (the single-level rule,
   three occurrences: file names, generated levels, what is saved), the skip rule, the per-file rule of the saving loop and the
   conformer cut-off.  When the translator cannot read the source this file is reported as not attempted.  Statements only. *)
From Coq Require Import ZArith List Bool.
From E3FP Require Import Base.Prelude Model.Pipeline Gen.GenerateSource.
Import ListNotations.
Open Scope Z_scope.

(* every occurrence of the single-level rule in the source is the model's single_level (one rule, used consistently) *)
Theorem single_level_matches_source : forall level all_iters,
  (exists b t, single_level_tests_src level all_iters = b :: t) /\
  forallb (fun b => Bool.eqb b (single_level level all_iters)) (single_level_tests_src level all_iters) = true.
Proof.
  intros level all_iters. unfold single_level_tests_src, single_level. split; [eexists; eexists; reflexivity|].
  cbn [forallb]. destruct (level =? -1); destruct all_iters; reflexivity.
Qed.
Print Assumptions single_level_matches_source.

(* a file is (re)written unless the source's per-file rule skips it *)
Theorem fs_keep_matches_source : forall (content : Type) overwrite (fs : fsmap content) w,
  fs_keep overwrite fs w = negb (skip_file_src (fs_isfile fs (fst w)) overwrite).
Proof. intros. unfold fs_keep, skip_file_src. destruct (fs_isfile fs (fst w)), overwrite; reflexivity. Qed.
Print Assumptions fs_keep_matches_source.

(* the whole molecule is skipped exactly when every file exists and overwrite is off *)
Theorem skip_all_matches_source : forall all_files_exist overwrite,
  skip_all_src all_files_exist overwrite = all_files_exist && negb overwrite.
Proof. intros. unfold skip_all_src. destruct all_files_exist, overwrite; reflexivity. Qed.
Print Assumptions skip_all_matches_source.

(* the conformer loop stops exactly where the source's cut-off test fires, reporting the previous index *)
Theorem conf_loop_stop_matches_source : forall conformer opts fprint (o : opts) bits level all_iters name first j (c : conformer) t d,
  conf_stop_src j first = true ->
  conf_loop conformer opts fprint o bits level all_iters name first j (c :: t) d = Ok (d, j - 1).
Proof. intros until d. unfold conf_stop_src. intros H. cbn [conf_loop]. rewrite H. reflexivity. Qed.
Print Assumptions conf_loop_stop_matches_source.

Theorem conf_loop_continue_matches_source : forall conformer opts fprint (o : opts) bits level all_iters name first j (c : conformer) t d,
  conf_stop_src j first = false ->
  conf_loop conformer opts fprint o bits level all_iters name first j (c :: t) d =
  rbind (level_steps conformer opts fprint o bits level name j c (level_range level all_iters) d)
        (fun d' => conf_loop conformer opts fprint o bits level all_iters name first (j + 1) t d').
Proof. intros until d. unfold conf_stop_src. intros H. cbn [conf_loop]. rewrite H. reflexivity. Qed.
Print Assumptions conf_loop_continue_matches_source.

Example generate_src_example :
  single_level_tests_src 3 true = [false; false; false] /\ single_level_tests_src (-1) true = [true; true; true] /\
  skip_all_src true false = true /\ skip_file_src true true = false /\ conf_stop_src 2 2 = true /\ conf_stop_src 0 (-1) = false.
Proof. vm_compute. repeat split; reflexivity. Qed.
