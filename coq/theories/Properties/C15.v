(* C15 - batch runs are schedule-independent, isolate failures, and resume safely.
   Statements only; proofs are in Proofs/Batch.v (the abstract output-file machine) and Proofs/BatchRun.v (the
   fingerprint batch and generate_conformers as instances).  Model: Model/Batch.v (M7).

   Reading guide.  `run content pickle cfg fs order db` = fingerprint.generate.run with the inputs listed in
   *completion order* `order` (any permutation of the input list; serial mode: the input order), acting on the output
   directory `fs`; its first component is the database that is saved (None: none), its second the directory afterwards.
   A `job` is what one input does to the directory: `j_files` (the files whose presence decides skip vs compute) and
   `j_plan` (the writes, in level order).  worker_refines_job / cg_refines_job say that the modelled workers act on the
   directory exactly as run_job does; jobs_disjoint derives `disjoint` from distinct molecule names.
   PARTIAL: how a thread / process pool orders completions and whether a file write is atomic is the runtime's; the
   theorems quantify over every completion order and over every per-molecule prefix of whole-file writes.  A file that
   a crash left truncated is "present" for os.path.isfile and is therefore kept like any other existing file
   (resume_preserves): whether its content is a complete pickle is outside a model of whole-file writes.
   Since repair e0cef96 (a recomputed all_iters molecule writes only its missing level files) resume_preserves holds
   for EVERY existing file and crash_then_resume needs no hypothesis on the content of the files that exist. *)
From Coq Require Import Permutation.
From E3FP Require Import Base.Prelude Model.Fprint Model.Pipeline Model.Batch Gen.PipelineFacts.
From E3FP Require Import Proofs.PipelineFs Proofs.Batch Proofs.BatchRun Proofs.BatchTie.
Open Scope Z_scope.

Theorem source_facts :
  run_swallows_attribute_and_value_error = true /\ run_flags_def_all_false = true /\ cg_flags_def_all_false = true.
Proof. repeat split; reflexivity. Qed.
Print Assumptions source_facts.

(* ---- database mode ---------------------------------------------------------------------------------------------- *)
(* any two completion orders give databases with the same multiset of (name, row), the same level, the same class *)
Theorem db_schedule_independent :
  forall (content : Type) (pickle : list fp -> content) (cfg : config) (fs : fsmap content) (order order' : list input),
    c_base cfg = None -> Permutation order order' ->
    db_same_rows (fst (run content pickle cfg fs order true)) (fst (run content pickle cfg fs order' true)).
Proof. exact db_schedule_independent. Qed.
Print Assumptions db_schedule_independent.

(* serial mode completes in input order, so the same statement read for two orderings of the input list *)
Theorem input_order_independent :
  forall (content : Type) (pickle : list fp -> content) (cfg : config) (fs : fsmap content) (inputs inputs' : list input),
    c_base cfg = None -> Permutation inputs inputs' ->
    db_same_rows (fst (run content pickle cfg fs inputs true)) (fst (run content pickle cfg fs inputs' true)).
Proof. exact db_schedule_independent. Qed.
Print Assumptions input_order_independent.

(* replacing any subset of the inputs (flag true) by unreadable files removes exactly their fingerprints *)
Theorem failure_isolated :
  forall (content : Type) (pickle : list fp -> content) (cfg : config) (fs : fsmap content) (ibs : list (input * bool)),
    c_base cfg = None ->
    fst (run content pickle cfg fs (spoil ibs) true) = fst (run content pickle cfg fs (survivors ibs) true).
Proof. exact failure_isolated. Qed.
Print Assumptions failure_isolated.

(* ---- the workers are instances of the job machine ------------------------------------------------------------------ *)
Theorem worker_refines_job :
  forall (content : Type) (pickle : list fp -> content) (cfg : config) (fs : fsmap content) (i : input),
    snd (worker content pickle cfg fs i) = run_job (c_overwrite cfg) fs (worker_job content pickle cfg i) /\
    (level_ok cfg -> wf_job content (worker_job content pickle cfg i)) /\
    (input_ok cfg i -> all_or_nothing content (worker_job content pickle cfg i)) /\
    worker_job content pickle cfg Fails = mkjob [] [].
Proof.
  exact (fun content pickle cfg fs i =>
           conj (worker_is_job content pickle cfg fs i)
                (conj (worker_job_wf content pickle cfg i)
                      (conj (worker_job_all_or_nothing content pickle cfg i) (failing_input_no_job content pickle cfg)))).
Qed.
Print Assumptions worker_refines_job.

Theorem jobs_disjoint :
  forall (content : Type) (pickle : list fp -> content) (cfg : config) (order : list input),
    level_ok cfg -> NoDup (saved_names order) -> disjoint content (map (worker_job content pickle cfg) order).
Proof. exact jobs_disjoint. Qed.
Print Assumptions jobs_disjoint.

(* tie to model M6: the worker is fprints_dict_from_mol (Model/Pipeline.v) with the conformer loop abstracted into the
   input, and the dict that loop produces has no key or exactly the keys of the level range (input_ok) *)
Theorem worker_is_entry_point :
  forall (conformer opts : Type) (fprint : opts -> Z -> conformer -> Z -> Z -> result fp)
         (fp_init : opts -> Z -> Z -> result unit) (content : Type) (pickle : list fp -> content)
         (fs : fsmap content) (m : mol conformer) (a : fargs opts),
    fp_init (a_opts a) (normal_bits (a_bits a)) (normal_level (a_level a)) = Ok tt ->
    (a_save a = true -> a_out_dir_base a <> None) ->
    level_ok (cfg_of opts a) ->
    let out := fprints_dict_from_mol conformer opts fprint fp_init content pickle fs m a in
    let r := mol_step content pickle (cfg_of opts a) fs (effective_name conformer m) (loop_of conformer opts fprint m a) in
    o_fs out = snd r /\
    match fst r with
    | WDict d => o_val out = Ok d
    | WFalse => exists e, o_val out = Raises e
    end.
Proof. exact worker_is_dict_from_mol. Qed.
Print Assumptions worker_is_entry_point.

Theorem entry_point_input_ok :
  forall (conformer opts : Type) (fprint : opts -> Z -> conformer -> Z -> Z -> result fp)
         (content : Type) (pickle : list fp -> content) (m : mol conformer) (a : fargs opts),
    input_ok (cfg_of opts a) (Loads (effective_name conformer m) (loop_of conformer opts fprint m a)).
Proof. exact loop_of_input_ok. Qed.
Print Assumptions entry_point_input_ok.

(* generate_conformers(save=True): the same rule with one output file *)
Theorem cg_refines_job :
  forall (content : Type) (ow : bool) (fs : fsmap content) (out_file : path) (gen : option content),
    snd (cg_step content ow fs out_file gen) = run_job ow fs (cg_job content out_file gen) /\
    wf_job content (cg_job content out_file gen) /\ all_or_nothing content (cg_job content out_file gen) /\
    (fs_isfile fs out_file = true -> ow = false -> cg_step content ow fs out_file gen = (false, fs)).
Proof.
  exact (fun content ow fs out_file gen =>
           conj (cg_is_job content ow fs out_file gen)
                (conj (proj1 (cg_job_wf content out_file gen))
                      (conj (proj2 (cg_job_wf content out_file gen)) (cg_refuses content ow fs out_file gen)))).
Qed.
Print Assumptions cg_refines_job.

(* ---- file mode: any list of jobs with pairwise disjoint paths ------------------------------------------------------- *)
Theorem files_schedule_independent :
  forall (content : Type) (ow : bool) (fs : fsmap content) (js js' : list (job content)) (p : path),
    disjoint content js -> (forall j, In j js -> wf_job content j) -> Permutation js js' ->
    fs_lookup (run_jobs ow fs js') p = fs_lookup (run_jobs ow fs js) p.
Proof. exact files_schedule_independent. Qed.
Print Assumptions files_schedule_independent.

(* no-overwrite run: EVERY file that exists before the run keeps its content and is not written at all - whatever the
   inputs (no premise: also for a half-written all_iters molecule, for shared names, for failing inputs) *)
Theorem resume_preserves :
  forall (content : Type) (js : list (job content)) (fs : fsmap content) (p : path),
    fs_isfile fs p = true ->
    fs_lookup (run_jobs false fs js) p = fs_lookup fs p /\ ~ In p (run_log false fs js).
Proof. exact resume_preserves. Qed.
Print Assumptions resume_preserves.

(* whatever a no-overwrite run writes was missing before the run *)
Theorem resume_writes_only_missing :
  forall (content : Type) (js : list (job content)) (fs : fsmap content) (p : path),
    In p (run_log false fs js) -> fs_isfile fs p = false.
Proof. exact resume_writes_only_missing. Qed.
Print Assumptions resume_writes_only_missing.

Theorem resume_completes :
  forall (content : Type) (ow : bool) (fs : fsmap content) (js : list (job content)) (j : job content),
    disjoint content js -> (forall j0, In j0 js -> wf_job content j0) -> In j js -> complete content j ->
    all_exist content (run_jobs ow fs js) j.
Proof. exact resume_completes. Qed.
Print Assumptions resume_completes.

Theorem overwrite_regenerates :
  forall (content : Type) (fs : fsmap content) (js : list (job content)) (j : job content) (p : path) (c : content),
    disjoint content js -> (forall j0, In j0 js -> wf_job content j0) -> In j js -> In (p, c) (j_plan j) ->
    fs_lookup (run_jobs true fs js) p = Some c /\ In p (run_log true fs js).
Proof. exact overwrite_regenerates. Qed.
Print Assumptions overwrite_regenerates.

(* every molecule interrupted after any number of its own writes (a crash at any point of any interleaving), re-run in
   any completion order without overwrite: the directory equals that of an uninterrupted run *)
Theorem crash_then_resume :
  forall (content : Type) (fs : fsmap content) (jks : list (job content * nat)) (js' : list (job content)) (p : path),
    let js := jobs_of content jks in
    disjoint content js -> (forall j, In j js -> wf_job content j) -> Permutation js js' ->
    fs_lookup (run_jobs false (run_partial false fs jks) js') p = fs_lookup (run_jobs false fs js) p.
Proof. exact crash_then_resume. Qed.
Print Assumptions crash_then_resume.

(* for EVERY prefix k of the write sequence of a serial run *)
Theorem crash_then_resume_serial :
  forall (content : Type) (fs : fsmap content) (js js' : list (job content)) (k : nat) (p : path),
    disjoint content js -> (forall j, In j js -> wf_job content j) -> Permutation js js' ->
    fs_lookup (run_jobs false (run_interrupted false fs js k) js') p = fs_lookup (run_jobs false fs js) p.
Proof. exact crash_then_resume_serial. Qed.
Print Assumptions crash_then_resume_serial.

(* all_iters: a molecule interrupted half-way through its level files is recomputed; its missing files are written,
   its existing ones are neither changed nor written (repair e0cef96; before it all of them were rewritten) *)
Theorem partial_molecule_completed :
  forall (content : Type) (fs : fsmap content) (j : job content) (p : path) (c : content),
    wf_job content j -> In (p, c) (j_plan j) -> fs_isfile fs p = false ->
    fs_lookup (run_job false fs j) p = Some c /\ In p (job_log false fs j) /\
    (forall q, fs_isfile fs q = true -> fs_lookup (run_job false fs j) q = fs_lookup fs q /\ ~ In q (job_log false fs j)).
Proof. exact partial_molecule_completed. Qed.
Print Assumptions partial_molecule_completed.

Theorem partial_molecule_existing_file_untouched :
  let fs := [(pb, 99)] in
  fs_lookup (run_job false fs two_level_job) pb = Some 99 /\ fs_lookup (run_job false fs two_level_job) pa = Some 1 /\
  job_log false fs two_level_job = [pa].
Proof. exact partial_molecule_existing_file_untouched. Qed.
Print Assumptions partial_molecule_existing_file_untouched.

(* a stale existing file survives an interrupted-and-resumed run exactly as it survives an uninterrupted one *)
Theorem crash_with_stale_file_kept :
  let fs := [(pb, 99)] in
  fs_lookup (run_jobs false (run_partial false fs [(two_level_job, 1%nat)]) [two_level_job]) pb = Some 99 /\
  fs_lookup (run_jobs false fs [two_level_job]) pb = Some 99.
Proof. exact crash_with_stale_file_kept. Qed.
Print Assumptions crash_with_stale_file_kept.

(* why the schedule-independence and crash theorems need `disjoint` (distinct molecule names) *)
Theorem shared_path_schedule_dependent :
  let j1 : job Z := mkjob [pa] [(pa, 1)] in
  let j2 : job Z := mkjob [pa] [(pa, 2)] in
  fs_lookup (run_jobs true [] [j1; j2]) pa = Some 2 /\ fs_lookup (run_jobs true [] [j2; j1]) pa = Some 1 /\
  fs_lookup (run_jobs false [] [j1; j2]) pa = Some 1 /\ fs_lookup (run_jobs false [] [j2; j1]) pa = Some 2.
Proof. exact shared_path_schedule_dependent. Qed.
Print Assumptions shared_path_schedule_dependent.

(* ---- the same, stated for run() on inputs with distinct molecule names ------------------------------------------- *)
Theorem batch_crash_then_resume :
  forall (content : Type) (pickle : list fp -> content) (cfg : config) (fs : fsmap content)
         (order order' : list input) (ks : list nat) (db db' : bool) (p : path),
    c_overwrite cfg = false -> level_ok cfg -> NoDup (saved_names order) ->
    length ks = length order -> Permutation order order' ->
    fs_lookup (snd (run content pickle cfg
                        (run_partial false fs (combine (map (worker_job content pickle cfg) order) ks)) order' db')) p
    = fs_lookup (snd (run content pickle cfg fs order db)) p.
Proof. exact batch_crash_then_resume. Qed.
Print Assumptions batch_crash_then_resume.

Theorem batch_crash_then_resume_serial :
  forall (content : Type) (pickle : list fp -> content) (cfg : config) (fs : fsmap content)
         (order order' : list input) (k : nat) (db db' : bool) (p : path),
    c_overwrite cfg = false -> level_ok cfg -> NoDup (saved_names order) -> Permutation order order' ->
    fs_lookup (snd (run content pickle cfg (run_interrupted false fs (map (worker_job content pickle cfg) order) k) order' db')) p
    = fs_lookup (snd (run content pickle cfg fs order db)) p.
Proof. exact batch_crash_then_resume_serial. Qed.
Print Assumptions batch_crash_then_resume_serial.

Theorem batch_resume_preserves :
  forall (content : Type) (pickle : list fp -> content) (cfg : config) (fs : fsmap content)
         (order : list input) (db : bool) (p : path),
    c_overwrite cfg = false -> fs_isfile fs p = true ->
    fs_lookup (snd (run content pickle cfg fs order db)) p = fs_lookup fs p /\
    ~ In p (run_log false fs (map (worker_job content pickle cfg) order)).
Proof. exact batch_resume_preserves. Qed.
Print Assumptions batch_resume_preserves.

Theorem batch_resume_completes :
  forall (content : Type) (pickle : list fp -> content) (cfg : config) (fs : fsmap content)
         (order : list input) (db : bool) (i : input),
    level_ok cfg -> NoDup (saved_names order) -> In i order ->
    complete content (worker_job content pickle cfg i) ->
    all_exist content (snd (run content pickle cfg fs order db)) (worker_job content pickle cfg i).
Proof. exact batch_resume_completes. Qed.
Print Assumptions batch_resume_completes.

Theorem batch_overwrite_regenerates :
  forall (content : Type) (pickle : list fp -> content) (cfg : config) (fs : fsmap content)
         (order : list input) (db : bool) (i : input) (p : path) (c : content),
    c_overwrite cfg = true -> level_ok cfg -> NoDup (saved_names order) -> In i order ->
    In (p, c) (j_plan (worker_job content pickle cfg i)) ->
    fs_lookup (snd (run content pickle cfg fs order db)) p = Some c /\
    In p (run_log true fs (map (worker_job content pickle cfg) order)).
Proof. exact batch_overwrite_regenerates. Qed.
Print Assumptions batch_overwrite_regenerates.

Theorem batch_files_schedule_independent :
  forall (content : Type) (pickle : list fp -> content) (cfg : config) (fs : fsmap content)
         (order order' : list input) (db db' : bool) (p : path),
    level_ok cfg -> NoDup (saved_names order) -> Permutation order order' ->
    fs_lookup (snd (run content pickle cfg fs order' db')) p = fs_lookup (snd (run content pickle cfg fs order db)) p.
Proof. exact batch_files_schedule_independent. Qed.
Print Assumptions batch_files_schedule_independent.

(* ---- database AND output directory together: a skipped molecule does not reach the database (a finding) -------- *)
Theorem skipped_not_in_db :
  forall (content : Type) (pickle : list fp -> content) (cfg : config) (fs : fsmap content)
         (nm : string) (loop : result fdict) (files : list path),
    c_base cfg <> None -> mol_files cfg nm = Ok files -> forallb (fs_isfile fs) files = true -> c_overwrite cfg = false ->
    rows_of (c_level cfg) (fst (worker content pickle cfg fs (Loads (Some nm) loop))) = [].
Proof. exact skipped_not_in_db. Qed.
Print Assumptions skipped_not_in_db.

Theorem resumed_db_incomplete :
  let x := mkfp KBit 8 (Some 2) [1] [] (Some "a_0"%string) in
  let y := mkfp KBit 8 (Some 2) [2] [] (Some "b_0"%string) in
  let cfg := mkcfg 2 false (Some "o"%string) ".fp" false in
  let inputs := [Loads (Some "a"%string) (Ok [(2, [x])]); Loads (Some "b"%string) (Ok [(2, [y])])] in
  let fresh := run Z (fun l => Z.of_nat (length l)) cfg [] inputs true in
  let resumed := run Z (fun l => Z.of_nat (length l)) cfg [(("o2"%string, "a.fp"%string), 1)] inputs true in
  option_map db_rows (fst fresh) = Some [x; y] /\ option_map db_rows (fst resumed) = Some [y].
Proof. exact resumed_db_incomplete. Qed.
Print Assumptions resumed_db_incomplete.

(* the partial statement that excludes exactly that trigger: when no molecule is skipped because all its files exist (a
   fresh output directory, or overwrite) and every loadable input has a name (an unnamed one cannot be saved and is
   dropped), a run with database AND output directory saves the same database as the database-only run - hence all of
   db_schedule_independent / input_order_independent / failure_isolated carry over *)
Theorem db_with_files_partial :
  forall (content : Type) (pickle : list fp -> content) (cfg : config) (fs : fsmap content) (order : list input),
    level_ok cfg -> NoDup (saved_names order) -> c_base cfg <> None ->
    (forall i, In i order -> named_input i) ->
    (forall i, In i order -> not_resumed content pickle cfg fs i) ->
    fst (run content pickle cfg fs order true) = fst (run content pickle (nosave cfg) fs order true).
Proof. exact db_with_files_partial. Qed.
Print Assumptions db_with_files_partial.

(* ---- non-vacuity ----------------------------------------------------------------------------------------------------- *)
Example hypotheses_satisfiable :
  let x := mkfp KBit 8 (Some 1) [1] [] (Some "a_0"%string) in
  let cfg := mkcfg 1 true (Some "o"%string) ".fp" false in
  let inputs := [Loads (Some "a"%string) (Ok [(0, [x]); (1, [x])]); Fails; Loads (Some "b"%string) (Raises EOther)] in
  level_ok cfg /\ NoDup (saved_names inputs) /\ (forall i, In i inputs -> input_ok cfg i) /\
  map (@j_files Z) (map (worker_job Z (fun l => Z.of_nat (length l)) cfg) inputs)
  = [[("o0", "a.fp"); ("o1", "a.fp")]; []; [("o0", "b.fp"); ("o1", "b.fp")]]%string.
Proof.
  cbv zeta. split; [left; simpl; lia|]. split; [repeat constructor; simpl; intuition discriminate|].
  split; [intros i [<-|[<-|[<-|[]]]]; simpl; auto|reflexivity].
Qed.
