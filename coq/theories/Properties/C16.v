(* C16 - a database refuses incompatible input atomically.
   Statements only; proofs in Proofs/DbRefuse.v and Proofs/DbInv.v.  Model: Model/Db.v (M3): a pool of database objects
   over a store of NumPy buffers, `step : state -> op -> state * result out`. *)
From Coq Require Import QArith.
From E3FP Require Import Base.Prelude Base.ZSet Model.Fprint Model.Db Proofs.DbBase Proofs.DbRefuse Proofs.DbInv.
Open Scope Z_scope.

(* a fingerprint of the wrong length, at ANY position of the batch (pre / post arbitrary): refused, state untouched.
   `batch_bits`: the database's length, or for a database without rows the length of the first fingerprint. *)
Theorem add_refuses_wrong_bits : forall s h oid o pre f post,
  lookup s h = Some (oid, o) ->
  fbits (fi_fp f) <> batch_bits (view (bufs s) o) (pre ++ f :: post) ->
  exists e, step s (OpAdd h (pre ++ f :: post)) = (s, Raises e).
Proof. exact add_refuses_wrong_bits. Qed.
Print Assumptions add_refuses_wrong_bits.

Theorem add_refuses_wrong_level : forall s h oid o pre f post,
  lookup s h = Some (oid, o) ->
  flevel (fi_fp f) <> olevel o ->
  exists e, step s (OpAdd h (pre ++ f :: post)) = (s, Raises e).
Proof. exact add_refuses_wrong_level. Qed.
Print Assumptions add_refuses_wrong_level.

(* any member of the batch lacking one of the property columns every member must carry *)
Theorem add_refuses_missing_prop : forall s h oid o fps f k,
  lookup s h = Some (oid, o) ->
  In f fps -> In k (required_props (view (bufs s) o) fps) -> aget k (fi_props f) = None ->
  exists e, step s (OpAdd h fps) = (s, Raises e).
Proof. exact add_refuses_missing_prop. Qed.
Print Assumptions add_refuses_missing_prop.

Theorem set_prop_refuses_len : forall s h oid o key vals,
  lookup s h = Some (oid, o) -> length vals <> length (onames o) ->
  step s (OpSetProp h key vals) = (s, Raises EValue).
Proof. exact set_prop_refuses_len. Qed.
Print Assumptions set_prop_refuses_len.

(* a wrong-length column at any position: nothing is stored, not even the columns before it *)
(* `effective_col`: the values given, or with append=True the stored column extended by them *)
Theorem update_props_refuses_len : forall s h oid o pre c post append,
  lookup s h = Some (oid, o) ->
  length (effective_col (dprops (view (bufs s) o)) append c) <> length (onames o) ->
  step s (OpUpdateProps h (pre ++ c :: post) append) = (s, Raises EValue).
Proof. exact update_props_refuses_len. Qed.
Print Assumptions update_props_refuses_len.

(* an operand (any position) whose level, length or fingerprint type differs from the first operand's *)
Theorem concat_refuses : forall s hs o0 os o,
  lookup_all s hs = Some (o0 :: os) -> In o (o0 :: os) ->
  compatible (view (bufs s) o0) (view (bufs s) o) = false ->
  step s (OpConcat hs) = (s, Raises EType).
Proof. exact concat_refuses. Qed.
Print Assumptions concat_refuses.

(* ... or property columns that do not cover every row of the result *)
Theorem concat_refuses_props : forall s hs o0 os rows names props b,
  lookup_all s hs = Some (o0 :: os) ->
  concat_loop (olevel o0) (dbits (view (bufs s) o0)) (okind o0) (map (view (bufs s)) (o0 :: os)) [] [] [] = Ok (rows, names, props) ->
  dbits (view (bufs s) o0) = Some b ->
  forallb (fun c => Nat.eqb (length (snd c)) (length rows)) props = false ->
  step s (OpConcat hs) = (s, Raises EValue).
Proof. exact concat_refuses_props. Qed.
Print Assumptions concat_refuses_props.

(* every operation, every fault, every position: a refusal returns the state it was given - buffers, objects (rows, names,
   name index, property arrays) and pool.  `aligned`: one property cell per name, one name per row. *)
Theorem refusal_atomic : forall s o s' e, aligned s -> step s o = (s', Raises e) -> s' = s.
Proof. exact refusal_atomic. Qed.
Print Assumptions refusal_atomic.

(* ... and `aligned` holds after every history *)
Theorem refusal_atomic_any_history : forall ops o s' e,
  step (run init ops) o = (s', Raises e) -> s' = run init ops.
Proof. exact refusal_atomic_any_history. Qed.
Print Assumptions refusal_atomic_any_history.

(* non-vacuity: a history that builds a 2-row count database with a property column, then offers a batch whose second
   fingerprint has the wrong length: refused, and the hypotheses of the theorems above are met *)
Definition ex_fp (bits : Z) (i : Z) : fpin := mkfpin (mkfp KCount bits (Some 5) [i] [(i, 2%Q)] (Some "a"%string)) [("p"%string, VInt i)].
Definition ex_hist : list op := [OpNew KCount (Some 5); OpAdd 0 [ex_fp 16 1; ex_fp 16 3]].
(* from_array with fewer names than rows is refused *)
Example ex_names_refused :
  step init (OpFromArray KBit None 8 false [[(1, 1%Q)]; [(2, 1%Q)]] [Some "a"%string] []) = (init, Raises EValue).
Proof. vm_compute. reflexivity. Qed.
(* update_props(append=True): a good fresh column followed by a faulty extension of a stored column: nothing is stored *)
Example ex_append_refused :
  let s := fst (step (run init ex_hist) (OpUpdateProps 0 [("q"%string, [VInt 1; VInt 2])] false)) in
  step s (OpUpdateProps 0 [("r"%string, [VInt 7; VInt 8]); ("q"%string, [VInt 3])] true) = (s, Raises EValue).
Proof. vm_compute. reflexivity. Qed.
Example ex_refused :
  step (run init ex_hist) (OpAdd 0 [ex_fp 16 2; ex_fp 32 2]) = (run init ex_hist, Raises EBits)
  /\ option_map fp_num (handle_db (run init ex_hist) 0) = Some 2%nat.
Proof. vm_compute. split; reflexivity. Qed.
