(* C16 (source-derived obligations) - the batch validation of add_fingerprints in the model is the one TRANSLATED FROM THE SOURCE TEXT.
   harness/facts_dbchecksrc.py (a fail-closed Python-`ast` translator) writes Gen/DbCheckSource.v from
   FingerprintDatabase._check_fingerprints_are_valid (db.py) on every run: the `if <test>: raise <Error>` guards of the loop over the
   batch, in source order, with their exception classes.  The translator also REQUIRES (else it raises and this file is reported as
   not attempted): the loop runs over the whole batch `fprints`, contains nothing but such guards, and the validation call is the
   first statement of add_fingerprints.  Atoms: level_eq = option_eqb Z.eqb on levels, bits_eq = Z.eqb on lengths.
   Statements only. *)
From Coq Require Import ZArith List Bool.
From E3FP Require Import Base.Prelude Base.ZSet Model.Fprint Model.Db Gen.DbCheckSource.
Import ListNotations.
Open Scope Z_scope.

Definition item_src (lv : option Z) (bits : Z) (f : fpin) : option err :=
  check_item_src (option_eqb Z.eqb (flevel (fi_fp f)) lv) (fbits (fi_fp f) =? bits).

(* the model's validation is the source's per-member guards applied from the first member on; the first failing member decides *)
Theorem check_valid_matches_source : forall lv bits fps,
  check_valid lv bits fps =
  fold_right (fun f rest => match item_src lv bits f with Some e => Some e | None => rest end) None fps.
Proof.
  intros lv bits fps. induction fps as [|f t IH]; [reflexivity|].
  cbn [check_valid fold_right]. rewrite <- IH. unfold item_src, check_item_src.
  destruct (option_eqb Z.eqb (flevel (fi_fp f)) lv), (fbits (fi_fp f) =? bits); reflexivity.
Qed.
Print Assumptions check_valid_matches_source.

(* a batch passes iff EVERY member passes the source's guards - wherever it sits and however long the batch is *)
Theorem check_valid_every_member : forall lv bits fps,
  check_valid lv bits fps = None <-> (forall f, In f fps -> item_src lv bits f = None).
Proof.
  intros lv bits fps. rewrite check_valid_matches_source. induction fps as [|f t IH]; cbn [fold_right].
  - split; [intros _ f []|reflexivity].
  - destruct (item_src lv bits f) eqn:E.
    + split; [discriminate|]. intros H. rewrite (H f (or_introl eq_refl)) in E. discriminate.
    + rewrite IH. split.
      * intros H g [<-|Hg]; [exact E|exact (H g Hg)].
      * intros H g Hg. apply H. right. exact Hg.
Qed.
Print Assumptions check_valid_every_member.

(* a refused batch is refused with the exception of its FIRST offending member *)
Theorem check_valid_first_offender : forall lv bits good f rest e,
  (forall g, In g good -> item_src lv bits g = None) -> item_src lv bits f = Some e ->
  check_valid lv bits (good ++ f :: rest) = Some e.
Proof.
  intros lv bits good f rest e Hg Hf. rewrite check_valid_matches_source.
  induction good as [|g t IH]; cbn [app fold_right].
  - rewrite Hf. reflexivity.
  - rewrite (Hg g (or_introl eq_refl)). apply IH. intros h Hh. apply Hg. right. exact Hh.
Qed.
Print Assumptions check_valid_first_offender.

(* non-vacuity: the translated guard is not constant *)
Example check_item_src_example :
  check_item_src true true = None /\ check_item_src false true = Some EValue /\ check_item_src true false = Some EBits /\
  check_item_src false false = Some EValue.
Proof. vm_compute. repeat split; reflexivity. Qed.
