(* C17 (M1 part) - statements; proofs in Proofs/E3FPCounts.v *)
From Coq Require Import QArith.
From E3FP Require Import Base.Prelude Base.ZSet Base.Murmur3 Model.Geometry Model.Stereo Model.Fprint Gen.Constants Gen.AngleTable
  Model.E3FP Proofs.E3FPCounts.
Open Scope Z_scope.

(* `fingerprint_query o counts bits st req mask` = get_fingerprint_at_level(req, bits, mask) of a fingerprinter in state `st`
   created with counts = `counts`; `shells_query` = get_shells_at_level(req, mask);
   `shells_at_position o st req mask bits j` = number of answered shells s with unsigned32 (s_ident s) mod bits = j.
   All statements hold for every state, level request, mask and fold length (the hypotheses `= Ok _` say that the fold
   length is accepted: a power-of-two divisor of 2^32). *)

(* the two generators succeed or fail together (same exception), and agree on indices, bits, level, name *)
Theorem count_bit_same_acceptance : forall o bits st req mask,
  match fingerprint_query o false bits st req mask, fingerprint_query o true bits st req mask with
  | Ok b, Ok c => fidx b = fidx c /\ fbits b = fbits c /\ flevel b = flevel c /\ fname b = fname c /\
                  fkind b = KBit /\ fkind c = KCount
  | Raises e, Raises e' => e = e'
  | _, _ => False
  end.
Proof. exact count_bit_same_acceptance. Qed.
Print Assumptions count_bit_same_acceptance.

(* positions with a non-zero count = set bits *)
Theorem count_support_eq_bits : forall o bits st req mask b c,
  fingerprint_query o false bits st req mask = Ok b ->
  fingerprint_query o true bits st req mask = Ok c ->
  fidx c = fidx b /\ ckeys (fcnt c) = fidx b /\
  forall j, ~ (get_count c j == 0)%Q <-> In j (fidx b).
Proof. exact count_support_eq_bits. Qed.
Print Assumptions count_support_eq_bits.

(* each count = number of accepted shells whose unsigned identifier folds to that position *)
Theorem count_is_multiplicity : forall o bits st req mask c,
  fingerprint_query o true bits st req mask = Ok c ->
  forall j, get_count c j = inject_Z (shells_at_position o st req mask bits j).
Proof. exact count_is_multiplicity. Qed.
Print Assumptions count_is_multiplicity.

(* the counts add up to the number of shells answered by get_shells_at_level *)
Theorem count_total : forall o bits st req mask c,
  fingerprint_query o true bits st req mask = Ok c ->
  qsum (map snd (fcnt c)) = inject_Z (Z.of_nat (length (shells_query o st req mask))).
Proof. exact count_total. Qed.
Print Assumptions count_total.

(* non-vacuity: ethanol (heavy atoms), folded to 8 positions so that identifiers collide *)
Module Ex17.
Definition P (x y z : Z) : vec ZD := @mkvec ZD x y z.
Definition ethanol : mol ZD :=
  mkmol ZD [mkatom ZD 0 6 1 4 4 3 12 0 0 0 (P 0 0 0); mkatom ZD 1 6 2 4 4 2 12 0 0 0 (P 1500 0 0);
            mkatom ZD 2 8 1 2 2 1 15 0 0 0 (P 2000 1300 0)]
        [(0, 1, BtSingle); (1, 2, BtSingle)] 1000000.
Definition o : opts := mkopts 5 1718 1000 true true true false true.
End Ex17.

Example counts_nonvacuous :
  match run ZD e3fp_consts 20 Ex17.o Ex17.ethanol with
  | Ok st =>
    match fingerprint_query Ex17.o false 8 st None [], fingerprint_query Ex17.o true 8 st None [] with
    | Ok b, Ok c => (length (fidx b) < length (shells_query Ex17.o st None []))%nat   (* a collision: some count > 1 *)
                    /\ fidx c = fidx b
                    /\ is_ok (fingerprint_query Ex17.o true 4294967296 st (Some 1) [1]) = true
                    /\ fingerprint_query Ex17.o true 12 st None [] = Raises EBits
                    /\ fingerprint_query Ex17.o false 12 st None [] = Raises EBits
    | _, _ => False
    end
  | Raises _ => False
  end.
Proof. vm_compute. repeat split; try reflexivity. Qed.
