(* C17 (M1 part) - statements; proofs in Proofs/E3FPCounts.v *)
From Coq Require Import QArith.
From E3FP Require Import Base.Prelude Base.ZSet Base.Murmur3 Model.Geometry Model.Stereo Model.Fprint Gen.Constants Gen.AngleTable
  Model.E3FP Proofs.E3FPCounts.
Open Scope Z_scope.

(* `fingerprint_query o counts bits st req mask` = get_fingerprint_at_level(req, bits, mask) of a fingerprinter in state `st`
   created with counts = `counts`; `shells_query` = get_shells_at_level(req, mask);
   `shells_at_position o st req mask bits j` = number of answered shells s with unsigned32 (s_ident s) mod bits = j.
   All statements hold for every state, level request, mask and fold length (the hypotheses `= Ok _` say that the fold
   length is accepted: a power-of-two divisor of 2^32). *)

(* the two generators succeed or fail together (same exception), and agree on indices, bits, level, name *)
Theorem count_bit_same_acceptance : forall o bits st req mask,
  match fingerprint_query o false bits st req mask, fingerprint_query o true bits st req mask with
  | Ok b, Ok c => fidx b = fidx c /\ fbits b = fbits c /\ flevel b = flevel c /\ fname b = fname c /\
                  fkind b = KBit /\ fkind c = KCount
  | Raises e, Raises e' => e = e'
  | _, _ => False
  end.
Proof. exact count_bit_same_acceptance. Qed.
Print Assumptions count_bit_same_acceptance.

(* positions with a non-zero count = set bits *)
Theorem count_support_eq_bits : forall o bits st req mask b c,
  fingerprint_query o false bits st req mask = Ok b ->
  fingerprint_query o true bits st req mask = Ok c ->
  fidx c = fidx b /\ ckeys (fcnt c) = fidx b /\
  forall j, ~ (get_count c j == 0)%Q <-> In j (fidx b).
Proof. exact count_support_eq_bits. Qed.
Print Assumptions count_support_eq_bits.

(* each count = number of accepted shells whose unsigned identifier folds to that position *)
Theorem count_is_multiplicity : forall o bits st req mask c,
  fingerprint_query o true bits st req mask = Ok c ->
  forall j, get_count c j = inject_Z (shells_at_position o st req mask bits j).
Proof. exact count_is_multiplicity. Qed.
Print Assumptions count_is_multiplicity.

(* the counts add up to the number of shells answered by get_shells_at_level *)
Theorem count_total : forall o bits st req mask c,
  fingerprint_query o true bits st req mask = Ok c ->
  qsum (map snd (fcnt c)) = inject_Z (Z.of_nat (length (shells_query o st req mask))).
Proof. exact count_total. Qed.
Print Assumptions count_total.

(* non-vacuity: ethanol (heavy atoms), folded to 8 positions so that identifiers collide *)
Module Ex17.
Definition P (x y z : Z) : vec ZD := @mkvec ZD x y z.
Definition ethanol : mol ZD :=
  mkmol ZD [mkatom ZD 0 6 1 4 4 3 12 0 0 0 (P 0 0 0); mkatom ZD 1 6 2 4 4 2 12 0 0 0 (P 1500 0 0);
            mkatom ZD 2 8 1 2 2 1 15 0 0 0 (P 2000 1300 0)]
        [(0, 1, BtSingle); (1, 2, BtSingle)] 1000000.
Definition o : opts := mkopts 5 1718 1000 true true true false true.
End Ex17.

Example counts_nonvacuous :
  match run ZD e3fp_consts 20 Ex17.o Ex17.ethanol with
  | Ok st =>
    match fingerprint_query Ex17.o false 8 st None [], fingerprint_query Ex17.o true 8 st None [] with
    | Ok b, Ok c => (length (fidx b) < length (shells_query Ex17.o st None []))%nat   (* a collision: some count > 1 *)
                    /\ fidx c = fidx b
                    /\ is_ok (fingerprint_query Ex17.o true 4294967296 st (Some 1) [1]) = true
                    /\ fingerprint_query Ex17.o true 12 st None [] = Raises EBits
                    /\ fingerprint_query Ex17.o false 12 st None [] = Raises EBits
    | _, _ => False
    end
  | Raises _ => False
  end.
Proof. vm_compute. repeat split; try reflexivity. Qed.

(* ============ fingerprint conversions between kinds (model M2; proofs in Proofs/FprintConv.v) ============ *)
From Coq Require Import QArith.
From E3FP Require Import Base.Prelude Base.ZSet Model.Fprint Model.FprintIO Proofs.FprintEq Proofs.FprintConv.



(* all nine ordered kind pairs: X.from_fingerprint(a) succeeds, keeps length / level / name and the index array, and
   the indices are exactly the positions with a positive count in a *)
Theorem convert_support : forall k a, wf_fp a ->
  exists r, from_fingerprint k a = Ok r /\ fkind r = k /\ fbits r = fbits a /\ flevel r = flevel a /\ fname r = fname a /\
            fidx r = fidx a /\ forall i, In i (fidx r) <-> (0 < get_count a i)%Q.
Proof. exact convert_support. Qed.
Print Assumptions convert_support.

(* values: to bit -> 1 on the support; to count -> int(value); to float -> the value (bit sources count 1) *)
Theorem convert_values : forall k a r, wf_fp a -> from_fingerprint k a = Ok r ->
  forall i, get_count r i = match k with
                            | KBit => if zmem i (fidx a) then 1%Q else 0%Q
                            | _ => cast_value k (get_count a i)
                            end.
Proof. exact convert_values. Qed.
Print Assumptions convert_values.

Theorem convert_values_count_float : forall a r, wf_fp a -> from_fingerprint KFloat a = Ok r -> forall i, get_count r i = get_count a i.
Proof. exact convert_values_count_float. Qed.
Print Assumptions convert_values_count_float.

Theorem convert_values_to_count : forall a r, wf_fp a -> from_fingerprint KCount a = Ok r -> forall i, get_count r i = qtrunc (get_count a i).
Proof. exact convert_values_to_count. Qed.
Print Assumptions convert_values_to_count.

(* representable = integer-valued *)
Theorem int_keeps_integers : forall v, (qtrunc v == v)%Q <-> exists n, (v == inject_Z n)%Q.
Proof. exact qtrunc_fixed_iff. Qed.
Print Assumptions int_keeps_integers.

(* support by value (positions whose stored count is not 0) = indices, unless a value is truncated to 0 *)
Theorem convert_nz_support : forall k a r, wf_fp a -> from_fingerprint k a = Ok r ->
  (forall i, In i (fidx a) -> ~ (cast_value k (get_count a i) == 0)%Q) -> nz_support r = fidx a.
Proof. exact convert_nz_support. Qed.
Print Assumptions convert_nz_support.

Theorem convert_truncates_to_zero_refuted :
  exists a r, wf_fp a /\ from_fingerprint KCount a = Ok r /\ fidx r = fidx a /\ nz_support r <> fidx r /\ ~ wf_fp r.
Proof. exact convert_truncates_to_zero_witness. Qed.
Print Assumptions convert_truncates_to_zero_refuted.

(* outside well-formedness (zero counts from subtraction): the bit view keeps a position whose count is zero *)
Theorem bit_of_zero_count_refuted :
  exists a r, wf_fp_signed a /\ from_fingerprint KBit a = Ok r /\ In 1 (fidx r) /\ (get_count a 1 == 0)%Q.
Proof. exact bit_of_zero_count_witness. Qed.
Print Assumptions bit_of_zero_count_refuted.

(* a count fingerprint built from an index multiset: support = the set, counts = multiplicities *)
Theorem count_is_multiplicity_fp : forall k idx bits lv nm r,
  mk_count_from_indices k idx bits lv nm = Ok r ->
  fkind r = k /\ fbits r = bits /\ flevel r = lv /\
  fidx r = usort idx /\ (forall i, In i (fidx r) <-> In i idx) /\
  ckeys (fcnt r) = fidx r /\ forall i, cget (fcnt r) i = inject_Z (count_occ_Z i idx).
Proof. exact count_is_multiplicity_fp. Qed.
Print Assumptions count_is_multiplicity_fp.

Theorem mk_count_from_indices_total : forall k idx bits lv nm,
  (forall i, In i idx -> i < bits) -> exists r, mk_count_from_indices k idx bits lv nm = Ok r.
Proof. exact mk_count_from_indices_ok. Qed.
Print Assumptions mk_count_from_indices_total.

Theorem mk_count_from_indices_wf : forall k idx bits lv nm r, k <> KBit -> 0 <= bits ->
  (forall i, In i idx -> 0 <= i) -> mk_count_from_indices k idx bits lv nm = Ok r -> wf_fp r.
Proof. exact mk_count_from_indices_wf. Qed.
Print Assumptions mk_count_from_indices_wf.

(* ============ databases (model M3): as_type and cast-on-add keep the support; values as the target type stores them ============ *)
From E3FP Require Import Model.Db Proofs.DbBase Proofs.DbSpec Proofs.DbFold.

Theorem db_cast_row_support : forall k r, map fst (cast_row k r) = map fst r.
Proof. exact cast_row_support. Qed.
Print Assumptions db_cast_row_support.

Theorem db_add_row_support : forall k a, map fst (fp_row k a) = fidx a.
Proof. exact fp_row_support. Qed.
Print Assumptions db_add_row_support.

Theorem db_cast_values : forall q,
  cast_to KFloat q = q /\ cast_to KCount q = qtrunc q /\ cast_to KBit q = (if Qeq_bool q 0 then 0%Q else 1%Q).
Proof. exact cast_to_values. Qed.
Print Assumptions db_cast_values.
