(* C18 - only the positions of bonded heavy atoms influence a fingerprint.
   Statements only; proofs are in Proofs/E3FPScene.v.  Model: Model/E3FP.v (M1), for every ring dictionary D.

   Reading guide.  `mol D` is what the code reads from RDKit: atom records (index, atomic number, degree, the getters
   used by the invariants, position), bonds, and the squared length unit.  `scene_of D o m` is everything
   `Fingerprinter.initialize_mol/initialize_conformer` extract (retained atom indices, level-0 identifiers, for every
   ordered pair of retained atoms the bond code / bonded flag / difference vector); `run D C fuel o m` is
   `rbind (scene_of D o m) (iterate ...)`: equal scenes give equal runs and hence equal answers to every query.
   `heavy a` = `1 <? a_num a`; `floating a` = heavy with `GetDegree() = 0`; `heavy_atoms m` = the heavy atoms in index
   order; `bonded_heavy m` = the heavy atoms of positive degree; `bonds_agree_on ids m1 m2` = `bond_between` gives the
   same answer in both molecules for every pair of indices in `ids` (scene_of asks about retained pairs only).
   Atoms are identified by RDKit index, so deleting atoms needs no renaming in the model; RDKit's renumbering after
   RWMol.RemoveAtom is a strictly increasing relabelling: `run_monotone_renaming` / `deleted_renumbered_same_fingerprints`
   below (Proofs/E3FPRename.v) show that it changes no identifier and no fingerprint. *)
From E3FP Require Import Base.Prelude Base.ZSet Base.Murmur3 Model.Geometry Model.Stereo Model.Fprint Gen.Constants
  Gen.AngleTable Model.E3FP Proofs.E3FPScene Proofs.E3FPRename.
Open Scope Z_scope.

(* ------------------------------------------------------------------------------------------------ *)
(* hydrogens                                                                                         *)

(* scene_of reads the retained atoms' records, the bonds among them and the length unit - nothing else *)
Theorem scene_of_ext : forall D o (m1 m2 : mol D),
  retained D o m1 = retained D o m2 ->
  bonds_agree_on D (map (a_idx D) (retained D o m1)) m1 m2 ->
  m_unit2 D m1 = m_unit2 D m2 ->
  scene_of D o m1 = scene_of D o m2.
Proof. exact scene_of_ext. Qed.
Print Assumptions scene_of_ext.

(* Two molecules with the same heavy-atom records (atoms with atomic number <= 1 may differ in every field, position
   included, and may be present in one and absent in the other) and the same bonds among retained atoms: same scene *)
Theorem hydrogen_irrelevant : forall D o (m1 m2 : mol D),
  heavy_atoms D m1 = heavy_atoms D m2 ->
  bonds_agree_on D (map (a_idx D) (retained D o m1)) m1 m2 ->
  m_unit2 D m1 = m_unit2 D m2 ->
  scene_of D o m1 = scene_of D o m2.
Proof. exact hydrogen_irrelevant. Qed.
Print Assumptions hydrogen_irrelevant.

Theorem hydrogen_irrelevant_run : forall D C fuel o (m1 m2 : mol D),
  heavy_atoms D m1 = heavy_atoms D m2 ->
  bonds_agree_on D (map (a_idx D) (retained D o m1)) m1 m2 ->
  m_unit2 D m1 = m_unit2 D m2 ->
  run D C fuel o m1 = run D C fuel o m2.
Proof. exact hydrogen_irrelevant_run. Qed.
Print Assumptions hydrogen_irrelevant_run.

(* the instance of the property text: every hydrogen moved to an arbitrary position *)
Theorem hydrogen_coords_irrelevant : forall D o (p : atom D -> vec D) (m : mol D),
  scene_of D o (map_atoms D (fun a => if heavy D a then a else set_pos D a (p a)) m) = scene_of D o m.
Proof. exact hydrogen_coords_irrelevant. Qed.
Print Assumptions hydrogen_coords_irrelevant.

(* ------------------------------------------------------------------------------------------------ *)
(* floating heavy atoms, exclude_floating = True                                                     *)

Theorem floating_excluded_eq_deleted : forall D o (m : mol D),
  o_exfloat o = true -> (1 < length (heavy_atoms D m))%nat -> bonded_heavy D m <> [] ->
  scene_of D o m = scene_of D o (delete_floating D m) /\
  (forall sc, scene_of D o m = Ok sc -> sc_atoms D sc = map (a_idx D) (bonded_heavy D m) /\ sc_atoms D sc <> []).
Proof. exact floating_excluded_eq_deleted. Qed.
Print Assumptions floating_excluded_eq_deleted.

(* the equation does not need a bonded atom (both sides are ValueError when there is none) *)
Theorem floating_excluded_eq_deleted_gen : forall D o (m : mol D),
  o_exfloat o = true -> (1 < length (heavy_atoms D m))%nat ->
  scene_of D o m = scene_of D o (delete_floating D m).
Proof. exact floating_excluded_eq_deleted_gen. Qed.
Print Assumptions floating_excluded_eq_deleted_gen.

Theorem floating_excluded_eq_deleted_run : forall D C fuel o (m : mol D),
  o_exfloat o = true -> (1 < length (heavy_atoms D m))%nat ->
  run D C fuel o m = run D C fuel o (delete_floating D m).
Proof. exact floating_excluded_eq_deleted_run. Qed.
Print Assumptions floating_excluded_eq_deleted_run.

Theorem floating_coords_irrelevant : forall D o (p : atom D -> vec D) (m : mol D),
  o_exfloat o = true -> (1 < length (heavy_atoms D m))%nat ->
  scene_of D o (map_atoms D (fun a => if floating D a then set_pos D a (p a) else a) m) = scene_of D o m.
Proof. exact floating_coords_irrelevant. Qed.
Print Assumptions floating_coords_irrelevant.

Theorem floating_coords_irrelevant_run : forall D C fuel o (p : atom D -> vec D) (m : mol D),
  o_exfloat o = true -> (1 < length (heavy_atoms D m))%nat ->
  run D C fuel o (map_atoms D (fun a => if floating D a then set_pos D a (p a) else a) m) = run D C fuel o m.
Proof. exact floating_coords_irrelevant_run. Qed.
Print Assumptions floating_coords_irrelevant_run.

(* ------------------------------------------------------------------------------------------------ *)
(* RDKit renumbers after a deletion: strictly increasing relabellings change nothing                   *)

(* relabelling all atom indices (atoms and bond end points) by a strictly increasing rho relabels the stored indices of
   the resulting state and nothing else ... *)
Theorem run_monotone_renaming : forall D rho, (forall x y, x < y -> rho x < rho y) ->
  forall C o fuel (m : mol D), run D C fuel o (rename_mol D rho m) = rmap (rstate rho) (run D C fuel o m).
Proof. exact run_rename. Qed.
Print Assumptions run_monotone_renaming.

(* ... so the shells are the relabelled shells and every fingerprint (the mask relabelled as well) is identical *)
Theorem shells_query_renaming : forall rho, (forall x y, x < y -> rho x < rho y) ->
  forall o st req mask, shells_query o (rstate rho st) req (map rho mask) = map (rsh rho) (shells_query o st req mask).
Proof. exact shells_query_rename. Qed.
Print Assumptions shells_query_renaming.

Theorem fingerprint_query_renaming : forall rho, (forall x y, x < y -> rho x < rho y) ->
  forall o counts bits st req mask,
  fingerprint_query o counts bits (rstate rho st) req (map rho mask) = fingerprint_query o counts bits st req mask.
Proof. exact fingerprint_query_rename. Qed.
Print Assumptions fingerprint_query_renaming.

(* a strictly increasing assignment new index i (0 <= i < n) -> old index olds[i] extends to a strictly increasing map on Z *)
Theorem extend_mono : forall olds, ssorted olds -> forall x y, x < y -> extend olds x < extend olds y.
Proof. exact extend_mono. Qed.
Print Assumptions extend_mono.
Theorem extend_nth : forall olds i, (i < length olds)%nat -> extend olds (Z.of_nat i) = nth i olds 0.
Proof. exact extend_nth. Qed.
Print Assumptions extend_nth.

(* the property as worded: m' = m with the floating atoms removed AND renumbered (rho : new index -> old index).
   Same exception or, on success, identical fingerprints for every level, fold length, kind and (relabelled) mask. *)
Theorem deleted_renumbered_same_fingerprints : forall D C rho fuel o (m m' : mol D),
  (forall x y, x < y -> rho x < rho y) ->
  o_exfloat o = true -> (1 < length (heavy_atoms D m))%nat ->
  rename_mol D rho m' = delete_floating D m ->
  match run D C fuel o m', run D C fuel o m with
  | Ok st', Ok st => forall counts bits req mask,
      fingerprint_query o counts bits st req (map rho mask) = fingerprint_query o counts bits st' req mask
  | Raises e', Raises e => e' = e
  | _, _ => False
  end.
Proof. exact deleted_renumbered_same_fingerprints. Qed.
Print Assumptions deleted_renumbered_same_fingerprints.

(* ------------------------------------------------------------------------------------------------ *)
(* floating heavy atoms, exclude_floating = False: they contribute their own identifiers              *)

(* every heavy atom, bonded or not, owns its level-0 shell in the shell set answered for every level / mask not
   containing it, in every run *)
Theorem floating_included_shell : forall D C fuel o (m : mol D) st a req mask,
  o_exfloat o = false -> NoDup (map (a_idx D) (m_atoms D m)) ->
  run D C fuel o m = Ok st ->
  In a (m_atoms D m) -> heavy D a = true -> ~ In (a_idx D a) mask ->
  In (shell0 D o a) (shells_query o st req mask).
Proof. exact floating_included_shell. Qed.
Print Assumptions floating_included_shell.

(* ... and its level-0 identifier (the hash of its invariants) is a set position of every fingerprint of the run *)
Theorem floating_included_contributes : forall D C fuel o (m : mol D) st a req mask counts bits f,
  o_exfloat o = false -> NoDup (map (a_idx D) (m_atoms D m)) ->
  run D C fuel o m = Ok st ->
  In a (m_atoms D m) -> heavy D a = true -> ~ In (a_idx D a) mask ->
  fingerprint_query o counts bits st req mask = Ok f ->
  In (unsigned32 (hash_i64 mmh3_seed (inv_of D o a)) mod bits) (fidx f).
Proof. exact floating_included_contributes. Qed.
Print Assumptions floating_included_contributes.

(* ------------------------------------------------------------------------------------------------ *)
(* the corners outside the property's domain: what the model (= the code) does there                  *)

Theorem single_heavy_kept : forall D o (m : mol D) a,
  heavy_atoms D m = [a] ->
  scene_of D o m = Ok (mkscene D [a_idx D a] [(a_idx D a, hash_i64 mmh3_seed (inv_of D o a))] [(a_idx D a, [])] (m_unit2 D m)).
Proof. exact single_heavy_kept. Qed.
Print Assumptions single_heavy_kept.

Theorem single_floating_deleted_raises : forall D o (m : mol D) a,
  heavy_atoms D m = [a] -> floating D a = true -> scene_of D o (delete_floating D m) = Raises EValue.
Proof. exact single_floating_deleted_raises. Qed.
Print Assumptions single_floating_deleted_raises.

Theorem all_floating_raises : forall D o (m : mol D),
  o_exfloat o = true -> (1 < length (heavy_atoms D m))%nat ->
  (forall a, In a (heavy_atoms D m) -> (0 <? a_deg D a) = false) ->
  scene_of D o m = Raises EValue.
Proof. exact all_floating_raises. Qed.
Print Assumptions all_floating_raises.

Theorem all_floating_raises_run : forall D C fuel o (m : mol D),
  o_exfloat o = true -> (1 < length (heavy_atoms D m))%nat ->
  (forall a, In a (heavy_atoms D m) -> (0 <? a_deg D a) = false) ->
  check_opts o = true ->
  run D C fuel o m = Raises EValue.
Proof. exact all_floating_raises_run. Qed.
Print Assumptions all_floating_raises_run.

(* ------------------------------------------------------------------------------------------------ *)
(* non-vacuity: ethanol heavy atoms + one explicit hydroxyl H + a floating sodium ion (coordinates in 1/1000 A)  *)
Module Ex.
Definition P (x y z : Z) : vec ZD := @mkvec ZD x y z.
(*                      idx num deg tdeg tval nh mass chg ring dmass pos *)
Definition C0 := mkatom ZD 0 6 1 4 4 3 12 0 0 0 (P 0 0 0).
Definition C1 := mkatom ZD 1 6 2 4 4 2 12 0 0 0 (P 1500 0 0).
Definition O2 := mkatom ZD 2 8 2 2 2 1 15 0 0 0 (P 2000 1300 0).
Definition H3 := mkatom ZD 3 1 1 1 1 0 1 0 0 0 (P 2900 1300 200).
Definition Na := mkatom ZD 4 11 0 0 0 0 22 1 0 0 (P 6000 5000 3000).
Definition bonds := [(0, 1, BtSingle); (1, 2, BtSingle); (2, 3, BtSingle)].
Definition ethanol_na : mol ZD := mkmol ZD [C0; C1; O2; H3; Na] bonds 1000000.
(* the same without the hydrogen, and with a dangling bond record to a non-retained index *)
Definition no_h : mol ZD := mkmol ZD [C0; C1; O2; Na] [(0, 1, BtSingle); (1, 2, BtSingle)] 1000000.
Definition on : opts := mkopts 5 1718 1000 true true true false true.
Definition off : opts := mkopts 5 1718 1000 true true true false false.
Definition moved_h (a : atom ZD) : vec ZD := P (-700) 42 9000.
Definition moved_na (a : atom ZD) : vec ZD := P 100 100 100.
Definition nacl : mol ZD :=
  mkmol ZD [mkatom ZD 0 11 0 0 0 0 22 1 0 0 (P 0 0 0); mkatom ZD 1 17 0 0 0 0 35 (-1) 0 0 (P 2800 0 0)] [] 1000000.
Definition water : mol ZD := mkmol ZD [mkatom ZD 0 8 0 2 2 2 15 0 0 0 (P 0 0 0)] [] 1000000.
End Ex.

(* hypotheses of hydrogen_irrelevant hold for two different molecules, and the run succeeds *)
Example hydrogen_irrelevant_nonvacuous :
  heavy_atoms ZD Ex.ethanol_na = heavy_atoms ZD Ex.no_h /\ Ex.ethanol_na <> Ex.no_h /\
  bonds_agree_on ZD (map (a_idx ZD) (retained ZD Ex.on Ex.ethanol_na)) Ex.ethanol_na Ex.no_h /\
  is_ok (run ZD e3fp_consts 20 Ex.on Ex.ethanol_na) = true /\
  map (a_idx ZD) (retained ZD Ex.on Ex.ethanol_na) = [0; 1; 2].
Proof.
  split; [reflexivity|]. split; [discriminate|]. split.
  - intros a b Ha Hb. simpl in Ha, Hb.
    destruct Ha as [<-|[<-|[<-|[]]]]; destruct Hb as [<-|[<-|[<-|[]]]]; reflexivity.
  - split; vm_compute; reflexivity.
Qed.

(* the moved hydrogen really is moved *)
Example hydrogen_coords_nonvacuous :
  map_atoms ZD (fun a => if heavy ZD a then a else set_pos ZD a (Ex.moved_h a)) Ex.ethanol_na <> Ex.ethanol_na.
Proof. vm_compute. discriminate. Qed.

Example floating_excluded_nonvacuous :
  o_exfloat Ex.on = true /\ (1 < length (heavy_atoms ZD Ex.ethanol_na))%nat /\ bonded_heavy ZD Ex.ethanol_na <> [] /\
  map (a_idx ZD) (m_atoms ZD (delete_floating ZD Ex.ethanol_na)) = [0; 1; 2; 3] /\
  map_atoms ZD (fun a => if floating ZD a then set_pos ZD a (Ex.moved_na a) else a) Ex.ethanol_na <> Ex.ethanol_na /\
  is_ok (scene_of ZD Ex.on Ex.ethanol_na) = true.
Proof. vm_compute. repeat split; try discriminate; try reflexivity. lia. Qed.

(* with exclusion off the ion is in the scene, and the run differs from the one with exclusion on *)
Example floating_included_nonvacuous :
  o_exfloat Ex.off = false /\ NoDup (map (a_idx ZD) (m_atoms ZD Ex.ethanol_na)) /\
  is_ok (run ZD e3fp_consts 20 Ex.off Ex.ethanol_na) = true /\
  In Ex.Na (m_atoms ZD Ex.ethanol_na) /\ heavy ZD Ex.Na = true /\ floating ZD Ex.Na = true /\
  match run ZD e3fp_consts 20 Ex.off Ex.ethanol_na with
  | Ok st => is_ok (fingerprint_query Ex.off false 1024 st None []) = true /\
             length (shells_query Ex.off st (Some 0) []) = 4%nat
  | Raises _ => False end /\
  match run ZD e3fp_consts 20 Ex.on Ex.ethanol_na with
  | Ok st => length (shells_query Ex.on st (Some 0) []) = 3%nat
  | Raises _ => False end.
Proof.
  split; [reflexivity|]. split.
  - simpl. repeat constructor; simpl; intuition discriminate.
  - vm_compute. repeat split; try reflexivity. right; right; right; right; left; reflexivity.
Qed.

(* sodium in the middle of the index range: deleting it makes RDKit renumber 2,3 -> 1,2 *)
Module Ex2.
Import Ex.
Definition na_mid : mol ZD :=
  mkmol ZD [C0; mkatom ZD 1 11 0 0 0 0 22 1 0 0 (P 6000 5000 3000);
            mkatom ZD 2 6 2 4 4 2 12 0 0 0 (P 1500 0 0); mkatom ZD 3 8 1 2 2 1 15 0 0 0 (P 2000 1300 0)]
        [(0, 2, BtSingle); (2, 3, BtSingle)] 1000000.
Definition renumbered : mol ZD :=
  mkmol ZD [C0; mkatom ZD 1 6 2 4 4 2 12 0 0 0 (P 1500 0 0); mkatom ZD 2 8 1 2 2 1 15 0 0 0 (P 2000 1300 0)]
        [(0, 1, BtSingle); (1, 2, BtSingle)] 1000000.
Definition rho := extend [0; 2; 3].
End Ex2.

Example deleted_renumbered_nonvacuous :
  ssorted [0; 2; 3] /\
  (rename_mol ZD Ex2.rho Ex2.renumbered = delete_floating ZD Ex2.na_mid) /\
  (1 < length (heavy_atoms ZD Ex2.na_mid))%nat /\
  (is_ok (run ZD e3fp_consts 20 Ex.on Ex2.renumbered) = true) /\
  Ex2.renumbered <> delete_floating ZD Ex2.na_mid.
Proof.
  split; [repeat constructor|]. vm_compute. repeat split; try reflexivity; try discriminate; lia.
Qed.

Example all_floating_nonvacuous :
  (1 < length (heavy_atoms ZD Ex.nacl))%nat /\
  (forall a, In a (heavy_atoms ZD Ex.nacl) -> (0 <? a_deg ZD a) = false) /\ check_opts Ex.on = true /\
  run ZD e3fp_consts 20 Ex.on Ex.nacl = Raises EValue /\ is_ok (run ZD e3fp_consts 20 Ex.off Ex.nacl) = true.
Proof.
  split; [simpl; lia|]. split; [intros a [<-|[<-|[]]]; reflexivity|]. vm_compute. repeat split; reflexivity.
Qed.

Example single_heavy_nonvacuous :
  exists a, heavy_atoms ZD Ex.water = [a] /\ floating ZD a = true /\ is_ok (run ZD e3fp_consts 20 Ex.on Ex.water) = true.
Proof. eexists. split; [reflexivity|]. vm_compute. split; reflexivity. Qed.
