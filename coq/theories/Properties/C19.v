(* C19 - conformer (SD) and SMILES files round-trip: the part e3fp itself computes.
   Statements only; proofs are in Proofs/Files.v.  Model: Model/Files.v (M8).

   The SD codec is RDKit's: `G` (what identifies the molecule), `C` (one coordinate block), `rt4 : C -> C` (what a block
   becomes through SDWriter + ForwardSDMolSupplier) and `codec : props -> props` (what a property map becomes) are universally
   quantified; `codec` is assumed to be the identity on maps whose string values contain no line feed (`sd_safe`; RDKit drops a
   value with a blank line, strips a trailing line feed, and a title with a line feed makes the record unreadable).

   Premises that remain in the statements: `good_entry` (SMILES tables), `NoDup (map fst t)`, `sd_safe (m_props m) = true` and the
   `codec` hypothesis (SD read-back), `pget K_E .. = None` / formatted energies (write_restores_props), one energy per conformer
   (sdf_energies). *)
From Coq Require Import QArith Qabs Sorting.Permutation.
From E3FP Require Import Base.Prelude Model.Files Proofs.Files.
Open Scope Z_scope.

(* ---- SMILES tables ------------------------------------------------------------------------------------------------- *)
(* names and SMILES non-empty, free of ASCII white space and of the UTF-8 lead bytes C2/E1/E2/E3 under which every non-ASCII
   white space of Unicode is encoded (`good_entry`; str.split() splits at U+00A0, U+2028, ... too), names distinct: dict_to_smiles then smiles_to_dict gives the same
   entries, listed by name ... *)
Theorem smiles_table_rt : forall t, Forall good_entry t -> NoDup (map fst t) ->
  smiles_to_dict (dict_to_smiles t) false false = Ok (esort t) /\ Permutation (esort t) t.
Proof. exact smiles_table_rt. Qed.
Print Assumptions smiles_table_rt.

(* ... that is, the same finite map *)
Theorem smiles_table_rt_map : forall t, Forall good_entry t -> NoDup (map fst t) ->
  exists d, smiles_to_dict (dict_to_smiles t) false false = Ok d /\ forall n, dget n d = dget n t.
Proof. exact smiles_table_rt_map. Qed.
Print Assumptions smiles_table_rt_map.

(* iter_to_smiles keeps the caller's order *)
Theorem smiles_table_rt_iter : forall t, Forall good_entry t -> NoDup (map fst t) ->
  smiles_to_dict (iter_to_smiles t) false false = Ok t.
Proof. exact smiles_table_rt_iter. Qed.
Print Assumptions smiles_table_rt_iter.

(* what duplicates do: without `unique`, the last line written under a name is the one read *)
Theorem smiles_dup_last_wins : forall t, Forall good_entry t ->
  exists d, smiles_to_dict (iter_to_smiles t) false false = Ok d /\ forall n, dget n d = dget n (rev t).
Proof. exact smiles_dup_last_wins. Qed.
Print Assumptions smiles_dup_last_wins.

(* ---- energy codec -------------------------------------------------------------------------------------------------- *)
Theorem energy_codec_idempotent : forall q, parse4 (fmt4 (parse4 (fmt4 q))) = parse4 (fmt4 q).
Proof. exact energy_codec_idempotent. Qed.
Print Assumptions energy_codec_idempotent.

Theorem energy_codec_identity_on_4_decimals : forall n, fmt4 (parse4 n) = n.
Proof. exact fmt4_parse4. Qed.
Print Assumptions energy_codec_identity_on_4_decimals.

(* formatting moves an energy by at most half a unit of the fourth decimal *)
Theorem energy_codec_nearest : forall q, (Qabs (q * 10000 - inject_Z (fmt4 q)) <= 1 # 2)%Q.
Proof. exact fmt4_near. Qed.
Print Assumptions energy_codec_nearest.

(* ---- SD files ------------------------------------------------------------------------------------------------------ *)
(* number and order: the molecule read back holds the first `write limit` conformers of the molecule, cut to the first `read
   limit`, in order, renumbered 0..; it is the same molecule; the written molecule keeps its conformers *)
Theorem sdf_count_order : forall (G C : Type) (rt4 : C -> C) (codec : props -> props),
  (forall p, sd_safe p = true -> codec p = p) ->
  forall m wl rl fb m' recs r,
  sd_safe (m_props G C m) = true ->
  mol_to_sdf G C m wl = Ok (m', recs) -> mol_from_sdf G C rt4 codec recs rl fb = Ok r ->
  map (c_xyz C) (m_confs G C r) =
    map rt4 (map (c_xyz C) (read_take rl (firstn (room wl 0 (length (m_confs G C m))) (m_confs G C m)))) /\
  map (c_id C) (m_confs G C r) = map Z.of_nat (seq 0 (length (m_confs G C r))) /\
  m_graph G C r = m_graph G C m /\
  m_confs G C m' = m_confs G C m /\ m_graph G C m' = m_graph G C m.
Proof. exact sdf_count_order. Qed.
Print Assumptions sdf_count_order.

(* the count is the minimum of the number of conformers and the two limits (None and -1 mean "all") *)
Theorem sdf_count : forall (G C : Type) (rt4 : C -> C) (codec : props -> props),
  (forall p, sd_safe p = true -> codec p = p) ->
  forall m wl rl fb m' recs r,
  sd_safe (m_props G C m) = true ->
  mol_to_sdf G C m wl = Ok (m', recs) -> mol_from_sdf G C rt4 codec recs rl fb = Ok r ->
  length (m_confs G C r) =
    let n := length (m_confs G C m) in
    let w := if limit_active wl then Nat.min n (Z.to_nat (limit_val wl)) else n in
    match rl with None => w | Some k => if k <? 0 then w else Nat.min (Z.to_nat k) w end.
Proof. exact sdf_count. Qed.
Print Assumptions sdf_count.

(* energies: with one energy per conformer, the molecule read back carries the formatted energies of exactly the conformers
   it received, in order, and no stray Energy property *)
Theorem sdf_energies : forall (G C : Type) (rt4 : C -> C) (codec : props -> props),
  (forall p, sd_safe p = true -> codec p = p) ->
  forall m wl rl fb m' recs r l,
  sd_safe (m_props G C m) = true ->
  get_conformer_energies (m_props G C m) = Ok (Some l) -> (length (m_confs G C m) <= length l)%nat ->
  mol_to_sdf G C m wl = Ok (m', recs) -> mol_from_sdf G C rt4 codec recs rl fb = Ok r ->
  pget K_CE (m_props G C r) = Some (PEn (map canon (firstn (length (m_confs G C r)) l))) /\
  pget K_E (m_props G C r) = None.
Proof. exact sdf_energies. Qed.
Print Assumptions sdf_energies.

(* the in-memory molecule after writing: unchanged when it has no Energy property of its own and its energies, if any, are
   spelled the way "{:.4f}" spells them *)
Theorem write_restores_props : forall (G C : Type) m wl m' recs,
  mol_to_sdf G C m wl = Ok (m', recs) -> pget K_E (m_props G C m) = None ->
  (pget K_CE (m_props G C m) = None \/ exists ns, pget K_CE (m_props G C m) = Some (PEn (map Canon ns))) ->
  (forall k, pget k (m_props G C m') = pget k (m_props G C m)) /\ m_confs G C m' = m_confs G C m /\ m_graph G C m' = m_graph G C m.
Proof. exact write_restores_props. Qed.
Print Assumptions write_restores_props.

(* ... and what exactly changes otherwise: Energy is gone, _ConfEnergies is re-spelled with four decimals, nothing else moves *)
Theorem write_props_general : forall (G C : Type) m wl m' recs es,
  get_conformer_energies (m_props G C m) = Ok es -> mol_to_sdf G C m wl = Ok (m', recs) ->
  forall k, pget k (m_props G C m') =
    if String.eqb k K_E then None
    else if String.eqb k K_CE then option_map (fun l => PEn (join_energies l)) es
    else pget k (m_props G C m).
Proof. exact write_props_general. Qed.
Print Assumptions write_props_general.

(* the Energy-carrying molecule is outside the property's stated domain: a note, not an alarm *)
Theorem write_restores_props_refuted :
  exists (m m' : mol unit unit) recs,
    mol_to_sdf unit unit m None = Ok (m', recs) /\ pget K_E (m_props unit unit m) <> pget K_E (m_props unit unit m').
Proof. exact write_restores_props_refuted. Qed.
Print Assumptions write_restores_props_refuted.

(* ---- non-vacuity --------------------------------------------------------------------------------------------------- *)
(* "b_2" -> "C[C@H](N)O", "a1" -> "CCO" *)
Definition ex_table : list (text * text) :=
  [([98; 95; 50], [67; 91; 67; 64; 72; 93; 40; 78; 41; 79]); ([97; 49], [67; 67; 79])].

Example ex_table_good : Forall good_entry ex_table /\ NoDup (map fst ex_table).
Proof.
  split.
  - repeat constructor; simpl; discriminate.
  - repeat constructor; simpl; intuition discriminate.
Qed.

Example ex_table_file :
  dict_to_smiles ex_table = [67; 67; 79; 32; 97; 49; 10; 67; 91; 67; 64; 72; 93; 40; 78; 41; 79; 32; 98; 95; 50; 10] /\
  smiles_to_dict (dict_to_smiles ex_table) false false = Ok (rev ex_table).
Proof. vm_compute. split; reflexivity. Qed.

Example ex_fmt4_half_even : fmt4 (1 # 32) = 312 /\ fmt4 (3 # 32) = 938 /\ fmt4 (-(1 # 100000)) = 0 /\ fmt4 (1234567 # 1000000) = 12346.
Proof. vm_compute. repeat split. Qed.

(* three conformers with formatted energies, write limit 2, read limit 5: two conformers and two energies come back; the
   in-memory property map is as before *)
Example ex_write_read :
  let m := mkmol Z Z 7 [(K_NAME, PStr [109]); (K_CE, PEn [Canon 12346; Canon 25000; Canon (-1)])]
                 [mkconf Z 0 100; mkconf Z 1 200; mkconf Z 2 300] in
  exists m' recs r,
    mol_to_sdf Z Z m (Some 2) = Ok (m', recs) /\ mol_from_sdf Z Z (fun x => x + 1) (fun p => p) recs (Some 5) [102] = Ok r /\
    map (c_xyz Z) (m_confs Z Z r) = [101; 201] /\
    pget K_CE (m_props Z Z r) = Some (PEn [Canon 12346; Canon 25000]) /\
    pget K_CE (m_props Z Z m') = pget K_CE (m_props Z Z m) /\ pget K_E (m_props Z Z m') = None.
Proof. eexists. eexists. eexists. split; [vm_compute; reflexivity|]. split; [vm_compute; reflexivity|]. vm_compute. repeat split. Qed.

(* the boundary of `good_entry`: the name "a<U+00A0>b" (bytes 97 194 160 98) is not a good token, and the model - like
   str.split() - reads the line "CCO a<NBSP>b" back as the name "a"; the same bytes inside a property value are harmless *)
Example ex_nbsp_not_good : good_token_b [97; 194; 160; 98] = false /\ good_token_b [97; 195; 169; 98] = true /\
  smiles_generator [67; 67; 79; 32; 97; 194; 160; 98; 10] = [([67; 67; 79], [97])] /\
  smiles_generator [67; 32; 120; 226; 128; 168; 121; 10] = [([67], [120])] /\
  smiles_generator [67; 32; 120; 226; 130; 172; 121; 10] = [([67], [120; 226; 130; 172; 121])].
Proof. vm_compute. repeat split. Qed.

(* a title with a line feed: the molecule is outside `sd_safe`, and reading the file raises *)
Example ex_title_line_feed :
  let m := mkmol Z Z 7 [(K_NAME, PStr [97; 10; 98])] [mkconf Z 0 100] in
  sd_safe (m_props Z Z m) = false /\
  exists m' recs, mol_to_sdf Z Z m None = Ok (m', recs) /\ mol_from_sdf Z Z (fun x => x) (fun p => p) recs None [102] = Raises EOther.
Proof. split; [reflexivity|]. eexists. eexists. split; vm_compute; reflexivity. Qed.
