(* C19 - conformer and SMILES files (work in progress: statements are added as their proofs land). *)
From Coq Require Import QArith.
From E3FP Require Import Base.Prelude Model.Files.
Open Scope Z_scope.

Example ex_fmt4_half_even : fmt4 (1 # 32) = 312 /\ fmt4 (3 # 32) = 938 /\ fmt4 (-(1 # 100000)) = 0.
Proof. vm_compute. repeat split. Qed.
