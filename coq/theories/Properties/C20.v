(* C20 - configuration values round-trip and the three sets of defaults are coherent.
   Statements only; proofs are in Proofs/ConfigCodec.v, Proofs/ConfigRoundtrip.v, Proofs/ConfigDefaults.v.
   Model: Model/Config.v (M9); tables: Gen/Defaults.v (regenerated from the working tree on every run). *)
From Coq Require Import QArith.
From E3FP Require Import Base.Prelude Model.Config Gen.Defaults Proofs.ConfigCodec Proofs.ConfigRoundtrip Proofs.ConfigDefaults.
Open Scope Z_scope.

(* ---- str() then literal_eval, per supported type ------------------------------------------------------------ *)

(* every integer that str() can print (|z| < 10^4300, CPython's conversion limit) reads back as the same integer *)
Theorem print_parse_int : forall z s, py_str (VInt z) = Ok s -> classify s = CInt z.
Proof. exact print_parse_int. Qed.
Print Assumptions print_parse_int.

Theorem print_int_total : forall z, Z.abs z < 10 ^ 4300 -> py_str (VInt z) = Ok (dec_Z z).
Proof. exact py_str_int. Qed.
Print Assumptions print_int_total.

Theorem print_int_beyond_limit : forall z, 10 ^ 4300 <= Z.abs z -> py_str (VInt z) = Raises EValue.
Proof. exact py_str_int_beyond. Qed.
Print Assumptions print_int_beyond_limit.

Example print_parse_int_ex : py_str (VInt (-4294967296)) = Ok "-4294967296"%string /\ classify "-4294967296" = CInt (-4294967296).
Proof. split; reflexivity. Qed.

Theorem print_parse_bool : forall b s, py_str (VBool b) = Ok s -> classify s = CBool b.
Proof. exact print_parse_bool. Qed.
Print Assumptions print_parse_bool.

Theorem print_parse_none : forall s, py_str VNone = Ok s -> classify s = CNone.
Proof. exact print_parse_none. Qed.
Print Assumptions print_parse_none.

(* a float travels as its repr token [-]d+[.d+][e(+|-)d+] (fraction or exponent present): the classifier
   recognises every such token as a float literal and hands the token on unchanged *)
Theorem print_parse_float_token : forall t, ftok_ok t = true -> classify (render_ftok t) = CFloat (render_ftok t).
Proof. exact print_parse_float_token. Qed.
Print Assumptions print_parse_float_token.

Example print_parse_float_token_ex :
  ftok_ok (mkftok true "1" (Some "7976931348623157"%string) (Some (false, "308"%string))) = true /\
  render_ftok (mkftok true "1" (Some "7976931348623157"%string) (Some (false, "308"%string))) = "-1.7976931348623157e+308"%string.
Proof. split; reflexivity. Qed.

(* the tokens of the non-finite floats are not literals: they read back as strings (format-inherent finding) *)
Theorem nonfinite_tokens_are_strings :
  classify "inf" = CStr "inf" /\ classify "-inf" = CStr "-inf" /\ classify "nan" = CStr "nan".
Proof. exact nonfinite_tokens_are_strings. Qed.
Print Assumptions nonfinite_tokens_are_strings.

(* plain words (file names, force-field names ...) stay strings *)
Theorem print_parse_str : forall s, plain_word s = true -> classify s = CStr s.
Proof. exact print_parse_str. Qed.
Print Assumptions print_parse_str.

Example print_parse_str_ex : plain_word "uff" = true /\ plain_word "./conformers/out-1.sdf.bz2" = true /\
  plain_word "None" = false /\ plain_word ".5" = false /\ plain_word "..." = false /\ plain_word "1e5" = false.
Proof. repeat split; reflexivity. Qed.

(* ---- one option through update_params / write / read / get_value(auto) -------------------------------------- *)

(* the line format and the key: a "key = value" line parses back to the lower-cased key and the stripped value *)
Theorem option_line_rt : forall k v, plain_key k = true -> parse_option_line (k ++ " = " ++ v)%string = Some (lower k, strip v).
Proof. exact parse_print_line. Qed.
Print Assumptions option_line_rt.

(* full statement, restricted to exactly the inputs for which it holds: lower-case keys; ints within the
   conversion limit; float tokens that are float literals; booleans; None; strings that the line format keeps
   (no newline, no %, no surrounding blanks) and that are not themselves Python literals *)
Theorem typed_rt_partial : forall k v, key_ok k = true -> rt_exact v = true -> roundtrip k v = Ok (k, cls_of v).
Proof. exact typed_rt_partial. Qed.
Print Assumptions typed_rt_partial.

(* NOTE (trusted, not proved here): a float x is carried as the token repr(x).  This theorem shows that the token
   comes back unchanged and classified as a float literal; that the token denotes x again, float(repr(x)) == x, is
   CPython's shortest-repr guarantee.  It is listed in the check's assumptions and exercised on the implementation by
   a bit-exact comparison of every float read back (harness/props/c20.py, prop stream). *)
Theorem typed_rt_float : forall k t, key_ok k = true -> ftok_ok t = true ->
  roundtrip k (VFloat (render_ftok t)) = Ok (k, CFloat (render_ftok t)).
Proof. exact typed_rt_float. Qed.
Print Assumptions typed_rt_float.

Theorem typed_rt_plain_word : forall k s, key_ok k = true -> plain_word s = true -> roundtrip k (VStr s) = Ok (k, CStr s).
Proof. exact typed_rt_plain_word. Qed.
Print Assumptions typed_rt_plain_word.

Example typed_rt_partial_ex : key_ok "radius_multiplier" = true /\ rt_exact (VFloat "1.718") = true /\
  rt_exact (VStr "hello world") = true /\ rt_exact (VInt (-1)) = true.
Proof. repeat split; reflexivity. Qed.

(* the unrestricted statement is false: (1) for keys with upper-case letters even on exactly-representable values,
   (2) for supported values (here a string that is a literal) even on lower-case keys *)
Theorem typed_rt_refuted :
  (exists k v, plain_key k = true /\ supported v = true /\ rt_exact v = true /\ roundtrip k v <> Ok (k, cls_of v)) /\
  (exists k v, key_ok k = true /\ supported v = true /\ roundtrip k v <> Ok (k, cls_of v)).
Proof. exact typed_rt_refuted. Qed.
Print Assumptions typed_rt_refuted.

Theorem typed_rt_unrestricted_is_false : ~ typed_rt_statement.
Proof. exact typed_rt_false. Qed.
Print Assumptions typed_rt_unrestricted_is_false.

(* one witness per class of loss inherent in the format *)
Theorem typed_rt_witnesses :
  roundtrip "Bits" (VInt 1024) = Ok ("bits"%string, CInt 1024) /\
  roundtrip "out_dir" (VStr "None") = Ok ("out_dir"%string, CNone) /\
  roundtrip "out_dir" (VStr "1e5") = Ok ("out_dir"%string, CFloat "1e5") /\
  roundtrip "out_dir" (VStr " padded ") = Ok ("out_dir"%string, CStr "padded") /\
  roundtrip "rmsd_cutoff" (VFloat "inf") = Ok ("rmsd_cutoff"%string, CStr "inf") /\
  roundtrip "rmsd_cutoff" (VFloat "nan") = Ok ("rmsd_cutoff"%string, CStr "nan") /\
  roundtrip "out_dir" (VStr "50%") = Raises EValue /\
  roundtrip "out_dir" (VStr "%(x)s") = Raises EOther /\
  roundtrip "out_dir" (VStr "a%%b") = Ok ("out_dir"%string, CStr "a%b").
Proof. exact typed_rt_witnesses. Qed.
Print Assumptions typed_rt_witnesses.

(* ---- layering of the defaults file and the user's file (read_params) --------------------------------------- *)

(* an option the user's file gives wins, with or without fill_defaults *)
Theorem layering_spec : forall dt fill ut d u c sec k v,
  parse_file dt = Ok d -> parse_file ut = Ok u -> read_params dt fill (Some ut) = Ok c ->
  cfg_get u sec k = Some v -> cfg_get c sec k = Some v.
Proof. exact layering. Qed.
Print Assumptions layering_spec.

(* an option absent from the user's file: the default's value with fill_defaults, absent without *)
Theorem fallback_spec : forall dt fill ut d u c sec k,
  parse_file dt = Ok d -> parse_file ut = Ok u -> read_params dt fill (Some ut) = Ok c ->
  cfg_get u sec k = None -> cfg_get c sec k = if fill then cfg_get d sec k else None.
Proof. exact fallback. Qed.
Print Assumptions fallback_spec.

Example layering_fallback_ex :
  let ut := ("[fingerprinting]" ++ nl ++ "level = 3" ++ nl)%string in
  exists u c, parse_file ut = Ok u /\ read_params defaults_cfg_text true (Some ut) = Ok c /\
    cfg_get c "fingerprinting" "level" = Some "3"%string /\ cfg_get u "fingerprinting" "bits" = None /\
    cfg_get c "fingerprinting" "bits" = Some "1024"%string.
Proof. vm_compute. eexists. eexists. repeat split; reflexivity. Qed.

(* ---- the three sets of defaults (finite: over Gen/Defaults.v as regenerated on this run) -------------------- *)

(* every option of defaults.cfg, every entry point that takes its options from that section and has a
   parameter / command-line option of that name: the typed default equals the class of the file's value
   (fingerprinting.bits excepted: there the API default is the unfolded length 2^32) *)
Theorem defaults_coherent : forall sec opt raw name secs ps d,
  In (sec, opt, raw) all_options -> In (name, (secs, ps)) entry_points ->
  existsb (String.eqb sec) secs = true -> alookup opt ps = Some d ->
  dval_matches d (expected sec opt raw) = true.
Proof. exact (defaults_coherent_of_check (@eq_refl bool true <: forallb option_coherent all_options = true)). Qed.
Print Assumptions defaults_coherent.

Example defaults_coherent_ex : In ("conformer_generation", "compress", "2")%string all_options /\
  dval_matches (DInt 2) (expected "conformer_generation" "compress" "2") = true /\
  dval_matches (DStr "2") (expected "conformer_generation" "compress" "2") = false /\
  dval_matches (DFloat "-1.0") (expected "conformer_generation" "max_energy_diff" "None") = false /\
  expected "fingerprinting" "bits" "1024" = CInt 4294967296.
Proof. vm_compute. repeat split; try reflexivity. tauto. Qed.

(* the model's parser reads the packaged file exactly as Python's ConfigParser does *)
Theorem defaults_file_parsed : parse_file defaults_cfg_text = Ok defaults_cfg_parsed.
Proof. exact (@eq_refl _ (Ok defaults_cfg_parsed) <: parse_file defaults_cfg_text = Ok defaults_cfg_parsed). Qed.
Print Assumptions defaults_file_parsed.

Theorem defaults_sections : map fst defaults_cfg_parsed = ["preprocessing"; "conformer_generation"; "fingerprinting"]%string.
Proof. exact (@eq_refl _ ["preprocessing"; "conformer_generation"; "fingerprinting"]%string <: map fst defaults_cfg_parsed = ["preprocessing"; "conformer_generation"; "fingerprinting"]%string). Qed.
Print Assumptions defaults_sections.

(* every value of the packaged file is a scalar the classifier decides *)
Theorem defaults_classified : forallb (fun o => scalar_cls (classify (snd o))) all_options = true.
Proof. exact (@eq_refl bool true <: forallb (fun o => scalar_cls (classify (snd o))) all_options = true). Qed.
Print Assumptions defaults_classified.

(* the only documented option that no entry point of its section accepts *)
Theorem defaults_orphans : orphans = [("preprocessing", "protonate")]%string.
Proof. exact (@eq_refl _ [("preprocessing", "protonate")]%string <: orphans = [("preprocessing", "protonate")]%string). Qed.
Print Assumptions defaults_orphans.

(* the interpreter's int<->str digit limit is the one the model uses *)
Theorem int_limit_current : py_int_max_str_digits = max_str_digits.
Proof. exact (@eq_refl Z max_str_digits <: py_int_max_str_digits = max_str_digits). Qed.
Print Assumptions int_limit_current.
