"""Reproductions of the genuine defects found in keiserlab/e3fp (one function per finding).
Usage: PYTHONPATH=/repo/src /venv/bin/python findings/repro.py [name ...]
Each function returns None when the property holds and a string describing the failure otherwise."""
import sys, os, tempfile, warnings
sys.modules['mpi4py'] = None
os.environ.setdefault('NUMBA_CACHE_DIR', tempfile.mkdtemp(prefix='nbc'))
warnings.filterwarnings('ignore')
import numpy as np
from scipy.sparse import csr_matrix
import e3fp.fingerprint.fprint as fp
from e3fp.fingerprint.fprint import Fingerprint, CountFingerprint, FloatFingerprint
from e3fp.fingerprint.db import FingerprintDatabase, concat
from e3fp.fingerprint import metrics
from e3fp.fingerprint.metrics import array_metrics, fprint_metrics

def guard(f):
    try:
        return f()
    except RecursionError as e:
        return 'RecursionError'
    except Exception as e:
        return '%s: %s' % (type(e).__name__, str(e)[:100])

def C09_eq():
    a = Fingerprint([1, 2, 3], bits=16); b = Fingerprint([1, 2, 3, 4], bits=16)
    if not (a == Fingerprint([1, 2, 3], bits=16)): return 'equal fingerprints compare unequal'
    if a == b: return '{1,2,3} == {1,2,3,4} (subset test)'
    if b == a: return 'asym'
def C11_ror():
    a = Fingerprint([1, 2], bits=8); b = Fingerprint([2, 3], bits=8)
    c = a; c |= b
    if list(c.indices) != [1, 2, 3]: return 'ior wrong'
    c = a; c ^= b
    if list(c.indices) != [1, 3]: return 'ixor wrong'
    if list(a.__ror__(b).indices) != [1, 2, 3]: return 'ror wrong'
    if list(a.__rxor__(b).indices) != [1, 3]: return 'rxor wrong'
def C11_count_sub():
    a = CountFingerprint(counts={1: 3, 2: 1}, bits=8); b = CountFingerprint(counts={2: 1, 3: 2}, bits=8)
    c = a - b
    if c.counts != {1: 3, 2: 0, 3: -2}: return 'sub wrong %r' % c.counts
def C11_floordiv():
    a = CountFingerprint(counts={1: 5, 2: 1}, bits=8)
    c = a // 2
    if c.counts != {1: 2}: return 'floordiv counts %r' % c.counts
    v = c.to_vector(sparse=False)
    if list(v) != [0, 2, 0, 0, 0, 0, 0, 0]: return 'vector %r' % list(v)
def C07_fold_unlinked():
    a = Fingerprint([1, 9, 12], bits=16)
    f = a.fold(8, linked=False)
    if list(f.indices) != [1, 4]: return 'wrong'
    if a.folded_fingerprint: return 'linked although linked=False'
def C07_fold_counts_method():
    a = CountFingerprint(counts={1: 3, 9: 4}, bits=16)
    f = a.fold(8, counts_method=max)
    if f.counts != {1: 4}: return 'wrong %r' % f.counts
def C07_fold_method1():
    a = CountFingerprint(counts={1: 3, 2: 4, 9: 1}, bits=16)
    f = a.fold(8, method=1)
    if f.counts != {0: 3, 1: 4, 4: 1}: return 'counts %r indices %r' % (f.counts, list(f.indices))
    b = Fingerprint([1, 2, 9], bits=16).fold(8, method=1)
    if set(b.get_unfolding_index_map().keys()) != {0, 1, 4}: return 'unfold map keys %r' % sorted(b.get_unfolding_index_map().keys())
def C10_file():
    d = tempfile.mkdtemp()
    a = Fingerprint([1, 9, 12], bits=16, level=3, name='x')
    for ext in ('.fp.pkl', '.fp.gz', '.fp.bz2'):
        fn = os.path.join(d, 'a' + ext)
        fp.save(fn, a)
        b = fp.load(fn)
        if list(b.indices) != [1, 9, 12] or b.bits != 16 or b.level != 3 or b.name != 'x': return 'roundtrip differs'
        fp.savez(fn, a, a)
        if len(fp.loadz(fn)) != 2: return 'savez/loadz differs'
def _db(kind=CountFingerprint, bits=16):
    db = FingerprintDatabase(fp_type=kind, level=-1)
    db.add_fingerprints([kind.from_indices([1, 9, 12], bits=bits, name='a'), kind.from_indices([1, 1, 3, 11], bits=bits, name='b')])
    return db
def C07_dbfold_frame():
    db = _db(); before = db.array.toarray().copy()
    f = db.fold(8)
    if not np.array_equal(db.array.toarray(), before): return 'source changed by fold: %r' % db.array.toarray().tolist()
    if f.array.toarray().tolist() != [[0, 2, 0, 0, 1, 0, 0, 0], [0, 2, 0, 2, 0, 0, 0, 0]]: return 'fold rows wrong %r' % f.array.toarray().tolist()
def C05_absent_lookup():
    d1 = _db(); d2 = _db()
    try:
        r = d1['zzz']
        got = 'returned %r' % (r,)
    except KeyError:
        got = 'KeyError'
    if not (d1 == d2): return 'lookup of an absent name changed equality (%s)' % got
    try:
        d1.get_subset(['a', 'zzz'])
        return 'get_subset with absent name did not raise'
    except ValueError:
        pass
    if not (d1 == d2): return 'get_subset of an absent name changed equality'
def C16_add_wrong_bits():
    db = _db(Fingerprint)
    try:
        db.add_fingerprints([Fingerprint([1], bits=32, name='c')])
        return 'accepted wrong bits: shape now %r names %r' % (db.array.shape, db.fp_names)
    except Exception:
        pass
    if db.array.shape != (2, 16) or db.fp_names != ['a', 'b']: return 'state changed after refusal'
def C16_add_wrong_level():
    db = _db(Fingerprint)
    try:
        db.add_fingerprints([Fingerprint([1], bits=16, name='c'), Fingerprint([2], bits=16, level=3, name='d')])
        return 'accepted wrong level at position 1'
    except Exception:
        pass
    if db.array.shape != (2, 16) or db.fp_names != ['a', 'b']: return 'state changed after refusal'
def C16_update_props_partial():
    db = _db(Fingerprint)
    try:
        db.update_props({'p': [1, 2], 'q': [1, 2, 3]})
        return 'accepted'
    except ValueError:
        pass
    if 'p' in db.props: return 'first column kept after the refusal'
def C06_fp_vs_db_level():
    a = Fingerprint([1, 2], bits=16, level=5, name='a')
    db = FingerprintDatabase(fp_type=Fingerprint, level=5); db.add_fingerprints([a])
    r = metrics.tanimoto(a, db)
    if abs(float(np.asarray(r).ravel()[0]) - 1.0) > 1e-12: return 'value %r' % r
def C06_dense_cosine_zero():
    X = np.array([[0, 0, 0, 0], [1, 0, 2, 0]], dtype=float)
    r = array_metrics.cosine(X, X)
    if np.isnan(r).any(): return 'NaN: %r' % r.tolist()
def C06_soergel_empty():
    a = CountFingerprint(counts={}, bits=8); b = CountFingerprint(counts={}, bits=8)
    r = fprint_metrics.soergel(a, b)
    if r != 0: return 'value %r' % r
def C06_sparse_soergel_unsorted():
    X = csr_matrix((np.array([1., 2.]), np.array([3, 1]), np.array([0, 2])), shape=(1, 4))
    Y = csr_matrix((np.array([2., 1.]), np.array([1, 3]), np.array([0, 2])), shape=(1, 4))
    r = array_metrics.soergel(X, Y)
    if abs(r[0, 0] - 1.0) > 1e-12: return 'value %r' % r[0, 0]
def _mol(smi='CC(N)C(=O)O', n=2, seed=7):
    from rdkit import Chem
    from rdkit.Chem import AllChem
    m = Chem.AddHs(Chem.MolFromSmiles(smi)); AllChem.EmbedMultipleConfs(m, n, randomSeed=seed); return m
def C04_same_conf_object():
    from e3fp.fingerprint.fprinter import Fingerprinter
    m = _mol(); conf = m.GetConformer(0)
    f = Fingerprinter(level=5); f.run(conf, m); a = sorted(f.get_fingerprint_at_level().indices)
    f.run(conf, m); b = sorted(f.get_fingerprint_at_level().indices)
    if a != b: return 'second run on the same conformer object gives %d identifiers instead of %d' % (len(b), len(a))
def C02_connected_only():
    from rdkit import Chem
    from e3fp.fingerprint.fprinter import Fingerprinter
    m = _mol('CCO.O', 1)
    f = Fingerprinter(level=3, include_disconnected=False, exclude_floating=False); f.run(0, m)
    f.get_fingerprint_at_level()
def C02_explicit_h_invariants():
    from rdkit import Chem
    from e3fp.fingerprint.fprinter import invariants_from_atom, rdkit_invariants_from_atom
    m = Chem.MolFromSmiles('CCO'); mh = Chem.AddHs(m)
    for i in range(3):
        a, b = list(invariants_from_atom(m.GetAtomWithIdx(i))), list(invariants_from_atom(mh.GetAtomWithIdx(i)))
        if a != b: return 'daylight invariants differ with explicit H: %r vs %r' % (a, b)
        a, b = list(rdkit_invariants_from_atom(m.GetAtomWithIdx(i))), list(rdkit_invariants_from_atom(mh.GetAtomWithIdx(i)))
        if a != b: return 'rdkit invariants differ with explicit H: %r vs %r' % (a, b)
def C13_rmsd_order():
    from rdkit.Chem import AllChem
    from rdkit import Chem
    from e3fp.conformer.generator import ConformerGenerator
    m = Chem.MolFromSmiles('CCCCC(C)CO')
    g = ConformerGenerator(num_conf=8, rmsd_cutoff=0.1, seed=3, get_values=True, sparse_rmsd=False)
    mol, (n, idx, en, rm) = g.generate_conformers(m)
    k = mol.GetNumConformers()
    if k < 3: return None
    ids = [c.GetId() for c in mol.GetConformers()]
    for i in range(k):
        for j in range(i):
            r = AllChem.GetBestRMS(mol, mol, ids[j], ids[i])
            if abs(r - rm[i, j]) > 1e-3: return 'rmsd[%d,%d] reported %.4f measured %.4f (k=%d)' % (i, j, rm[i, j], r, k)
def C13_generator_reuse():
    from rdkit import Chem
    from e3fp.conformer.generator import ConformerGenerator
    g = ConformerGenerator(seed=1)
    g.generate_conformers(Chem.MolFromSmiles('CCO'))
    m2 = Chem.MolFromSmiles('CCCCCCCCCCCC')  # 9 rotatable bonds -> 200 conformers
    want = ConformerGenerator.get_num_conformers(Chem.AddHs(m2))
    got = g.embed_molecule(m2).GetNumConformers()
    if got != want or g.first_conformers != want:
        return 'second molecule embedded with %d conformers (first=%r) instead of %d: options resolved for the first molecule are kept' % (got, g.first_conformers, want)
def C14_smiles_default_leak():
    import inspect
    from e3fp import pipeline
    pipeline.fprints_from_smiles('CCO', 'x', fprint_params={'first': 1, 'level': 1}, confgen_params=inspect.signature(pipeline.fprints_from_smiles).parameters['confgen_params'].default)
    d = inspect.signature(pipeline.fprints_from_smiles).parameters['confgen_params'].default
    if d: return 'default confgen_params is now %r' % d
def C20_compress_default():
    from e3fp.conformer import generate
    if generate.COMPRESS_DEF != 2: return 'COMPRESS_DEF is %r' % (generate.COMPRESS_DEF,)
def C20_max_energy_diff_default():
    from e3fp.conformer import generate, generator
    if generate.MAX_ENERGY_DIFF_DEF != generator.MAX_ENERGY_DIFF_DEF: return 'generate %r vs generator %r' % (generate.MAX_ENERGY_DIFF_DEF, generator.MAX_ENERGY_DIFF_DEF)

if __name__ == '__main__':
    names = sys.argv[1:] or [k for k, v in list(globals().items()) if k[0] == "C" and k[1].isdigit() and callable(v)]
    for n in names:
        r = guard(globals()[n])
        print('%-32s %s' % (n, 'ok' if r is None else 'FAIL ' + r))
