"""Reproductions of the C06 (similarity measures) defects found while building the C06 check.
Usage: PYTHONPATH=/repo/src /venv/bin/python findings/repro_c06.py [name ...]
Each function returns None when the property holds and a string describing the failure otherwise.
The Coq witnesses of the same names are in coq/theories/Properties/C06.v (`*_refuted`)."""
import os
import sys
import tempfile
import warnings

sys.modules['mpi4py'] = None
os.environ.setdefault('NUMBA_CACHE_DIR', tempfile.mkdtemp(prefix='nbc'))
warnings.filterwarnings('ignore')
import numpy as np
from scipy.sparse import csr_matrix
from e3fp.fingerprint.fprint import Fingerprint, CountFingerprint, FloatFingerprint
from e3fp.fingerprint.db import FingerprintDatabase
from e3fp.fingerprint import metrics
from e3fp.fingerprint.metrics import array_metrics, fprint_metrics


def close(a, b):
    return abs(complex(a) - complex(b)) < 1e-9 and not isinstance(a, complex)


def array_tanimoto_dice_nonbinary():
    """array_metrics.tanimoto/dice on raw count data: "bit counts" are sums of counts -> -6.5 and 2.36 instead of the
    values on the binarised rows (2/3 and 0.8) that metrics.tanimoto/dice return for the same data in a database."""
    X = np.array([[2, 0, 3, 0]])
    Y = np.array([[2, 1, 3, 0]])
    out = []
    for name, want in (('tanimoto', 2 / 3), ('dice', 0.8)):
        for conv in (lambda a: a, csr_matrix):
            got = getattr(array_metrics, name)(conv(X), conv(Y))[0, 0]
            if not close(got, want):
                out.append('%s(%s)=%r want %r' % (name, 'csr' if conv is csr_matrix else 'dense', float(got), want))
    db1 = FingerprintDatabase.from_array(csr_matrix(X, dtype=np.uint16), ['x'], fp_type=CountFingerprint)
    db2 = FingerprintDatabase.from_array(csr_matrix(Y, dtype=np.uint16), ['y'], fp_type=CountFingerprint)
    assert close(metrics.tanimoto(db1, db2)[0, 0], 2 / 3)
    return '; '.join(out) or None


def fp_tanimoto_dice_explicit_zero_count():
    """fprint_metrics.tanimoto/dice use `indices`, which for a count fingerprint contains positions whose stored count is
    0 (e.g. every position of a - a): an all-zero fingerprint scores 1.0 against d, and the fingerprint-pair form
    disagrees with the database forms."""
    d = CountFingerprint.from_counts({1: 2, 2: 3}, bits=8)
    z = d - d                                    # counts {1: 0, 2: 0}: an all-zero fingerprint
    out = []
    for name in ('tanimoto', 'dice'):
        got = getattr(metrics, name)(z, d)
        if not close(got, 0.0):
            out.append('%s(all-zero, d)=%r want 0' % (name, got))
        db = FingerprintDatabase(fp_type=CountFingerprint)
        db.add_fingerprints([d])
        via_db = getattr(metrics, name)(z, db)[0, 0]
        if not close(got, via_db):
            out.append('%s: fingerprint pair %r but fingerprint-vs-database %r' % (name, got, float(via_db)))
    return '; '.join(out) or None


def fp_soergel_mixed_kind():
    """fprint_metrics.soergel falls back to Tanimoto unless *both* operands are count fingerprints: bit {1,2} against
    counts {1:2, 2:3} gives 1.0; the definition (and the database forms) give 1 - 3/5 = 0.4."""
    b = Fingerprint.from_indices([1, 2], bits=8)
    c = CountFingerprint.from_counts({1: 2, 2: 3}, bits=8)
    db = FingerprintDatabase(fp_type=CountFingerprint)
    db.add_fingerprints([c])
    got, via_db = metrics.soergel(b, c), metrics.soergel(b, db)[0, 0]
    if not close(got, 0.4) or not close(got, via_db):
        return 'soergel(bit, count)=%r, soergel(bit, db[count])=%r, definition 0.4' % (got, float(via_db))


def sparse_soergel_duplicate_entries():
    """CSR with a repeated column index (valid, non-canonical; toarray() adds the entries): the merge loop treats the two
    entries as different columns.  Row [0,5,0,1] stored as (1,2),(1,3),(3,1) against itself stored canonically."""
    X = csr_matrix((np.array([2., 3., 1.]), np.array([1, 1, 3]), np.array([0, 3])), shape=(1, 4))
    Y = csr_matrix(np.array([[0, 5., 0, 1.]]))
    assert (X.toarray() == Y.toarray()).all()
    got = array_metrics.soergel(X, Y)[0, 0]
    if not close(got, 1.0):
        return 'soergel(row with duplicate entries, same row)=%r want 1.0' % float(got)


def fp_pearson_complex_std():
    """A constant float fingerprint whose value is not exactly representable: the variance computed by std() is a tiny
    negative number, (negative) ** 0.5 is complex in Python 3, and pearson returns a complex number
    (about 1+1e-16j against itself; the array forms return 0.0)."""
    a = FloatFingerprint.from_counts({i: 0.1 for i in range(6)}, bits=6)
    b = FloatFingerprint.from_counts({0: 1.0, 2: 0.5}, bits=6)
    out = []
    for x, y in ((a, b), (a, a)):
        got = metrics.pearson(x, y)
        if isinstance(got, complex):
            out.append('pearson returned the complex number %r' % (got,))
    return '; '.join(out) or None


ALL = [array_tanimoto_dice_nonbinary, fp_tanimoto_dice_explicit_zero_count, fp_soergel_mixed_kind,
       sparse_soergel_duplicate_entries, fp_pearson_complex_std]

if __name__ == '__main__':
    names = sys.argv[1:]
    bad = 0
    for f in ALL:
        if names and f.__name__ not in names:
            continue
        r = f()
        print('%-42s %s' % (f.__name__, 'ok (property holds)' if r is None else 'DEFECT: ' + r))
        bad += r is not None
    sys.exit(1 if bad else 0)
