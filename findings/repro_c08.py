"""Reproductions for C08 (database save/load/text export).  One function per observation; each returns None when the
property holds and a string describing the failure otherwise.
Usage: PYTHONPATH=/repo/src /venv/bin/python findings/repro_c08.py [name ...]"""
import os
import sys
import tempfile
import warnings
sys.modules['mpi4py'] = None
os.environ.setdefault('NUMBA_CACHE_DIR', tempfile.mkdtemp(prefix='nbc'))
warnings.filterwarnings('ignore')
import numpy as np
from scipy.sparse import csr_matrix
from e3fp.fingerprint.fprint import Fingerprint
from e3fp.fingerprint.db import FingerprintDatabase


def C08_none_names_roundtrip():
    """Holds: None / 'None' / duplicate names survive both formats (NumPy 2 builds an object array for a str/None mix)."""
    d = tempfile.mkdtemp()
    names = ['a', None, 'None', 'a', None]
    db = FingerprintDatabase(fp_type=Fingerprint, level=None, name=None)
    db.add_fingerprints([Fingerprint.from_indices([i], bits=8, level=None, name=n) for i, n in enumerate(names)])
    db.savez(os.path.join(d, 'x'))
    db.save(os.path.join(d, 'y'))
    for fn in ('x.fpz', 'y.fps.bz2'):
        r = FingerprintDatabase.load(os.path.join(d, fn))
        if [None if n is None else str(n) for n in r.fp_names] != names:
            return '%s: names %r reload as %r' % (fn, names, r.fp_names)
        if dict(r.fp_names_to_indices) != dict(db.fp_names_to_indices):
            return '%s: index differs' % fn


def C08_fp_name_trailing_nul():
    """Minor defect: savez stores all-str names in a '<U' array, which drops trailing NUL characters."""
    d = tempfile.mkdtemp()
    db = FingerprintDatabase(fp_type=Fingerprint, level=5)
    db.add_fingerprints([Fingerprint.from_indices([1], bits=8, level=5, name='a\x00'), Fingerprint.from_indices([2], bits=8, level=5, name='b')])
    db.savez(os.path.join(d, 'x'))
    r = FingerprintDatabase.load(os.path.join(d, 'x.fpz'))
    if [str(n) for n in r.fp_names] != db.fp_names or not (r == db):
        return "name 'a\\x00' reloads from .fpz as %r; db == reloaded is %s" % (str(r.fp_names[0]), r == db)


def C08_savetxt_unsorted_csr():
    """Outside the property's hypotheses (rows built by add_fingerprints / fold are sorted): a binary database made by
    from_array from a CSR with unsorted or repeated column indices is exported as bit strings of the wrong length."""
    d = tempfile.mkdtemp()
    m = csr_matrix((np.ones(4, dtype=bool), np.array([5, 1, 3, 3]), np.array([0, 2, 4])), shape=(2, 8))
    db = FingerprintDatabase.from_array(m, ['x', 'y'], fp_type=Fingerprint, level=2)
    fn = os.path.join(d, 't.txt')
    db.savetxt(fn, with_names=False)
    lines = open(fn).read().split('\n')[:-1]
    want = ['01000100', '00010000']
    if lines != want:
        return 'rows [5,1] and [3,3] of an 8-bit database are written as %r (expected %r)' % (lines, want)


def C08_savetxt_none_name_partial_file():
    """Outside the property's domain (names requested but one fingerprint unnamed): TypeError after part of the file was written."""
    d = tempfile.mkdtemp()
    db = FingerprintDatabase(fp_type=Fingerprint)
    db.add_fingerprints([Fingerprint.from_indices([1], bits=4, name='q'), Fingerprint.from_indices([2], bits=4)])
    fn = os.path.join(d, 'n.txt')
    try:
        db.savetxt(fn)
    except TypeError as e:
        return 'TypeError(%s) with %r already written' % (e, open(fn).read())


def C09_eq_noncanonical_memory():
    """Belongs to C09 (equality): == on two databases whose CSR is not in canonical form allocates O(bits) scratch memory in
    SciPy (csr_binop_csr_general): MemoryError at 2^32 bits."""
    import resource
    resource.setrlimit(resource.RLIMIT_AS, (4 * 2 ** 30, 4 * 2 ** 30))
    m = csr_matrix((np.array([1, 2], dtype=np.uint16), np.array([7, 3]), np.array([0, 2])), shape=(1, 2 ** 32))
    from e3fp.fingerprint.fprint import CountFingerprint
    a = FingerprintDatabase.from_array(m, ['x'], fp_type=CountFingerprint)
    b = FingerprintDatabase.from_array(m.copy(), ['x'], fp_type=CountFingerprint)
    try:
        if not (a == b):
            return 'equal databases compare unequal'
    except MemoryError as e:
        return 'MemoryError comparing two 1-row databases of 2^32 bits with unsorted column indices'


if __name__ == '__main__':
    todo = sys.argv[1:] or [n for n in sorted(globals()) if n.startswith('C0')]
    for n in todo:
        try:
            r = globals()[n]()
        except Exception as e:  # noqa
            r = '%s: %s' % (type(e).__name__, str(e)[:200])
        print('%-40s %s' % (n, 'holds' if r is None else 'FAILS: ' + r))
