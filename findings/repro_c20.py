"""Reproductions of the C20 findings (configuration round trip, defaults), one function per finding.
Usage: PYTHONPATH=/repo/src /venv/bin/python findings/repro_c20.py [name ...]
Each function returns None when the property holds and a string describing the failure otherwise."""
import sys, os, tempfile, warnings, math
sys.modules['mpi4py'] = None
os.environ.setdefault('NUMBA_CACHE_DIR', tempfile.mkdtemp(prefix='nbc'))
warnings.filterwarnings('ignore')
import logging
logging.disable(logging.CRITICAL)
from e3fp.config import params as P
from e3fp import pipeline


def _roundtrip(section, options):
    """update_params -> write_params -> params_to_sections_dict"""
    d = tempfile.mkdtemp(prefix='c20')
    fn = os.path.join(d, 'p.cfg')
    P.write_params(P.update_params(options, section_name=section), fn)
    return P.params_to_sections_dict(fn)[section]


def guard(f):
    try:
        return f()
    except Exception as e:
        return '%s: %s' % (type(e).__name__, str(e)[:160])


# ---- format-inherent (status: known) --------------------------------------------------------------------------
def C20_str_literal():
    got = _roundtrip('conformer_generation', {'out_dir': 'None', 'forcefield': '1e5'})
    if got != {'out_dir': 'None', 'forcefield': '1e5'}:
        return "string values 'None' / '1e5' read back as %r" % (got,)


def C20_key_case():
    got = _roundtrip('fingerprinting', {'Bits': 1024})
    if 'Bits' not in got:
        return "option 'Bits' read back under the keys %r" % (sorted(got),)


def C20_nonfinite_float():
    got = _roundtrip('conformer_generation', {'rmsd_cutoff': float('inf'), 'max_energy_diff': float('nan')})
    if not (isinstance(got['rmsd_cutoff'], float) and isinstance(got['max_energy_diff'], float)):
        return 'inf / nan read back as %r' % (got,)


def C20_percent_interpolation():
    out = []
    r = guard(lambda: _roundtrip('conformer_generation', {'out_dir': '50%'}))
    if r != {'out_dir': '50%'}:
        out.append("'50%%' -> %r" % (r,))
    r = guard(lambda: _roundtrip('conformer_generation', {'out_dir': '%(x)s'}))
    if r != {'out_dir': '%(x)s'}:
        out.append("'%%(x)s' -> %r" % (r,))
    r = guard(lambda: _roundtrip('conformer_generation', {'out_dir': 'a%%b'}))
    if r != {'out_dir': 'a%%b'}:
        out.append("'a%%%%b' -> %r" % (r,))
    return '; '.join(out) or None


def C20_str_whitespace():
    got = _roundtrip('conformer_generation', {'out_dir': ' padded '})
    if got != {'out_dir': ' padded '}:
        return "' padded ' read back as %r" % (got['out_dir'],)


# ---- defects of the code (repairable) ---------------------------------------------------------------------------
def C20_protonate_unusable():
    """The packaged defaults file documents preprocessing.protonate, which no entry point accepts:
    params_to_dicts(defaults.cfg)[0] cannot be passed to the pipeline's conformer functions."""
    confgen, _ = pipeline.params_to_dicts(P.DEF_PARAM_FILE)
    r = guard(lambda: pipeline.confs_from_smiles('CCO', 'ethanol', confgen_params=confgen).GetNumConformers())
    if not isinstance(r, int):
        return 'confs_from_smiles(confgen_params=params_to_dicts(defaults.cfg)[0]): %s' % r


# ---- repaired (status: fixed: ae6b9fd, c0be3ff, 25a2190, edaa6d4); kept as regression probes ------------------------
def C20_update_params_sections_dict():
    """update_params documents a second calling convention: a dict of sections. It stores the values without
    str() (TypeError for any non-string value) and does not create missing sections (NoSectionError)."""
    out = []
    r = guard(lambda: dict(P.update_params({'fingerprinting': {'level': 4}}, params=P.DEF_PARAM_FILE)['fingerprinting'])['level'])
    if r != '4':
        out.append('typed value: %s' % r)
    r = guard(lambda: dict(P.update_params({'fingerprinting': {'level': '4'}})['fingerprinting'])['level'])
    if r != '4':
        out.append('no params: %s' % r)
    return '; '.join(out) or None


def C20_auto_uncaught_typeerror():
    """get_value(auto=True) catches ValueError and SyntaxError only; literal_eval raises TypeError for
    '{[]:1}' (unhashable key), so one odd string value makes the whole file unreadable."""
    r = guard(lambda: _roundtrip('conformer_generation', {'out_dir': '{[]:1}'}))
    if r != {'out_dir': '{[]:1}'}:
        return "string value '{[]:1}': %s" % (r,)


def C20_compress_default():
    from e3fp.conformer import generate
    if generate.COMPRESS_DEF != 2 or type(generate.COMPRESS_DEF) is not int:
        return 'COMPRESS_DEF = %r' % (generate.COMPRESS_DEF,)


def C20_max_energy_diff_default():
    import inspect
    from e3fp.conformer.generator import ConformerGenerator
    d = inspect.signature(ConformerGenerator.__init__).parameters['max_energy_diff'].default
    if d is not None:
        return 'ConformerGenerator max_energy_diff default = %r, defaults.cfg says None' % (d,)


if __name__ == '__main__':
    names = sys.argv[1:] or [n for n in sorted(globals()) if n.startswith('C20_')]
    for n in names:
        r = guard(globals()[n])
        print('%-36s %s' % (n, 'ok' if r is None else 'FAILS: ' + r))
