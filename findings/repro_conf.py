"""Reproductions for the conformer area (C13 generator, C19 conformer/SMILES files).
Usage: PYTHONPATH=/repo/src /venv/bin/python findings/repro_conf.py [name ...]
Each function returns None when the behaviour is as the property wants and a string describing the deviation otherwise."""
import sys, os, tempfile, shutil, warnings
sys.modules['mpi4py'] = None
warnings.filterwarnings('ignore')
import logging
logging.disable(logging.CRITICAL)
from rdkit import Chem
from rdkit.Chem import AllChem
from e3fp.conformer import util as U
from e3fp.conformer.generator import ConformerGenerator


def _mol(smiles='C[C@H](N)C(=O)OCC', k=4, name='ala'):
    m = Chem.AddHs(Chem.MolFromSmiles(smiles))
    AllChem.EmbedMultipleConfs(m, numConfs=k, randomSeed=7)
    m = Chem.RemoveHs(m)
    m.SetProp('_Name', name)
    return m


def _tmp():
    return tempfile.mkdtemp(prefix='repro_conf_')


def C19_sdf_nonconsecutive_ids_energies():
    """mol_to_sdf looks the energy of a conformer up by conformer *id*, the list is positional: after RemoveConformer(1) the
    second conformer (id 2) is written with the third energy and the last one keeps the previous conformer's value."""
    d = _tmp()
    try:
        m = _mol()
        m.RemoveConformer(1)                                   # ids 0, 2, 3
        U.add_conformer_energies_to_mol(m, [1.0, 3.0, 4.0])    # one energy per conformer, in conformer order
        U.mol_to_sdf(m, os.path.join(d, 'a.sdf'))
        r = U.mol_from_sdf(os.path.join(d, 'a.sdf'))
        got = r.GetProp('_ConfEnergies')
        if got != '1.0000|3.0000|4.0000':
            return 'energies written for conformers with ids [0, 2, 3] and energies 1|3|4 read back as %s' % got
    finally:
        shutil.rmtree(d, ignore_errors=True)


def C19_sdf_nonconsecutive_ids_limit():
    """conf_num is compared with conformer ids (`i >= conf_num`), not with the number written so far."""
    d = _tmp()
    try:
        m = _mol()
        m.RemoveConformer(1)                                   # ids 0, 2, 3
        U.mol_to_sdf(m, os.path.join(d, 'a.sdf'), conf_num=2)
        n = U.mol_from_sdf(os.path.join(d, 'a.sdf')).GetNumConformers()
        if n != 2:
            return 'conf_num=2 on a molecule with 3 conformers (ids 0, 2, 3) wrote %d conformer(s)' % n
    finally:
        shutil.rmtree(d, ignore_errors=True)


def C19_sdf_fewer_energies_than_conformers():
    """(input outside the property's domain: inconsistent molecule) a conformer without an energy is written with the
    previous conformer's `Energy` value because the temporary property is not cleared between conformers."""
    d = _tmp()
    try:
        m = _mol()
        m.SetProp('_ConfEnergies', '1.0000|3.0000')            # 4 conformers, 2 energies
        U.mol_to_sdf(m, os.path.join(d, 'a.sdf'))
        got = U.mol_from_sdf(os.path.join(d, 'a.sdf')).GetProp('_ConfEnergies')
        if got != '1.0000|3.0000':
            return '2 energies for 4 conformers read back as %s' % got
    finally:
        shutil.rmtree(d, ignore_errors=True)


def C19_sdf_own_energy_property_cleared():
    """(outside the stated domain) a molecule that carries its own `Energy` property loses it when written."""
    d = _tmp()
    try:
        m = _mol()
        m.SetProp('Energy', '12.5')
        U.mol_to_sdf(m, os.path.join(d, 'a.sdf'))
        if not m.HasProp('Energy'):
            return "the molecule's own Energy property is gone after mol_to_sdf"
    finally:
        shutil.rmtree(d, ignore_errors=True)


def C19_sdf_name_fallback_unreachable():
    """mol_from_sdf means to name an untitled molecule after the file; RDKit's reader always sets `_Name` (to '') so the
    KeyError branch never runs and the name stays empty."""
    d = _tmp()
    try:
        m = _mol()
        m.ClearProp('_Name')
        U.mol_to_sdf(m, os.path.join(d, 'thename.sdf.gz'))
        got = U.mol_from_sdf(os.path.join(d, 'thename.sdf.gz')).GetProp('_Name')
        if got != 'thename':
            return 'untitled molecule read from thename.sdf.gz is named %r' % got
    finally:
        shutil.rmtree(d, ignore_errors=True)


def C19_sdf_zero_conformers():
    """(outside the domain 1..n conformers) mol_to_sdf on a molecule without conformers raises UnboundLocalError from its
    own log line."""
    d = _tmp()
    try:
        try:
            U.mol_to_sdf(Chem.MolFromSmiles('CCO'), os.path.join(d, 'a.sdf'))
        except UnboundLocalError as e:
            return 'UnboundLocalError: %s' % e
    finally:
        shutil.rmtree(d, ignore_errors=True)


def C13_count_exceeds_num_conf():
    """num_conf is documented as the maximum number of conformers after pruning; an explicit first > num_conf together with
    pool_multiplier > 1 returns up to `first` conformers."""
    m = Chem.MolFromSmiles('CCCCCCO')
    m.SetProp('_Name', 'hexanol')
    g = ConformerGenerator(num_conf=2, first=5, pool_multiplier=4, rmsd_cutoff=0.1, seed=3, get_values=True)
    mol, vals = g.generate_conformers(m)
    if mol.GetNumConformers() > vals[0]:
        return 'num_conf=2 (max_conformers=%d) but %d conformers returned (first=5, pool_multiplier=4)' % (vals[0], mol.GetNumConformers())


def C19_smiles_name_with_nbsp():
    """(outside the premise `good_entry`) str.split() splits at the white space of Unicode too: a name with U+00A0 is cut."""
    d = _tmp()
    try:
        U.dict_to_smiles(os.path.join(d, 't.smi'), {'a\xa0b': 'CCO'})
        got = U.smiles_to_dict(os.path.join(d, 't.smi'))
        if got != {'a\xa0b': 'CCO'}:
            return "table {'a<NBSP>b': 'CCO'} read back as %r" % got
    finally:
        shutil.rmtree(d, ignore_errors=True)


def C19_sdf_title_with_line_feed():
    """(outside the premise `sd_safe`) a name containing a line feed makes every record unreadable: the supplier returns None and
    mol_from_sdf raises AttributeError."""
    d = _tmp()
    try:
        m = _mol(name='a\nb')
        U.mol_to_sdf(m, os.path.join(d, 'a.sdf'))
        try:
            U.mol_from_sdf(os.path.join(d, 'a.sdf'))
        except AttributeError as e:
            return 'AttributeError: %s' % e
    finally:
        shutil.rmtree(d, ignore_errors=True)


def C19_sdf_value_with_blank_line():
    """(outside the premise `sd_safe`) RDKit's writer drops a property whose value contains a blank line (and strips a trailing
    line feed)."""
    d = _tmp()
    try:
        m = _mol()
        m.SetProp('note', 'x\n\ny')
        U.mol_to_sdf(m, os.path.join(d, 'a.sdf'))
        r = U.mol_from_sdf(os.path.join(d, 'a.sdf'))
        if not r.HasProp('note'):
            return "property note='x\\n\\ny' is missing from the molecule read back"
    finally:
        shutil.rmtree(d, ignore_errors=True)


if __name__ == '__main__':
    names = sys.argv[1:] or [n for n in sorted(globals()) if n.startswith('C1')]
    for n in names:
        print('%-45s %s' % (n, globals()[n]() or 'ok'))
