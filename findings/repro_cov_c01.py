"""Observation made by the C01 coverage extension (rigid-motion invariance).
Usage: PYTHONPATH=/repo/src /venv/bin/python findings/repro_cov_c01.py
Each function returns None when the behaviour is as the property words it and a string describing the deviation otherwise.

1. `z_axis_taken_from_an_atom_on_the_y_axis` (suggested key C01:z-from-polar-atom:exactly-collinear; currently TAGGED AND SKIPPED by
   the check as `degenerate`, i.e. treated as outside C01's quantifier "not within round-off of ... quadrant edges").
   pick_z (src/e3fp/fingerprint/fprinter.py:958-1007) chooses the z atom among ALL neighbours other than the y atom: the first one
   whose (0.01 rad bin, bond order) pair is unique.  When the neighbours near the equator come in pairs with equal keys (two
   equivalent substituents, the four equatorial ligands of a square plane / octahedron ...) the only unique candidate can be the
   neighbour ANTI-PARALLEL (or parallel) to y - an atom on the y axis itself.  z = project_to_plane(that atom, y) is then the zero
   vector in exact arithmetic; in floating point it is exactly 0 in an axis-aligned pose and a 1e-16-long vector of arbitrary direction in
   any other pose, and the quadrant codes (2..5) of all the remaining neighbours are read off that noise.  So an IDEALISED geometry
   (exact 180 degree angle: 2-D layouts, built / symmetrised structures, exact square-planar or octahedral centres with one odd
   axial pair such as SF5Cl, trans-MA2B2) gets a different fingerprint in every pose.  A force-field or ETKDG geometry (180 degrees
   only to ~1e-3 rad) is unaffected: z is tiny but well defined to 13 digits and rotates with the molecule.
   The model (Model/Stereo.v) gives such neighbours quadrant 2 (a = b = 0); the implementation gives 3 in an axis-aligned pose.
   Exactly where all quadrant edges meet, hence classified as excluded; a robust repair would be to leave atoms inside the polar
   cone out of the z candidates in pick_z (they can never define a direction about y), e.g.
       cand = ~pole_mask & mask        # in stereo_indicators_from_shell, before calling pick_z
   at the price of changing published identifiers of shells whose only unique candidate is polar."""
import sys, os, tempfile, warnings
sys.modules['mpi4py'] = None
os.environ.setdefault('NUMBA_CACHE_DIR', tempfile.mkdtemp(prefix='nbc'))
warnings.filterwarnings('ignore')
import logging
logging.disable(logging.CRITICAL)
import numpy as np


def z_axis_taken_from_an_atom_on_the_y_axis():
    from rdkit import Chem
    from rdkit.Geometry import Point3D
    from e3fp.fingerprint.fprinter import Fingerprinter
    m = Chem.MolFromSmiles('FC(Cl)(Br)Br')            # atoms: F0 C1 Cl2 Br3 Br4 ; idealised planar cross, F-C-Cl exactly collinear
    xyz = {0: (0.0, -1.5, 0.0), 1: (0.0, 0.0, 0.0), 2: (0.0, 1.5, 0.0), 3: (1.5, 0.0, 0.0), 4: (-1.5, 0.0, 0.25)}
    conf = Chem.Conformer(m.GetNumAtoms())
    for i, p in xyz.items():
        conf.SetAtomPosition(i, Point3D(*p))
    m.AddConformer(conf, assignId=True)

    def fp(mol):
        f = Fingerprinter(level=2, radius_multiplier=2.0, stereo=True)
        f.run(0, mol)
        return sorted(int(i) for i in f.get_fingerprint_at_level().indices)
    base = fp(m)
    rng = np.random.RandomState(3)
    seen = {tuple(base)}
    for _ in range(12):
        q, r = np.linalg.qr(rng.normal(size=(3, 3)))
        q = q * np.sign(np.diag(r))
        if np.linalg.det(q) < 0:
            q[:, 0] = -q[:, 0]
        t = rng.uniform(-5, 5, size=3)
        m2 = Chem.Mol(m)
        c2 = m2.GetConformer(0)
        for i, p in xyz.items():
            c2.SetAtomPosition(i, Point3D(*(q.dot(np.array(p)) + t)))
        seen.add(tuple(fp(m2)))
    if len(seen) > 1:
        return ('%d different fingerprints for one rigid geometry (12 proper motions of an idealised F-C-Cl collinear centre with two Br at '
                'equal angles from the axis): the z axis is the projection of the atom lying ON the y axis' % len(seen))
    return None


if __name__ == '__main__':
    for fn in (z_axis_taken_from_an_atom_on_the_y_axis,):
        r = fn()
        print('%s: %s' % (fn.__name__, 'as stated' if r is None else 'DEVIATION: ' + r))
