"""Reproductions of defects found by the C02 coverage extension (one function per finding).
Usage: PYTHONPATH=/repo/src /venv/bin/python findings/repro_cov_c02.py [name ...]
Each function returns None when the property holds and a string describing the failure otherwise."""
import sys, os, tempfile, warnings, logging
sys.modules['mpi4py'] = None
os.environ.setdefault('NUMBA_CACHE_DIR', tempfile.mkdtemp(prefix='nbc'))
warnings.filterwarnings('ignore')
logging.disable(logging.CRITICAL)
import numpy as np
from rdkit import Chem
from rdkit.Chem import AllChem
from e3fp.fingerprint.fprinter import Fingerprinter


def _mol(smiles='CCN(CC)CC', nconf=3, ids=None):
    m = Chem.AddHs(Chem.MolFromSmiles(smiles))
    AllChem.EmbedMultipleConfs(m, nconf, randomSeed=3)
    if ids:
        for conf, i in zip(list(m.GetConformers()), ids):
            conf.SetId(i)
    return m


def _ids(f, **kw):
    return sorted(int(i) for i in f.get_fingerprint_at_level(**kw).indices)


def _run(m, *a, **kw):
    f = Fingerprinter(level=3)
    f.run(*a, **kw)
    return _ids(f)


def C02_run_numpy_int_conformer_id_silently_first_conformer():
    """finding key  C02:run-numpy-int-conf-id:silently-first-conformer

    Fingerprinter.run(conf, mol) resolves an id with mol.GetConformer(conf) and treats TypeError as "conf isn't ID either. Fall back
    to first".  RDKit's Boost signature rejects NumPy integers with ArgumentError (a TypeError), so run(np.int64(1), mol) - ids taken
    from np.arange / argsort of energies - SILENTLY fingerprints conformer 0: the identifiers returned for conformer 1 are those of
    another conformer.  When no conformer has id 0 the same call raises ValueError('Bad Conformer Id')."""
    m = _mol()
    want = {i: _run(m, i, m) for i in (0, 1, 2)}
    out = []
    for mk in (np.int64, np.int32, np.intp):
        got = _run(m, mk(1), m)
        if got != want[1]:
            out.append('run(%s(1), mol) gives %s' % (mk.__name__, 'the identifiers of conformer 0' if got == want[0] else 'other identifiers'))
    g = _mol(ids=[5, 2, 9])
    try:
        if _run(g, np.int64(2), g) != _run(g, 2, g):
            out.append('ids 5,2,9: run(np.int64(2), mol) differs from run(2, mol)')
    except Exception as e:  # noqa
        out.append('ids 5,2,9: run(np.int64(2), mol) raises %s: %s' % (type(e).__name__, e))
    return '; '.join(out) or None


def C02_run_int_conformer_id_on_held_molecule():
    """finding key  C02:run-int-conf-reusing-mol

    run(conf) with mol=None: "conf : RDKit Conformer or int ... Input conformer or conformer in `mol`"; the code comments the branch
    "conf is int ID; use existing mol" - but only `mol` is taken from the object, the id is never resolved:
    AttributeError: 'int' object has no attribute 'GetAtomPosition'."""
    m = _mol()
    f = Fingerprinter(level=3)
    f.run(0, m)
    try:
        f.run(1)
        got = _ids(f)
    except Exception as e:  # noqa
        return 'run(0, mol); run(1) raises %s: %s' % (type(e).__name__, e)
    return None if got == _run(m, 1, m) else 'run(0, mol); run(1) gives other identifiers than run(1, mol)'


def C02_run_without_conformer_first_id_not_zero():
    """finding key  C02:run-without-conf:first-conformer-id-not-0

    run(mol=mol): "If `conf` not specified, first conformer is used" - the fallback asks for the conformer with ID 0
    (mol.GetConformer(0)), which need not exist (conformers kept after pruning, ids 5, 2, 9): ValueError: Bad Conformer Id."""
    g = _mol(ids=[5, 2, 9])
    try:
        got = _run(g, mol=g)
    except Exception as e:  # noqa
        return 'run(mol=mol) on conformer ids 5,2,9 raises %s: %s' % (type(e).__name__, e)
    return None if got == _run(g, 5, g) else 'run(mol=mol) does not fingerprint the first conformer (id 5)'


def C02_atom_mask_single_int():
    """finding key  C02:atom-mask-single-int

    get_shells_at_level / get_fingerprint_at_level document "atom_mask : int or set of int" and contain the conversion
    `except TypeError: atom_mask = {atom_mask}` - but `len(atom_mask)` is evaluated first: TypeError: object of type 'int' has no len()."""
    m = _mol('CCO', 1)
    f = Fingerprinter(level=3)
    f.run(0, m)
    out = []
    for name, a in (('1', 1), ('np.int64(1)', np.int64(1))):
        try:
            if _ids(f, atom_mask=a) != _ids(f, atom_mask={1}):
                out.append('atom_mask=%s differs from atom_mask={1}' % name)
            if len(f.get_shells_at_level(atom_mask=a)) != len(f.get_shells_at_level(atom_mask={1})):
                out.append('get_shells_at_level(atom_mask=%s) differs from atom_mask={1}' % name)
        except Exception as e:  # noqa
            out.append('atom_mask=%s raises %s: %s' % (name, type(e).__name__, e))
    return '; '.join(out) or None


if __name__ == '__main__':
    names = sys.argv[1:] or [n for n in sorted(globals()) if n.startswith('C02_')]
    bad = 0
    for n in names:
        r = globals()[n]()
        print('%s: %s' % (n, 'holds' if r is None else 'FAILS - ' + r))
        bad += r is not None
    sys.exit(1 if bad else 0)
