"""Observations made during the C03 coverage audit (2026-10-01, /repo HEAD 1bb6050).  None of them is a violation of C03 as stated
(the fingerprint of a given (molecule, conformer) does not depend on atom numbering or conformer storage order): they concern how
Fingerprinter.run / get_shells_at_level interpret their ARGUMENTS.  They are recorded here because the audit's input classes
(NumPy integers, keyword calls, documented argument forms) hit them.  Run:  PYTHONPATH=/repo/src python findings/repro_cov_c03.py

 (1 and 2 were found independently by the C04 audit: findings/repro_cov_c04.py numpy_conformer_id / id_without_molecule; 3 is new.)

 1. run(np.int64(i), mol) silently fingerprints conformer 0: RDKit's GetConformer rejects a NumPy integer with a Boost
    ArgumentError (a TypeError), and run() answers every TypeError with "fall back to first".  `for i in np.arange(n): f.run(i, mol)`
    therefore yields n copies of the first conformer's fingerprint.  A Python int is looked up by id as documented.
 2. run(conf=<int>) with mol=None is documented ("conf is int ID; use existing mol") but the id is never resolved to a Conformer:
    AttributeError: 'int' object has no attribute 'GetAtomPosition'.
 3. get_shells_at_level / get_fingerprint_at_level document `atom_mask : int or set of int`; a bare int raises TypeError from
    len(atom_mask) before the `except TypeError` that was meant to wrap it is reached.

Proposed minimal repairs (not applied):
   fprinter.py run():            resolve ids with operator.index() and only fall back when `conf` is None:
        if mol is None:
            try: mol = conf.GetOwningMol()
            except AttributeError: mol = self.mol
   -    else:
   -        if not isinstance(conf, Chem.Conformer):
   -            try: conf = mol.GetConformer(conf)
   -            except TypeError: conf = mol.GetConformer(0)
   +    if not isinstance(conf, Chem.Conformer):
   +        conf = mol.GetConformer(0) if conf is None else mol.GetConformer(operator.index(conf))
   fprinter.py get_shells_at_level():   normalise the mask first:
   +        if isinstance(atom_mask, (int, np.integer)): atom_mask = {int(atom_mask)}
"""
import sys
import types

sys.modules.setdefault('mpi4py', None)


def _mol():
    from rdkit import Chem
    from rdkit.Chem import AllChem
    m = Chem.AddHs(Chem.MolFromSmiles('CC(C)Cc1ccc(cc1)C(C)C(=O)O'))
    AllChem.EmbedMultipleConfs(m, 3, randomSeed=11)
    return m


def _ids(f):
    return sorted(int(s.identifier) for s in f.level_shells[f.current_level])


def repro_numpy_conformer_id_falls_back_to_first():
    import numpy as np
    from e3fp.fingerprint.fprinter import Fingerprinter
    m = _mol()
    want = []
    for i in range(3):
        f = Fingerprinter(level=3)
        f.run(i, m)
        want.append(_ids(f))
    got = []
    for i in np.arange(3):
        f = Fingerprinter(level=3)
        f.run(i, m)
        got.append((int(f.conf.GetId()), _ids(f)))
    print('1. conformer ids actually fingerprinted for np.arange(3):', [g[0] for g in got])
    return [g[1] for g in got] != want          # True = defect present


def repro_int_id_without_mol_crashes():
    from e3fp.fingerprint.fprinter import Fingerprinter
    m = _mol()
    f = Fingerprinter(level=3)
    f.run(0, m)
    try:
        f.run(conf=1)
        print('2. run(conf=1) on the existing molecule: ok, conformer', f.conf.GetId())
        return False
    except AttributeError as e:
        print('2. run(conf=1) on the existing molecule raises AttributeError:', e)
        return True


def repro_int_atom_mask_raises():
    from e3fp.fingerprint.fprinter import Fingerprinter
    m = _mol()
    f = Fingerprinter(level=3)
    f.run(0, m)
    try:
        f.get_fingerprint_at_level(atom_mask=0)
        print('3. atom_mask=0 accepted')
        return False
    except TypeError as e:
        print('3. atom_mask=0 (documented form) raises TypeError:', e)
        return True


if __name__ == '__main__':
    res = [repro_numpy_conformer_id_falls_back_to_first(), repro_int_id_without_mol_crashes(), repro_int_atom_mask_raises()]
    print('defects present:', res)
