"""Observations of the C04 coverage audit on the unchanged tree (HEAD 1bb6050), one function per trigger.
Usage: PYTHONPATH=/repo/src /venv/bin/python findings/repro_cov_c04.py [name ...]
Each function returns None when the behaviour is as documented and a string describing what happens otherwise.

None of these makes C04 AS STATED fail: the property quantifies over sequences of run() calls and queries, hash seeds and
schedules, and on all of those the extended check finds the result to be a function of (molecule, conformer, options).  They
are what the new call forms showed when the arguments of Fingerprinter.run() were varied:

 reset_then_same_molecule    f.run(c, m); f.reset(); f.run(c, m)  raises TypeError ('NoneType' object is not iterable): reset() /
                             reset_mol() clear the molecule-level tables but keep self.mol, so the next run() on the SAME molecule
                             object takes the `mol is self.mol` fast path and never rebuilds them.  A fresh Fingerprinter returns
                             a fingerprint for the same arguments: history dependence, through a public method that is not a run()
                             call (outside the quantifier of C04; inside its first clause if reset() counts as "processed before").
 numpy_conformer_id          f.run(np.int64(1), m) fingerprints conformer 0: RDKit's GetConformer rejects NumPy integers with a
                             TypeError, which run() takes for "conf isn't an id" and silently falls back to conformer 0.
 id_without_molecule         f.run(1) after f.run(0, m) (documented: "conf is int ID; use existing mol") always raises
                             AttributeError: the id is never turned into a conformer on that path.
 first_conformer             f.run(mol=m) is documented to use the FIRST conformer; it asks for conformer ID 0 and raises
                             ValueError for a molecule whose conformer ids do not start at 0.

Proposed minimal patch (fprinter.py), not applied:

    def run(self, conf=None, mol=None):
        if mol is None:
            try:
                mol = conf.GetOwningMol()
            except AttributeError:
                mol = self.mol
        if not isinstance(conf, Chem.Conformer):
            if conf is None:
                conf = mol.GetConformers()[0]          # the first conformer, whatever its id
            else:
                conf = mol.GetConformer(int(conf))     # Python and NumPy integers alike; a bad id raises
        ...
    def reset_mol(self):
        self.mol = None                                # so that the next run() re-initialises even for the same object
        ...
"""
import sys, os, tempfile, warnings
sys.modules['mpi4py'] = None
os.environ.setdefault('NUMBA_CACHE_DIR', tempfile.mkdtemp(prefix='nbc'))
warnings.filterwarnings('ignore')
import logging
logging.disable(logging.CRITICAL)
import numpy as np
from rdkit import Chem
from rdkit.Chem import AllChem
from e3fp.fingerprint.fprinter import Fingerprinter


def _mol(nconf=3):
    m = Chem.AddHs(Chem.MolFromSmiles('CC(N)C(=O)O'))
    AllChem.EmbedMultipleConfs(m, nconf, randomSeed=5)
    return m


def _ids(f):
    return {int(l): sorted(int(s.identifier) for s in shells) for l, shells in f.level_shells.items()}


def _fresh(m, cid):
    f = Fingerprinter(level=3)
    f.run(cid, m)
    return _ids(f)


def reset_then_same_molecule():
    m = _mol()
    f = Fingerprinter(level=3)
    f.run(1, m)
    f.reset()
    try:
        f.run(1, m)
    except Exception as e:  # noqa
        return 'run(1, m) after reset() on the same molecule object raises %s: %s (a fresh Fingerprinter returns a fingerprint)' % (type(e).__name__, e)
    return None if _ids(f) == _fresh(m, 1) else 'run after reset() differs from a fresh Fingerprinter'


def numpy_conformer_id():
    m = _mol()
    f = Fingerprinter(level=3)
    f.run(np.int64(1), m)
    got = _ids(f)
    if got == _fresh(m, 1):
        return None
    return 'run(np.int64(1), m) did not fingerprint conformer 1' + (' but conformer 0' if got == _fresh(m, 0) else '')


def id_without_molecule():
    m = _mol()
    f = Fingerprinter(level=3)
    f.run(0, m)
    try:
        f.run(1)
    except Exception as e:  # noqa
        return 'run(1) with the molecule of the previous run raises %s: %s' % (type(e).__name__, e)
    return None if _ids(f) == _fresh(m, 1) else 'run(1) differs from run(1, m) on a fresh Fingerprinter'


def first_conformer():
    m = _mol()
    for j, c in enumerate(list(m.GetConformers())):
        c.SetId(3 + 4 * j)
    f = Fingerprinter(level=3)
    try:
        f.run(mol=m)
    except Exception as e:  # noqa
        return 'run(mol=m) on a molecule whose conformer ids are 3, 7, 11 raises %s: %s (documented: first conformer is used)' % (type(e).__name__, e)
    return None if _ids(f) == _fresh(m, 3) else 'run(mol=m) did not fingerprint the first conformer'


ALL = [reset_then_same_molecule, numpy_conformer_id, id_without_molecule, first_conformer]

if __name__ == '__main__':
    want = sys.argv[1:]
    bad = 0
    for fn in ALL:
        if want and fn.__name__ not in want:
            continue
        r = fn()
        print('%-28s %s' % (fn.__name__, 'as documented' if r is None else 'OBSERVED: ' + r))
        bad += r is not None
    sys.exit(1 if bad else 0)
