"""Reproductions of C06 defects found by the coverage extension of the C06 generators (harness/props/c06_cov.py).
Usage: PYTHONPATH=/repo/src /venv/bin/python findings/repro_cov_c06.py [name ...]
Each function returns None when the property holds and a string describing the failure otherwise."""
import os
import sys
import tempfile
import warnings

sys.modules['mpi4py'] = None
os.environ.setdefault('NUMBA_CACHE_DIR', tempfile.mkdtemp(prefix='nbc'))
warnings.filterwarnings('ignore')
import math
import numpy as np
from e3fp.fingerprint.fprint import Fingerprint, CountFingerprint, FloatFingerprint
from e3fp.fingerprint.db import FingerprintDatabase
from e3fp.fingerprint import metrics
from e3fp.fingerprint.metrics import fprint_metrics


def fp_pearson_numpy_int_bits_nan():
    """fprint_metrics.pearson relies on ZeroDivisionError to score 0 when an operand has zero variance (empty or constant
    fingerprint).  `bits` is stored as given; when it is a NumPy integer (bits=np.int64(1024), or fp.fold(b) with b taken
    from an array such as 2 ** np.arange(5, 11)) mean()/std() return numpy.float64 and the division 0/0 yields NaN with a
    RuntimeWarning (x/0: inf) instead of raising, so an all-zero fingerprint scores NaN.  The database / array forms of the
    same fingerprints return 0.0, and so does the pair form when bits is a Python int.
    Minimal repair (fprint_metrics.pearson): divide Python floats, i.e.
        return float(dot / fp1.bits - fp1.mean() * fp2.mean()) / float(fp1.std() * fp2.std())
    (or store `int(bits)` in the Fingerprint.bits setter)."""
    out = []
    for C in (Fingerprint, CountFingerprint, FloatFingerprint):
        empty = C.from_indices([], bits=np.int64(16))
        other = C.from_indices([1, 5, 7], bits=16)
        for label, call in (('pearson(empty, other)', lambda: metrics.pearson(empty, other)),
                            ('pearson(other, empty)', lambda: metrics.pearson(other, empty)),
                            ('pearson(empty)', lambda: metrics.pearson(empty)),
                            ('fprint_metrics.pearson(empty, empty)', lambda: fprint_metrics.pearson(empty, empty))):
            v = call()
            if isinstance(v, complex) or math.isnan(v) or v != 0.0:
                out.append('%s %s = %r (bits is numpy.int64), want 0.0' % (C.__name__, label, v))
        # the same fingerprints with a Python int length, and the database form, score 0.0
        empty_py = C.from_indices([], bits=16)
        assert metrics.pearson(empty_py, other) == 0.0
        db = FingerprintDatabase(fp_type=C, level=-1)
        db.add_fingerprints([other])
        assert metrics.pearson(empty, db)[0, 0] == 0.0
    # reached without writing a NumPy scalar explicitly: folding to lengths taken from an array
    fp = Fingerprint.from_indices([], bits=1024)
    for b in 2 ** np.arange(5, 7):
        v = metrics.pearson(fp.fold(b), fp.fold(b))
        if math.isnan(v):
            out.append('pearson of an empty fingerprint folded to bits=%r (element of 2 ** np.arange(5, 7)) = nan' % b)
    return '; '.join(out) or None


def note_dense_pearson_one_row_vs_zero_rows():
    """Observation outside the property's domain (not an alarm; the generator skips and counts it): array_metrics.pearson on
    dense input with ONE row in X and NO row in Y raises IndexError ('invalid index to scalar variable': np.corrcoef of a
    single variable is 0-d), while tanimoto/dice/cosine/soergel and the CSR form of pearson return an empty (1, 0) matrix.
    Likewise pearson(dense with no rows, Y with k rows) has shape (0, 0) instead of (0, k)."""
    from e3fp.fingerprint.metrics import array_metrics
    from scipy.sparse import csr_matrix
    X, Y = np.ones((1, 4)), np.zeros((0, 4))
    assert array_metrics.soergel(X, Y).shape == (1, 0) and array_metrics.pearson(csr_matrix(X), csr_matrix(Y)).shape == (1, 0)
    try:
        array_metrics.pearson(X, Y)
    except IndexError as e:
        return 'array_metrics.pearson(dense 1 x 4, dense 0 x 4) raises IndexError: %s' % e
    return None


ALL = [fp_pearson_numpy_int_bits_nan]
NOTES = [note_dense_pearson_one_row_vs_zero_rows]

if __name__ == '__main__':
    names = sys.argv[1:]
    bad = 0
    for f in NOTES:
        if f.__name__ in names:
            print('%s (observation, not an alarm): %s' % (f.__name__, f()))
    for f in ALL:
        if names and f.__name__ not in names:
            continue
        r = f()
        print('%s: %s' % (f.__name__, 'holds' if r is None else 'FAILS: ' + r))
        bad += r is not None
    sys.exit(1 if bad else 0)
