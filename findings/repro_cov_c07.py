"""Reproductions of defects found by the C07 coverage extension (one function per finding).
Usage: PYTHONPATH=/repo/src /venv/bin/python findings/repro_cov_c07.py [name ...]
Each function returns None when the property holds and a string describing the failure otherwise."""
import sys, os, tempfile, warnings
sys.modules['mpi4py'] = None
os.environ.setdefault('NUMBA_CACHE_DIR', tempfile.mkdtemp(prefix='nbc'))
warnings.filterwarnings('ignore')
from e3fp.fingerprint.fprint import Fingerprint, CountFingerprint, FloatFingerprint


def C07_fold_of_copy_of_folded_fingerprint():
    """finding key  fold:copy-of-folded-fingerprint

    Fingerprint.from_fingerprint / CountFingerprint.from_fingerprint copy the argument's `folded_fingerprint` cache: every
    cached fold result is itself copied with from_fingerprint, which copies neither its unfolding index map nor its link to
    the parent.  Folding the COPY to a (bits, method) the original had been folded to is then served from that cache:
      * CountFingerprint / FloatFingerprint: CountFingerprint.fold walks `fp.index_to_unfolded_index_dict.items()` of the
        cached entry, which is None  ->  AttributeError.  Scalar arithmetic starts from from_fingerprint, so
        `(a * 2).fold(b)`, `(a // 2).fold(b)` fail the same way after `a.fold(b)`; `(a / 2).fold(b)` fails with
        AssertionError (the copied cache entry of the FloatFingerprint is a CountFingerprint).
      * Fingerprint: the fold returns a fingerprint with get_unfolding_index_map() None and unfold() None although
        linked=True - "records which original positions map to each folded position" does not hold.
    Folding the copy to any other length works, and so does folding a copy of a fingerprint that was never folded."""
    out = []
    for cls in (CountFingerprint, FloatFingerprint):
        a = cls.from_counts({1: 2, 9: 3, 4: 7}, bits=16, level=3)
        a.fold(8)
        for what, mk in (('from_fingerprint(a)', lambda: cls.from_fingerprint(a)), ('a * 2', lambda: a * 2), ('a / 2', lambda: a / 2)) + \
                ((('a // 2', lambda: a // 2),) if cls is CountFingerprint else ()):
            b = mk()
            try:
                f = b.fold(8)
                want = type(b).from_counts(dict(b.counts), bits=16, level=3).fold(8)
                if dict(f.counts) != dict(want.counts) or f.get_unfolding_index_map() is None:
                    out.append('%s: (%s).fold(8) after a.fold(8) = %r, a fresh equal fingerprint folds to %r' % (cls.__name__, what, f.counts, want.counts))
            except Exception as e:  # noqa
                out.append('%s: (%s).fold(8) after a.fold(8) raises %s: %s' % (cls.__name__, what, type(e).__name__, e))
    a = Fingerprint.from_indices([1, 9, 4], bits=16, level=3)
    a.fold(8)
    b = Fingerprint.from_fingerprint(a)
    f = b.fold(8)
    if f.get_unfolding_index_map() is None or f.unfold() is not b:
        out.append('Fingerprint: from_fingerprint(a).fold(8) after a.fold(8): unfolding index map %r, unfold() is the copy: %s'
                   % (f.get_unfolding_index_map(), f.unfold() is b))
    return '; '.join(out) or None


if __name__ == '__main__':
    names = sys.argv[1:] or [n for n in sorted(globals()) if n.startswith('C07_')]
    bad = 0
    for n in names:
        r = globals()[n]()
        print('%s: %s' % (n, 'holds' if r is None else 'FAILS - ' + r))
        bad += r is not None
    sys.exit(1 if bad else 0)
