"""Reproductions found by the C10 coverage extension (representations round-trip).
Usage: PYTHONPATH=/repo/src /venv/bin/python findings/repro_cov_c10.py [name ...]
Each function returns None when the behaviour is as the property words it and a string describing the deviation otherwise.

1. `rdkit_round_trip_fails_for_numpy_integer_bits` (finding_key rt:rdkit:numpy-integer-bits).  `to_rdkit`
   (src/e3fp/fingerprint/fprint.py:534-537) hands `min(self.bits, 2 ** 31 - 1)` to the RDKit constructor.  When `bits` was
   given as a numpy integer (np.int64(1024), 2 ** np.int64(10), arr.max() + 1 ...) that is a numpy scalar and Boost.Python
   refuses it (`ArgumentError: ExplicitBitVect.__init__(ExplicitBitVect, numpy.int64)`).  Every other representation of the
   same fingerprint (index array, dense / CSR vector, bit string, pickle, file) round-trips, and the VALUE of bits is inside
   the quantifier "bits from 1 to 2^32"; only the RDKit conversion is sensitive to the integer TYPE.
   Minimal repair: `bits = int(min(self.bits, 2 ** 31 - 1))` in to_rdkit (or `self._bits = int(bits)` in the bits setter).

2. `file_objects_are_refused` (observation, no finding key: outside the property's "file extension" quantifier).  The
   docstrings of save / savez / load / loadz promise "f : str or File - filename or file-like object", but `_save` / `_load`
   pass `f` to `smart_open.open`, and smart_open >= 2 (8.0.1 here) raises `TypeError: don't know how to handle uri` for every
   file object (open(...,'wb'), io.BytesIO, gzip.open(...)).  Paths (str, pathlib.Path) work for every extension."""
import sys, os, io, tempfile, warnings
sys.modules['mpi4py'] = None
os.environ.setdefault('NUMBA_CACHE_DIR', tempfile.mkdtemp(prefix='nbc'))
warnings.filterwarnings('ignore')
import numpy as np
import e3fp.fingerprint.fprint as fp
from e3fp.fingerprint.fprint import Fingerprint, CountFingerprint, FloatFingerprint


def guard(f):
    try:
        return f()
    except Exception as e:
        return 'unexpected %s: %s' % (type(e).__name__, str(e)[:100])


def rdkit_round_trip_fails_for_numpy_integer_bits():
    out = []
    for cls in (Fingerprint, CountFingerprint, FloatFingerprint):
        for bits in (np.int64(1024), np.int32(16), np.uint32(8), 2 ** np.int64(10)):
            a = cls.from_indices([1, 5], bits=bits, level=2)
            # the other representations are fine
            assert cls.from_vector(a.to_vector(sparse=True), level=2) == a
            assert cls.from_vector(a.to_vector(sparse=False), level=2) == a
            assert cls.from_bitstring(a.to_bitstring(), level=2) == a
            try:
                b = cls.from_rdkit(a.to_rdkit(), level=2)
                if not (b == a):
                    out.append('%s bits=%r: RDKit round trip gives %r' % (cls.__name__, bits, b))
            except Exception as e:
                out.append('%s bits=%s(%d): to_rdkit raises %s' % (cls.__name__, type(bits).__name__, int(bits), type(e).__name__))
    return '; '.join(out[:4]) + (' ... (%d cases)' % len(out) if len(out) > 4 else '') if out else None


def file_objects_are_refused():
    a = CountFingerprint.from_counts({1: 2, 5: 7}, bits=16, level=2, name='x')
    d = tempfile.mkdtemp(prefix='c10cov')
    out = []
    path = os.path.join(d, 'a.fp.pkl')
    try:
        with open(path, 'wb') as fh:
            fp.save(fh, a)
    except TypeError as e:
        out.append('save(open(path, "wb"), fp): TypeError %s' % str(e)[:60])
    try:
        fp.save(io.BytesIO(), a)
    except TypeError as e:
        out.append('save(io.BytesIO(), fp): TypeError')
    fp.save(path, a)
    try:
        with open(path, 'rb') as fh:
            fp.load(fh)
    except TypeError as e:
        out.append('load(open(path, "rb")): TypeError')
    return '; '.join(out) or None


ALL = [rdkit_round_trip_fails_for_numpy_integer_bits, file_objects_are_refused]

if __name__ == '__main__':
    names = sys.argv[1:]
    for f in ALL:
        if names and f.__name__ not in names:
            continue
        print('%-52s %s' % (f.__name__, guard(f)))
