"""Reproduction found by the C11 coverage extension (fingerprint operators).
Usage: PYTHONPATH=/repo/src /venv/bin/python findings/repro_cov_c11.py [name ...]
Each function returns None when the behaviour is as the property words it and a string describing the deviation otherwise.

1. `numpy_scalar_times_fingerprint_walks_the_declared_length`
   (finding_key C11:numpy-scalar-times-fingerprint-walks-length).
   `x * a` with a CountFingerprint / FloatFingerprint `a` and a NumPy scalar `x` on the LEFT (np.int64(3) * a,
   np.float64(2) * a, weights[i] * a with weights a NumPy array, a.bit_count * a ...) does return the right fingerprint
   (every count times x, length kept, operand unchanged), but only after NumPy has tried to read `a` as a sequence:
   Fingerprint defines __len__ (= bits) and __getitem__, so numpy's scalar arithmetic calls `a[0], a[1], ...` until
   `__getitem__` raises (KeyError at key bits + 1), i.e. bits + 2 calls, each an `in` test on the index array; only then
   does it return NotImplemented and Python calls `a.__rmul__(x)` (src/e3fp/fingerprint/fprint.py:1293).  The time is
   proportional to the declared length: about 3 microseconds per position here (0.2 s at 2^16, 3.4 s at 2^20), which is about
   four hours at the library's default length 2^32 (BITS_DEF) - for practical purposes the reflected form never returns.
   The plain forms `a * x`, `a / x`, `a // x` with the same NumPy scalar are immediate, as is `3 * a` with a Python int.
   (`x / a` and `x // a` walk the same way; their result is the separate known finding C11:reflected-scalar-division.)
   The property quantifies over "all positive integer scalars" and "all operators in plain, reflected and
   augmented-assignment form"; np.int64(3) is a positive integer scalar.
   Minimal repair (one line in class Fingerprint, inherited by the count and float classes):
       __array_ufunc__ = None     # NumPy scalars / arrays defer to __rmul__ / __rtruediv__ / __rfloordiv__ at once
   With it `np.int64(3) * a` makes 0 __getitem__ calls and returns the same fingerprint."""
import sys, os, tempfile, time, warnings
sys.modules['mpi4py'] = None
os.environ.setdefault('NUMBA_CACHE_DIR', tempfile.mkdtemp(prefix='nbc'))
warnings.filterwarnings('ignore')
import numpy as np
from e3fp.fingerprint.fprint import Fingerprint, CountFingerprint, FloatFingerprint


def guard(f):
    try:
        return f()
    except Exception as e:
        return 'unexpected %s: %s' % (type(e).__name__, str(e)[:100])


def _count_getitem(action):
    calls = [0]
    saved = [(cls, cls.__dict__['__getitem__']) for cls in (Fingerprint, CountFingerprint) if '__getitem__' in cls.__dict__]

    def wrap(orig):
        def g(self, key):
            calls[0] += 1
            return orig(self, key)
        return g
    try:
        for cls, orig in saved:
            setattr(cls, '__getitem__', wrap(orig))
        r = action()
    finally:
        for cls, orig in saved:
            setattr(cls, '__getitem__', orig)
    return r, calls[0]


def numpy_scalar_times_fingerprint_walks_the_declared_length():
    out = []
    for cls in (CountFingerprint, FloatFingerprint):
        for bits in (1024, 2 ** 14):
            a = cls.from_counts({1: 3, 5: 2}, bits=bits)
            for x in (np.int64(3), np.int32(3), np.float64(3.0)):
                t0 = time.time()
                r, n = _count_getitem(lambda: x * a)
                dt = time.time() - t0
                assert dict(r.counts) == {1: 9, 5: 6} and r.bits == bits and dict(a.counts) == {1: 3, 5: 2}
                r2, n2 = _count_getitem(lambda: a * x)
                assert dict(r2.counts) == {1: 9, 5: 6} and n2 == 0
                if n >= bits:
                    out.append('%s(bits=%d): %s(3) * a made %d __getitem__ calls (%.3f s); a * x made %d'
                               % (cls.__name__, bits, type(x).__name__, n, dt, n2))
    if out:
        per = None
        a = CountFingerprint.from_counts({1: 3, 5: 2}, bits=2 ** 16)
        t0 = time.time()
        np.int64(3) * a
        per = (time.time() - t0) / 2 ** 16
        out.append('extrapolated to the default length 2^32: %.1f hours' % (per * 2 ** 32 / 3600.0))
    return '; '.join(out[:3] + out[-1:]) or None


ALL = [numpy_scalar_times_fingerprint_walks_the_declared_length]

if __name__ == '__main__':
    names = sys.argv[1:]
    for f in ALL:
        if names and f.__name__ not in names:
            continue
        print('%-52s %s' % (f.__name__, guard(f)))
