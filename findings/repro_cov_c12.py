"""Observations made during the C12 coverage audit.  C12 itself (nesting, truncation, level -1 as the limit, labels) held on every
generated input of the unchanged tree (HEAD 1bb6050).  The three functions below reproduce behaviours of the anchored code
(Fingerprinter.run / get_shells_at_level) that are OUTSIDE C12's statement - call forms the docstrings promise but the code does not
honour.  They are not keyed findings of C12; they are recorded here so that the owner of C04 / C02 can decide.

run:  cd /verif && PYTHONPATH=/repo/src:/verif/harness /venv/bin/python -B findings/repro_cov_c12.py
"""
import sys
sys.path.insert(0, '/verif/harness')
import core
core.setup_env()
import numpy as np


def _mol():
    import molgen
    return [m for n, m in molgen.shipped() if m.GetNumConformers() >= 4][0]


def numpy_conformer_id_silently_becomes_first_conformer():
    """Fingerprinter.run(np.int64(3), mol): RDKit rejects the NumPy integer with Boost's ArgumentError, a subclass of TypeError; run()
    catches TypeError ("conf isn't ID either. Fall back to first") and fingerprints conformer 0 without any message.
    Proposed repair (fprinter.py, run): `conf = mol.GetConformer(int(conf))` inside the try, falling back only when conf is None."""
    from e3fp.fingerprint.fprinter import Fingerprinter
    m = _mol()
    a, b = Fingerprinter(level=2), Fingerprinter(level=2)
    a.run(3, m)
    b.run(np.int64(3), m)
    same = a.get_fingerprint_at_level(2) == b.get_fingerprint_at_level(2)
    print('run(np.int64(3), mol) used conformer id %d; equal to run(3, mol): %s' % (b.conf.GetId(), same))
    return b.conf.GetId() == 3 and same


def run_with_conformer_id_only_fails():
    """Documented: `conf : RDKit Conformer or int`, "conf is int ID; use existing mol".  After f.run(0, mol), f.run(1) takes mol from
    self.mol but leaves conf an int: AttributeError 'int' object has no attribute 'GetAtomPosition'.
    Proposed repair: in the `except AttributeError` branch add `conf = mol.GetConformer(conf)`."""
    from e3fp.fingerprint.fprinter import Fingerprinter
    m = _mol()
    f = Fingerprinter(level=2)
    f.run(0, m)
    try:
        f.run(1)
        print('run(1) worked, conformer', f.conf.GetId())
        return True
    except AttributeError as e:
        print('run(1) after run(0, mol): AttributeError: %s' % e)
        return False


def integer_atom_mask_raises():
    """Documented: `atom_mask : int or set of int`.  get_shells_at_level tests len(atom_mask) before its own try/except that would
    wrap a single int into a set: TypeError "object of type 'int' has no len()".
    Proposed repair: normalise first (`if not isinstance(atom_mask, (set, frozenset, list, tuple)): atom_mask = {atom_mask}`)."""
    from e3fp.fingerprint.fprinter import Fingerprinter
    m = _mol()
    f = Fingerprinter(level=2)
    f.run(0, m)
    try:
        n = len(f.get_shells_at_level(1, atom_mask=3))
        print('atom_mask=3 accepted, %d shells' % n)
        return True
    except TypeError as e:
        print('get_shells_at_level(1, atom_mask=3): TypeError: %s' % e)
        return False


if __name__ == '__main__':
    res = [numpy_conformer_id_silently_becomes_first_conformer(), run_with_conformer_id_only_fails(), integer_atom_mask_raises()]
    print('as documented: %s' % res)
