"""Reproduction found by the C13 coverage extension (conformer selection contract).
Usage: PYTHONPATH=/repo/src /venv/bin/python findings/repro_cov_c13.py [name ...]
Each function returns None when the behaviour is as the property words it and a string describing the deviation otherwise.

1. `mmff94s_is_computed_as_mmff94`  (finding_key forcefield:mmff94s-computed-as-mmff94).
   ConformerGenerator(forcefield='mmff94s') is documented (generator.py:93-95, generate.py:89-90, FORCEFIELD_CHOICES) to minimise,
   sort, window and report with the MMFF94s force field.  get_molecule_force_field (generator.py:262-266) passes the option string
   itself to RDKit: AllChem.MMFFGetMoleculeProperties(mol, mmffVariant='mmff94s').  RDKit's variant names are case sensitive
   ('MMFF94' / 'MMFF94s'); every other string silently selects MMFF94.  So forcefield='mmff94s' is MMFF94 throughout: the pool is
   minimised with MMFF94, the energies that order the conformers, define the energy window and are returned / stored on the molecule
   are MMFF94 energies.  For molecules without a delocalised trigonal nitrogen the two variants coincide and nothing shows; for
   amides, anilines, enamines ... the returned energies are not the MMFF94s energies of the returned conformers (N-ethylacetamide:
   -17.37 vs -17.48 kcal/mol for one conformer; N-methylaniline 16.75 vs 16.09), the returned conformers are not MMFF94s minima,
   and their order need not be non-decreasing in the force field that was asked for.  The property quantifies over
   "all option combinations (..., forcefield)" and speaks of "non-decreasing force-field energy" and "the energies ... reported
   alongside are those of the returned conformers".
   Minimal repair (generator.py, get_molecule_force_field):
       mmff_props = AllChem.MMFFGetMoleculeProperties(
           mol, mmffVariant={"mmff94": "MMFF94", "mmff94s": "MMFF94s"}[self.forcefield])
   (findings/proposed_c13_mmff_variant.patch).  The oracles of harness/props/c13.py already name the variant the option asks for, so
   the check passes on the repaired tree without further change.

Observation, not a finding of e3fp's own code: `e3fp.conformer.generate.run(values_file=...)` writes through
python_utilities.io_tools.HDF5Buffer, whose flush() calls dict.iteritems() (Python 2 only): under Python 3 the values file cannot be
written (AttributeError at the first flush / at interpreter exit).  values_to_hdf5 itself hands the right values to the buffer
(checked with a stub buffer by the wrapper stream)."""
import sys, os, tempfile, warnings
sys.modules['mpi4py'] = None
os.environ.setdefault('NUMBA_CACHE_DIR', tempfile.mkdtemp(prefix='nbc'))
warnings.filterwarnings('ignore')


def guard(f):
    try:
        return f()
    except Exception as e:
        return 'unexpected %s: %s' % (type(e).__name__, str(e)[:100])


def _mmff(mol, variant, conf_id):
    """The force field object refers to `mol`: the caller keeps `mol` alive while using it."""
    from rdkit.Chem import AllChem
    AllChem.MMFFSanitizeMolecule(mol)
    p = AllChem.MMFFGetMoleculeProperties(mol, mmffVariant=variant)
    return AllChem.MMFFGetMoleculeForceField(mol, p, confId=conf_id)


def _energies(pool, variant, conf_ids):
    from rdkit import Chem
    m = Chem.Mol(pool)
    return [_mmff(m, variant, i).CalcEnergy() for i in conf_ids]


def mmff94s_is_computed_as_mmff94(smiles='CC(=O)NCC', seed=11):
    from rdkit import Chem
    from e3fp.conformer.generator import ConformerGenerator
    from e3fp.conformer.util import mol_from_smiles
    gen = ConformerGenerator(num_conf=4, forcefield='mmff94s', seed=seed, get_values=True, sparse_rmsd=False, rmsd_cutoff=None)
    mol, (_, indices, energies, _) = gen.generate_conformers(mol_from_smiles(smiles, 'amide'))
    # the pool the generator filtered: same embedding, minimised by the generator itself; energies re-measured with RDKit's two variants
    pool = gen.embed_molecule(mol_from_smiles(smiles, 'amide'))
    gen.minimize_conformers(pool)
    ids = [c.GetId() for c in pool.GetConformers()]
    e_s = _energies(pool, 'MMFF94s', [ids[int(i)] for i in indices])
    e_plain = _energies(pool, 'MMFF94', [ids[int(i)] for i in indices])
    out = []
    if max(abs(a - b) for a, b in zip(energies, e_s)) > 1e-6:
        out.append('forcefield="mmff94s" reports %s for the returned conformers; their MMFF94s energies are %s (their MMFF94 energies: %s)'
                   % ([round(float(x), 4) for x in energies], [round(x, 4) for x in e_s], [round(x, 4) for x in e_plain]))
    if any(e_s[i] > e_s[i + 1] + 1e-9 for i in range(len(e_s) - 1)):
        out.append('and the returned order is not non-decreasing in MMFF94s energy')
    # a conformer returned as "minimised with mmff94s" still moves when minimised with MMFF94s
    probe = Chem.Mol(pool)
    ff = _mmff(probe, 'MMFF94s', ids[int(indices[0])])
    before = ff.CalcEnergy()
    ff.Minimize()
    after = ff.CalcEnergy()
    if before - after > 1e-4:
        out.append('the lowest returned conformer is not an MMFF94s minimum (%.4f -> %.4f on further minimisation)' % (before, after))
    return '; '.join(out) or None


ALL = [mmff94s_is_computed_as_mmff94]

if __name__ == '__main__':
    names = sys.argv[1:]
    bad = 0
    for f in ALL:
        if names and f.__name__ not in names:
            continue
        r = guard(f)
        print('%-40s %s' % (f.__name__, 'as the property words it' if r is None else 'DEVIATION: ' + r))
        bad += r is not None
    sys.exit(1 if bad else 0)
