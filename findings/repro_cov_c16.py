"""Reproduction of the defect found by the C16 coverage audit (one function per trigger).
Usage: PYTHONPATH=/repo/src /venv/bin/python findings/repro_cov_c16.py [name ...]
Each function returns None when the property holds and a string describing the failure otherwise.

C16: "... An addition ... that violates this is refused with an error, and after the refusal - wherever in the batch the
offending item sits - the database is exactly as it was before: same rows, names, name index and properties."
Fault kind of the quantifier: "wrong property length" at one position of the batch.

add_fingerprints validates level / bits / presence of every property BEFORE it changes anything, but the LENGTH of the new
property columns is only checked by update_props(new_props, append=True), which add_fingerprints calls last - after the matrix
has been replaced, fp_names extended and fp_names_to_indices updated.  A fingerprint whose value for a property column is a
sequence (two numbers instead of one, an empty tuple, ...) makes that final call raise ValueError: the call is refused, but
the database keeps the new rows, names and index entries while its property columns keep the old length."""
import sys, os, tempfile, warnings
sys.modules['mpi4py'] = None
os.environ.setdefault('NUMBA_CACHE_DIR', tempfile.mkdtemp(prefix='nbc'))
warnings.filterwarnings('ignore')
import numpy as np
from e3fp.fingerprint.fprint import Fingerprint, CountFingerprint
from e3fp.fingerprint.db import FingerprintDatabase


def _snap(db):
    a = db.array
    return (None if a is None else (a.shape, a.toarray().tolist()), list(db.fp_names),
            {k: list(v) for k, v in dict.items(db.fp_names_to_indices)}, {k: np.asarray(v).tolist() for k, v in db.props.items()})


def _fp(i, p, cls=Fingerprint):
    return cls.from_indices([i], bits=16, level=5, name='m%d' % i, props={'p': p})


def _refused_atomically(db, batch):
    before = _snap(db)
    try:
        db.add_fingerprints(batch)
    except Exception as e:  # noqa
        after = _snap(db)
        if after != before:
            return ('add_fingerprints raised %s but the database changed: rows %s -> %s, names %r -> %r, index %r -> %r, props %r -> %r'
                    % (type(e).__name__, before[0] and before[0][0], after[0] and after[0][0], before[1], after[1], before[2], after[2], before[3], after[3]))
        return None
    return 'the batch was accepted: props %r, %d rows' % (_snap(db)[3], db.fp_num)


def C16_add_sequence_valued_prop_filled_db():
    """A 2-row database with column p; a batch of two whose SECOND fingerprint carries p = (4, 5)."""
    db = FingerprintDatabase(fp_type=Fingerprint, level=5)
    db.add_fingerprints([_fp(1, 1), _fp(2, 2)])
    return _refused_atomically(db, [_fp(3, 3), _fp(4, (4, 5))])


def C16_add_sequence_valued_prop_single():
    """Batch of one: np.append flattens (4, 5) into two cells - 4 values for 3 rows."""
    db = FingerprintDatabase(fp_type=CountFingerprint, level=5)
    db.add_fingerprints([_fp(1, 1, CountFingerprint), _fp(2, 2, CountFingerprint)])
    return _refused_atomically(db, [_fp(4, (4, 5), CountFingerprint)])


def C16_add_sequence_valued_prop_empty_db():
    """A database without rows: the first fingerprint defines the column, the second carries a sequence.  Afterwards the database
    has a matrix, two names and two index entries - and no property column at all."""
    db = FingerprintDatabase(fp_type=Fingerprint, level=5)
    return _refused_atomically(db, [_fp(1, 1), _fp(2, (4, 5))])


def C16_add_empty_tuple_prop():
    db = FingerprintDatabase(fp_type=Fingerprint, level=5)
    db.add_fingerprints([_fp(1, 1)])
    return _refused_atomically(db, [_fp(2, ())])


if __name__ == '__main__':
    import re
    names = sys.argv[1:] or [n for n in sorted(globals()) if re.match(r'C\d\d_', n)]
    bad = 0
    for n in names:
        try:
            r = globals()[n]()
        except Exception as e:  # noqa
            r = 'raised %s: %s' % (type(e).__name__, str(e)[:200])
        print('%-45s %s' % (n, 'ok' if r is None else 'DEFECT: ' + r))
        bad += r is not None
    sys.exit(1 if bad else 0)
