"""Reproductions found by the C17 coverage extension (fingerprint conversions of a source that carries a fold cache).
Usage: PYTHONPATH=/repo/src /venv/bin/python findings/repro_cov_c17.py [name ...]
Each function returns None when the behaviour is as the property words it and a string describing the deviation otherwise.

Both come from the same six lines of `Fingerprint.from_fingerprint` / `CountFingerprint.from_fingerprint`
(src/e3fp/fingerprint/fprint.py:332-337 and 1076-1081): the fold cache of the source is carried over as
`{key: v.__class__.from_fingerprint(v)}` - every cached folded fingerprint keeps the SOURCE's class, and the copy of
the cached entry has no `index_to_unfolded_index_dict`.  `fold()` of the result then hands out that cached object.
The sources are ordinary (positive counts, any kind): they are inside C17's quantifier "for all fingerprints ... and
all ordered pairs of kinds"; the only ingredient is that the source has been folded once (fold() caches by default).

Status: the same-kind case (third function) was repaired in /repo by 1bb6050 "fix: a copy of a folded fingerprint carries
usable fold-cache entries" while this audit ran; that commit still copies each cached entry with `v.__class__`, so the
two cross-kind functions still report on 1bb6050.  Proposed repair: findings/proposed_cov_c17_fold_cache.patch (carry
the cache only when the source is of the requested class); with it C17, C09, C07 and C10 all exit 0."""
import sys, os, tempfile, warnings
sys.modules['mpi4py'] = None
os.environ.setdefault('NUMBA_CACHE_DIR', tempfile.mkdtemp(prefix='nbc'))
warnings.filterwarnings('ignore')
from e3fp.fingerprint.fprint import Fingerprint, CountFingerprint, FloatFingerprint


def guard(f):
    try:
        return f()
    except Exception as e:
        return 'unexpected %s: %s' % (type(e).__name__, str(e)[:100])


def bit_view_of_folded_count_fingerprint_folds_to_counts():
    """finding_key from_fingerprint:fold-cache-keeps-source-kind.  The bit view of a count fingerprint that has been
    folded before answers fold() with a CountFingerprint carrying the collision sums: bit and count views disagree."""
    a = CountFingerprint.from_counts({1: 2, 9: 3, 4: 7}, bits=16)
    a.fold(8)
    b = Fingerprint.from_fingerprint(a)
    r = b.fold(8)
    fresh = Fingerprint.from_fingerprint(CountFingerprint.from_counts({1: 2, 9: 3, 4: 7}, bits=16)).fold(8)
    if r.__class__ is not Fingerprint or r.counts != fresh.counts:
        return 'Fingerprint.from_fingerprint(folded count fp).fold(8) is a %s with counts %r; without the earlier fold: %s %r' % (
            r.__class__.__name__, dict(r.counts), fresh.__class__.__name__, dict(fresh.counts))


def count_view_of_folded_bit_fingerprint_cannot_be_folded():
    """finding_key from_fingerprint:fold-cache-keeps-source-kind.  The count / float view of a bit (or count) fingerprint
    that has been folded before raises AssertionError in fold(): the cached entry is of the source's class."""
    out = []
    for src, cls in ((Fingerprint.from_indices([1, 9, 4], bits=16), CountFingerprint),
                     (Fingerprint.from_indices([1, 9, 4], bits=16), FloatFingerprint),
                     (CountFingerprint.from_counts({1: 2, 9: 3}, bits=16), FloatFingerprint)):
        src.fold(8)
        try:
            cls.from_fingerprint(src).fold(8)
        except AssertionError:
            out.append('%s.from_fingerprint(folded %s).fold(8) raises AssertionError' % (cls.__name__, src.__class__.__name__))
    return '; '.join(out) or None


def copy_of_folded_count_fingerprint_cannot_be_folded():
    """finding_key from_fingerprint:fold-cache-copy-unusable (same-kind pair; also what load(update_structure=True) does to
    every fingerprint it reads).  The copy of a count / float fingerprint that has been folded before raises
    AttributeError in fold(): the copied cache entry has index_to_unfolded_index_dict = None."""
    out = []
    for cls, cnt in ((CountFingerprint, {1: 2, 9: 3, 4: 7}), (FloatFingerprint, {1: 0.5, 9: 3.0})):
        a = cls.from_counts(cnt, bits=16)
        want = dict(a.fold(8).counts)
        b = cls.from_fingerprint(a)
        try:
            got = dict(b.fold(8).counts)
            if got != want:
                out.append('%s copy folds to %r, source to %r' % (cls.__name__, got, want))
        except AttributeError as e:
            out.append('%s.from_fingerprint(folded %s).fold(8) raises AttributeError: %s' % (cls.__name__, cls.__name__, e))
    return '; '.join(out) or None


ALL = [bit_view_of_folded_count_fingerprint_folds_to_counts, count_view_of_folded_bit_fingerprint_cannot_be_folded,
       copy_of_folded_count_fingerprint_cannot_be_folded]

if __name__ == '__main__':
    names = sys.argv[1:]
    for f in ALL:
        if names and f.__name__ not in names:
            continue
        print('%-58s %s' % (f.__name__, guard(f)))
