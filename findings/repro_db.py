"""Reproductions of database-level defects found by the C05/C16 builders (one function per finding).
Usage: PYTHONPATH=/repo/src /venv/bin/python findings/repro_db.py [name ...]
Each function returns None when the property holds and a string describing the failure otherwise."""
import sys, os, tempfile, warnings
sys.modules['mpi4py'] = None
os.environ.setdefault('NUMBA_CACHE_DIR', tempfile.mkdtemp(prefix='nbc'))
warnings.filterwarnings('ignore')
import numpy as np
from scipy.sparse import csr_matrix
from e3fp.fingerprint.fprint import Fingerprint, CountFingerprint, FloatFingerprint
from e3fp.fingerprint.db import FingerprintDatabase, concat
from e3fp.fingerprint import metrics


def _rows(db):
    return [(f.indices.tolist(), sorted((int(k), float(v)) for k, v in f.counts.items())) for f in db]


def C05_cosine_corrupts_unsorted_db():
    """metrics.cosine(db) on a count (or bit) database whose CSR rows are valid but not sorted by column
    (FingerprintDatabase.from_array accepts such a matrix): array_metrics._check_array builds
    csr_matrix(arr, copy=False, dtype=float) - new data, *shared* indices/indptr - and
    scipy.sparse.linalg.norm() canonicalises that temporary in place (sort_indices + sum_duplicates): the
    database's indices are re-ordered under its untouched data, so counts move to other positions.
    Every database derived by copy.copy / as_type (which share indices/indptr) is corrupted as well."""
    A = csr_matrix((np.array([1, 2, 3], dtype=np.uint16), np.array([9, 1, 5]), np.array([0, 3])), shape=(1, 16))
    db = FingerprintDatabase.from_array(A, ['a'], fp_type=CountFingerprint, level=-1)
    import copy
    snap = copy.copy(db)
    before = _rows(db)
    metrics.cosine(db, db)
    after = _rows(db)
    if after != before:
        return 'cosine(db, db) changed the database: %r -> %r (copy taken before: %r)' % (before, after, _rows(snap))


if __name__ == '__main__':
    import re
    names = sys.argv[1:] or [n for n in sorted(globals()) if re.match(r'C\d\d_', n)]
    bad = 0
    for n in names:
        try:
            r = globals()[n]()
        except Exception as e:  # noqa
            r = 'raised %s: %s' % (type(e).__name__, str(e)[:200])
        print('%-45s %s' % (n, 'ok' if r is None else 'DEFECT: ' + r))
        bad += r is not None
    sys.exit(1 if bad else 0)
