"""Reproductions of fingerprint-folding defects found by the C07/C11 builder (one function per finding).
Usage: PYTHONPATH=/repo/src /venv/bin/python findings/repro_fold.py [name ...]
Each function returns None when the property holds and a string describing the failure otherwise."""
import sys, os, tempfile, warnings
sys.modules['mpi4py'] = None
os.environ.setdefault('NUMBA_CACHE_DIR', tempfile.mkdtemp(prefix='nbc'))
warnings.filterwarnings('ignore')
from e3fp.fingerprint.fprint import Fingerprint, CountFingerprint, FloatFingerprint


def _cnt(f):
    return sorted((int(k), float(v)) for k, v in f.counts.items())


def C07_fold_counts_method_rewrites_earlier_result():
    """Fingerprint.fold caches its result per (bits, method) and returns the *cached object* on later calls;
    CountFingerprint.fold then re-assigns that object's counts on every call, using the reducer of the current call.
    So a folded fingerprint handed out earlier silently changes its counts when the same source is folded again with
    another `counts_method` (a documented option) - in both directions (sum -> max, and max -> sum)."""
    for cls in (CountFingerprint, FloatFingerprint):
        f = cls.from_counts({1: 2, 9: 3, 4: 7}, bits=16, level=3)
        r1 = f.fold(8)                               # positions 1 and 9 collide: 2 + 3
        before = _cnt(r1)
        r2 = f.fold(8, counts_method=max)
        after = _cnt(r1)
        if before != after:
            return ('%s: r1 = f.fold(8) had counts %r; after f.fold(8, counts_method=max) the same object r1 has %r '
                    '(r2 is r1: %s)' % (cls.__name__, before, after, r2 is r1))
        g = cls.from_counts({1: 2, 9: 3, 4: 7}, bits=16, level=3)
        m1 = g.fold(8, counts_method=max)
        before = _cnt(m1)
        g.fold(8)
        if _cnt(m1) != before:
            return '%s: max-folded result %r became %r after a later default fold' % (cls.__name__, before, _cnt(m1))


def C07_fold_unlinked_returns_linked_cached_object():
    """(minor, same root cause) fold(bits, linked=False) after a linked fold of the same (bits, method) returns the
    cached *linked* object: the caller who asked for an unlinked fingerprint (to save it without its parent) gets one
    whose unfold() is the source."""
    f = Fingerprint.from_indices([1, 9, 4], bits=16)
    r1 = f.fold(8)
    u = f.fold(8, linked=False)
    if u.unfold() is not None:
        return 'fold(8, linked=False) returned a fingerprint linked to its source (it is the cached object: %s)' % (u is r1)


if __name__ == '__main__':
    import re
    names = sys.argv[1:] or [n for n in sorted(globals()) if re.match(r'C\d\d_', n)]
    bad = 0
    for n in names:
        try:
            r = globals()[n]()
        except Exception as e:  # noqa
            r = 'raised %s: %s' % (type(e).__name__, str(e)[:200])
        print('%-55s %s' % (n, 'ok' if r is None else 'DEFECT: ' + r))
        bad += r is not None
    sys.exit(1 if bad else 0)
