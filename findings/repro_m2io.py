"""Reproductions for the fingerprint equality / copy / representation area (C09, C10, C17 fingerprint part).
Usage: PYTHONPATH=/repo/src /venv/bin/python findings/repro_m2io.py [name ...]
Each function returns None when the behaviour is as the property words it and a string describing the deviation
otherwise.  None of these is inside the stated quantifier of C09/C10/C17 on the repaired tree (see the docstrings:
they concern fingerprints holding zero/negative counts, mixed-kind operands, non-canonical CSR input); they are the
boundary the Coq theorems make explicit (hypothesis wf_fp, witnesses *_refuted in Properties/C09.v, Proofs/FprintConv.v)."""
import sys, os, tempfile, warnings, pickle
sys.modules['mpi4py'] = None
os.environ.setdefault('NUMBA_CACHE_DIR', tempfile.mkdtemp(prefix='nbc'))
warnings.filterwarnings('ignore')
import numpy as np
from scipy.sparse import csr_matrix
import e3fp.fingerprint.fprint as fp
from e3fp.fingerprint.fprint import Fingerprint, CountFingerprint, FloatFingerprint


def guard(f):
    try:
        return f()
    except Exception as e:
        return '%s: %s' % (type(e).__name__, str(e)[:100])


def copy_drops_nonpositive_counts():
    """C09 boundary.  a - b is a public way to get zero / negative counts.  CountFingerprint.from_fingerprint (and
    FloatFingerprint's) keeps only `c > 0`, so the copy of such a fingerprint is not equal to it, and
    load(update_structure=True) - the default - silently loses those positions of a saved FloatFingerprint.
    Coq: copy_eq needs wf_fp (positive counts); witness copy_nonpositive_refuted."""
    a = CountFingerprint(counts={1: 2, 3: 5}, bits=8)
    b = CountFingerprint(counts={1: 2, 3: 7}, bits=8)
    d = a - b                                            # counts {1: 0, 3: -2}
    c = CountFingerprint.from_fingerprint(d)
    out = []
    if not (c == d):
        out.append('copy of %r is %r (not equal)' % (d.counts, c.counts))
    f = FloatFingerprint(counts={1: 0.5, 2: 2.0}, bits=8) - FloatFingerprint(counts={1: 1.0}, bits=8)   # {1: -0.5, 2: 2.0}
    p = os.path.join(tempfile.mkdtemp(), 'x.fp.gz')
    fp.save(p, f)
    g = fp.load(p)
    if not (g == f):
        out.append('load(save(f)) of %r is %r' % (f.counts, g.counts))
    return '; '.join(out) or None


def bit_view_keeps_zero_count_positions():
    """C17 boundary.  Fingerprint.from_fingerprint copies `indices`, so a position whose count is zero (a - a) is a set
    bit of the bit view, while the count/float views drop it: the three views of one object disagree on the support.
    Coq: bit_of_zero_count_witness (Proofs/FprintConv.v)."""
    a = CountFingerprint(counts={1: 2, 3: 5}, bits=8)
    z = a - a
    b = Fingerprint.from_fingerprint(z)
    c = CountFingerprint.from_fingerprint(z)
    if list(b.indices) != list(c.indices):
        return 'counts %r -> bit view sets %r, count view keeps %r' % (z.counts, list(b.indices), list(c.indices))


def float_below_one_becomes_listed_zero_count():
    """C17 boundary ("where representable").  CountFingerprint.from_fingerprint(float fp) filters on the float value
    (> 0) and then truncates: 0.25 becomes a stored count 0 whose position stays in `indices` (the class documents
    indices as the positions with counts greater than 0).  Coq: convert_truncates_to_zero_witness; convert_nz_support
    states the exact condition."""
    f = FloatFingerprint(counts={1: 0.25, 2: 3.0}, bits=8)
    c = CountFingerprint.from_fingerprint(f)
    if any(v == 0 for v in c.counts.values()):
        return 'float %r -> count fingerprint indices %r counts %r' % (f.counts, list(c.indices), c.counts)


def equality_operator_between_kinds_raises():
    """C09 boundary (operands of different kinds).  `bit == count` raises E3FPInvalidFingerprintError although
    bit.__eq__(count) returns False: CountFingerprint is a subclass, so Python calls count.__eq__(bit) first and that
    raises.  Same for `!=`.  Coq: py_eq / eq_raises_only_mixed."""
    b = Fingerprint([1, 2], bits=8)
    c = CountFingerprint(counts={1: 1, 2: 1}, bits=8)
    r1, r2 = guard(lambda: b.__eq__(c)), guard(lambda: b == c)
    if r1 is not False or r2 is not False:
        return 'b.__eq__(c) -> %r but b == c -> %r' % (r1, r2)


def getstate_does_not_drop_indices():
    """C10 note (no loss).  CountFingerprint.__getstate__ means to leave the index array out of the pickle
    (`k not in ("indices",)`, "reduces size of fingerprint") but the attribute is `_indices`, so it is written anyway;
    __setstate__ rebuilds it from the counts regardless."""
    c = CountFingerprint(counts={1: 4, 2: 1}, bits=8)
    st = c.__getstate__()
    if '_indices' in st:
        return 'state keys: %s' % sorted(st)


def csr_input_read_literally():
    """C10 boundary (non-canonical sparse input).  from_vector reads .indices/.data of a CSR matrix as stored: an
    explicit zero becomes a set bit (bit class) or a listed position with count 0; of duplicate columns the last value
    is kept, where SciPy itself means their sum.  The dense form of the same matrix reads differently."""
    m = csr_matrix((np.array([3, 0, 2, 5]), np.array([4, 1, 2, 4]), np.array([0, 4])), shape=(1, 8))
    dense = np.asarray(m.toarray())[0]
    out = []
    b1, b2 = Fingerprint.from_vector(m), Fingerprint.from_vector(dense)
    if list(b1.indices) != list(b2.indices):
        out.append('bit: sparse -> %r, dense -> %r' % (list(b1.indices), list(b2.indices)))
    c1, c2 = CountFingerprint.from_vector(m), CountFingerprint.from_vector(dense)
    if dict(c1.counts) != dict(c2.counts):
        out.append('count: sparse -> %r, dense -> %r' % ({int(k): v for k, v in c1.counts.items()}, {int(k): v for k, v in c2.counts.items()}))
    return '; '.join(out) or None


def scalar_multiple_of_signed_counts_drifts():
    """C11 area (reported to its builder).  (a - b) * 2 starts from from_fingerprint(a - b), which has dropped the
    non-positive positions from `indices`, then installs counts for all of them: indices and counts keys disagree."""
    a = CountFingerprint(counts={1: 2, 3: 5}, bits=8)
    b = CountFingerprint(counts={1: 2, 2: 3}, bits=8)
    m = (a - b) * 2
    if sorted(int(i) for i in m.indices) != sorted(int(k) for k in m.counts):
        return 'indices %r vs counts keys %r' % (list(m.indices), sorted(m.counts))


def shallow_copy_shares_state():
    """C09 note.  copy.copy(fp) is Python's shallow copy (no __copy__ defined): props, counts and the fold cache are
    the same objects, so renaming the copy renames the original.  from_fingerprint / deepcopy / pickle are independent."""
    import copy
    a = CountFingerprint(counts={1: 2}, bits=8, name='a')
    c = copy.copy(a)
    c.name = 'renamed'
    if a.name != 'a':
        return 'original renamed to %r through copy.copy' % a.name


ALL = [copy_drops_nonpositive_counts, bit_view_keeps_zero_count_positions, float_below_one_becomes_listed_zero_count,
       equality_operator_between_kinds_raises, getstate_does_not_drop_indices, csr_input_read_literally,
       scalar_multiple_of_signed_counts_drifts, shallow_copy_shares_state]

if __name__ == '__main__':
    names = sys.argv[1:]
    for f in ALL:
        if names and f.__name__ not in names:
            continue
        print('%-45s %s' % (f.__name__, guard(f)))
