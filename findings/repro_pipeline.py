"""Reproductions of the defects found while building C14 / C15 (entry points and batch driver).

Run:  /venv/bin/python /verif/findings/repro_pipeline.py            (uses /repo/src, or VERIF_REPO)
Each function returns a dict {'defect_present': bool, ...}; nothing is written outside a temporary directory."""
import os
import shutil
import sys
import tempfile

sys.path.insert(0, os.path.join(os.path.dirname(os.path.dirname(os.path.abspath(__file__))), 'harness'))
import core  # noqa: E402

core.setup_env()


def _mols(n=3, confs=2):
    import pipe_gen as PG
    out = []
    for tag, base in [(t, m) for t, m in PG.shipped_mols() if m.GetNumConformers() >= 3][:n]:
        out.append(PG.make_mol(base, confs, tag))
    return out


def empty_name_yields_nothing():
    """C14 (REPAIRED by 712315f): a molecule whose _Name is '' - what mol_from_sdf returns for an SDF record with an
    empty title line - produced no fingerprints: fprints_dict_from_mol returned {} (MolItemName.from_str('') ->
    AttributeError inside the try) and pipeline.fprints_from_mol / fprints_from_sdf raised ValueError."""
    from e3fp.fingerprint import generate as G
    from e3fp import pipeline
    m = _mols(1)[0]
    m.SetProp('_Name', '')
    d = G.fprints_dict_from_mol(m, first=2, level=2)
    try:
        lst = pipeline.fprints_from_mol(m, fprint_params={'first': 2, 'level': 2})
        err = None
    except Exception as e:  # noqa
        lst, err = None, '%s: %s' % (type(e).__name__, e)
    return {'defect_present': d == {}, 'dict': {k: len(v) for k, v in d.items()}, 'from_mol': err or len(lst)}


def resumed_batch_database_incomplete():
    """C15 (OPEN): run(sdf_files, db_file=..., out_dir_base=...) re-run without overwrite after an interruption.
    Molecules whose fingerprint files already exist are skipped (fprints_dict_from_mol returns {}), the collection
    loop drops them (ValueError from max() of {}), and the database the re-run writes contains only the molecules it
    recomputed - it silently replaces a complete database by a partial one (or writes nothing if all were skipped)."""
    from e3fp.fingerprint import generate as G
    from e3fp.fingerprint.db import FingerprintDatabase
    from e3fp.conformer.util import mol_to_sdf
    d = tempfile.mkdtemp(prefix='repro_pipeline_', dir=os.path.join(core.VERIF, 'work'))
    try:
        files = []
        for m in _mols(3):
            fn = os.path.join(d, m.GetProp('_Name') + '.sdf.bz2')
            mol_to_sdf(m, fn)
            files.append(fn)
        base, dbf = os.path.join(d, 'fp'), os.path.join(d, 'all.fpz')
        G.run(files, db_file=dbf, out_dir_base=base, level=2, bits=1024, first=2, parallel_mode='serial')
        n_first = len(FingerprintDatabase.load(dbf))
        # "interruption": one molecule's output is missing, the database was not written yet
        os.remove(os.path.join(base + '2', sorted(os.listdir(base + '2'))[0]))
        os.remove(dbf)
        G.run(files, db_file=dbf, out_dir_base=base, level=2, bits=1024, first=2, parallel_mode='serial')
        db = FingerprintDatabase.load(dbf)
        names = [db[i].name for i in range(len(db))]
        return {'defect_present': len(db) != n_first, 'rows_uninterrupted_run': n_first, 'rows_resumed_run': len(db), 'names_resumed_run': names}
    finally:
        shutil.rmtree(d, ignore_errors=True)


def save_without_out_dir_base():
    """C14 (minor, outside the property's statement): pipeline.fprints_from_mol(mol, save=True) without out_dir_base in
    fprint_params formats None into the directory name: the single-level branch writes to ./None5/<name>.fp.bz2
    ("{!s}{:d}".format(None, 5)), the all_iters branch raises TypeError ("{:s}".format(None))."""
    from e3fp.fingerprint import generate as G
    m = _mols(1)[0]
    d = tempfile.mkdtemp(prefix='repro_pipeline_', dir=os.path.join(core.VERIF, 'work'))
    cwd = os.getcwd()
    os.chdir(d)
    try:
        G.fprints_dict_from_mol(m, first=1, level=2, save=True)
        made = sorted(os.listdir(d))
        try:
            G.fprints_dict_from_mol(m, first=1, level=2, save=True, all_iters=True)
            err = None
        except Exception as e:  # noqa
            err = type(e).__name__
        return {'defect_present': made == ['None2'], 'directories_created_in_cwd': made, 'all_iters_error': err}
    finally:
        os.chdir(cwd)
        shutil.rmtree(d, ignore_errors=True)


def smiles_save_resume_typeerror():
    """C14/C15 (minor, outside the statements): pipeline.confs_from_smiles(save=True) when the conformer file already
    exists: generate_conformers returns False ("already exists. Skipping.") and `confgen_result[0]` raises TypeError
    ('bool' object is not subscriptable) instead of skipping or reloading."""
    from e3fp import pipeline
    d = tempfile.mkdtemp(prefix='repro_pipeline_', dir=os.path.join(core.VERIF, 'work'))
    try:
        cp = {'num_conf': 2, 'seed': 3, 'out_dir': d}
        pipeline.confs_from_smiles('CCO', 'eth', confgen_params=cp, save=True)
        try:
            pipeline.confs_from_smiles('CCO', 'eth', confgen_params=cp, save=True)
            err = None
        except Exception as e:  # noqa
            err = '%s: %s' % (type(e).__name__, e)
        return {'defect_present': err is not None and err.startswith('TypeError'), 'second_call': err}
    finally:
        shutil.rmtree(d, ignore_errors=True)


if __name__ == '__main__':
    from rdkit import RDLogger
    RDLogger.DisableLog('rdApp.*')
    for f in (empty_name_yields_nothing, resumed_batch_database_incomplete, save_without_out_dir_base, smiles_save_resume_typeerror):
        print(f.__name__, f())
