"""Reproduction of the boundary of property C03 (independence of atom numbering), found by the C03 prover.
Usage: PYTHONPATH=/repo/src /venv/bin/python findings/repro_relabel.py [name ...]
Each function returns None when the property holds and a string describing the failure otherwise."""
import sys, os, tempfile, warnings, logging
sys.modules['mpi4py'] = None
os.environ.setdefault('NUMBA_CACHE_DIR', tempfile.mkdtemp(prefix='nbc'))
warnings.filterwarnings('ignore')
logging.disable(logging.WARNING)
from rdkit import Chem
from rdkit.Geometry import Point3D
from e3fp.fingerprint import fprinter


def _mol(coords):
    mol = Chem.MolFromSmiles('O(C)C.[Cl-]')            # atoms: 0 O, 1 C, 2 C, 3 Cl-
    conf = Chem.Conformer(mol.GetNumAtoms())
    for i, (x, y, z) in enumerate(coords):
        conf.SetAtomPosition(i, Point3D(x, y, z))
    mol.AddConformer(conf, assignId=True)
    mol.SetProp('_Name', 'm')
    return mol


def _levels(mol, stereo):
    f = fprinter.Fingerprinter(bits=4294967296, level=5, radius_multiplier=1.718, stereo=stereo, counts=True,
                               include_disconnected=True, remove_duplicate_substructs=True, exclude_floating=False)
    f.run(conf=0, mol=mol)
    return f.current_level, {lv: sorted(int(s.identifier) for s in f.get_shells_at_level(lv))
                             for lv in range(f.current_level + 1)}


NEW_ORDER = [2, 3, 0, 1]      # Chem.RenumberAtoms: new atom i = old atom NEW_ORDER[i]  (old 0->2, 1->3, 2->0, 3->1)


def C03_general_position_instance_holds():
    """Dimethyl ether + chloride, no coincident atoms: the instance evaluated in Properties/C03.v
    (computed_identifiers_agree).  The implementation returns the same identifiers as the model and they do not
    depend on the numbering."""
    m = _mol([(0, 0, 0), (1.1, 0.9, 0), (-1.1, 0.9, 0), (0.3, 2.5, 2.0)])
    a = _levels(m, True); b = _levels(Chem.RenumberAtoms(m, NEW_ORDER), True)
    expected2 = [-1778521339, -1282435739, -222326110, -222326110, 189018378, 628239467, 628239467, 1612004027]
    if a != b:
        return 'numbering dependent: %r vs %r' % (a, b)
    if a[1][2] != expected2:
        return 'differs from the model: %r' % (a,)
    return None


def C03_coincident_atoms_numbering_dependent():
    """Boundary of C03 (theorem fp_relabel_refuted_coincident): a methyl carbon placed exactly ON the oxygen.  The oxygen
    then has two neighbours with identical (bond, identifier) keys, one of them the zero vector; the rule "exactly two
    neighbours and no unique one: take list element 0 as the y axis" (fprinter.py, pick_y) yields stereo codes {0, 2}
    or {1, 0} depending on which of the two is listed first, i.e. on the atom numbering.  The implementation logs
    "Overlapping atoms ... Fingerprinting will continue but is less reliable" and returns a numbering-dependent
    fingerprint: identifiers -1239805014 / -1840199272 versus -396961604 / -1905046005 (exactly the model's values).
    Outside the scope of C03 ("conformers in general position"), hence reported as the sharp boundary, not as a defect."""
    m = _mol([(0, 0, 0), (0, 0, 0), (-1.1, 0.9, 0), (0.3, 2.5, 2.0)])
    a = _levels(m, True); b = _levels(Chem.RenumberAtoms(m, NEW_ORDER), True)
    if a != b:
        return 'stereo fingerprint depends on the numbering when two atoms coincide: %r vs %r' % (a[1], b[1])
    return None


if __name__ == '__main__':
    names = sys.argv[1:] or [n for n in dir() if n.startswith('C03_')]
    for n in names:
        print(n, '->', globals()[n]())
