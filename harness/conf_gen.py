"""Helpers shared by the C13 / C19 checks: molecules, conformer pools, oracle injection, independent re-measurement,
Gallina literals for the M5 / M8 models.  Nothing here writes under /repo."""
import contextlib
from fractions import Fraction

import core

# small flexible molecules (name, SMILES); stereo centres and double-bond stereo on purpose
MOLS = [
    ('butanol', 'CCCCO'), ('pentane', 'CCCCC'), ('ala_ester', 'C[C@H](N)C(=O)OCC'), ('serinol', 'NC(CO)CO'),
    ('lactate', 'C[C@@H](O)C(=O)OC'), ('crotyl', 'C/C=C/CCO'), ('zbutenol', 'C/C=C\\CCO'), ('ether', 'CCOCCOC'),
    ('thiol', 'CCCCS'), ('amine', 'CCN(CC)CCO'), ('hexenol', 'OCC[C@H](C)CC=C'), ('chlorohydrin', 'ClC[C@H](O)CC'),
    ('glycol', 'OCCOCCO'), ('ketone', 'CCC(=O)CCC'), ('fluoro', 'FC(F)CCCO'), ('diamine', 'NCCCN'),
    ('prolinol', 'OC[C@@H]1CCCN1'), ('phenethyl', 'OCCc1ccccc1'), ('threo', 'C[C@H](O)[C@@H](N)CO'),
    # double-bond configuration defined only through an explicit hydrogen (N-H imines): the hydrogen is part of the stereo description
    ('imine', '[H]/N=C/CC'), ('ketimine', '[H]/N=C(\\C)CC'), ('dienimine', 'CC(=N/[H])/C=C/C'),
]
# molecules with a chosen number of rotatable bonds for get_num_conformers (thresholds 8 and 12)
CHAINS = {n: 'C' * (n + 3) for n in range(0, 16)}     # n-alkane with n+3 carbons has n rotatable bonds (RDKit strict definition)


def frac(x):
    return Fraction(float(x))


def qlit(x):
    return core.qlit(frac(x))


def qlist(xs):
    return core.listlit([qlit(x) for x in xs])


def qmat(rows):
    return core.listlit([qlist(r) for r in rows])


def natlist(xs):
    return '[' + '; '.join('%d%%nat' % int(x) for x in xs) + ']'


def out_lit(acc, energies, rmsds):
    return '(%s, %s, %s)' % (natlist(acc), qlist(energies), qmat(rmsds))


def fopts_lit(first_conformers, ediff, cutoff):
    return '(mkfopts %s %s %s)' % (core.zlit(first_conformers), qlit(ediff), qlit(cutoff))


# --------------------------------------------------------------------------- oracle injection (harness side only)
class _AllChemProxy(object):
    """Stands in for the name `AllChem` *inside e3fp.conformer.generator only*; rdkit itself is not touched."""

    def __init__(self, real, overrides):
        self.__dict__['_real'] = real
        self.__dict__['_over'] = overrides

    def __getattr__(self, k):
        o = self.__dict__['_over']
        if k in o:
            return o[k]
        return getattr(self.__dict__['_real'], k)


@contextlib.contextmanager
def patched_allchem(**overrides):
    import e3fp.conformer.generator as G
    real = G.AllChem
    G.AllChem = _AllChemProxy(real, overrides)
    try:
        yield
    finally:
        G.AllChem = real


def table_oracle(table, calls=None):
    """GetBestRMS(prb, ref, prbId, refId) -> table[prbId][refId]; the conformer ids of a fresh pool are 0..k-1."""
    def f(prb, ref, prb_id, ref_id, *a, **k):
        if calls is not None:
            calls.append((int(prb_id), int(ref_id)))
        return float(table[int(prb_id)][int(ref_id)])
    return f


# --------------------------------------------------------------------------- pools
_POOLS = {}


def embed_pool(smiles, k, seed=7, forcefield='uff', minimise=True):
    """A molecule with explicit hydrogens and (up to) k conformers with ids 0..k-1 built with RDKit directly."""
    from rdkit import Chem
    from rdkit.Chem import AllChem
    key = (smiles, k, seed, forcefield, minimise)
    if key not in _POOLS:
        m = Chem.AddHs(Chem.MolFromSmiles(smiles))
        AllChem.EmbedMultipleConfs(m, numConfs=k, maxAttempts=10 * k, pruneRmsThresh=-1.0, randomSeed=seed, ignoreSmoothingFailures=True)
        if minimise:
            for c in m.GetConformers():
                if forcefield == 'uff':
                    AllChem.UFFGetMoleculeForceField(m, confId=c.GetId()).Minimize()
                else:
                    AllChem.MMFFSanitizeMolecule(m)
                    p = AllChem.MMFFGetMoleculeProperties(m, mmffVariant={'mmff94': 'MMFF94', 'mmff94s': 'MMFF94s'}.get(forcefield, forcefield))
                    AllChem.MMFFGetMoleculeForceField(m, p, confId=c.GetId()).Minimize()
        m.SetProp('_Name', 'pool')
        _POOLS[key] = m
    from rdkit import Chem
    return Chem.Mol(_POOLS[key])


def measure_energies(mol, forcefield='uff'):
    """Independent of e3fp: force-field energy of each conformer of a copy of `mol`."""
    from rdkit import Chem
    from rdkit.Chem import AllChem
    m = Chem.Mol(mol)
    out = []
    for c in m.GetConformers():
        if forcefield == 'uff':
            ff = AllChem.UFFGetMoleculeForceField(m, confId=c.GetId())
        else:
            AllChem.MMFFSanitizeMolecule(m)
            p = AllChem.MMFFGetMoleculeProperties(m, mmffVariant={'mmff94': 'MMFF94', 'mmff94s': 'MMFF94s'}.get(forcefield, forcefield))
            ff = AllChem.MMFFGetMoleculeForceField(m, p, confId=c.GetId())
        out.append(ff.CalcEnergy())
    return out


def measure_rmsds(mol):
    """Independent of e3fp: heavy-atom best-fit RMSD for every ordered pair (probe a, reference b) of conformer positions,
    each on a fresh copy (GetBestRMS moves the probe)."""
    from rdkit import Chem
    from rdkit.Chem import AllChem
    heavy = Chem.RemoveHs(Chem.Mol(mol))
    ids = [c.GetId() for c in heavy.GetConformers()]
    n = len(ids)
    t = [[0.0] * n for _ in range(n)]
    for a in range(n):
        for b in range(n):
            if a != b:
                cp = Chem.Mol(heavy)
                t[a][b] = AllChem.GetBestRMS(cp, cp, ids[a], ids[b])
    return t


def mol_signature(mol):
    """Heavy-atom graph + stereo, atoms, properties and conformers of a molecule, for before/after comparisons."""
    from rdkit import Chem
    props = {}
    for k in mol.GetPropNames(includePrivate=True, includeComputed=False):
        props[k] = mol.GetProp(k)
    confs = []
    for c in mol.GetConformers():
        confs.append((c.GetId(), tuple(tuple(round(x, 10) for x in c.GetAtomPosition(i)) for i in range(mol.GetNumAtoms()))))
    return {
        'smiles': Chem.MolToSmiles(Chem.RemoveHs(Chem.Mol(mol)), isomericSmiles=True),
        'atoms': [(a.GetAtomicNum(), a.GetFormalCharge(), a.GetTotalNumHs(), a.GetDegree()) for a in mol.GetAtoms()],
        'bonds': sorted((b.GetBeginAtomIdx(), b.GetEndAtomIdx(), str(b.GetBondType())) for b in mol.GetBonds()),
        'props': props, 'confs': confs, 'nconf': mol.GetNumConformers(),
    }


def canon_smiles(mol):
    from rdkit import Chem
    m = Chem.RemoveHs(Chem.Mol(mol))
    Chem.AssignStereochemistryFrom3D(m) if False else None
    return Chem.MolToSmiles(m, isomericSmiles=True)


# --------------------------------------------------------------------------- M8 (Files.v) literals and observations
READER_KEYS = ('_MolFileInfo', '_MolFileComments', '_MolFileChiralFlag')      # added by RDKit's reader, not by e3fp


def text_lit(s):
    """A Python str as the model's `text` (UTF-8 bytes)."""
    return core.zlist(list(s.encode('utf-8')))


def classify_token(x):
    """One energy spelling -> ('canon', units) | ('raw', Fraction) | ('bad',)."""
    from decimal import Decimal
    try:
        v = float(x)
    except ValueError:
        return ('bad',)
    if v != v or v in (float('inf'), float('-inf')):
        return ('bad',)
    if x == '%.4f' % v:
        return ('canon', int(Decimal(x).scaleb(4)))          # "-0.0000" -> 0 units (sign of zero dropped: abstraction)
    return ('raw', Fraction(v))


def tok_lit(t):
    if t[0] == 'canon':
        return '(Canon %s)' % core.zlit(t[1])
    if t[0] == 'raw':
        return '(Raw %s)' % core.qlit(t[1])
    return 'Bad'


def classify_prop(key, value):
    """A property value -> model pval description (json-able)."""
    if key == '_ConfEnergies':
        return ('PEn', [] if value == '' else [classify_token(x) for x in value.split('|')])
    if key == 'Energy':
        t = classify_token(value)
        return ('PStr', value) if t[0] == 'bad' else ('PE', t)
    return ('PStr', value)


def pval_lit(pv):
    if pv[0] == 'PEn':
        return '(PEn %s)' % core.listlit([tok_lit(t) for t in pv[1]])
    if pv[0] == 'PE':
        return '(PE %s)' % tok_lit(pv[1])
    return '(PStr %s)' % text_lit(pv[1])


def props_of(mol, drop=READER_KEYS):
    out = {}
    for k in mol.GetPropNames(includePrivate=True, includeComputed=False):
        if k not in drop:
            out[k] = mol.GetProp(k)
    return out


def props_lit(pd):
    return core.listlit(['(%s, %s)' % (core.strlit(k), pval_lit(classify_prop(k, v))) for k, v in sorted(pd.items())])


_GIDS = {}


def graph_id(mol):
    from rdkit import Chem
    s = Chem.MolToSmiles(Chem.RemoveHs(Chem.Mol(mol)), isomericSmiles=True)
    return _GIDS.setdefault(s, len(_GIDS) + 1)


def mol_obs(mol):
    """What the M8 model sees of a molecule."""
    confs = []
    heavy = [a.GetIdx() for a in mol.GetAtoms() if a.GetAtomicNum() > 1]      # the SD reader drops explicit hydrogens (removeHs=True)
    for c in mol.GetConformers():
        xyz = []
        for i in heavy:
            p = c.GetAtomPosition(i)
            xyz += [p.x, p.y, p.z]
        confs.append((c.GetId(), xyz))
    return {'graph': graph_id(mol), 'props': props_of(mol), 'confs': confs}


def mol_lit(o):
    cs = core.listlit(['(cconf %s %s)' % (core.zlit(i), core.listlit([qlit(x) for x in xyz])) for i, xyz in o['confs']])
    return '(cmk %s %s %s)' % (core.zlit(o['graph']), props_lit(o['props']), cs)


def read_first_confs(path, k):
    """Read the first k records of a (possibly compressed) SD file with RDKit only into one multi-conformer molecule."""
    import bz2
    import gzip
    from rdkit import Chem
    op = bz2.open if path.endswith('.bz2') else gzip.open if path.endswith('.gz') else open
    mol = None
    with op(path, 'rb') as f:
        sup = Chem.ForwardSDMolSupplier(f)
        for i, m in enumerate(sup):
            if i >= k:
                break
            if mol is None:
                mol = Chem.Mol(m)
                mol.RemoveAllConformers()
            mol.AddConformer(m.GetConformer(0), assignId=True)
    for kk in READER_KEYS:
        mol.ClearProp(kk)
    return mol
