"""Helpers of the C20 check: extraction of the three sets of defaults (defaults.cfg, Python signatures, argparse
parsers) from the working tree, Gallina literals for configuration values, float tokens.

Everything here is fail-closed: a section, option, entry point or parameter that was there when the check was
written and can no longer be found raises FactsError (the check then reports the broken tie)."""
import argparse
import inspect
import re
import sys


class FactsError(Exception):
    pass


SECTIONS = ('preprocessing', 'conformer_generation', 'fingerprinting')

# options of the packaged defaults file the check was written against (new options are picked up automatically,
# a missing one raises)
EXPECTED_OPTIONS = {
    'preprocessing': ['standardise', 'protonate'],
    'conformer_generation': ['num_conf', 'first', 'pool_multiplier', 'rmsd_cutoff', 'max_energy_diff', 'forcefield',
                             'out_dir', 'compress', 'seed'],
    'fingerprinting': ['bits', 'level', 'first', 'radius_multiplier', 'stereo', 'counts', 'include_disconnected',
                       'rdkit_invariants', 'remove_duplicate_substructs', 'exclude_floating'],
}

_FP9 = ['bits', 'level', 'radius_multiplier', 'stereo', 'counts', 'include_disconnected', 'rdkit_invariants',
        'exclude_floating', 'remove_duplicate_substructs']
_CONF = ['standardise', 'num_conf', 'first', 'pool_multiplier', 'rmsd_cutoff', 'max_energy_diff', 'forcefield', 'seed',
         'out_dir', 'compress']

# entry point -> (kind, module, attribute path, sections its options come from, parameters it must keep having)
ENTRY_POINTS = [
    ('Fingerprinter.__init__', 'sig', 'e3fp.fingerprint.fprinter', 'Fingerprinter.__init__', ['fingerprinting'], _FP9),
    ('fprints_dict_from_mol', 'sig', 'e3fp.fingerprint.generate', 'fprints_dict_from_mol', ['fingerprinting'], _FP9 + ['first']),
    ('fingerprint.generate.run', 'sig', 'e3fp.fingerprint.generate', 'run', ['fingerprinting'], _FP9 + ['first']),
    ('fingerprint.generate.main', 'argparse', 'e3fp.fingerprint.generate', 'main', ['fingerprinting'],
     ['bits', 'first', 'level', 'radius_multiplier', 'stereo', 'counts']),
    ('generate_conformers', 'sig', 'e3fp.conformer.generate', 'generate_conformers', ['conformer_generation', 'preprocessing'], _CONF),
    ('conformer.generate.run', 'sig', 'e3fp.conformer.generate', 'run', ['conformer_generation', 'preprocessing'], _CONF),
    ('conformer.generate.main', 'argparse', 'e3fp.conformer.generate', 'main', ['conformer_generation', 'preprocessing'], _CONF),
    ('ConformerGenerator.__init__', 'sig', 'e3fp.conformer.generator', 'ConformerGenerator.__init__', ['conformer_generation'],
     ['num_conf', 'first', 'rmsd_cutoff', 'max_energy_diff', 'forcefield', 'pool_multiplier', 'seed']),
]


class _Stop(Exception):
    pass


def argparse_defaults(main):
    """Defaults of the parser that `main()` builds, without a source hook: parse_args is intercepted, the defaults
    are read off the actions (argparse's rule: a *string* default goes through the action's `type`)."""
    got = {}
    orig = argparse.ArgumentParser.parse_args

    def fake(self, args=None, namespace=None):
        d = {}
        for a in self._actions:
            if a.default is argparse.SUPPRESS or a.dest == 'help':
                continue
            dv = a.default
            if isinstance(dv, str):
                dv = self._get_value(a, dv)
            d[a.dest] = dv
        got['d'] = d
        raise _Stop()
    argparse.ArgumentParser.parse_args = fake
    old_argv = sys.argv
    sys.argv = ['prog']
    try:
        try:
            main()
        except _Stop:
            pass
    finally:
        argparse.ArgumentParser.parse_args = orig
        sys.argv = old_argv
    if 'd' not in got:
        raise FactsError('%r did not call ArgumentParser.parse_args' % main)
    return got['d']


def signature_defaults(fn):
    out = {}
    for name, p in inspect.signature(fn).parameters.items():
        if p.default is not inspect.Parameter.empty:
            out[name] = p.default
    return out


def _resolve(modname, path):
    import importlib
    try:
        obj = importlib.import_module(modname)
        for part in path.split('.'):
            obj = getattr(obj, part)
    except Exception as e:
        raise FactsError('entry point %s.%s cannot be found: %s' % (modname, path, e))
    return obj


def entry_point_defaults():
    """[(name, kind, sections, {param: default})] for the eight entry points; fail-closed on lost parameters."""
    out = []
    for name, kind, modname, path, sections, must in ENTRY_POINTS:
        fn = _resolve(modname, path)
        d = argparse_defaults(fn) if kind == 'argparse' else signature_defaults(fn)
        for p in must:
            if p not in d:
                raise FactsError('entry point %s no longer has a parameter/option %r with a default' % (name, p))
        out.append((name, kind, list(sections), d))
    return out


def defaults_file():
    """(path, text, [(section, [(option, raw value)])]) as Python's ConfigParser reads the packaged file."""
    from configparser import ConfigParser
    from e3fp.config import params as P
    path = P.DEF_PARAM_FILE
    text = open(path).read()
    cp = ConfigParser()
    if cp.read([path]) != [path]:
        raise FactsError('defaults file %s cannot be read' % path)
    parsed = [(s, [(k, cp.get(s, k, raw=True)) for k in cp.options(s)]) for s in cp.sections()]
    have = dict((s, dict(kv)) for s, kv in parsed)
    for s in SECTIONS:
        if s not in have:
            raise FactsError('section [%s] disappeared from %s' % (s, path))
        for o in EXPECTED_OPTIONS[s]:
            if o not in have[s]:
                raise FactsError('option %s.%s disappeared from %s' % (s, o, path))
    # what the library itself loaded at import must be this file
    lib = [(s, [(k, P.default_params.get(s, k, raw=True)) for k in P.default_params.options(s)]) for s in P.default_params.sections()]
    if lib != parsed:
        raise FactsError('e3fp.config.params.default_params differs from a fresh reading of %s' % path)
    return path, text, parsed


# --------------------------------------------------------------------------- Gallina literals
def coq_string(s):
    for c in s:
        if not (32 <= ord(c) <= 126 or c in '\t\n'):
            raise FactsError('character %r outside the modelled alphabet in %r' % (c, s[:60]))
    return '"' + s.replace('"', '""') + '"%string'


def modelled(s):
    return all(32 <= ord(c) <= 126 or c in '\t\n' for c in s)


def dval(x):
    """Typed default -> Gallina dval (type-exact: True is a bool, not the int 1)."""
    if x is None:
        return 'DNone'
    if type(x) is bool:
        return 'DBool %s' % ('true' if x else 'false')
    if type(x) is int:
        return 'DInt (%d)%%Z' % x
    if type(x) is float:
        return 'DFloat %s' % coq_string(repr(x))
    if type(x) is str and modelled(x):
        return 'DStr %s' % coq_string(x)
    r = repr(x)
    return 'DOther %s' % coq_string(r if modelled(r) else r.encode('ascii', 'replace').decode())


FTOK_RE = re.compile(r'^(-?)(\d+)(?:\.(\d+))?(?:e([+-])(\d+))?$')


def ftok_literal(tok):
    """repr(float) token of a finite float -> Gallina [ftok] record, or None when it has not the expected shape."""
    m = FTOK_RE.match(tok)
    if not m or (m.group(3) is None and m.group(5) is None):
        return None
    frac = 'None' if m.group(3) is None else '(Some %s)' % coq_string(m.group(3))
    exp = 'None' if m.group(5) is None else '(Some (%s, %s))' % ('true' if m.group(4) == '-' else 'false', coq_string(m.group(5)))
    return '(mkftok %s %s %s %s)' % ('true' if m.group(1) else 'false', coq_string(m.group(2)), frac, exp)
