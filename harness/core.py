"""Shared machinery of the /verif checks: environment, Coq build and evaluation, evidence, findings.

Every property module in harness/props/ exposes `run(ctx)`; it uses the helpers here to
 (1) rebuild the Coq development against facts regenerated from /repo's working tree,
 (2) re-check its Properties/<ID>.v file (theorems + Print Assumptions),
 (3) run the correspondence: the implementation in this process, the model inside coqc (vm_compute),
 (4) classify failures against known_findings.json and write evidence / replay files.
"""
import fcntl
import hashlib
import json
import os
import random
import re
import shutil
import subprocess
import sys
import tempfile
import time

VERIF = os.path.dirname(os.path.dirname(os.path.abspath(__file__)))
REPO = os.environ.get('VERIF_REPO', '/repo')
COQ = os.path.join(VERIF, 'coq')
THEORIES = os.path.join(COQ, 'theories')
NCPU = os.cpu_count() or 8


# --------------------------------------------------------------------------- environment
def setup_env():
    """Force the interpreter onto /repo's working tree and keep it from writing into /repo."""
    src = os.path.join(REPO, 'src')
    sys.path[:] = [p for p in sys.path if os.path.abspath(p or '.') != src]
    sys.path.insert(0, src)
    os.environ['PYTHONPATH'] = src
    os.environ.setdefault('PYTHONHASHSEED', '0')
    os.makedirs(os.path.join(VERIF, 'work'), exist_ok=True)
    os.environ.setdefault('NUMBA_CACHE_DIR', os.path.join(VERIF, 'work', 'numba_cache'))
    os.environ['KEISERLAB_E3FP_VERIF'] = '1'
    # mpi4py is installed without libmpi: importing it raises RuntimeError (not ImportError) and
    # python_utilities.parallel cannot fall back.  Shim in the harness process only.
    sys.modules['mpi4py'] = None
    import warnings
    warnings.filterwarnings('ignore')
    import logging
    logging.disable(logging.CRITICAL)


def sh(cmd, timeout=600, cwd=None, env=None):
    p = subprocess.run(cmd, shell=isinstance(cmd, str), cwd=cwd, env=env, timeout=timeout,
                       stdout=subprocess.PIPE, stderr=subprocess.STDOUT, text=True)
    return p.returncode, p.stdout


# --------------------------------------------------------------------------- Coq build
class CoqBuildError(Exception):
    def __init__(self, target, log):
        Exception.__init__(self, 'coq build failed for %s' % target)
        self.target, self.log = target, log


def _all_v_files():
    out = []
    for d, _, fs in os.walk(THEORIES):
        for f in sorted(fs):
            if f.endswith('.v'):
                out.append(os.path.relpath(os.path.join(d, f), COQ))
    return sorted(out)


def write_coqproject():
    txt = '-Q theories E3FP\n-arg -w -arg -all\n' + '\n'.join(_all_v_files()) + '\n'
    p = os.path.join(COQ, '_CoqProject')
    old = open(p).read() if os.path.exists(p) else None
    if old != txt:
        open(p, 'w').write(txt)
        return True
    return False


def coq_make(targets=None, timeout=3000, keep_going=False):
    """Regenerate Gen/*.v from the source, then (incrementally) build `targets` (.vo paths relative to coq/),
    or everything.  Serialised by a file lock.  Raises CoqBuildError with the log."""
    lock = open(os.path.join(VERIF, 'work', '.coq.lock'), 'w')
    fcntl.flock(lock, fcntl.LOCK_EX)
    try:
        return _build_locked(targets, timeout, keep_going)
    finally:
        fcntl.flock(lock, fcntl.LOCK_UN)
        lock.close()


def _build_locked(targets, timeout=3000, keep_going=False):
    """The build proper; the caller holds the exclusive lock."""
    import facts
    facts.regenerate(os.path.join(THEORIES, 'Gen'))
    changed = write_coqproject()
    if changed or not os.path.exists(os.path.join(COQ, 'Makefile')):
        rc, out = sh('coq_makefile -f _CoqProject -o Makefile', cwd=COQ)
        if rc:
            raise CoqBuildError('Makefile', out)
    tgt = ' '.join(targets) if targets else ''
    rc, out = sh('timeout %d make %s -j%d %s 2>&1' % (timeout, '-k' if keep_going else '', NCPU, tgt), cwd=COQ, timeout=timeout + 30)
    if rc:
        raise CoqBuildError(tgt or 'all', out[-6000:])
    return out


class gen_in_step(object):
    """Context manager around every evaluation of the model: under the exclusive lock the generated facts are brought in step with
    THIS run's tree (a no-op unless another run, against another tree, rewrote coq/theories/Gen in between - then the imported
    theories are rebuilt), then the lock is downgraded to shared for the duration of the evaluation, so that evaluations run in
    parallel with each other but never while somebody regenerates or rebuilds."""

    def __init__(self, imports, targets=None):
        self.targets = targets if targets is not None else sorted(set('theories/%s.vo' % m.replace('.', '/') for l in imports for m in re.findall(r'\b((?:Base|Model|Exec|Proofs|Gen)\.[A-Za-z0-9_]+)', l)))

    def __enter__(self):
        import facts
        gen = os.path.join(THEORIES, 'Gen')
        self.lock = open(os.path.join(VERIF, 'work', '.coq.lock'), 'w')
        for attempt in range(50):
            # shared lock first: while it is held nobody can regenerate or rebuild (they need the exclusive lock)
            fcntl.flock(self.lock, fcntl.LOCK_SH)
            ok = facts.in_step(gen)
            if ok and self.targets and os.path.exists(os.path.join(COQ, 'Makefile')):
                rc, _ = sh('make -q %s >/dev/null 2>&1' % ' '.join(self.targets), cwd=COQ, timeout=120)
                ok = rc == 0 or any(not os.path.exists(os.path.join(THEORIES, 'Gen', g + '.v')) for g in
                                    set(re.findall(r'Gen/([A-Za-z0-9_]+)\.vo', ' '.join(self.targets))))
            if ok:
                return self
            # stale (another run, against another tree, rewrote the facts): release, rebuild under the exclusive lock, re-verify
            fcntl.flock(self.lock, fcntl.LOCK_UN)
            fcntl.flock(self.lock, fcntl.LOCK_EX)
            try:
                facts.regenerate(gen)
                if self.targets:
                    try:
                        _build_locked(self.targets)
                    except CoqBuildError:
                        fcntl.flock(self.lock, fcntl.LOCK_UN)
                        fcntl.flock(self.lock, fcntl.LOCK_SH)
                        if facts.in_step(gen):
                            return self     # in step, but a theory does not build on this tree: the evaluation reports it per case
                        continue
            finally:
                pass
            fcntl.flock(self.lock, fcntl.LOCK_UN)
        fcntl.flock(self.lock, fcntl.LOCK_SH)
        return self

    def __exit__(self, *a):
        fcntl.flock(self.lock, fcntl.LOCK_UN)
        self.lock.close()
        return False


# axioms that may appear in `Print Assumptions` output, per property (everything else fails the check)
REAL_AXIOMS = {'ClassicalDedekindReals.sig_forall_dec', 'ClassicalDedekindReals.sig_not_dec', 'Classical_Prop.classic',
               'FunctionalExtensionality.functional_extensionality_dep'}
AXIOM_ALLOW = {'C01': {'ClassicalDedekindReals.sig_forall_dec', 'FunctionalExtensionality.functional_extensionality_dep'},
               'C02': set(REAL_AXIOMS)}        # C02 additionally: Coq's primitive 63-bit integers (Interval), matched by prefix
AXIOM_ALLOW_PREFIX = {'C02': ('PrimInt63.', 'Uint63.')}
FORBIDDEN = ('Admitted', 'admit.', 'admit;', 'give_up', 'Axiom ', 'Axioms ', 'Parameter ', 'Parameters ', 'Conjecture ', 'Unset Guard',
             'Unset Universe', 'Unset Positivity', 'bypass_check', 'type-in-type', 'Abort')


def scan_forbidden():
    """Forbidden tokens anywhere in the development (comments stripped); a Variable/Hypothesis/Context outside a Section."""
    bad = []
    for rel in _all_v_files():
        if rel.startswith('theories/Gen/'):
            continue
        text = re.sub(r'\(\*.*?\*\)', '', open(os.path.join(COQ, rel)).read(), flags=re.S)
        for tok in FORBIDDEN:
            if tok in text:
                bad.append('%s: %r' % (rel, tok))
        depth = 0
        for line in text.split('\n'):
            st = line.strip()
            if re.match(r'Section\s+\w+', st):
                depth += 1
            elif re.match(r'End\s+\w+\s*\.', st) and depth > 0:
                depth -= 1
            elif depth == 0 and re.match(r'(Variable|Variables|Hypothesis|Hypotheses|Context)\b', st):
                bad.append('%s: %s outside a Section' % (rel, st[:60]))
    return bad


THEOREM_RE = re.compile(r'^\s*(Theorem|Lemma|Corollary|Example|Fact|Proposition)\s+([A-Za-z0-9_\']+)', re.M)


def _check_one_properties_file(pid, rel, timeout):
    """Build the dependencies of one statements file, compile it afresh and parse the Print Assumptions output."""
    src = os.path.join(COQ, rel)
    base = os.path.basename(rel)
    text = open(src).read()
    text_nc = re.sub(r'\(\*.*?\*\)', '', text, flags=re.S)
    theorems = [m.group(2) for m in THEOREM_RE.finditer(text_nc)]
    kinds = [m.group(1) for m in THEOREM_RE.finditer(text_nc)]
    res = {'obligations': len(theorems), 'discharged': 0, 'theorems': theorems, 'axioms': [], 'ok': False,
           'n_theorems': sum(1 for k in kinds if k != 'Example'), 'n_examples': sum(1 for k in kinds if k == 'Example'),
           'log': '', 'checker_cmd': 'coqc -Q theories E3FP %s (after make of its dependencies; Coq 8.16.1)' % rel}
    try:
        coq_make([rel + 'o'], timeout=timeout)
    except CoqBuildError as e:
        import facts
        res['log'] = e.log + ''.join('\nsource facts could not be regenerated by harness/%s: %s' % kv for kv in sorted(facts.ERRORS.items()))
        # how many statements were accepted before the failure?  count via the error line number
        m = re.search(r'File "[^"]*Properties/%s", line (\d+)' % re.escape(base), e.log)
        if m:
            line = int(m.group(1))
            upto = '\n'.join(text.split('\n')[:line - 1])
            upto = re.sub(r'\(\*.*?\*\)', '', upto, flags=re.S)
            res['discharged'] = max(0, len(THEOREM_RE.findall(upto)) - 1)
            res['broken'] = [t for t in theorems[res['discharged']:]][:1]
        else:
            res['broken'] = ['(a dependency of Properties/%s)' % base]
        return res
    # fresh compile (make may have had it up to date): output carries the Print Assumptions text
    wd = tempfile.mkdtemp(prefix='prop_', dir=os.path.join(VERIF, 'work'))
    try:
        with gen_in_step([], targets=[rel + 'o']):
            rc, out = sh('timeout %d coqc -w -all -Q theories E3FP -o %s/%s.vo %s' % (timeout, wd, base[:-2], rel), cwd=COQ,
                         timeout=timeout + 30)
    finally:
        shutil.rmtree(wd, ignore_errors=True)
    res['log'] = out[-4000:]
    if rc:
        res['broken'] = ['(coqc failed on Properties/%s)' % base]
        return res
    closed = out.count('Closed under the global context')
    axioms = set()
    for blk in re.findall(r'Axioms:\s*\n((?:[^\n]*\n?)*?)(?=Closed under|Axioms:|\Z)', out):
        for m in re.finditer(r'^([A-Za-z_][A-Za-z0-9_.\']*)\s*:', blk, re.M):
            axioms.add(m.group(1))
    res['axioms'] = sorted(axioms)
    res['print_assumptions'] = closed + out.count('Axioms:')
    allow, pref = AXIOM_ALLOW.get(pid, set()), AXIOM_ALLOW_PREFIX.get(pid, ())
    extra = [a for a in axioms if a not in allow and not a.startswith(pref)]
    if extra:
        res['log'] = 'Print Assumptions reports axioms outside the allow-list of %s: %s' % (pid, ', '.join(sorted(extra)))
        res['broken'] = ['(unexpected axioms: %s)' % ', '.join(sorted(extra)[:5])]
        return res
    n_thm = len(re.findall(r'^\s*Theorem\s', text_nc, re.M))
    if res['print_assumptions'] < n_thm:
        res['log'] = 'only %d Print Assumptions outputs for %d Theorems in %s' % (res['print_assumptions'], n_thm, rel)
        res['broken'] = ['(a Theorem without Print Assumptions)']
        return res
    res['discharged'] = len(theorems)
    res['ok'] = True
    return res


def check_properties_file(pid, timeout=900):
    """Re-checks Properties/<pid>.v (the property's theorems about the model) and, when present, Properties/<pid>Src.v (theorems
    that the hand-written model equals definitions TRANSLATED from the source text on this run, Gen/*Source.v).
    Returns a dict: obligations, discharged, theorems, axioms, ok, log, [broken], [source_tie].

    The two files are treated differently in exactly one situation.  When the translator cannot READ the source any more (it is
    fail-closed: an unknown construct raises), the Src obligations cannot even be stated; they are then reported as NOT ATTEMPTED
    (`source_tie.status = "unreadable"`), the run is told to deepen its correspondence (ctx.escalate), and the property remains
    decided by the theorems of <pid>.v plus the model/implementation correspondence - the tie this framework had before the
    translator existed.  That the translator cannot parse a rewritten function says something about the translator, not about
    the code.  When the source IS translated and a Src theorem no longer holds, the model provably differs from the source text:
    that is a broken obligation like any other."""
    rel = 'theories/Properties/%s.v' % pid
    if not os.path.exists(os.path.join(COQ, rel)):
        return {'obligations': 0, 'discharged': 0, 'theorems': [], 'axioms': [], 'ok': False, 'broken': ['Properties/%s.v is missing' % pid],
                'log': 'Properties/%s.v is missing' % pid, 'checker_cmd': 'coqc (file missing)'}
    bad = scan_forbidden()
    if bad:
        return {'obligations': 0, 'discharged': 0, 'theorems': [], 'axioms': [], 'ok': False, 'broken': bad[:5], 'checker_cmd': 'scan of the sources',
                'log': 'forbidden construct in the development: ' + '; '.join(bad[:5])}
    res = _check_one_properties_file(pid, rel, timeout)
    src_rel = 'theories/Properties/%sSrc.v' % pid
    if not os.path.exists(os.path.join(COQ, src_rel)):
        return res
    import facts
    text = re.sub(r'\(\*.*?\*\)', '', open(os.path.join(COQ, src_rel)).read(), flags=re.S)
    gens = sorted(set(re.findall(r'Gen\.([A-Za-z0-9_]+)', text)))
    with gen_in_step([], targets=[]):          # the generated facts on disk are those of THIS run's tree while we look
        missing = [g for g in gens if not os.path.exists(os.path.join(THEORIES, 'Gen', g + '.v'))]
        errors_now = dict(facts.ERRORS)
    n_src = len(THEOREM_RE.findall(text))
    if missing and errors_now:
        res['source_tie'] = {'status': 'unreadable', 'file': src_rel, 'obligations_not_attempted': n_src, 'generated_files_missing': missing,
                             'translator_errors': {k: v.split('\n')[0][:300] for k, v in errors_now.items()}}
        return res
    r2 = _check_one_properties_file(pid, src_rel, timeout)
    res['source_tie'] = {'status': 'checked' if r2['ok'] else 'broken', 'file': src_rel, 'obligations': r2['obligations'], 'discharged': r2['discharged']}
    res['obligations'] += r2['obligations']
    res['discharged'] += r2['discharged']
    res['theorems'] = res['theorems'] + r2['theorems']
    res['n_theorems'] = (res.get('n_theorems') or 0) + (r2.get('n_theorems') or 0)
    res['n_examples'] = (res.get('n_examples') or 0) + (r2.get('n_examples') or 0)
    res['axioms'] = sorted(set(res['axioms']) | set(r2['axioms']))
    res['checker_cmd'] += ' ; the same for %s' % src_rel
    if not r2['ok']:
        if res['ok']:
            res['log'] = r2['log']
            res['broken'] = r2.get('broken', ['?'])
        res['ok'] = False
    return res


# --------------------------------------------------------------------------- Coq evaluation
def zlit(n):
    n = int(n)
    return '(%d)%%Z' % n if n < 0 else '%d%%Z' % n


def zlist(xs):
    return '[' + '; '.join(zlit(x) for x in xs) + ']'


def blit(b):
    return 'true' if b else 'false'


def optlit(x, f=zlit):
    return 'None' if x is None else '(Some %s)' % f(x)


def strlit(s):
    return '"' + s.replace('"', '""') + '"%string'


def qlit(fr):
    """Exact rational literal from a Fraction."""
    from fractions import Fraction
    fr = Fraction(fr)
    return '(Qmake %s %d)' % (zlit(fr.numerator), fr.denominator)


def pairlit(a, b):
    return '(%s, %s)' % (a, b)


def listlit(xs):
    return '[' + '; '.join(xs) + ']'


FLAG_RE = re.compile(r'\(\s*(\d+)(?:%[A-Za-z]+)?\s*,\s*(true|false)\s*\)')


def coq_eval_bools(cases, imports, workdir, shard=300, timeout=1200, prelude=''):
    """cases: list of (key, coq_bool_expr).  Evaluates every expression with vm_compute inside coqc, in
    parallel shards.  Returns dict key -> True/False/None (None: the shard did not evaluate) and the logs."""
    os.makedirs(workdir, exist_ok=True)
    keys = [k for k, _ in cases]
    if len(set(keys)) != len(keys):
        dup = sorted(set(k for k in keys if keys.count(k) > 1))[:5]
        raise RuntimeError('duplicate case keys handed to coq_eval_bools (a later result would overwrite an earlier one): %r' % dup)
    shards = [cases[i:i + shard] for i in range(0, len(cases), shard)]
    files = []
    header = ''.join('%s\n' % l for l in imports) + 'Open Scope Z_scope.\nSet Printing Width 1000.\n' + \
        'Set Printing Depth 100000.\n' + prelude + '\n'
    idx = 0
    index_of = {}
    for si, sh_cases in enumerate(shards):
        fn = os.path.join(workdir, 'cases_%04d.v' % si)
        with open(fn, 'w') as f:
            f.write(header)
            for k, expr in sh_cases:
                index_of[idx] = k
                f.write('Eval vm_compute in (%d%%N, (%s)).\n' % (idx, expr))
                idx += 1
        files.append(fn)
    procs = []
    results, logs = {}, {}
    running = []

    def launch(fn):
        return subprocess.Popen('ulimit -s unlimited 2>/dev/null; timeout %d coqc -w -all -Q %s E3FP %s' % (timeout, THEORIES, fn),
                                shell=True, cwd=workdir, stdout=subprocess.PIPE, stderr=subprocess.STDOUT, text=True)
    pending = list(files)
    with gen_in_step(imports):
        while pending or running:
            while pending and len(running) < NCPU:
                fn = pending.pop(0)
                running.append((fn, launch(fn)))
            fn, p = running.pop(0)
            out, _ = p.communicate()
            logs[fn] = out
            for m in FLAG_RE.finditer(out):
                results[index_of[int(m.group(1))]] = (m.group(2) == 'true')
    for k in keys:
        results.setdefault(k, None)
    return results, logs


def coq_eval_raw(expr, imports, workdir, timeout=300, prelude=''):
    """Evaluate one expression and return Coq's printed answer (for replay files)."""
    os.makedirs(workdir, exist_ok=True)
    fn = os.path.join(workdir, 'raw_%s.v' % hashlib.sha1(expr.encode()).hexdigest()[:10])
    with open(fn, 'w') as f:
        f.write(''.join('%s\n' % l for l in imports) + 'Open Scope Z_scope.\nSet Printing Width 200.\n' + prelude +
                '\nEval vm_compute in (%s).\n' % expr)
    with gen_in_step(imports):
        rc, out = sh('ulimit -s unlimited 2>/dev/null; timeout %d coqc -w -all -Q %s E3FP %s' % (timeout, THEORIES, fn), cwd=workdir,
                     timeout=timeout + 30)
    return out.strip()


# --------------------------------------------------------------------------- findings
def load_findings():
    p = os.path.join(VERIF, 'known_findings.json')
    if not os.path.exists(p):
        return []
    return json.load(open(p)).get('findings', [])


# --------------------------------------------------------------------------- context / reporting
class Ctx(object):
    def __init__(self, pid, tier, seed):
        self.pid, self.tier, self.seed = pid, tier, seed
        self.rng = random.Random('%s-%s' % (pid, seed))
        self.t0 = time.time()
        self.workdir = tempfile.mkdtemp(prefix='%s.%d.' % (pid, os.getpid()), dir=os.path.join(VERIF, 'work'))
        self.coverage = {'evaluations': 0, 'distinct_nontrivial': 0, 'traces_validated_against_impl': 0,
                         'samples': [], 'rule': '', 'obligations': 0, 'discharged': 0,
                         'checker_cmd': '', 'trusted_base': []}
        self.assumptions = []
        self.violations = []       # list of dict(kind, what, replay_payload, finding_key, no_input)
        self.known_hits = []       # list of (finding, what)
        self.notes = []
        self.distinct = set()
        self.findings = [f for f in load_findings() if f.get('property') == pid]

    @property
    def quick(self):
        return self.tier == 'quick'

    def n(self, quick, thorough):
        if self.quick and getattr(self, 'escalate', False) and isinstance(quick, (int, float)) and isinstance(thorough, (int, float)):
            # the source-derived obligations could not be attempted on this tree (translator could not read the source): the
            # correspondence carries the tie alone and is run deeper (geometric mean of the two tiers' sizes)
            return max(quick, int(round((quick * thorough) ** 0.5)))
        return quick if self.quick else thorough

    # -- bookkeeping
    def count(self, key=None, nontrivial=True, n=1):
        self.coverage['evaluations'] += n
        if key is not None and nontrivial:
            self.distinct.add(key if isinstance(key, (str, int, tuple)) else json.dumps(key, sort_keys=True, default=str))

    def sample(self, s, maxn=6):
        if len(self.coverage['samples']) < maxn:
            self.coverage['samples'].append(s)

    def fail(self, what, payload, finding_key=None, no_input=False, kind='correspondence'):
        """Record a failure.  If `finding_key` matches a listed known finding (status known) it is reported as
        KNOWN-FINDING, otherwise as a VIOLATION."""
        for f in self.findings:
            if f.get('status') == 'known' and finding_key is not None and f.get('key') == finding_key:
                self.known_hits.append((f, what))
                return
        self.violations.append({'kind': kind, 'what': what, 'payload': payload, 'no_input': no_input,
                                'finding_key': finding_key})

    def proof_result(self, res):
        self.coverage['obligations'] = res['obligations']
        self.coverage['discharged'] = res['discharged']
        self.coverage['checker_cmd'] = res['checker_cmd']
        self.coverage['theorems'] = res['theorems']
        self.coverage['obligations_breakdown'] = {'theorems': res.get('n_theorems'), 'non_vacuity_examples': res.get('n_examples')}
        self.coverage['axioms_reported_by_Print_Assumptions'] = res['axioms']
        self.proof = res
        tie = res.get('source_tie')
        if tie:
            self.coverage['source_derived_obligations'] = tie
            if tie['status'] == 'unreadable':
                self.escalate = True
                msg = ('source-derived obligations NOT ATTEMPTED: the translator could not read the current source text (%s); the %d theorems of %s '
                       'are not part of this run; the property is decided by the theorems of Properties/%s.v and a deepened correspondence'
                       % ('; '.join('%s: %s' % kv for kv in sorted(tie['translator_errors'].items())), tie['obligations_not_attempted'], tie['file'], self.pid))
                print('WARNING: ' + msg)
                self.notes.append(msg)
        return res['ok']

    def finish(self):
        cov = self.coverage
        # backstop: a broken proof obligation is ALWAYS reported.  Property modules call report_broken_proof(found_input) after
        # their search; if a module mis-counts (e.g. takes a reproduced known finding for a found input) the run would otherwise
        # end quietly with discharged < obligations.
        proof = getattr(self, 'proof', None)
        if proof is not None and not proof.get('ok') and not self.violations:
            self.fail('proof obligation no longer checks: %s\n%s' % (', '.join(proof.get('broken', ['?'])), proof.get('log', '')[-1500:]),
                      {'broken_theorem_or_file': proof.get('broken'), 'log_tail': proof.get('log', '')[-3000:]},
                      no_input=True, kind='proof-obligation')
        cov['distinct_nontrivial'] = len(self.distinct)
        tb = ['Coq 8.16.1 kernel incl. vm_compute (no native_compute)',
              'axioms reported by Print Assumptions on this run: %s' % (', '.join(cov.get('axioms_reported_by_Print_Assumptions', [])) or 'none (closed under the global context)'),
              'hand-written Gallina model tied to /repo by the correspondence harness (harness/props/%s.py) and by facts regenerated into coq/theories/Gen/' % self.pid.lower(),
              'Python harness: canonicalisation of observations and printing of Gallina literals']
        cov['trusted_base'] = tb + list(cov.get('trusted_base', []))
        seen = set()
        printed = []
        for f, what in self.known_hits:
            if f['id'] not in seen:
                seen.add(f['id'])
                print('KNOWN-FINDING: property=%s %s [%s]' % (self.pid, f.get('what', what), f['id']))
        os.makedirs(os.path.join(VERIF, 'replays'), exist_ok=True)
        nviol = 0
        seen_v = {}
        for v in self.violations:
            key = (v['kind'], v.get('finding_key') or v['what'][:60])
            seen_v[key] = seen_v.get(key, 0) + 1
            if seen_v[key] > 2 or nviol >= 12:
                continue
            nviol += 1
            body = {'property': self.pid, 'seed': self.seed, 'tier': self.tier, 'kind': v['kind'], 'what': v['what'],
                    'case': v['payload']}
            blob = json.dumps(body, sort_keys=True, default=str, indent=1)
            rp = os.path.join(VERIF, 'replays', '%s-%s.json' % (self.pid, hashlib.sha1(blob.encode()).hexdigest()[:12]))
            open(rp, 'w').write(blob)
            print('VIOLATION property=%s replay=%s%s' % (self.pid, rp, ' no-failing-input-found' if v['no_input'] else ''))
            print('  ' + v['what'][:300].replace('\n', ' '))
        ev = {'property_id': self.pid, 'tier': self.tier, 'seed': self.seed, 'level': 'proof', 'coverage': cov,
              'assumptions': self.assumptions, 'wall_s': round(time.time() - self.t0, 2),
              'violations': len(self.violations), 'known_findings_reproduced': sorted(seen), 'notes': self.notes}
        try:
            head = subprocess.check_output(['git', '-C', REPO, 'rev-parse', '--short', 'HEAD'], stderr=subprocess.DEVNULL, text=True).strip()
            dirty = bool(subprocess.check_output(['git', '-C', REPO, 'status', '--porcelain', '--', 'src', 'tests'], stderr=subprocess.DEVNULL, text=True).strip())
        except Exception:
            head, dirty = 'unknown', None
        ev['repo'] = {'path': REPO, 'head': head, 'working_tree_modified': dirty}
        # evidence/ describes /repo itself; runs against another tree (self-tests with VERIF_REPO) never overwrite it
        evdir = os.path.join(VERIF, 'evidence') if os.path.realpath(REPO) == '/repo' else os.path.join(VERIF, 'work', 'evidence_other_tree')
        os.makedirs(evdir, exist_ok=True)
        tmp = os.path.join(evdir, '.%s.%d.tmp' % (self.pid, os.getpid()))
        json.dump(ev, open(tmp, 'w'), indent=1, default=str)
        os.replace(tmp, os.path.join(evdir, '%s.json' % self.pid))
        shutil.rmtree(self.workdir, ignore_errors=True)
        print('%s %s: %d obligations / %d discharged, %d evaluations (%d distinct non-trivial), %d violation(s), %d known finding(s), %.1fs'
              % (self.pid, self.tier, cov['obligations'], cov['discharged'], cov['evaluations'], cov['distinct_nontrivial'],
                 len(self.violations), len(seen), time.time() - self.t0))
        return 1 if self.violations else 0


def proof_step(ctx):
    """Common step 2: re-check Properties/<ID>.v.  On failure records a violation without input (the property
    module may afterwards find a concrete failing input and add a violation that carries it)."""
    res = check_properties_file(ctx.pid)
    ok = ctx.proof_result(res)
    if not ok:
        ctx.broken_theorems = res.get('broken', [])
    return ok, res


def report_broken_proof(ctx, res, found_input):
    """Called after the search: if no concrete failing input was found, the broken obligation itself is the violation."""
    # `found_input` as computed by the property module is not trusted on its own (a reproduced KNOWN finding is not a found input):
    # what counts is whether a violation that carries an input has actually been recorded
    if not found_input or not any(not v.get('no_input') for v in ctx.violations):
        ctx.fail('proof obligation no longer checks: %s\n%s' % (', '.join(res.get('broken', ['?'])), res['log'][-1500:]),
                 {'broken_theorem_or_file': res.get('broken'), 'log_tail': res['log'][-3000:]},
                 no_input=True, kind='proof-obligation')


def compare_cases(ctx, cases, imports, what, payloads, finding_key_of=None, shard=300, prelude='', model_expr=None):
    """Run the boolean correspondence cases; for each false/unevaluated case record a failure.
    cases: list of (key, expr); payloads: key -> json-able description of the input and the implementation's observation.
    model_expr: optional key -> Coq expression printing the model's own output (evaluated only for failing cases)."""
    if not cases:
        ctx.fail('%s: no case was generated for this stream (a check that compares nothing proves nothing)' % what, {'stream': what},
                 no_input=True, kind='harness-error')
        return 1
    results, logs = coq_eval_bools(cases, imports, os.path.join(ctx.workdir, 'eval_%d' % len(os.listdir(ctx.workdir))), shard=shard, prelude=prelude)
    bad = [k for k, _ in cases if results.get(k) is not True]
    ctx.coverage['traces_validated_against_impl'] += sum(1 for k, _ in cases if results.get(k) is True)
    shown = 0
    for k in bad:
        pl = dict(payloads.get(k, {}))
        if results.get(k) is None:
            pl['coq_log_tail'] = '\n'.join(l for l in list(logs.values())[0].split('\n') if 'rror' in l or 'File' in l)[-800:]
            msg = '%s: model evaluation did not complete for case %s' % (what, k)
        else:
            msg = '%s: model and implementation disagree on case %s' % (what, k)
            if model_expr and shown < 3:
                pl['model_output'] = coq_eval_raw(model_expr[k], imports, os.path.join(ctx.workdir, 'raw'), prelude=prelude)[-3000:]
                shown += 1
        fk = finding_key_of(k, pl) if finding_key_of else None
        ctx.fail(msg, pl, finding_key=fk)
    return len(bad)
