"""Databases on both sides (model M3, coq/theories/Model/Db.v): random histories over a pool of live
FingerprintDatabase objects, execution on the real e3fp, full observation after every step, Gallina literals.

A *history* is a list of steps; every step is a dict
    {'op': <json-able description>, 'lit': <Gallina `op` literal>, 'res': ('ok', out_lit) | ('err', tag),
     'live': [<observation of every live handle after the step>]}
Handles are indices into the pool in creation order (the model hands out the same numbers: `ONew (length pool)`)."""
import copy
import os
import pickle
import resource
import tempfile
from fractions import Fraction
import numpy as np
from core import zlit, zlist, optlit, strlit, qlit, listlit, blit
import fpgen

KINDS = ('KBit', 'KCount', 'KFloat')
try:
    resource.setrlimit(resource.RLIMIT_AS, (12 * 2 ** 30, 12 * 2 ** 30))    # a densifying path must fail the case, not the machine
except (ValueError, OSError):
    pass
IMPORTS = ['From Coq Require Import QArith.', 'From E3FP Require Import Base.Prelude Base.ZSet Model.Fprint Model.Db.']
DTYPE = {'KBit': np.bool_, 'KCount': np.uint16, 'KFloat': np.float64}
NAMES = ['a', 'b', 'mol_0', 'CHEMBL25_1', 'x y', 'None']
STRS = ['', 'x', 'yy', 'abc', 'a b', 'Z']


NPTYPE = {'int': np.int64, 'float': np.float64, 'bool': np.bool_, 'str': '<U1'}
KIND2TY = {'i': 'int', 'u': 'int', 'f': 'float', 'b': 'bool', 'U': 'str'}


def attempt(f):
    """fpgen.attempt with the one extra class the database model expects: AttributeError is what every method raises on a
    database without matrix (`None.dtype`, `None.nnz`, `None.data`); the model maps it to EOther.  Anything else that is not
    an `err` constructor keeps its EUnexpected_ tag and makes the comparison fail loudly."""
    r = fpgen.attempt(f)
    if r[0] == 'err' and r[1] == 'EUnexpected_AttributeError':
        return ('err', 'EOther')
    return r


def typed(vals, ty):
    """A property column as handed to set_prop/update_props: an EMPTY column carries its dtype (np.append(int_column, [])
    would otherwise promote the stored column to float64 - `[]` is a float64 array)."""
    vals = list(vals)
    return np.array(vals, dtype=NPTYPE[ty or 'int']) if not vals else vals


def ty_of(vals, default='int'):
    for v in vals:
        if isinstance(v, (bool, np.bool_)):
            return 'bool'
        if isinstance(v, (int, np.integer)):
            return 'int'
        if isinstance(v, (float, np.floating, Fraction)):
            return 'float'
        return 'str'
    return default


_FILES = [None]


def set_workdir(path):
    """Where reload operations write their .fpz / .fps files (props modules pass ctx.workdir)."""
    _FILES[0] = os.path.join(path, 'dbfiles')
    os.makedirs(_FILES[0], exist_ok=True)


def files_dir():
    if _FILES[0] is None or not os.path.isdir(_FILES[0]):
        import atexit
        import shutil
        import core
        os.makedirs(os.path.join(core.VERIF, 'work'), exist_ok=True)
        _FILES[0] = tempfile.mkdtemp(prefix='dbgen.', dir=os.path.join(core.VERIF, 'work'))
        atexit.register(shutil.rmtree, _FILES[0], True)
    return _FILES[0]


def mods():
    from e3fp.fingerprint import db as D
    from e3fp.fingerprint import metrics as M
    return D, M


def kind_of_type(t):
    return fpgen.kind_of(t.from_indices([], bits=1)) if t is not None else None


# --------------------------------------------------------------------------------------------- literals
def natlit(n):
    return '%d%%nat' % n


def pval_lit(v):
    if isinstance(v, (bool, np.bool_)):
        return '(VBool %s)' % blit(bool(v))
    if isinstance(v, (int, np.integer)):
        return '(VInt %s)' % zlit(int(v))
    if isinstance(v, (float, np.floating, Fraction)):
        return '(VFloat %s)' % qlit(Fraction(float(v)) if not isinstance(v, Fraction) else v)
    if isinstance(v, str):
        return '(VStr %s)' % strlit(str(v))
    raise TypeError('unsupported property value %r' % (v,))


def pval_json(v):
    if isinstance(v, (bool, np.bool_)):
        return bool(v)
    if isinstance(v, (int, np.integer)):
        return int(v)
    if isinstance(v, (float, np.floating)):
        return float(v)
    if isinstance(v, Fraction):
        return float(v)
    return str(v)


def okey_lit(n):
    return optlit(n, strlit)


def row_lit(r):
    return listlit(['(%s, %s)' % (zlit(i), qlit(v)) for i, v in r])


def col_lit(k, vals):
    return '(%s, %s)' % (strlit(k), listlit([pval_lit(v) for v in vals]))


def kv_lit(kvs):
    return listlit(['(%s, %s)' % (strlit(k), pval_lit(v)) for k, v in kvs])


def db_lit(o):
    return '(mkdb %s %s %s %s %s %s %s)' % (
        o['kind'], optlit(o['level']), optlit(o['bits']), listlit([row_lit(r) for r in o['rows']]),
        listlit([okey_lit(n) for n in o['names']]),
        listlit(['(%s, %s)' % (okey_lit(k), zlist(l)) for k, l in o['index']]),
        listlit([col_lit(k, v) for k, v in o['props']]))


def item_lit(it):
    return '(%s, %s)' % (fpgen.lit(it[0]), kv_lit(it[1]))


def fpin_lit(spec):
    return '(mkfpin %s %s)' % (fpgen.lit(spec['obs']), kv_lit(spec['props']))


# --------------------------------------------------------------------------------------------- observation
def fr(x):
    if isinstance(x, (bool, np.bool_)):
        return Fraction(int(x))
    return fpgen.fr(x)


def obs_db(db):
    """Everything one database holds, read without going through any method that could write."""
    a = db.array
    rows = []
    if a is not None:
        data, ind, ptr = a.data, a.indices, a.indptr
        for i in range(a.shape[0]):
            lo, hi = int(ptr[i]), int(ptr[i + 1])
            rows.append([(int(ind[j]), fr(data[j])) for j in range(lo, hi)])
    props = []
    for k in sorted(db.props):
        v = db.props[k]
        props.append((str(k), [x.item() if hasattr(x, 'item') else x for x in np.asarray(v)]))
    return {'kind': kind_of_type(db.fp_type), 'level': None if db.level is None else int(db.level),
            'bits': None if a is None else int(a.shape[1]), 'rows': rows,
            'names': [None if n is None else str(n) for n in db.fp_names],
            'index': [(None if k is None else str(k), [int(x) for x in l]) for k, l in dict.items(db.fp_names_to_indices)],
            'props': props}


def obs_item(f):
    o = fpgen.obs(f)
    ps = [(str(k), v.item() if hasattr(v, 'item') else v) for k, v in f.props.items() if k != 'Name']
    return (o, ps)


def obs_items(db):
    return [obs_item(db[i]) for i in range(db.fp_num)] if db.array is not None else []


def obs_json(o):
    d = dict(o)
    d['rows'] = [[[i, str(v)] for i, v in r] for r in o['rows']]
    d['props'] = [[k, [pval_json(x) for x in v]] for k, v in o['props']]
    return d


def item_json(it):
    return [fpgen.obs_json(it[0]), [[k, pval_json(v)] for k, v in it[1]]]


# --------------------------------------------------------------------------------------------- fingerprints for add
def rand_props(rng, schema):
    out = []
    for k, t in schema:
        if t == 'int':
            v = rng.choice([0, 1, 2, 7, -3, 10 ** 6])
        elif t == 'float':
            v = float(Fraction(rng.choice([0, 1, 3, 5, -7, 250]), rng.choice([1, 2, 4, 8])))
        elif t == 'bool':
            v = rng.random() < 0.5
        else:
            v = rng.choice(STRS)
        out.append((k, v))
    return out


def make_fp(rng, kind, bits, level, name, props, zero_counts=False, fractional=False, big=False):
    """Returns {'fp': implementation object, 'obs': its observation, 'props': [(k, v)] in dict order}."""
    C = fpgen.classes()[kind]
    idx = fpgen.rand_indices(rng, bits, 6)
    kw = {'bits': bits, 'level': level, 'props': dict(props)}
    if name:
        kw['name'] = name
    if kind == 'KBit':
        f = C.from_indices(np.array(idx, dtype=np.int64), **kw)
    elif kind == 'KCount':
        cnt = {int(i): rng.choice([1, 1, 2, 3, 7, 200] + ([20000, 40000, 65535] * 2 if big else [])) for i in idx}
        if zero_counts and idx:
            cnt[idx[0]] = 0
        f = C.from_counts(cnt, **kw)
    else:
        den = [1, 2, 4, 8] if fractional else [1]
        cnt = {int(i): float(Fraction(rng.choice([1, 2, 3, 5, 9, 250]), rng.choice(den))) for i in idx}
        if zero_counts and idx:
            cnt[idx[0]] = 0.0
        f = C.from_counts(cnt, **kw)
    return {'fp': f, 'obs': fpgen.obs(f), 'props': list(props)}


# --------------------------------------------------------------------------------------------- histories
class History(object):
    """Executes operations on the implementation and records the trace for the model."""
    MAX_LIVE = 6

    def __init__(self, rng, schema=None, bits=None, level='rand', workdir=None):
        self.rng = rng
        self.workdir = workdir
        self.nfiles = 0
        self.pool = []          # handle -> implementation object
        self.live = []          # live handles
        self.steps = []
        self.bits = bits or rng.choice([8, 16, 16, 1024, 2 ** 32])
        self.level = rng.choice([-1, -1, 5, 0, None]) if level == 'rand' else level
        if schema is None:
            ncol = rng.choice([0, 1, 2, 3])
            types = ['int', 'float', 'bool', 'str']
            schema = [('p%d' % i, rng.choice(types)) for i in range(ncol)]
        self.schema = schema
        self.opcount = {}

    # ---- recording
    def observe(self):
        obs = []
        for h in self.live:
            d = self.pool[h]
            o = obs_db(d)
            items = attempt(lambda: obs_items(d))
            eqs = [bool(d == self.pool[g]) for g in self.live]
            obs.append({'h': h, 'db': o, 'items': items[1] if items[0] == 'ok' else 'ERR:' + items[1], 'eq': eqs})
        return obs

    def record(self, tag, desc, lit, res):
        self.opcount[tag] = self.opcount.get(tag, 0) + 1
        self.steps.append({'tag': tag, 'op': desc, 'lit': lit, 'res': res, 'live': self.observe()})

    def new_handle(self, obj):
        self.pool.append(obj)
        h = len(self.pool) - 1
        self.live.append(h)
        while len(self.live) > self.MAX_LIVE:
            self.live.pop(self.rng.randrange(0, len(self.live) - 1))
        return h

    def run_new(self, tag, desc, lit, f):
        """An operation that returns a database."""
        r = attempt(f)
        if r[0] == 'ok':
            h = len(self.pool)
            self.new_handle(r[1])
            res = ('ok', '(ONew %s)' % natlit(h))
        else:
            res = r
        self.record(tag, desc, lit, res)
        return r

    def run_unit(self, tag, desc, lit, f):
        r = attempt(f)
        self.record(tag, desc, lit, ('ok', 'ONone') if r[0] == 'ok' else r)
        return r

    def run_val(self, tag, desc, lit, f, outlit):
        r = attempt(f)
        self.record(tag, desc, lit, ('ok', outlit(r[1])) if r[0] == 'ok' else r)
        return r

    # ---- operations (each returns the attempt result)
    def op_new(self, kind, level):
        D, _ = mods()
        T = fpgen.classes()[kind]
        return self.run_new('new', {'op': 'new', 'kind': kind, 'level': level}, '(OpNew %s %s)' % (kind, optlit(level)),
                            lambda: D.FingerprintDatabase(fp_type=T, level=level))

    def op_from_array(self, kind, level, bits, dense, src_kind, rows, names, cols):
        """rows: storage-order rows of (col, Fraction) in the source dtype; dense rows list every column."""
        D, _ = mods()
        from scipy.sparse import csr_matrix
        T = fpgen.classes()[kind]
        sdt = {'KBit': np.bool_, 'KCount': np.int64, 'KFloat': np.float64}[src_kind]

        def build():
            if dense:
                arr = np.zeros((len(rows), bits), dtype=sdt)
                for i, r in enumerate(rows):
                    for j, v in r:
                        arr[i, j] = float(v) if src_kind == 'KFloat' else int(v)
            else:
                data = np.array([float(v) if src_kind == 'KFloat' else int(v) for r in rows for _, v in r], dtype=sdt)
                ind = np.array([j for r in rows for j, _ in r], dtype=np.int64)
                ptr = np.cumsum([0] + [len(r) for r in rows]).astype(np.int64)
                arr = csr_matrix((data, ind, ptr), shape=(len(rows), bits))
            return D.FingerprintDatabase.from_array(arr, list(names), fp_type=T, level=level,
                                                    props={k: list(v) for k, v in cols})
        lit = '(OpFromArray %s %s %s %s %s %s %s)' % (kind, optlit(level), zlit(bits), blit(dense), listlit([row_lit(r) for r in rows]),
                                                      listlit([okey_lit(n) for n in names]), listlit([col_lit(k, v) for k, v in cols]))
        desc = {'op': 'from_array', 'kind': kind, 'level': level, 'bits': bits, 'dense': dense, 'src_dtype': src_kind,
                'rows': [[[j, str(v)] for j, v in r] for r in rows], 'names': names, 'props': [[k, [pval_json(x) for x in v]] for k, v in cols]}
        return self.run_new('from_array', desc, lit, build)

    def op_add(self, h, fps, tag='add'):
        d = self.pool[h]
        lit = '(OpAdd %s %s)' % (natlit(h), listlit([fpin_lit(f) for f in fps]))
        desc = {'op': 'add', 'h': h, 'fps': [{'fp': fpgen.obs_json(f['obs']), 'props': [[k, pval_json(v)] for k, v in f['props']]} for f in fps]}
        return self.run_unit(tag, desc, lit, lambda: d.add_fingerprints([f['fp'] for f in fps]))

    def col_type(self, h, key, vals, ty=None):
        """dtype of a column handed in empty: the stored column's, else the schema's, else int."""
        if ty:
            return ty
        d = self.pool[h]
        if key in d.props:
            return KIND2TY.get(np.asarray(d.props[key]).dtype.kind, 'int')
        return dict(self.schema).get(key, ty_of(vals))

    def op_set_prop(self, h, key, vals, tag='set_prop', ty=None):
        d = self.pool[h]
        ty = self.col_type(h, key, vals, ty)
        lit = '(OpSetProp %s %s %s)' % (natlit(h), strlit(key), listlit([pval_lit(v) for v in vals]))
        return self.run_unit(tag, {'op': 'set_prop', 'h': h, 'key': key, 'vals': [pval_json(v) for v in vals], 'ty': ty}, lit,
                             lambda: d.set_prop(key, typed(vals, ty)))

    def op_update_props(self, h, cols, tag='update_props', append=False, tys=None):
        d = self.pool[h]
        tys = tys or [self.col_type(h, k, v) for k, v in cols]
        lit = '(OpUpdateProps %s %s %s)' % (natlit(h), listlit([col_lit(k, v) for k, v in cols]), blit(append))
        return self.run_unit(tag, {'op': 'update_props', 'h': h, 'cols': [[k, [pval_json(x) for x in v]] for k, v in cols], 'append': append, 'tys': tys}, lit,
                             lambda: d.update_props({k: typed(v, t) for (k, v), t in zip(cols, tys)}, append=append))

    def op_reload(self, h, fpz):
        """savez + load (.fpz) or the deprecated save + load (.fps, pickle) through a file in the work directory."""
        D, _ = mods()
        d = self.pool[h]
        if self.workdir is None:
            self.workdir = files_dir()
        self.nfiles += 1
        fn = os.path.join(self.workdir, 'h%d_%d_%d%s' % (id(self) % 100000, h, self.nfiles, '.fpz' if fpz else '.fps.bz2'))

        def go():
            import warnings
            try:
                with warnings.catch_warnings():
                    warnings.simplefilter('ignore')                  # `save` is deprecated in favour of `savez`
                    (d.savez if fpz else d.save)(fn)
                    return D.FingerprintDatabase.load(fn)
            finally:
                if os.path.exists(fn):
                    os.remove(fn)
        return self.run_new('reload', {'op': 'reload', 'h': h, 'fpz': fpz}, '(OpReload %s %s)' % (natlit(h), blit(fpz)), go)

    def op_subset(self, h, names):
        d = self.pool[h]
        lit = '(OpSubset %s %s)' % (natlit(h), listlit([okey_lit(n) for n in names]))
        return self.run_new('subset', {'op': 'subset', 'h': h, 'names': names}, lit, lambda: d.get_subset(list(names)))

    def op_as_type(self, h, kind, cp):
        d = self.pool[h]
        T = fpgen.classes()[kind]
        lit = '(OpAsType %s %s %s)' % (natlit(h), kind, blit(cp))
        return self.run_new('as_type', {'op': 'as_type', 'h': h, 'kind': kind, 'copy': cp}, lit, lambda: d.as_type(T, copy=cp))

    def op_fold(self, h, nb, kind=None):
        d = self.pool[h]
        T = fpgen.classes()[kind] if kind else None
        lit = '(OpFold %s %s %s)' % (natlit(h), zlit(nb), 'None' if kind is None else '(Some %s)' % kind)
        return self.run_new('fold', {'op': 'fold', 'h': h, 'bits': nb, 'kind': kind}, lit, lambda: d.fold(nb, fp_type=T))

    def op_copy(self, h):
        d = self.pool[h]
        return self.run_new('copy', {'op': 'copy', 'h': h}, '(OpCopy %s)' % natlit(h), lambda: copy.copy(d))

    def op_pickle(self, h, deep=False):
        d = self.pool[h]
        return self.run_new('pickle', {'op': 'deepcopy' if deep else 'pickle', 'h': h}, '(OpPickle %s)' % natlit(h),
                            (lambda: copy.deepcopy(d)) if deep else (lambda: pickle.loads(pickle.dumps(d))))

    def op_concat(self, hs, plus=False, tag='concat'):
        D, _ = mods()
        ds = [self.pool[h] for h in hs]
        lit = '(OpConcat %s)' % listlit([natlit(h) for h in hs])
        f = (lambda: ds[0] + ds[1]) if plus and len(ds) == 2 else (lambda: D.concat(ds))
        return self.run_new(tag, {'op': 'concat', 'hs': hs, 'plus': plus}, lit, f)

    def op_getint(self, h, i):
        d = self.pool[h]
        return self.run_val('getitem_int', {'op': 'getitem', 'h': h, 'i': i}, '(OpGetInt %s %s)' % (natlit(h), zlit(i)),
                            lambda: obs_item(d[i]), lambda it: '(OFp %s %s)' % (fpgen.lit(it[0]), kv_lit(it[1])))

    def op_getname(self, h, nm):
        d = self.pool[h]
        return self.run_val('getitem_str', {'op': 'getitem', 'h': h, 'name': nm}, '(OpGetName %s %s)' % (natlit(h), strlit(nm)),
                            lambda: [obs_item(f) for f in d[nm]], lambda its: '(OFps %s)' % listlit([item_lit(it) for it in its]))

    def op_iter(self, h):
        d = self.pool[h]
        return self.run_val('iterate', {'op': 'iter', 'h': h}, '(OpIter %s)' % natlit(h),
                            lambda: [obs_item(f) for f in d], lambda its: '(OFps %s)' % listlit([item_lit(it) for it in its]))

    def op_eq(self, h1, h2):
        a, b = self.pool[h1], self.pool[h2]
        return self.run_val('eq', {'op': 'eq', 'h1': h1, 'h2': h2}, '(OpEq %s %s)' % (natlit(h1), natlit(h2)),
                            lambda: bool(a == b), lambda v: '(OBool %s)' % blit(v))

    def op_density(self, h, idx):
        d = self.pool[h]
        return self.run_val('density', {'op': 'density', 'h': h, 'index': idx}, '(OpDensity %s %s)' % (natlit(h), optlit(idx)),
                            lambda: Fraction(float(d.get_density(idx))), lambda v: '(OQ %s)' % qlit(v))

    def op_len(self, h):
        d = self.pool[h]
        return self.run_val('len', {'op': 'len', 'h': h}, '(OpLen %s)' % natlit(h), lambda: len(d), lambda v: '(OZ %s)' % zlit(v))

    def op_metric(self, m, h1, h2):
        _, M = mods()
        a, b = self.pool[h1], self.pool[h2]
        f = {'MTanimoto': M.tanimoto, 'MDice': M.dice, 'MCosine': M.cosine, 'MPearson': M.pearson, 'MSoergel': M.soergel}[m]
        return self.run_unit('metric', {'op': 'metric', 'm': m, 'h1': h1, 'h2': h2}, '(OpMetric %s %s %s)' % (m, natlit(h1), natlit(h2)),
                             lambda: f(a, b))

    # ---- random steps
    def rand_name(self):
        return self.rng.choice(NAMES + [None, None, 'a', 'a'])

    def castable_kind(self, dbkind, lossy=False):
        if dbkind == 'KBit' or lossy:
            return self.rng.choice(KINDS)
        return self.rng.choice([dbkind, 'KBit'])

    def batch(self, h, n, own=True, schema=None, lossy=False):
        d = self.pool[h]
        dk = kind_of_type(d.fp_type)
        bits = d.bits if d.bits is not None else self.bits
        schema = self.schema if schema is None else schema
        if d.fp_num > 0 or len(d.props) > 0:
            # fingerprints must carry the database's columns (also those declared on a still empty database); types follow the stored arrays
            schema = [(k, KIND2TY.get(np.asarray(v).dtype.kind, 'int')) for k, v in d.props.items()]
        out = []
        for _ in range(n):
            k = dk if own else self.castable_kind(dk, lossy)
            props = rand_props(self.rng, schema)
            if self.rng.random() < 0.15 and all(k != 'extra' for k, _ in props):
                props = props + [('extra', 1)]
            out.append(make_fp(self.rng, k, bits, d.level, self.rand_name(), props,
                               zero_counts=self.rng.random() < 0.08, fractional=lossy or dk == 'KFloat' or dk == 'KBit',
                               big=self.rng.random() < 0.1))
        return out

    def rand_from_array(self):
        rng = self.rng
        kind = rng.choice(KINDS)
        src = rng.choice(KINDS)
        bits = self.bits if rng.random() < 0.8 else rng.choice([8, 16, 1024, 2 ** 32])
        dense = bits <= 16 and rng.random() < 0.5
        n = rng.choice([1, 2, 3, 4])
        rows = []
        for _ in range(n):
            idx = fpgen.rand_indices(rng, bits, 5)
            if src == 'KBit':
                vals = [Fraction(1)] * len(idx)
            elif src == 'KCount':
                vals = [Fraction(rng.choice([1, 2, 3, 9, 200])) for _ in idx]
            else:
                vals = [Fraction(rng.choice([1, 2, 3, 5, 9]), rng.choice([1, 1, 2, 4])) for _ in idx]
            r = list(zip(idx, vals))
            if dense:
                m = dict(r)
                r = [(j, m.get(j, Fraction(0))) for j in range(bits)]
            else:
                if bits <= 4096 and rng.random() < 0.5:
                    # valid CSR, columns not sorted (only for small widths: scipy's binary operators on non-canonical
                    # matrices allocate three arrays of n_col entries, so `==` needs 100 GB at 2^32 columns)
                    rng.shuffle(r)
                if r and rng.random() < 0.3:
                    j = rng.randrange(len(r))
                    r[j] = (r[j][0], Fraction(0))                    # explicit zero
            rows.append(r)
        names = [self.rand_name() for _ in range(n)]
        if rng.random() < 0.08:
            names = names[:-1] if rng.random() < 0.5 else names + ['a']          # not one name per row: refused
        cols = [(k, [v for _, v in [rand_props(rng, [(k, t)])[0] for _ in range(n)]]) for k, t in self.schema if rng.random() < 0.8]
        level = self.level if rng.random() < 0.85 else rng.choice([-1, 5, None])
        return self.op_from_array(kind, level, bits, dense, src, rows, names, cols)

    WEIGHTS = [('add_own', 14), ('add_cast', 6), ('new', 3), ('from_array', 6), ('concat', 7), ('subset', 7), ('as_type', 8), ('fold', 7),
               ('copy', 5), ('pickle', 3), ('reload', 5), ('declare', 2), ('getint', 6), ('getname', 6), ('iter', 3), ('eq', 4), ('density', 3), ('len', 1), ('metric', 4),
               ('set_prop', 3), ('update_props', 2)]

    def rand_step(self):
        rng = self.rng
        if not self.live:
            return self.op_new(rng.choice(KINDS), self.level)
        names, ws = zip(*self.WEIGHTS)
        what = rng.choices(names, ws)[0]
        h = rng.choice(self.live)
        d = self.pool[h]
        if what == 'new':
            return self.op_new(rng.choice(KINDS), self.level if rng.random() < 0.8 else rng.choice([-1, 5, None]))
        if what == 'from_array':
            return self.rand_from_array()
        if what in ('add_own', 'add_cast'):
            empties = [g for g in self.live if self.pool[g].fp_num == 0]
            if empties and rng.random() < 0.6:
                h = rng.choice(empties)
            return self.op_add(h, self.batch(h, rng.choice([1, 1, 2, 3, 4]), own=(what == 'add_own'), lossy=(what == 'add_cast' and rng.random() < 0.15)))
        if what == 'concat':
            n = rng.choice([1, 2, 2, 2, 3])
            same = [g for g in self.live if self.pool[g].fp_type is d.fp_type and self.pool[g].bits == d.bits and self.pool[g].level == d.level]
            hs = [h] + [rng.choice(same if rng.random() < 0.8 else self.live) for _ in range(n - 1)]
            if all(self.pool[g].array is None for g in hs):
                return self.op_len(h)                                # vstack of only None blocks: outside the model's domain
            return self.op_concat(hs, plus=(n == 2 and rng.random() < 0.3))
        if what == 'subset':
            present = list(dict.keys(d.fp_names_to_indices))
            k = rng.choice([1, 1, 2, 3])
            if present and rng.random() < 0.85:
                nm = [rng.choice(present) for _ in range(k)]
            elif rng.random() < 0.2:
                nm = []
            else:
                nm = [rng.choice(present + ['absent', 'zz']) for _ in range(k)] + ['absent']
                rng.shuffle(nm)
            return self.op_subset(h, nm)
        if what == 'as_type':
            return self.op_as_type(h, rng.choice(KINDS), rng.random() < 0.5)
        if what == 'fold':
            b = d.bits
            if b is None or rng.random() < 0.2:
                nb = rng.choice([0, 3, 12, 8, 2 ** 33, -4] if b is not None else [8])
            else:
                cands = [b >> s for s in range(0, 34) if (b >> s) >= 1]
                nb = rng.choice(cands[:1] + cands[1:4] * 2 + cands[-4:] + [8, 16, 1024])
            return self.op_fold(h, nb, rng.choice([None, None, None] + list(KINDS)))
        if what == 'copy':
            return self.op_copy(h)
        if what == 'pickle':
            return self.op_pickle(h, deep=rng.random() < 0.3)
        if what == 'reload':
            return self.op_reload(h, rng.random() < 0.6)
        if what == 'declare':
            # property columns declared on a database without rows (then honoured by the first addition)
            empties = [g for g in self.live if self.pool[g].fp_num == 0]
            if not empties:
                return self.op_new(rng.choice(KINDS), self.level)
            g = rng.choice(empties)
            k, t = rng.choice(self.schema + [('q', 'int')])
            if rng.random() < 0.5:
                return self.op_set_prop(g, k, [], ty=t)
            return self.op_update_props(g, [(k, [])] + ([('q2', [])] if rng.random() < 0.4 else []), append=rng.random() < 0.5, tys=[t, 'str'])
        if what == 'getint':
            n = d.fp_num
            return self.op_getint(h, rng.choice(list(range(-n - 1, n + 2))) if rng.random() < 0.9 else rng.choice([10 ** 6, -10 ** 6]))
        if what == 'getname':
            present = [k for k in dict.keys(d.fp_names_to_indices) if k is not None]
            nm = rng.choice(present) if present and rng.random() < 0.7 else rng.choice(['absent', 'None', 'zz', 'a'])
            return self.op_getname(h, nm)
        if what == 'iter':
            return self.op_iter(h)
        if what == 'eq':
            return self.op_eq(h, rng.choice(self.live))
        if what == 'density':
            return self.op_density(h, None if rng.random() < 0.5 else rng.choice([0, 1, 2, 5, (d.bits or 8) - 1, 99, -1]))
        if what == 'len':
            return self.op_len(h)
        if what == 'metric':
            g = rng.choice([x for x in self.live if self.pool[x].bits == d.bits] if rng.random() < 0.9 else self.live)
            ms = ['MSoergel']
            if (d.bits or 0) <= 4096 and (self.pool[g].bits or 0) <= 4096:
                # X * Y.T converts Y.T to CSR with `bits` rows (32 GiB of indptr at 2^32) and array pearson densifies
                ms += ['MTanimoto', 'MDice', 'MCosine', 'MCosine', 'MPearson']
            return self.op_metric(rng.choice(ms), h, g)
        if what == 'set_prop':
            k, t = rng.choice(self.schema + [('q', 'int')])
            if k in d.props:
                t = KIND2TY.get(np.asarray(d.props[k]).dtype.kind, t)
            return self.op_set_prop(h, k, [rand_props(rng, [(k, t)])[0][1] for _ in range(d.fp_num)], ty=t)
        if what == 'update_props':
            append = rng.random() < 0.4
            cols, tys = [], []
            for k, t in (self.schema + [('r', 'str')]):
                if rng.random() < 0.6:
                    if k in d.props:
                        t = KIND2TY.get(np.asarray(d.props[k]).dtype.kind, t)
                    # with append=True a stored column can only be extended by nothing; a fresh one needs a value per row
                    cols.append((k, [] if (append and k in d.props) else [rand_props(rng, [(k, t)])[0][1] for _ in range(d.fp_num)]))
                    tys.append(t)
            return self.op_update_props(h, cols, append=append, tys=tys)
        raise AssertionError(what)

    def warmup(self):
        """One or two non-empty databases to start from."""
        rng = self.rng
        for _ in range(rng.choice([1, 2])):
            if rng.random() < 0.25:
                self.rand_from_array()
            else:
                self.op_new(rng.choice(KINDS), self.level)
                h = self.live[-1]
                self.op_add(h, self.batch(h, rng.choice([1, 2, 3, 4]), own=rng.random() < 0.7))


# --------------------------------------------------------------------------------------------- trace literal
def trace_expr(steps, fn='history_ok'):
    """Gallina boolean: the model replays the steps and agrees with every recorded outcome and observation.
    Repeated observations are bound once with `let`."""
    binds, names = [], {}

    def bind(lit, ty):
        if lit not in names:
            names[lit] = 'v%d' % len(names)
            binds.append('let %s : %s := %s in' % (names[lit], ty, lit))
        return names[lit]
    tr = []
    for st in steps:
        lives = []
        for lo in st['live']:
            dbv = bind(db_lit(lo['db']), 'db')
            if isinstance(lo['items'], str):
                itv = bind('[(mkfp KBit (-1) None [] [] None, [])]', 'list (fp * list (string * pval))')   # impossible value: db[i] raised
            else:
                itv = bind(listlit([item_lit(it) for it in lo['items']]), 'list (fp * list (string * pval))')
            lives.append('(mklive %s %s %s %s)' % (natlit(lo['h']), dbv, itv, listlit([blit(b) for b in lo['eq']])))
        res = '(Ok %s)' % st['res'][1] if st['res'][0] == 'ok' else '(Raises %s)' % st['res'][1]
        tr.append('(%s, %s, %s)' % (st['lit'], res, listlit(lives)))
    return '\n'.join(binds) + '\n%s %s' % (fn, listlit(tr))


def steps_json(steps):
    out = []
    for st in steps:
        out.append({'op': st['op'], 'impl_result': st['res'][1] if st['res'][0] == 'err' else 'ok',
                    'live_after': [{'h': lo['h'], 'db': obs_json(lo['db']), 'eq': lo['eq'],
                                    'items': lo['items'] if isinstance(lo['items'], str) else [item_json(i) for i in lo['items']]} for lo in st['live']]})
    return out


# --------------------------------------------------------------------------------------------- replay / shrinking
def fp_from_json(j):
    """Rebuild an add_fingerprints argument from its recorded description."""
    o = j['fp']
    C = fpgen.classes()[o['kind']]
    kw = {'bits': o['bits'], 'level': o['level'], 'props': {k: v for k, v in j['props']}}
    if o['name']:
        kw['name'] = o['name']
    if o['kind'] == 'KBit':
        f = C.from_indices(np.array(o['idx'], dtype=np.int64), **kw)
    else:
        conv = float if o['kind'] == 'KFloat' else (lambda x: int(Fraction(x)))
        f = C.from_counts({int(k): conv(Fraction(v)) for k, v in o['cnt']}, **kw)
    return {'fp': f, 'obs': fpgen.obs(f), 'props': [(k, v) for k, v in j['props']]}


def exec_desc(hist, d):
    """Execute one recorded operation description on a History (handles must exist)."""
    op = d['op']
    need = [d[k] for k in ('h', 'h1', 'h2') if k in d] + list(d.get('hs', []))
    if any(h >= len(hist.pool) for h in need):
        raise IndexError('handle')
    if op == 'new':
        return hist.op_new(d['kind'], d['level'])
    if op == 'from_array':
        return hist.op_from_array(d['kind'], d['level'], d['bits'], d['dense'], d['src_dtype'],
                                  [[(j, Fraction(v)) for j, v in r] for r in d['rows']], d['names'], [(k, v) for k, v in d['props']])
    if op == 'add':
        return hist.op_add(d['h'], [fp_from_json(j) for j in d['fps']], tag=d.get('tag', 'add'))
    if op == 'set_prop':
        return hist.op_set_prop(d['h'], d['key'], d['vals'], ty=d.get('ty'))
    if op == 'update_props':
        return hist.op_update_props(d['h'], [(k, v) for k, v in d['cols']], append=d.get('append', False), tys=d.get('tys'))
    if op == 'reload':
        return hist.op_reload(d['h'], d['fpz'])
    if op == 'subset':
        return hist.op_subset(d['h'], d['names'])
    if op == 'as_type':
        return hist.op_as_type(d['h'], d['kind'], d['copy'])
    if op == 'fold':
        return hist.op_fold(d['h'], d['bits'], d['kind'])
    if op == 'copy':
        return hist.op_copy(d['h'])
    if op in ('pickle', 'deepcopy'):
        return hist.op_pickle(d['h'], deep=(op == 'deepcopy'))
    if op == 'concat':
        return hist.op_concat(d['hs'], plus=d.get('plus', False))
    if op == 'getitem':
        return hist.op_getname(d['h'], d['name']) if 'name' in d else hist.op_getint(d['h'], d['i'])
    if op == 'iter':
        return hist.op_iter(d['h'])
    if op == 'eq':
        return hist.op_eq(d['h1'], d['h2'])
    if op == 'density':
        return hist.op_density(d['h'], d['index'])
    if op == 'len':
        return hist.op_len(d['h'])
    if op == 'metric':
        return hist.op_metric(d['m'], d['h1'], d['h2'])
    raise ValueError(op)


def replay_descs(descs, rng=None):
    """Fresh pool, same operations; every database ever created stays live (<= MAX_LIVE is not enforced)."""
    import random
    h = History(rng or random.Random(0), schema=[], bits=8, level=-1)
    h.MAX_LIVE = 10 ** 6
    for d in descs:
        exec_desc(h, d)
    return h


def _creates(d):
    return d['op'] in ('new', 'from_array', 'subset', 'as_type', 'fold', 'copy', 'pickle', 'deepcopy', 'concat', 'reload')


def _renumber(descs, removed_handle):
    """Descriptions after dropping the operation that created `removed_handle`; None if it is still referenced."""
    out = []
    for d in descs:
        d = dict(d)
        for k in ('h', 'h1', 'h2'):
            if k in d:
                if d[k] == removed_handle:
                    return None
                if d[k] > removed_handle:
                    d[k] -= 1
        if 'hs' in d:
            if removed_handle in d['hs']:
                return None
            d['hs'] = [x - 1 if x > removed_handle else x for x in d['hs']]
        out.append(d)
    return out


def shrink(descs, fails, budget=40):
    """Greedy one-at-a-time deletion.  `fails(descs)` re-runs implementation and model and says whether they still
    diverge.  Handles are renumbered when the deleted operation had created a database (only if it succeeded)."""
    cur = list(descs)
    i = len(cur) - 1
    while i >= 0 and budget > 0:
        cand = None
        d = cur[i]
        if _creates(d) and d.get('_ok'):
            hnum = sum(1 for x in cur[:i] if _creates(x) and x.get('_ok'))
            rest = _renumber(cur[i + 1:], hnum)
            if rest is not None:
                cand = cur[:i] + rest
        else:
            cand = cur[:i] + cur[i + 1:]
        if cand is not None:
            budget -= 1
            try:
                if fails(cand):
                    cur = cand
            except Exception:  # noqa
                pass
        i -= 1
    return cur


def descs_of(steps):
    out = []
    for st in steps:
        d = dict(st['op'])
        d['_ok'] = st['res'][0] == 'ok'
        out.append(d)
    return out


# --------------------------------------------------------------------------------------------- model comparison of whole histories
def first_divergence(ctx, steps):
    """Ask the model for the index of the first step whose outcome or observations differ (-1: none, None: no answer)."""
    import re
    import os
    import core
    out = core.coq_eval_raw(trace_expr(steps, fn='first_divergence init').rstrip() + ' 0', IMPORTS, os.path.join(ctx.workdir, 'raw'))
    m = re.search(r'=\s*\(?(-?\d+)\)?\s*\n?\s*:\s*Z', out)
    return (int(m.group(1)) if m else None), out[-600:]


def check_histories(ctx, hists, what, finding_key_of=None, shrink_budget=30):
    """hists: dict key -> History.  Evaluates `history_ok` for each in Coq; for a disagreement finds the first diverging
    step, shrinks the operation list and records the failure with the minimal history as replay payload.
    Returns the number of disagreeing histories."""
    import os
    import core
    cases = [(k, trace_expr(h.steps)) for k, h in hists.items()]
    if not cases:
        ctx.fail('%s: no history was generated for this stream (a check that compares nothing proves nothing)' % what, {'stream': what},
                 no_input=True, kind='harness-error')
        return 1
    shard = max(1, min(40, (len(cases) + core.NCPU - 1) // core.NCPU))
    results, logs = core.coq_eval_bools(cases, IMPORTS, os.path.join(ctx.workdir, 'eval_%d' % len(os.listdir(ctx.workdir))), shard=shard)
    bad = [k for k, _ in cases if results.get(k) is not True]
    ctx.coverage['traces_validated_against_impl'] += sum(len(hists[k].steps) for k, _ in cases if results.get(k) is True)
    for n, k in enumerate(bad):
        h = hists[k]
        if n >= 3:          # the first few are diagnosed in full
            ctx.fail('%s: model and implementation disagree on history %s' % (what, k), {'history': steps_json(h.steps)[:30]},
                     finding_key=finding_key_of(h, None) if finding_key_of else None)
            continue
        idx, raw = first_divergence(ctx, h.steps)
        if idx is None:
            ctx.fail('%s: model evaluation did not complete for history %s' % (what, k),
                     {'coq_output_tail': raw, 'history': steps_json(h.steps)[:30]})
            continue
        descs = descs_of(h.steps[:idx + 1] if idx >= 0 else h.steps)
        tag0 = h.steps[idx]['tag'] if 0 <= idx < len(h.steps) else None

        def fails(ds):
            # the SAME failure: a divergence at an operation of the same kind (deleting operations must not trade it for
            # a divergence in the unmodelled corner "concat of databases that all lack a matrix")
            hh = replay_descs(ds)
            i2, _ = first_divergence(ctx, hh.steps)
            return i2 is not None and i2 >= 0 and (tag0 is None or hh.steps[i2]['tag'] == tag0)
        try:
            small = shrink(descs, fails, budget=shrink_budget)
            hh = replay_descs(small)
            i2, _ = first_divergence(ctx, hh.steps)
            if i2 is None or i2 < 0:
                hh, i2 = replay_descs(descs), idx
        except Exception:  # noqa
            hh, i2, small = h, idx, descs
        st = hh.steps[i2] if 0 <= i2 < len(hh.steps) else None
        payload = {'first_diverging_step': i2, 'minimal_history': steps_json(hh.steps),
                   'diverging_op': st['op'] if st else None, 'implementation_result': st['res'][1] if st else None,
                   'original_length': len(h.steps), 'replay': 'ops of minimal_history, in order, on a fresh pool (harness/dbgen.replay_descs)'}
        ctx.fail('%s: model and implementation disagree at step %s (%s) of a history of %d operation(s)' %
                 (what, i2, st['op'].get('op') if st else '?', len(hh.steps)), payload,
                 finding_key=finding_key_of(hh, st) if finding_key_of else None)
    return len(bad)
