"""Databases on both sides for C08 (model Model/DbIO.v): seeded generator of database specifications, construction of
the implementation object from a specification, canonical observation of implementation databases / NumPy arrays /
npz archives / pickle states, and their Gallina literals."""
import math
import struct
import numpy as np
from core import zlit, zlist, optlit, listlit, blit

KINDS = ('KBit', 'KCount', 'KFloat')


class Unobservable(Exception):
    """The implementation produced a value the model has no literal for (reported as a failure by the caller)."""


def classes():
    from e3fp.fingerprint.fprint import Fingerprint, CountFingerprint, FloatFingerprint
    return {'KBit': Fingerprint, 'KCount': CountFingerprint, 'KFloat': FloatFingerprint}


def kind_of_class(c):
    for k, v in classes().items():
        if c is v:
            return k
    raise Unobservable('fp_type %r' % (c,))


# --------------------------------------------------------------------------- literals
def slit(s):
    """Coq string literal of the UTF-8 bytes of s; control bytes / NUL go through bytes_to_string."""
    b = s.encode('utf-8')
    if any(c < 32 or c == 127 for c in b):
        return '(bytes_to_string %s)' % zlist(list(b))
    return '"' + s.replace('"', '""') + '"%string'


def namelit(n):
    return 'None' if n is None else '(Some %s)' % slit(n)


def dtlit(dt):
    tag, n = dt
    return tag if n is None else '(%s %d)' % (tag, n)


def objlit(o):
    if o is None:
        return 'ONone'
    if isinstance(o, str):
        return '(OStr %s)' % slit(o)
    if isinstance(o, tuple) and o[0] == 'kind':
        return '(OKind %s)' % o[1]
    raise Unobservable('object %r' % (o,))


def arrlit(a):
    kind, vals = a['pay']
    if kind == 'num':
        p = '(PNum %s)' % zlist(vals)
    elif kind == 'str':
        p = '(PStr %s)' % listlit([slit(s) for s in vals])
    else:
        p = '(PObj %s)' % listlit([objlit(o) for o in vals])
    return '(mkarr %s %s %s)' % (dtlit(a['dtype']), blit(a['scalar']), p)


def dictlit(d):
    return listlit(['(%s, %s)' % (slit(k), arrlit(a)) for k, a in d])


def indexlit(ix):
    return listlit(['(%s, %s)' % (namelit(n), zlist(l)) for n, l in ix])


def dblit(o):
    return '(mkdb %s %s %s %s %s %s %s %s %s %s %s %s)' % (
        o['kind'], optlit(o['level']), namelit(o['name']), zlit(o['nrows']), zlit(o['bits']), zlit(o['idxw']),
        zlist(o['data']), zlist(o['indices']), zlist(o['indptr']), listlit([namelit(n) for n in o['names']]),
        indexlit(o['index']), dictlit(o['props']))


def pstatelit(s):
    return '(mkpstate %s %s %s %s %s %s %s %s %s %s %s)' % (
        namelit(s['name']), s['kind'], optlit(s['level']), zlit(s['nrows']), zlit(s['bits']), zlit(s['idxw']),
        zlist(s['data']), zlist(s['indices']), zlist(s['indptr']), listlit([namelit(n) for n in s['names']]),
        'None' if s['props'] is None else '(Some %s)' % dictlit(s['props']))


# --------------------------------------------------------------------------- observation
_INTVIEW = {8: np.int64, 4: np.int32, 2: np.int16}


def _obj(x):
    if x is None:
        return None
    if isinstance(x, str):
        return str(x)
    if isinstance(x, type):
        return ('kind', kind_of_class(x))
    raise Unobservable('object element %r of type %s' % (x, type(x).__name__))


def arr_obs(a):
    """NumPy array -> dict(dtype=(tag, size), scalar=bool, pay=(kind, values)).  Floats become their IEEE bit pattern."""
    a = np.asanyarray(a)
    if a.ndim > 1:
        raise Unobservable('array of %d dimensions' % a.ndim)
    scalar = a.ndim == 0
    flat = np.ascontiguousarray(a).reshape(-1)
    k, sz = a.dtype.kind, a.dtype.itemsize
    if k == 'b':
        return {'dtype': ('DBool', None), 'scalar': scalar, 'pay': ('num', [int(x) for x in flat.tolist()])}
    if k in 'iu':
        return {'dtype': ('DInt' if k == 'i' else 'DUInt', sz), 'scalar': scalar, 'pay': ('num', [int(x) for x in flat.tolist()])}
    if k == 'f' and sz in _INTVIEW:
        return {'dtype': ('DFloat', sz), 'scalar': scalar, 'pay': ('num', [int(x) for x in flat.view(_INTVIEW[sz]).tolist()])}
    if k == 'U':
        return {'dtype': ('DStr', sz // 4), 'scalar': scalar, 'pay': ('str', [str(x) for x in flat.tolist()])}
    if k == 'O':
        return {'dtype': ('DObj', None), 'scalar': scalar, 'pay': ('obj', [_obj(x) for x in flat.tolist()])}
    raise Unobservable('dtype %s' % a.dtype)


def _name(x):
    if x is None:
        return None
    if isinstance(x, str):
        return str(x)
    raise Unobservable('fingerprint name %r of type %s' % (x, type(x).__name__))


def _level(x):
    if x is None:
        return None
    if isinstance(x, (int, np.integer)) and not isinstance(x, (bool, np.bool_)):
        return int(x)
    raise Unobservable('level %r of type %s' % (x, type(x).__name__))


def csr_obs(m, kind):
    from scipy.sparse import csr_matrix
    from e3fp.fingerprint.fprint import dtype_from_fptype
    if not isinstance(m, csr_matrix):
        raise Unobservable('array is a %s' % type(m).__name__)
    want = np.dtype(dtype_from_fptype(classes()[kind]))
    if m.data.dtype != want or m.dtype != want:
        raise Unobservable('array dtype %s for %s' % (m.dtype, kind))
    if m.indices.dtype != m.indptr.dtype or m.indices.dtype.kind != 'i':
        raise Unobservable('index dtypes %s/%s' % (m.indices.dtype, m.indptr.dtype))
    return {'nrows': int(m.shape[0]), 'bits': int(m.shape[1]), 'idxw': int(m.indices.dtype.itemsize),
            'data': arr_obs(m.data)['pay'][1], 'indices': [int(i) for i in m.indices.tolist()],
            'indptr': [int(i) for i in m.indptr.tolist()], 'data_dtype': str(m.data.dtype)}


def db_obs(db):
    """Canonical observation of an implementation database: every field the property names."""
    kind = kind_of_class(db.fp_type)
    o = {'kind': kind, 'level': _level(db.level), 'name': _name(db.name)}
    o.update(csr_obs(db.array, kind))
    if not isinstance(db.fp_names, list):
        raise Unobservable('fp_names is a %s' % type(db.fp_names).__name__)
    o['names'] = [_name(n) for n in db.fp_names]
    o['index'] = [(_name(k), [int(i) for i in v]) for k, v in db.fp_names_to_indices.items()]
    o['props'] = [(_propkey(k), arr_obs(v)) for k, v in db.props.items()]
    return o


def _propkey(k):
    if not isinstance(k, str):
        raise Unobservable('property key %r' % (k,))
    return str(k)


def state_obs(st):
    """Observation of the dict returned by __getstate__."""
    kind = kind_of_class(st['fp_type'])
    s = {'kind': kind, 'level': _level(st['level']), 'name': _name(st['name'])}
    s.update(csr_obs(st['array'], kind))
    s['names'] = [_name(n) for n in st['fp_names']]
    s['props'] = None if 'props' not in st else [(_propkey(k), arr_obs(v)) for k, v in st['props'].items()]
    if sorted(st.keys()) != sorted(['name', 'fp_type', 'level', 'array', 'fp_names'] + (['props'] if 'props' in st else [])):
        raise Unobservable('state keys %s' % sorted(st.keys()))
    return s


def npz_obs(fn):
    """The archive as NumPy reads it, independently of e3fp's load: ordered key -> array observation."""
    with np.load(fn, allow_pickle=True) as z:
        return [(str(k), arr_obs(z[k])) for k in z.files]


def obs_json(o):
    return o


FIELDS = ('kind', 'level', 'name', 'nrows', 'bits', 'idxw', 'data_dtype', 'data', 'indices', 'indptr', 'names', 'index', 'props')


def diff_fields(a, b):
    """Names of the fields in which two database observations differ (index compared as a dict, then in order)."""
    out = [f for f in FIELDS if f != 'index' and a[f] != b[f]]
    if dict((k, tuple(v)) for k, v in a['index']) != dict((k, tuple(v)) for k, v in b['index']):
        out.append('index')
    elif a['index'] != b['index']:
        out.append('index-order')
    return out


# --------------------------------------------------------------------------- generation
BITS = [1, 2, 8, 16, 16, 1024, 1024, 2 ** 20, 2 ** 32, 2 ** 31 - 1, 2 ** 31]
LEVELS = [-1, -1, 0, 1, 5, None, None, -7, 12, 2 ** 40]
DBNAMES = [None, None, 'db', '', 'None', 'TestDB é', 'x y', '_n', '5']
NAME_POOLS = {
    'plain': ['a', 'b', 'mol_0', 'CHEMBL25_1', 'x y', 'ZINC0001_3'],
    'numeric': ['1', '2', '1.5', '-3', '1e5', '007', 'nan'],
    'unicode': ['é', 'β-D', '名', 'naïve mol', '\U0001F600x'],
    'odd': ['None', '', '_u', 'a' * 40, ' lead', 'q"uote', "it's", 'tab\there'],
}
PROP_KEYS = ['x', '_x', 'data', 'level', 'shape', 'fp_names', 'name', 'indices', 'indptr', 'fp_type', '__', '',
             'a b', 'é', 'X1', '_data', '___', 'weight.kg']
FLOATS = [0.0, -0.0, 0.1, 1.5, -2.25, 1e-300, 1e300, float('inf'), float('-inf'), float('nan'), 3.141592653589793, 5e-324]


def rand_indices(rng, bits, maxn=8):
    n = rng.choice([0, 1, 1, 2, 3, 4, 5, maxn])
    if bits <= 64:
        pool = list(range(bits))
        rng.shuffle(pool)
        return sorted(pool[:min(n, bits)])
    out = set()
    while len(out) < n:
        r = rng.random()
        if r < 0.3:
            out.add(rng.randrange(0, min(bits, 40)))
        elif r < 0.5:
            out.add(bits - 1 - rng.randrange(0, min(bits, 40)))
        else:
            out.add(rng.randrange(0, bits))
    return sorted(out)


def rand_names(rng, n, mode=None):
    mode = mode or rng.choice(['all_str', 'all_none', 'mixed', 'dups', 'numeric', 'unicode', 'odd', 'anything'])
    pool = {'all_str': NAME_POOLS['plain'], 'numeric': NAME_POOLS['numeric'], 'unicode': NAME_POOLS['unicode'],
            'odd': NAME_POOLS['odd']}.get(mode)
    if mode == 'all_none':
        return mode, [None] * n
    if mode == 'mixed':
        names = [rng.choice(NAME_POOLS['plain'] + [None, None, None, 'None']) for _ in range(n)]
        if n > 1:
            names[rng.randrange(n)] = None
        return mode, names
    if mode == 'dups':
        base = rng.sample(NAME_POOLS['plain'] + ['1', 'é', None], 2)
        return mode, [rng.choice(base) for _ in range(n)]
    if mode == 'anything':
        allp = sum(NAME_POOLS.values(), []) + [None, None]
        return mode, [rng.choice(allp) for _ in range(n)]
    return mode, [rng.choice(pool) for _ in range(n)]


def rand_prop(rng, n, key):
    dt = rng.choice(['int64', 'int64', 'int32', 'float64', 'float64', 'bool', 'str', 'str', 'uint8', 'float32'])
    if dt.startswith('int') or dt == 'uint8':
        lo, hi = {'int64': (-2 ** 63, 2 ** 63 - 1), 'int32': (-2 ** 31, 2 ** 31 - 1), 'uint8': (0, 255)}[dt]
        vals = [rng.choice([0, 1, -1 if lo < 0 else 2, lo, hi, rng.randrange(lo, hi + 1)]) for _ in range(n)]
    elif dt.startswith('float'):
        vals = [rng.choice(FLOATS + [rng.uniform(-10, 10)]) for _ in range(n)]
        vals = [float(np.float32(v)) if dt == 'float32' and math.isfinite(v) and abs(v) < 1e30 else (v if dt == 'float64' else 0.5) for v in vals]
    elif dt == 'bool':
        vals = [rng.random() < 0.5 for _ in range(n)]
    else:
        vals = [rng.choice(['', 's', 'CCO', 'c1ccccc1', 'été', 'None', 'a b', '12']) for _ in range(n)]
    return {'key': key, 'dtype': dt, 'vals': vals}


def rand_spec(rng, kind=None, bits=None, text=False):
    """A database specification (JSON-able; build_db is a function of it)."""
    kind = kind or rng.choice(KINDS)
    if bits is None:
        bits = rng.choice([1, 2, 8, 16, 64, 1024, 1024, 4096, 2 ** 14]) if text else rng.choice(BITS)
    n = rng.choice([1, 1, 2, 3, 3, 4, 6])
    how = rng.choice(['add', 'add', 'add', 'from_csr', 'from_dense' if bits <= 1024 else 'from_csr', 'noncanon'])
    mode, names = rand_names(rng, n, 'all_str' if text and rng.random() < 0.6 else None)
    rows = []
    for i in range(n):
        idx = rand_indices(rng, bits)
        if kind == 'KBit':
            vals = [1] * len(idx)
        elif kind == 'KCount':
            vals = [rng.choice([1, 1, 2, 3, 7, 200, 65535]) for _ in idx]
        else:
            vals = [rng.choice([0.5, 1.0, 2.5, 0.1, 1e-5, 12345.678, 1e300, 5e-324, rng.uniform(0.01, 100)]) for _ in idx]
        if how == 'noncanon' and idx:
            # what a CSR handed to from_array may look like: unsorted columns, duplicates, explicit zeros
            r = rng.random()
            if r < 0.4:
                order = list(range(len(idx)))
                rng.shuffle(order)
                idx, vals = [idx[j] for j in order], [vals[j] for j in order]
            elif r < 0.7:
                j = rng.randrange(len(idx))
                idx, vals = idx + [idx[j]], vals + [vals[j]]
            else:
                j = rng.randrange(len(idx))
                vals = list(vals)
                vals[j] = 0
        rows.append({'idx': idx, 'vals': vals, 'name': names[i]})
    sizes = []
    left = n
    while left:
        s = rng.randint(1, left)
        sizes.append(s)
        left -= s
    nprops = rng.choice([0, 0, 1, 2, 3])
    keys = rng.sample(PROP_KEYS, nprops)
    return {'kind': kind, 'bits': bits, 'level': rng.choice(LEVELS), 'name': rng.choice(DBNAMES), 'rows': rows, 'how': how,
            'batches': sizes, 'names_mode': mode, 'props': [rand_prop(rng, n, k) for k in keys],
            'props_via': rng.choice(['set_prop', 'from_array']) if how != 'add' else 'set_prop'}


def _fp(kind, row, bits, level):
    C = classes()[kind]
    kw = {'bits': bits, 'level': level, 'name': row['name']}
    if kind == 'KBit':
        return C.from_indices(np.array(row['idx'], dtype=np.int64), **kw)
    conv = float if kind == 'KFloat' else int
    return C.from_counts({int(i): conv(v) for i, v in zip(row['idx'], row['vals'])}, **kw)


def prop_array(p):
    if p['dtype'] == 'str':
        return np.array(p['vals'], dtype=str) if p['vals'] else np.array([], dtype='<U1')
    return np.array(p['vals'], dtype=p['dtype'])


def build_db(spec):
    from scipy.sparse import csr_matrix
    from e3fp.fingerprint.db import FingerprintDatabase
    from e3fp.fingerprint.fprint import dtype_from_fptype
    kind, bits, level = spec['kind'], spec['bits'], spec['level']
    C = classes()[kind]
    props = {p['key']: prop_array(p) for p in spec['props']}
    if spec['how'] == 'add':
        db = FingerprintDatabase(fp_type=C, level=level, name=spec['name'])
        pos = 0
        for s in spec['batches']:
            db.add_fingerprints([_fp(kind, r, bits, level) for r in spec['rows'][pos:pos + s]])
            pos += s
    else:
        dtype = np.dtype(dtype_from_fptype(C))
        data = np.array([v for r in spec['rows'] for v in r['vals']], dtype=dtype)
        indices = np.array([i for r in spec['rows'] for i in r['idx']], dtype=np.int64)
        indptr = np.cumsum([0] + [len(r['idx']) for r in spec['rows']]).astype(np.int64)
        m = csr_matrix((data, indices, indptr), shape=(len(spec['rows']), bits))
        arr = m.toarray() if spec['how'] == 'from_dense' else m
        names = [r['name'] for r in spec['rows']]
        if spec['props_via'] == 'from_array':
            return FingerprintDatabase.from_array(arr, names, fp_type=C, level=level, name=spec['name'], props=props)
        db = FingerprintDatabase.from_array(arr, names, fp_type=C, level=level, name=spec['name'])
    for k, v in props.items():
        db.set_prop(k, v)
    return db


def spec_json(spec):
    """JSON-able copy (floats as hex strings so that NaN/inf/-0.0 survive)."""
    def f(v):
        return v.hex() if isinstance(v, float) else v
    s = dict(spec)
    s['rows'] = [dict(r, vals=[f(v) for v in r['vals']]) for r in spec['rows']]
    s['props'] = [dict(p, vals=[f(v) for v in p['vals']]) for p in spec['props']]
    return s


def spec_from_json(s):
    def g(v):
        return float.fromhex(v) if isinstance(v, str) and ('0x' in v or v in ('nan', 'inf', '-inf')) else v
    spec = dict(s)
    spec['rows'] = [dict(r, vals=[g(v) if spec['kind'] == 'KFloat' else v for v in r['vals']]) for r in s['rows']]
    spec['props'] = [dict(p, vals=[g(v) if p['dtype'].startswith('float') else v for v in p['vals']]) for p in s['props']]
    return spec
