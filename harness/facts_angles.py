"""Angle constants of the stereo encoding -> Gen/AngleTable.v (rational approximations with denominator 2^110 of
sin^2(k * Z_AXIS_PRECISION), cos^2(POLAR_CONE_RAD) and Y_AXIS_PRECISION^2, computed from the constants read from the
source).  Proofs/AngleTableCert.v certifies the table against the real sine with the Interval tactic."""
import m1_spec

BITS = 50


def tree(rows):
    if not rows:
        return 'BLeaf'
    m = len(rows) // 2
    return '(BNode %s %s %s)' % (tree(rows[:m]), rows[m], tree(rows[m + 1:]))


def generate():
    from e3fp.fingerprint import fprinter
    tab, c2, y2 = m1_spec.angle_constants(fprinter.Z_AXIS_PRECISION, fprinter.POLAR_CONE_RAD, fprinter.Y_AXIS_PRECISION, den_bits=BITS)
    den = tab[0].denominator if tab else 1
    bits = BITS
    rows = ['(%d, %d)' % (int(t * (1 << bits)), 1 << bits) for t in tab]
    lines = ['From Coq Require Import ZArith List.', 'From E3FP Require Import Model.Geometry Model.Stereo.', 'Import ListNotations.', 'Open Scope Z_scope.', '',
             'Definition angle_den_bits : Z := %d.' % bits,
             'Definition sin2_table : list (Z * Z) :=', ' [' + ';\n  '.join(rows) + '].', '',
             'Definition sin2_tree : btree :=', ' ' + tree(rows) + '.', '',
             'Definition cos2_cone : Z * Z := (%d, %d).' % (int(c2 * (1 << bits)), 1 << bits),
             'Definition yprec2 : Z * Z := (%d, %d).' % (y2.numerator, y2.denominator),
             'Definition e3fp_consts : sconsts := mksconsts sin2_tree cos2_cone yprec2.', '']
    return {'AngleTable.v': '\n'.join(lines)}
