"""Constants of the fingerprinting core and of the fingerprint containers -> Gen/Constants.v"""
import math
from fractions import Fraction


def _q(x):
    fr = Fraction(x)
    return '(Qmake (%d)%%Z %d)' % (fr.numerator, fr.denominator)


def generate():
    from rdkit import Chem
    import numpy as np
    from e3fp.fingerprint import fprinter, fprint, array_ops
    bt = fprinter.BOND_TYPES
    names = {None: 'BtNone', Chem.BondType.SINGLE: 'BtSingle', Chem.BondType.DOUBLE: 'BtDouble',
             Chem.BondType.TRIPLE: 'BtTriple', Chem.BondType.AROMATIC: 'BtAromatic'}
    rows = []
    for k, v in bt.items():
        if k not in names:
            names[k] = 'BtOther'
        rows.append((names[k], int(v)))
    rows.sort()
    lines = ['From Coq Require Import ZArith List QArith String.', 'Import ListNotations.', 'Open Scope Z_scope.', '',
             'Inductive bond_tag := BtNone | BtSingle | BtDouble | BtTriple | BtAromatic | BtOther.',
             'Definition bond_types_table : list (bond_tag * Z) := [%s].' % '; '.join('(%s, %d)' % r for r in rows),
             'Definition mmh3_seed : Z := %d.' % int(fprinter.MMH3_SEED),
             'Definition fprinter_bits : Z := %d.' % int(fprinter.BITS),
             'Definition bits_def : Z := %d.' % int(fprint.BITS_DEF),
             'Definition fold_bits_def : Z := %d.' % int(fprint.FOLD_BITS_DEF),
             '(* exact values of the double-precision constants *)',
             'Definition y_axis_precision : Q := %s.' % _q(fprinter.Y_AXIS_PRECISION),
             'Definition z_axis_precision : Q := %s.' % _q(fprinter.Z_AXIS_PRECISION),
             'Definition polar_cone_rad : Q := %s.' % _q(fprinter.POLAR_CONE_RAD),
             'Definition polar_cone_is_pi_over_36 : bool := %s.' % ('true' if fprinter.POLAR_CONE_RAD == math.pi / 36 else 'false'),
             'Definition array_ops_eps : Q := %s.' % _q(array_ops.EPS),
             'Definition count_dtype_max : Z := %d.' % int(np.iinfo(fprint.COUNT_FP_DTYPE).max),
             'Definition ident_dtype_is_int64 : bool := %s.' % ('true' if fprinter.IDENT_DTYPE is np.int64 else 'false'),
             'Definition name_prop_key : string := "%s"%%string.' % fprint.NAME_PROP_KEY,
             '']
    return {'Constants.v': '\n'.join(lines)}
