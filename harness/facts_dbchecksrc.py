"""Source-derived definitions for the validation of add_fingerprints (C16) -> Gen/DbCheckSource.v (fail-closed `ast` translator).

Re-derived from the SOURCE TEXT of FingerprintDatabase._check_fingerprints_are_valid / add_fingerprints (db.py) on every run;
Properties/C16Src.v proves Model/Db.v's check_valid equal to it.  TRANSLATED: the `if <test>: raise <Error>` guards inside the
`for fprint in fprints:` loop, in source order, over two atoms matched as exact text (`fprint.level != self.level`,
`fprint.bits != bits`) with the exception class of each.  STRUCTURE REQUIRED (else the translator raises): the loop iterates over
`fprints` itself (no slice, no enumerate), its body consists of such guards only (no break / continue / else / index test), nothing
before the loop raises or mutates `self` (only `bits = self.bits` and its `None` default), and the first statement of
add_fingerprints is `self._check_fingerprints_are_valid(fprints)` - the whole batch is validated before anything is stored."""
import ast
import inspect
import textwrap

from facts_m1src import Untranslatable

ATOMS = {'fprint.level!=self.level': '(negb level_eq)', 'fprint.bits!=bits': '(negb bits_eq)',
         'fprint.level==self.level': 'level_eq', 'fprint.bits==bits': 'bits_eq'}
ERRS = {'ValueError': 'EValue', 'E3FPBitsValueError': 'EBits'}


def _func(obj):
    return ast.parse(textwrap.dedent(inspect.getsource(obj))).body[0]


def tr_bool(e):
    src = ast.unparse(e).replace(' ', '')
    if src in ATOMS:
        return ATOMS[src]
    if isinstance(e, ast.BoolOp):
        op = ' && ' if isinstance(e.op, ast.And) else ' || '
        return '(' + op.join(tr_bool(v) for v in e.values) + ')'
    if isinstance(e, ast.UnaryOp) and isinstance(e.op, ast.Not):
        return '(negb %s)' % tr_bool(e.operand)
    raise Untranslatable('atom outside the table: ' + ast.unparse(e))


def _nodoc(body):
    return [s for s in body if not (isinstance(s, ast.Expr) and isinstance(s.value, ast.Constant))]


def generate():
    from e3fp.fingerprint import db
    f = _func(db.FingerprintDatabase._check_fingerprints_are_valid)
    if [a.arg for a in f.args.args] != ['self', 'fprints']:
        raise Untranslatable('_check_fingerprints_are_valid arguments')
    body = _nodoc(f.body)
    loops = [i for i, s in enumerate(body) if isinstance(s, ast.For)]
    if len(loops) != 1:
        raise Untranslatable('expected exactly one for loop')
    pre = [ast.unparse(s).replace(' ', '').replace('\n', '') for s in body[:loops[0]]]
    if pre != ['bits=self.bits', 'ifbitsisNone:bits=fprints[0].bits']:
        raise Untranslatable('statements before the loop: %r' % pre)
    loop = body[loops[0]]
    if ast.unparse(loop.target) != 'fprint' or ast.unparse(loop.iter) != 'fprints' or loop.orelse:
        raise Untranslatable('loop header: for %s in %s' % (ast.unparse(loop.target), ast.unparse(loop.iter)))
    guards = []
    for st in loop.body:
        if not (isinstance(st, ast.If) and not st.orelse and len(st.body) == 1 and isinstance(st.body[0], ast.Raise)):
            raise Untranslatable('loop body statement is not `if <test>: raise ...`: ' + ast.unparse(st)[:80])
        exc = st.body[0].exc
        name = exc.func.id if isinstance(exc, ast.Call) and isinstance(exc.func, ast.Name) else None
        if name not in ERRS:
            raise Untranslatable('guard raises %r' % (name,))
        guards.append((tr_bool(st.test), ERRS[name]))
    if not guards:
        raise Untranslatable('no guard in the loop')
    for st in body[loops[0] + 1:]:
        if any(isinstance(n, (ast.Raise, ast.Return)) for n in ast.walk(st)):
            raise Untranslatable('raise/return after the loop')
    term = 'None'
    for t, e in reversed(guards):
        term = '(if %s then Some %s else %s)' % (t, e, term)
    g = _func(db.FingerprintDatabase.add_fingerprints)
    first = _nodoc(g.body)[0]
    if ast.unparse(first).replace(' ', '') != 'self._check_fingerprints_are_valid(fprints)':
        raise Untranslatable('add_fingerprints does not start with the validation of the whole batch: ' + ast.unparse(first)[:80])
    lines = ['From Coq Require Import Bool.', 'From E3FP Require Import Base.Prelude.', '',
             '(* the %d guards applied to EVERY member of the batch by _check_fingerprints_are_valid, in source order *)' % len(guards),
             'Definition check_item_src (level_eq bits_eq : bool) : option err := %s.' % term, '']
    return {'DbCheckSource.v': '\n'.join(lines)}
