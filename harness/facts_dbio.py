"""Constants of FingerprintDatabase.savez / load / savetxt read from the source text (ast) -> Gen/DbIOFacts.v.

Fail-closed: a construct that is not found where the model expects it raises, and the check reports the broken tie.
The theorems `source_constants` of Properties/C08.v state that these are the constants of Model/DbIO.v."""
import ast


class FactError(Exception):
    pass


def _s(x):
    return '"%s"%%string' % x.replace('"', '""')


def _const(node, typ):
    if isinstance(node, ast.Constant) and isinstance(node.value, typ):
        return node.value
    if typ is int and isinstance(node, ast.UnaryOp) and isinstance(node.op, ast.USub) and isinstance(node.operand, ast.Constant):
        return -node.operand.value
    raise FactError('expected a %s constant, found %s' % (typ.__name__, ast.dump(node)[:120]))


def _method(cls, name):
    for n in cls.body:
        if isinstance(n, ast.FunctionDef) and n.name == name:
            return n
    raise FactError('FingerprintDatabase.%s not found' % name)


def _one(items, what):
    items = list(items)
    if len(items) != 1:
        raise FactError('%s: expected exactly one occurrence, found %d' % (what, len(items)))
    return items[0]


def generate():
    """Fail-closed: raises when a construct is not found (harness/facts.py then removes Gen/DbIOFacts.v and C08's source-derived
    obligations, Properties/C08Src.v, are reported as not attempted)."""
    out = _generate()
    return out


def _generate():
    import numpy as np
    import e3fp.fingerprint.db as dbm
    import e3fp.fingerprint.fprint as fpm
    tree = ast.parse(open(dbm.__file__.replace('.pyc', '.py')).read())
    cls = _one([n for n in tree.body if isinstance(n, ast.ClassDef) and n.name == 'FingerprintDatabase'], 'class FingerprintDatabase')
    # ---- savez: keys of the array_dict literal, the prefix of property keys, the extension
    savez = _method(cls, 'savez')
    lit = _one([n for n in ast.walk(savez) if isinstance(n, ast.Assign) and isinstance(n.value, ast.Dict)
                and isinstance(n.targets[0], ast.Name) and n.targets[0].id == 'array_dict'], 'savez: array_dict = {...}')
    keys = [_const(k, str) for k in lit.value.keys]
    pre = _one([n for n in ast.walk(savez) if isinstance(n, ast.Assign) and isinstance(n.targets[0], ast.Subscript)
                and isinstance(n.targets[0].value, ast.Name) and n.targets[0].value.id == 'array_dict'], 'savez: array_dict[...] = v')
    sl = pre.targets[0].slice
    if not (isinstance(sl, ast.BinOp) and isinstance(sl.op, ast.Add)):
        raise FactError('savez: property key is not "<prefix>" + str(k): %s' % ast.dump(sl)[:120])
    prefix = _const(sl.left, str)
    ext = _one({_const(n.args[0], str) for n in ast.walk(savez) if isinstance(n, ast.Call) and isinstance(n.func, ast.Attribute)
                and n.func.attr == 'endswith'}, 'savez: fn.endswith(ext)')
    # ---- load: prefix test, number of characters stripped, keys read, extension
    load = _method(cls, 'load')
    lpre = _one({_const(n.args[0], str) for n in ast.walk(load) if isinstance(n, ast.Call) and isinstance(n.func, ast.Attribute)
                 and n.func.attr == 'startswith'}, 'load: k.startswith(prefix)')
    strip = _one({_const(n.slice.lower, int) for n in ast.walk(load) if isinstance(n, ast.Subscript) and isinstance(n.slice, ast.Slice)
                  and isinstance(n.value, ast.Name) and n.value.id == 'k' and n.slice.upper is None}, 'load: k[n:]')
    read = []
    for n in ast.walk(load):
        if isinstance(n, ast.Subscript) and isinstance(n.value, ast.Name) and n.value.id == 'array_dict' and isinstance(n.slice, ast.Constant):
            if n.slice.value not in read:
                read.append(n.slice.value)
    lext = _one({_const(n.args[0], str) for n in ast.walk(load) if isinstance(n, ast.Call) and isinstance(n.func, ast.Attribute)
                 and n.func.attr == 'endswith'}, 'load: fn.endswith(ext)')
    # ---- savetxt: the run-length construction
    savetxt = _method(cls, 'savetxt')
    join = _one([n for n in ast.walk(savetxt) if isinstance(n, ast.Call) and isinstance(n.func, ast.Attribute) and n.func.attr == 'join'],
                'savetxt: sep.join(...)')
    one = _const(join.func.value, str)
    comp = join.args[0]
    if not (isinstance(comp, (ast.ListComp, ast.GeneratorExp)) and isinstance(comp.elt, ast.BinOp) and isinstance(comp.elt.op, ast.Mult)):
        raise FactError('savetxt: join argument is not [fill * j for j in ...]')
    zero = _const(comp.elt.left, str)
    it = comp.generators[0].iter
    if not (isinstance(it, ast.BinOp) and isinstance(it.op, ast.Sub)):
        raise FactError('savetxt: iterable is not np.diff(...) - c')
    minus = _const(it.right, int)
    r_ = _one([n for n in ast.walk(it.left) if isinstance(n, ast.Subscript) and isinstance(n.value, ast.Attribute) and n.value.attr == 'r_'],
              'savetxt: np.r_[...]')
    elts = r_.slice.elts if isinstance(r_.slice, ast.Tuple) else []
    if len(elts) != 3 or not (isinstance(elts[2], ast.Attribute) and elts[2].attr == 'bits') or not (isinstance(elts[1], ast.Name) and elts[1].id == 'indices'):
        raise FactError('savetxt: np.r_ is not [sentinel, indices, self.bits]')
    sentinel = _const(elts[0], int)
    if not (isinstance(it.left, ast.Call) and isinstance(it.left.func, ast.Attribute) and it.left.func.attr == 'diff'):
        raise FactError('savetxt: not np.diff')
    fmts = [n.value for n in ast.walk(savetxt) if isinstance(n, ast.Constant) and isinstance(n.value, str) and '{' in n.value and ':s}' in n.value]
    wr = _one([n for n in ast.walk(savetxt) if isinstance(n, ast.Call) and isinstance(n.func, ast.Attribute) and n.func.attr == 'write'], 'savetxt: f.write')
    if not (isinstance(wr.args[0], ast.BinOp) and isinstance(wr.args[0].op, ast.Add)):
        raise FactError('savetxt: write argument is not row + terminator')
    term = _const(wr.args[0].right, str)

    def dt(x):
        d = np.dtype(x)
        return '(%s, %d%%Z)' % (_s(d.kind), d.itemsize)
    lines = ['From Coq Require Import ZArith List String.', 'Import ListNotations.', 'Open Scope Z_scope.', '',
             'Definition src_extraction_ok : bool := true.',
             'Definition src_extraction_error : string := ""%string.',
             'Definition src_savez_keys : list string := [%s].' % '; '.join(_s(k) for k in keys),
             'Definition src_savez_prefix : string := %s.' % _s(prefix),
             'Definition src_savez_ext : string := %s.' % _s(ext),
             'Definition src_load_prefix : string := %s.' % _s(lpre),
             'Definition src_load_strip : Z := %d.' % strip,
             'Definition src_load_keys_read : list string := [%s].' % '; '.join(_s(k) for k in sorted(read)),
             'Definition src_load_ext : string := %s.' % _s(lext),
             'Definition src_txt_one : string := %s.' % _s(one),
             'Definition src_txt_zero : string := %s.' % _s(zero),
             'Definition src_txt_sentinel : Z := %d.' % sentinel,
             'Definition src_txt_minus : Z := %d.' % minus,
             'Definition src_txt_formats : list string := [%s].' % '; '.join(_s(f) for f in fmts),
             'Definition src_txt_terminator_is_newline : bool := %s.' % ('true' if term == '\n' else 'false'),
             '(* (dtype.kind, itemsize) of FP_DTYPE, COUNT_FP_DTYPE, FLOAT_FP_DTYPE *)',
             'Definition src_dtypes : list (string * Z) := [%s; %s; %s].' % (dt(fpm.FP_DTYPE), dt(fpm.COUNT_FP_DTYPE), dt(fpm.FLOAT_FP_DTYPE)),
             '']
    return {'DbIOFacts.v': '\n'.join(lines)}
