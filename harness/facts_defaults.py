"""The three independent sets of defaults of e3fp -> Gen/Defaults.v (regenerated on every run, fail-closed):
 * the packaged defaults.cfg: its text and the way Python's ConfigParser reads it,
 * the defaults of the Python parameters of the six API entry points (inspect.signature),
 * the defaults of the options of the two command-line parsers (ArgumentParser.parse_args intercepted),
 * the interpreter's int<->str digit limit and the 'unfolded' bit length.
Properties/C20.v proves `defaults_coherent` (and friends) over these tables by vm_compute."""
import sys


def generate():
    import config_gen as G
    path, text, parsed = G.defaults_file()
    eps = G.entry_point_defaults()
    from e3fp.fingerprint import fprinter
    limit = sys.get_int_max_str_digits()
    if limit <= 0:
        raise G.FactsError('int/str digit limit disabled: configuration not covered by the model')
    S = G.coq_string
    L = ['From Coq Require Import ZArith List String.', 'Import ListNotations.', 'Open Scope Z_scope.', '',
         '(* a typed Python default *)',
         'Inductive dval := DInt (z : Z) | DFloat (tok : string) | DBool (b : bool) | DNone | DStr (s : string) | DOther (repr : string).',
         '', '(* sys.get_int_max_str_digits() *)', 'Definition py_int_max_str_digits : Z := %d.' % limit,
         '(* e3fp.fingerprint.fprinter.BITS: the "unfolded" length *)',
         'Definition unfolded_bits : Z := %d.' % int(fprinter.BITS), '',
         '(* text of %s *)' % 'src/e3fp/config/defaults.cfg',
         'Definition defaults_cfg_text : string := %s.' % S(text), '',
         '(* the same file as configparser.ConfigParser reads it (raw values) *)',
         'Definition defaults_cfg_parsed : list (string * list (string * string)) := [']
    rows = []
    for sec, kv in parsed:
        rows.append('  (%s, [%s])' % (S(sec), '; '.join('(%s, %s)' % (S(k), S(v)) for k, v in kv)))
    L.append(';\n'.join(rows) + '].')
    L += ['', '(* entry point, the sections its options come from, its parameters/options with their defaults',
          '   (sig = inspect.signature, argparse = parser built inside main()) *)',
          'Definition entry_points : list (string * (list string * list (string * dval))) := [']
    rows = []
    for name, kind, sections, d in eps:
        rows.append('  (* %s *)\n  (%s, ([%s], [%s]))' % (kind, S(name), '; '.join(S(s) for s in sections),
                    '; '.join('(%s, %s)' % (S(k), G.dval(v)) for k, v in d.items())))
    L.append(';\n'.join(rows) + '].')
    L.append('')
    return {'Defaults.v': '\n'.join(L)}
