"""Source-derived definitions for fingerprint equality (C09) -> Gen/EqSource.v (fail-closed Python-`ast` translator).

Re-derived from the SOURCE TEXT of Fingerprint.__eq__/__ne__ and CountFingerprint.__eq__/__ne__ (fprint.py) on every run;
Properties/C09Src.v proves Model/Fprint.v's fp_eq / fp_ne equal to them.  TRANSLATED: the boolean structure (and/or/not) of the
returned expression over five named atomic comparisons, the class tested by the isinstance guard and the exception raised, and
the returned expression of __ne__ over the atom `self.__eq__(other)`.  The atoms themselves (`self.level == other.level`,
`self.bits == other.bits`, `self.__class__ == other.__class__`, `np.array_equal(self.indices, other.indices)`,
`self.counts == other.counts`) are matched as exact text and read by the model as option_eqb / Z.eqb / kind_eqb / list_eqb /
cmap_eqb; that reading is tied to the code by the correspondence.  Any other atom or statement makes the translator raise."""
import ast
import inspect
import textwrap

from facts_m1src import Untranslatable

ATOMS = {'self.level==other.level': 'level_eq', 'self.bits==other.bits': 'bits_eq', 'self.__class__==other.__class__': 'class_eq',
         'np.array_equal(self.indices,other.indices)': 'indices_eq', 'self.counts==other.counts': 'counts_eq'}
CLASSES = {'Fingerprint': 'is_fp', 'CountFingerprint': 'is_count'}


def _func(obj):
    return ast.parse(textwrap.dedent(inspect.getsource(obj))).body[0]


def tr_bool(e, atoms):
    src = ast.unparse(e).replace(' ', '')
    if src in atoms:
        return atoms[src]
    if isinstance(e, ast.BoolOp):
        op = ' && ' if isinstance(e.op, ast.And) else ' || '
        return '(' + op.join(tr_bool(v, atoms) for v in e.values) + ')'
    if isinstance(e, ast.UnaryOp) and isinstance(e.op, ast.Not):
        return '(negb %s)' % tr_bool(e.operand, atoms)
    if isinstance(e, ast.Constant) and isinstance(e.value, bool):
        return 'true' if e.value else 'false'
    raise Untranslatable('atom outside the table: ' + ast.unparse(e))


def method(fn):
    """body = [docstring] ; `if not isinstance(other, C): raise E3FPInvalidFingerprintError(...)` ; `return <bool expr>`."""
    body = [s for s in fn.body if not (isinstance(s, ast.Expr) and isinstance(s.value, ast.Constant))]
    if len(body) != 2 or not isinstance(body[0], ast.If) or not isinstance(body[1], ast.Return):
        raise Untranslatable('%s: expected a guard and a return' % fn.name)
    g = body[0]
    t = g.test
    if not (isinstance(t, ast.UnaryOp) and isinstance(t.op, ast.Not) and isinstance(t.operand, ast.Call) and ast.unparse(t.operand.func) == 'isinstance'
            and ast.unparse(t.operand.args[0]) == 'other' and ast.unparse(t.operand.args[1]) in CLASSES and not g.orelse
            and len(g.body) == 1 and isinstance(g.body[0], ast.Raise) and isinstance(g.body[0].exc, ast.Call)
            and ast.unparse(g.body[0].exc.func) == 'E3FPInvalidFingerprintError'):
        raise Untranslatable('%s: guard is not `if not isinstance(other, <class>): raise E3FPInvalidFingerprintError`' % fn.name)
    return CLASSES[ast.unparse(t.operand.args[1])], body[1].value


def generate():
    from e3fp.fingerprint import fprint
    out = []
    for cls, tag in ((fprint.Fingerprint, 'fp'), (fprint.CountFingerprint, 'cfp')):
        for forbidden in ('__hash__',):
            pass
        g, ret = method(_func(cls.__dict__['__eq__']))
        out.append('Definition %s_eq_accepts_src (is_fp is_count : bool) : bool := %s.' % (tag, g))
        out.append('Definition %s_eq_src (level_eq bits_eq class_eq indices_eq counts_eq : bool) : bool := %s.' % (tag, tr_bool(ret, ATOMS)))
        g, ret = method(_func(cls.__dict__['__ne__']))
        out.append('Definition %s_ne_accepts_src (is_fp is_count : bool) : bool := %s.' % (tag, g))
        out.append('Definition %s_ne_src (eq : bool) : bool := %s.' % (tag, tr_bool(ret, {'self.__eq__(other)': 'eq', 'self==other': 'eq'})))
    if '__eq__' in fprint.FloatFingerprint.__dict__ or '__ne__' in fprint.FloatFingerprint.__dict__:
        raise Untranslatable('FloatFingerprint defines its own __eq__/__ne__')
    lines = ['From Coq Require Import Bool.', '',
             '(* translated from Fingerprint.__eq__/__ne__ (prefix fp) and CountFingerprint.__eq__/__ne__ (prefix cfp; FloatFingerprint inherits them) *)'] + out + ['']
    return {'EqSource.v': '\n'.join(lines)}
