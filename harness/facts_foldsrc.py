"""Source-derived definitions for folding (C07) -> Gen/FoldSource.v (fail-closed Python-`ast` translator; grammar of facts_m1src).

Re-derived from the SOURCE TEXT of fprint.py, db.py and fprinter.py on every run; Properties/C07Src.v proves the hand-written
models (Model/Fprint.v fold_index / fold_check, Model/Db.v fold_row / h_fold, Murmur3.unsigned32) equal to them:
  * Fingerprint.fold : the sequence of `if <test>: raise <Error>` guards, IN SOURCE ORDER, as one nested conditional
    (`np.log2(self.bits / bits).is_integer()` is an opaque boolean parameter `pow2`; its Gallina reading pow2_ratio is tied by the
    correspondence and characterised by C07.pow2_ratio_spec), and the position map of each method (`self.indices % bits`,
    `self.indices // (self.bits // bits)`) read from the `if method == ...` chain;
  * FingerprintDatabase.fold : its guards in order, and the column expression handed to csr_matrix (`self.array.indices % bits`);
  * Fingerprinter.substructs_to_pdb : the folded identifier naming a substructure file, `signed_to_unsigned_int(shell.identifier) % bits`.
GUARDS (string comparisons; a different text makes the translator raise => obligations not attempted + deepened correspondence):
the csr_matrix call of db.fold takes `self.array.data.copy()` and `self.array.indptr.copy()` and is followed by sum_duplicates() and
`[:, :bits]`; CountFingerprint.fold defaults `counts_method` to `sum` and applies it to `[self.get_count(x) for x in ind_set]`;
get_fingerprint_at_level builds `from_indices(signed_to_unsigned_int(identifiers), level=level)` and ends in `fprint.fold(bits)` with
`bits in (-1, None)` replaced by self.bits."""
import ast
import inspect
import textwrap

from facts_m1src import Untranslatable, tr_z

ERRS = {'E3FPBitsValueError': 'EBits', 'E3FPOptionError': 'EOption'}


def _func(obj):
    return ast.parse(textwrap.dedent(inspect.getsource(obj))).body[0]


def tr_b(e, env, opaque):
    """facts_m1src.tr_b + `x in (c1, c2)` / `x not in (...)` over integer constants + opaque boolean calls (exact source text)."""
    src = ast.unparse(e).replace(' ', '')
    if src in opaque:
        return opaque[src]
    if isinstance(e, ast.BoolOp):
        op = ' && ' if isinstance(e.op, ast.And) else ' || '
        return '(' + op.join(tr_b(v, env, opaque) for v in e.values) + ')'
    if isinstance(e, ast.UnaryOp) and isinstance(e.op, ast.Not):
        return '(negb %s)' % tr_b(e.operand, env, opaque)
    if isinstance(e, ast.Compare) and len(e.ops) == 1:
        o = e.ops[0]
        if isinstance(o, (ast.In, ast.NotIn)):
            c = e.comparators[0]
            if not (isinstance(c, (ast.Tuple, ast.List)) and c.elts):
                raise Untranslatable('membership in a non-literal: ' + ast.unparse(e))
            l = tr_z(e.left, env)
            t = '(' + ' || '.join('(%s =? %s)' % (l, tr_z(x, env)) for x in c.elts) + ')'
            return t if isinstance(o, ast.In) else '(negb %s)' % t
        l, r = tr_z(e.left, env), tr_z(e.comparators[0], env)
        table = {ast.GtE: '(%s <=? %s)' % (r, l), ast.Gt: '(%s <? %s)' % (r, l), ast.LtE: '(%s <=? %s)' % (l, r), ast.Lt: '(%s <? %s)' % (l, r),
                 ast.Eq: '(%s =? %s)' % (l, r), ast.NotEq: '(negb (%s =? %s))' % (l, r)}
        for k, v in table.items():
            if isinstance(o, k):
                return v
    raise Untranslatable('boolean expression outside the grammar: ' + ast.unparse(e))


def guards(fn, env, opaque):
    """The top-level `if <test>: raise <Error>(...)` statements of a function, in source order -> nested Gallina conditional."""
    out = []
    for st in fn.body:
        if isinstance(st, ast.If) and len(st.body) == 1 and isinstance(st.body[0], ast.Raise) and not st.orelse:
            exc = st.body[0].exc
            name = exc.func.id if isinstance(exc, ast.Call) and isinstance(exc.func, ast.Name) else (exc.id if isinstance(exc, ast.Name) else None)
            if name not in ERRS:
                raise Untranslatable('guard raises %r' % (name,))
            out.append((tr_b(st.test, env, opaque), ERRS[name]))
    if not out:
        raise Untranslatable('no guards found in %s' % fn.name)
    term = 'None'
    for t, e in reversed(out):
        term = '(if %s then Some %s else %s)' % (t, e, term)
    return term, len(out)


def method_chain(fn, env):
    """`if method == c0: folded_indices = E0 elif method == c1: folded_indices = E1` anywhere in the function -> nested conditional."""
    chains = []
    for st in ast.walk(fn):
        if isinstance(st, ast.If) and len(st.body) == 1 and isinstance(st.body[0], ast.Assign) \
                and ast.unparse(st.body[0].targets[0]) == 'folded_indices':
            chains.append(st)
    inner = set()
    for c in chains:
        for x in c.orelse:
            if isinstance(x, ast.If):
                inner.add(id(x))
    heads = [c for c in chains if id(c) not in inner]
    if len(heads) != 1:
        raise Untranslatable('expected one `if method == ...: folded_indices = ...` chain, found %d' % len(heads))

    def go(st):
        cond = tr_b(st.test, env, {})
        val = tr_z(st.body[0].value, env)
        if not st.orelse:
            rest = '(-1)'     # no branch assigns: NameError in the source; excluded by the method guard (theorem hypothesis)
        elif len(st.orelse) == 1 and isinstance(st.orelse[0], ast.If) and len(st.orelse[0].body) == 1 and isinstance(st.orelse[0].body[0], ast.Assign) \
                and ast.unparse(st.orelse[0].body[0].targets[0]) == 'folded_indices':
            rest = go(st.orelse[0])
        elif len(st.orelse) == 1 and isinstance(st.orelse[0], ast.Assign) and ast.unparse(st.orelse[0].targets[0]) == 'folded_indices':
            rest = tr_z(st.orelse[0].value, env)
        else:
            raise Untranslatable('else branch of the method chain: ' + ast.unparse(st.orelse[0])[:80])
        return '(if %s then %s else %s)' % (cond, val, rest)
    return go(heads[0])


def _need(cond, what):
    if not cond:
        raise Untranslatable(what)


def generate():
    from e3fp.fingerprint import fprint, db, fprinter
    LOG2 = 'np.log2(self.bits/bits).is_integer()'
    # ---- Fingerprint.fold
    f = _func(fprint.Fingerprint.fold)
    _need([a.arg for a in f.args.args] == ['self', 'bits', 'method', 'linked'], 'Fingerprint.fold arguments')
    env = {'bits': 'bits', 'self.bits': 'selfbits', 'method': 'method', 'self.indices': 'i'}
    fp_guards, n_fp = guards(f, env, {LOG2: 'pow2'})
    fp_index = method_chain(f, env)
    src = ast.unparse(f).replace(' ', '')
    _need('self.__class__.from_indices(folded_indices,bits=bits,level=self.level)' in src, 'Fingerprint.fold: from_indices(folded_indices, bits=bits, level=self.level)')
    # ---- CountFingerprint.fold (guards only)
    src = ast.unparse(_func(fprint.CountFingerprint.fold)).replace(' ', '')
    _need("counts_method=kwargs.pop('counts_method',sum)" in src, 'CountFingerprint.fold: counts_method default')
    _need('counts_method([self.get_count(x)forxinind_set])' in src, 'CountFingerprint.fold: counts_method over the fibre')
    _need('forfold_ind,ind_setinfp.index_to_unfolded_index_dict.items()' in src, 'CountFingerprint.fold: iterates the unfolding map')
    # ---- FingerprintDatabase.fold
    f = _func(db.FingerprintDatabase.fold)
    _need([a.arg for a in f.args.args] == ['self', 'bits', 'fp_type', 'name'], 'FingerprintDatabase.fold arguments')
    envd = {'bits': 'bits', 'self.bits': 'selfbits', 'self.array.indices': 'j'}
    db_guards, n_db = guards(f, envd, {LOG2: 'pow2'})
    calls = [c for c in ast.walk(f) if isinstance(c, ast.Call) and ast.unparse(c.func) == 'csr_matrix']
    _need(len(calls) == 1 and calls[0].args and isinstance(calls[0].args[0], ast.Tuple) and len(calls[0].args[0].elts) == 3, 'db.fold: csr_matrix((data, indices, indptr), ...)')
    data_e, ind_e, ptr_e = calls[0].args[0].elts
    _need(ast.unparse(data_e) == 'self.array.data.copy()', 'db.fold: data buffer is a copy')
    _need(ast.unparse(ptr_e) == 'self.array.indptr.copy()', 'db.fold: indptr buffer is a copy')
    db_col = tr_z(ind_e, envd)
    src = ast.unparse(f).replace(' ', '')
    _need('fold_arr.sum_duplicates()' in src and 'fold_arr=fold_arr[:,:bits].tocsr()' in src, 'db.fold: sum_duplicates then [:, :bits]')
    # ---- Fingerprinter.get_shells_at_level / get_fingerprint_at_level
    f = _func(fprinter.Fingerprinter.substructs_to_pdb)
    assigns = [s for s in ast.walk(f) if isinstance(s, ast.Assign) and ast.unparse(s.targets[0]) == 'identifier']
    _need(len(assigns) == 1, 'substructs_to_pdb: one assignment to `identifier`')
    v = assigns[0].value
    _need(isinstance(v, ast.BinOp) and isinstance(v.left, ast.Call) and ast.unparse(v.left) == 'signed_to_unsigned_int(shell.identifier)',
          'substructs_to_pdb: identifier = signed_to_unsigned_int(shell.identifier) <op> ...')
    v = ast.BinOp(left=ast.Name(id='__unsigned__', ctx=ast.Load()), op=v.op, right=v.right)
    shell_fold = tr_z(v, {'__unsigned__': '(signed_to_unsigned_src ident fprinter_bits)', 'bits': 'bits'})
    for fn in (fprinter.Fingerprinter.substructs_to_pdb, fprinter.Fingerprinter.get_fingerprint_at_level):
        src = ast.unparse(_func(fn)).replace(' ', '')
        _need('ifbitsin(-1,None):bits=self.bits' in src.replace('\n', ''), '%s: bits in (-1, None) -> self.bits' % fn.__name__)
    src = ast.unparse(_func(fprinter.Fingerprinter.get_fingerprint_at_level)).replace(' ', '')
    _need('returnfprint.fold(bits)' in src, 'get_fingerprint_at_level: return fprint.fold(bits)')
    _need('identifiers=signed_to_unsigned_int(np.array([x.identifierforxinshells],dtype=IDENT_DTYPE))' in src, 'get_fingerprint_at_level: identifiers')
    _need('fprint=self.fp_type.from_indices(identifiers,level=level)' in src, 'get_fingerprint_at_level: from_indices(identifiers, level=level)')
    lines = ['From Coq Require Import ZArith List Bool.', 'From E3FP Require Import Base.Prelude Gen.Constants Gen.M1Source.', 'Open Scope Z_scope.', '',
             '(* Fingerprint.fold: the %d guards `if <test>: raise <Error>` in source order; pow2 stands for np.log2(self.bits / bits).is_integer() *)' % n_fp,
             'Definition fp_fold_guards_src (bits selfbits method : Z) (pow2 : bool) : option err := %s.' % fp_guards,
             '(* Fingerprint.fold: folded position of position i, from the `if method == ...` chain (-1: no branch assigns) *)',
             'Definition fp_fold_index_src (method selfbits bits i : Z) : Z := %s.' % fp_index,
             '(* FingerprintDatabase.fold: the %d guards in source order *)' % n_db,
             'Definition db_fold_guards_src (bits selfbits : Z) (pow2 : bool) : option err := %s.' % db_guards,
             '(* FingerprintDatabase.fold: the column expression handed to csr_matrix *)',
             'Definition db_fold_col_src (j bits : Z) : Z := %s.' % db_col,
             '(* Fingerprinter.substructs_to_pdb: the folded identifier naming the file of a shell *)',
             'Definition shell_fold_identifier_src (ident bits : Z) : Z := %s.' % shell_fold,
             '']
    return {'FoldSource.v': '\n'.join(lines)}
