"""Source-derived definitions for fprints_dict_from_mol (C14) -> Gen/GenerateSource.v (fail-closed `ast` translator, grammar of facts_m1src).

Re-derived from the SOURCE TEXT of e3fp.fingerprint.generate.fprints_dict_from_mol on every run; Properties/C14Src.v proves the
decision rules of Model/Pipeline.v equal to them.  TRANSLATED: every `if` test of the function that mentions `all_iters` (the
single-level rule: where the files go, which levels are generated, what is saved), the skip rule `all_files_exist and not overwrite`,
the per-file rule `os.path.isfile(filenames[i]) and not overwrite` of the saving loop, and the conformer cut-off `j == first`.
Atoms (exact text): all_iters, overwrite, all_files_exist, os.path.isfile(filenames[i]); integers level, j, first."""
import ast
import inspect
import textwrap

from facts_m1src import Untranslatable, tr_z

BOOL_ATOMS = {'all_iters': 'all_iters', 'overwrite': 'overwrite', 'all_files_exist': 'all_files_exist', 'os.path.isfile(filenames[i])': 'is_file'}
ZENV = {'level': 'level', 'j': 'j', 'first': 'first'}


def tr_b(e):
    src = ast.unparse(e).replace(' ', '')
    if src in BOOL_ATOMS:
        return BOOL_ATOMS[src]
    if isinstance(e, ast.BoolOp):
        op = ' && ' if isinstance(e.op, ast.And) else ' || '
        return '(' + op.join(tr_b(v) for v in e.values) + ')'
    if isinstance(e, ast.UnaryOp) and isinstance(e.op, ast.Not):
        return '(negb %s)' % tr_b(e.operand)
    if isinstance(e, ast.Compare) and len(e.ops) == 1 and isinstance(e.ops[0], (ast.Eq, ast.NotEq)):
        t = '(%s =? %s)' % (tr_z(e.left, ZENV), tr_z(e.comparators[0], ZENV))
        return t if isinstance(e.ops[0], ast.Eq) else '(negb %s)' % t
    raise Untranslatable('boolean expression outside the grammar: ' + ast.unparse(e))


def generate():
    import sys
    sys.modules.setdefault('mpi4py', None)
    from e3fp.fingerprint import generate as G
    f = ast.parse(textwrap.dedent(inspect.getsource(G.fprints_dict_from_mol))).body[0]
    names = lambda t: set(n.id for n in ast.walk(t) if isinstance(n, ast.Name))
    ifs = [n for n in ast.walk(f) if isinstance(n, ast.If)]
    ifs.sort(key=lambda n: n.lineno)
    single = [n for n in ifs if 'all_iters' in names(n.test)]
    if len(single) < 1:
        raise Untranslatable('no test on all_iters found')
    skip = [n for n in ifs if 'all_files_exist' in names(n.test) and 'overwrite' in names(n.test)]
    per_file = [n for n in ifs if 'overwrite' in names(n.test) and 'isfile' in ast.unparse(n.test) and any(isinstance(x, ast.Continue) for x in n.body)]
    stop = [n for n in ifs if {'j', 'first'} <= names(n.test) and any(isinstance(x, ast.Break) for x in n.body)]
    if len(skip) != 1 or len(per_file) != 1 or len(stop) != 1:
        raise Untranslatable('skip rule / per-file rule / conformer cut-off: found %d / %d / %d' % (len(skip), len(per_file), len(stop)))
    if not (len(skip[0].body) >= 1 and isinstance(skip[0].body[-1], ast.Return) and ast.unparse(skip[0].body[-1].value) == '{}'):
        raise Untranslatable('the skip rule does not return {}')
    lines = ['From Coq Require Import ZArith Bool List.', 'Import ListNotations.', 'Open Scope Z_scope.', '',
             '(* every test of fprints_dict_from_mol that mentions all_iters, in source order (%d occurrences) *)' % len(single),
             'Definition single_level_tests_src (level : Z) (all_iters : bool) : list bool := [%s].' % '; '.join(tr_b(n.test) for n in single),
             'Definition skip_all_src (all_files_exist overwrite : bool) : bool := %s.' % tr_b(skip[0].test),
             'Definition skip_file_src (is_file overwrite : bool) : bool := %s.' % tr_b(per_file[0].test),
             'Definition conf_stop_src (j first : Z) : bool := %s.' % tr_b(stop[0].test), '']
    return {'GenerateSource.v': '\n'.join(lines)}
