"""Source-derived definitions for the M1 model -> Gen/M1Source.v (a small fail-closed Python-`ast` translator).

The model's formulas that are pure arithmetic / tuple layout in fprinter.py are re-derived from the SOURCE TEXT on every run and
Properties/C02.v proves the hand-written model equal to them, so that editing one of these expressions in the source breaks a
proof obligation (not only the correspondence):
  * invariants_from_atom / rdkit_invariants_from_atom : the list of invariants, in order, as expressions over the atom getters;
  * signed_to_unsigned_int : (a + bits) % bits;
  * identifier_from_shell : header = [level, previous identifier];
  * _first_two / Fingerprinter._shell_to_tuple : the sort keys;
  * Fingerprinter.__next__ : the level-cap test `current_level >= level and level != -1`.
Anything outside the tiny grammar below raises (the check then reports the broken tie)."""
import ast
import inspect
import textwrap


class Untranslatable(Exception):
    pass


GETTERS = {  # RDKit getter (as called in the source) -> model field
    'GetTotalDegree': 'a_tdeg D a', 'GetTotalValence': 'a_tval D a', 'GetAtomicNum': 'a_num D a', 'GetFormalCharge': 'a_charge D a',
}


def _func(mod, name):
    src = textwrap.dedent(inspect.getsource(getattr(mod, name)))
    return ast.parse(src).body[0]


def tr_atom_expr(e, env):
    """Expression over `atom` getters and local names -> Coq term over the record `a : atom D`."""
    if isinstance(e, ast.Name):
        if e.id in env:
            return env[e.id]
        raise Untranslatable('name %s' % e.id)
    if isinstance(e, ast.BinOp) and isinstance(e.op, (ast.Sub, ast.Add)):
        return '(%s %s %s)' % (tr_atom_expr(e.left, env), '-' if isinstance(e.op, ast.Sub) else '+', tr_atom_expr(e.right, env))
    if isinstance(e, ast.Call):
        # int(atom.GetMass()) / int(atom.IsInRing())
        if isinstance(e.func, ast.Name) and e.func.id == 'int' and len(e.args) == 1:
            inner = e.args[0]
            if isinstance(inner, ast.Call) and isinstance(inner.func, ast.Attribute) and isinstance(inner.func.value, ast.Name) and inner.func.value.id == 'atom':
                if inner.func.attr == 'GetMass' and not inner.args:
                    return 'a_mass D a'
                if inner.func.attr == 'IsInRing' and not inner.args:
                    return 'a_ring D a'
            raise Untranslatable(ast.dump(e))
        if isinstance(e.func, ast.Attribute) and isinstance(e.func.value, ast.Name) and e.func.value.id == 'atom':
            if e.func.attr == 'GetTotalNumHs':
                kws = {k.arg: getattr(k.value, 'value', None) for k in e.keywords}
                if not e.args and kws == {'includeNeighbors': True}:
                    return 'a_nh D a'
                raise Untranslatable('GetTotalNumHs must be called with includeNeighbors=True')
            if e.func.attr in GETTERS and not e.args and not e.keywords:
                return GETTERS[e.func.attr]
        raise Untranslatable(ast.dump(e))
    raise Untranslatable(ast.dump(e))


def tr_z(e, env):
    """Integer expression (Python ints: floor division and modulus as Coq's Z.div / Z.modulo) -> Gallina over Z."""
    if isinstance(e, ast.Constant) and isinstance(e.value, int) and not isinstance(e.value, bool):
        return '(%d)' % e.value
    if isinstance(e, (ast.Name, ast.Attribute)) and ast.unparse(e) in env:
        return env[ast.unparse(e)]
    if isinstance(e, ast.UnaryOp) and isinstance(e.op, ast.USub):
        if isinstance(e.operand, ast.Constant) and isinstance(e.operand.value, int) and not isinstance(e.operand.value, bool):
            return '(%d)' % -e.operand.value          # a literal, not Z.opp applied to one (syntactic matches in proofs; coqchk)
        return '(- %s)' % tr_z(e.operand, env)
    if isinstance(e, ast.BinOp):
        ops = {ast.Add: '+', ast.Sub: '-', ast.Mult: '*', ast.Mod: 'mod', ast.FloorDiv: '/'}
        for k, v in ops.items():
            if isinstance(e.op, k):
                return '(%s %s %s)' % (tr_z(e.left, env), v, tr_z(e.right, env))
    raise Untranslatable('integer expression outside the grammar: ' + ast.unparse(e))


def tr_b(e, env):
    """Boolean expression over integer comparisons -> Gallina bool."""
    if isinstance(e, ast.BoolOp):
        op = ' && ' if isinstance(e.op, ast.And) else ' || '
        return '(' + op.join(tr_b(v, env) for v in e.values) + ')'
    if isinstance(e, ast.UnaryOp) and isinstance(e.op, ast.Not):
        return '(negb %s)' % tr_b(e.operand, env)
    if isinstance(e, ast.Compare) and len(e.ops) == 1:
        l, r = tr_z(e.left, env), tr_z(e.comparators[0], env)
        o = e.ops[0]
        if isinstance(o, ast.GtE):
            return '(%s <=? %s)' % (r, l)
        if isinstance(o, ast.Gt):
            return '(%s <? %s)' % (r, l)
        if isinstance(o, ast.LtE):
            return '(%s <=? %s)' % (l, r)
        if isinstance(o, ast.Lt):
            return '(%s <? %s)' % (l, r)
        if isinstance(o, ast.Eq):
            return '(%s =? %s)' % (l, r)
        if isinstance(o, ast.NotEq):
            return '(negb (%s =? %s))' % (l, r)
    raise Untranslatable('boolean expression outside the grammar: ' + ast.unparse(e))


def invariants(fn):
    """(env of local assignments, list of element expressions of the returned np.array([...]))."""
    env = {}
    ret = None
    for st in fn.body:
        if isinstance(st, ast.Expr) and isinstance(st.value, ast.Constant):
            continue
        if isinstance(st, ast.Assign) and len(st.targets) == 1 and isinstance(st.targets[0], ast.Name):
            name = st.targets[0].id
            if name == 'delta_mass':
                # int(atom.GetMass() - Chem.GetPeriodicTable().GetAtomicWeight(atom.GetAtomicNum()))
                src = ast.unparse(st.value).replace(' ', '')
                if src != 'int(atom.GetMass()-Chem.GetPeriodicTable().GetAtomicWeight(atom.GetAtomicNum()))':
                    raise Untranslatable('delta_mass = ' + src)
                env[name] = 'a_dmass D a'
            else:
                env[name] = tr_atom_expr(st.value, env)
        elif isinstance(st, ast.Return):
            ret = st.value
        else:
            raise Untranslatable(ast.dump(st))
    if not (isinstance(ret, ast.Call) and ast.unparse(ret.func) == 'np.array' and isinstance(ret.args[0], ast.List)):
        raise Untranslatable('return is not np.array([...])')
    kws = {k.arg: ast.unparse(k.value) for k in ret.keywords}
    if kws != {'dtype': 'IDENT_DTYPE'}:
        raise Untranslatable('dtype of the invariants array: %r' % kws)
    return [tr_atom_expr(x, env) for x in ret.args[0].elts]


def generate():
    from e3fp.fingerprint import fprinter
    day = invariants(_func(fprinter, 'invariants_from_atom'))
    rdk = invariants(_func(fprinter, 'rdkit_invariants_from_atom'))
    # signed_to_unsigned_int: return (a + bits) % bits
    f = _func(fprinter, 'signed_to_unsigned_int')
    ret = [s for s in f.body if isinstance(s, ast.Return)][0].value
    argnames = [x.arg for x in f.args.args]
    if argnames != ['a', 'bits']:
        raise Untranslatable('signed_to_unsigned_int arguments: %r' % argnames)
    unsigned_src = tr_z(ret, {'a': 'a', 'bits': 'bits'})           # whatever integer formula the source returns
    dflt = ast.unparse(f.args.defaults[0]) if f.args.defaults else None
    if dflt != 'BITS':
        raise Untranslatable('signed_to_unsigned_int default bits: %r' % dflt)
    # identifier_from_shell: header = [level, shell.last_shell.identifier]; arr = header + flat tuples
    f = _func(fprinter, 'identifier_from_shell')
    hdr = [s for s in f.body if isinstance(s, ast.Assign) and ast.unparse(s.targets[0]) == 'header'][0].value
    hdr_src = [ast.unparse(x) for x in hdr.elts]
    if hdr_src != ['level', 'shell.last_shell.identifier']:
        raise Untranslatable('header = %r' % hdr_src)
    arr = [s for s in f.body if isinstance(s, ast.Assign) and ast.unparse(s.targets[0]) == 'arr'][0].value
    if ast.unparse(arr).replace(' ', '') != 'np.array(header+flat_atom_tuples,dtype=IDENT_DTYPE)':
        raise Untranslatable('arr = ' + ast.unparse(arr))
    # sort keys
    f = _func(fprinter, '_first_two')
    k1 = ast.unparse([s for s in f.body if isinstance(s, ast.Return)][0].value).replace(' ', '')
    if k1 != '(xs[0],xs[1])':
        raise Untranslatable('_first_two returns ' + k1)
    f = _func(fprinter.Fingerprinter, '_shell_to_tuple')
    k2 = ast.unparse([s for s in f.body if isinstance(s, ast.Return)][0].value).replace(' ', '')
    if k2 != '(shell.identifier,shell.center_atom)':
        raise Untranslatable('_shell_to_tuple returns ' + k2)
    # atom tuple layout: (connectivity[(center, x.center)], x.identifier, x)
    f = _func(fprinter, 'atom_tuples_from_shell')
    tl = [s for s in f.body if isinstance(s, ast.Assign) and ast.unparse(s.targets[0]) == 'atom_tuples'][0].value
    elt = ast.unparse(tl.elt).replace(' ', '')
    if elt != '(connectivity[shell.center_atom,x.center_atom],x.identifier,x)':
        raise Untranslatable('atom tuple = ' + elt)
    # level cap test in __next__
    import textwrap
    nxt = ast.parse(textwrap.dedent(inspect.getsource(fprinter.Fingerprinter.__next__))).body[0]
    attrs = lambda t: set(ast.unparse(n) for n in ast.walk(t) if isinstance(n, ast.Attribute))
    caps = [st for st in ast.walk(nxt) if isinstance(st, ast.If) and {'self.current_level', 'self.level'} <= attrs(st.test)
            and any(isinstance(x, ast.Raise) for x in st.body)]
    if len(caps) != 1:
        raise Untranslatable('level-cap test (an `if` on self.current_level and self.level that raises StopIteration) not found in Fingerprinter.__next__')
    level_cap_src = tr_b(caps[0].test, {'self.current_level': 'current', 'self.level': 'level'})
    # radius of a level
    src = inspect.getsource(fprinter.ShellsGenerator.__next__).replace(' ', '')
    if 'rad=self.level*self.radius_multiplier' not in src:
        raise Untranslatable('rad = level * radius_multiplier not found')
    src = inspect.getsource(fprinter.ShellsGenerator.get_match_atoms).replace(' ', '')
    if 'np.where(self.distance_matrix<=rad)' not in src:
        raise Untranslatable('distance_matrix <= rad not found')
    lines = ['From Coq Require Import ZArith List.', 'From E3FP Require Import Base.Prelude Model.Geometry Model.E3FP.', 'Import ListNotations.', 'Open Scope Z_scope.', '',
             '(* translated from the source text of invariants_from_atom / rdkit_invariants_from_atom *)',
             'Definition daylight_inv_src (D : ringdict) (a : atom D) : list Z := [%s].' % '; '.join(day),
             'Definition rdkit_inv_src (D : ringdict) (a : atom D) : list Z := [%s].' % '; '.join(rdk),
             '(* signed_to_unsigned_int: the returned integer expression, translated (default bits = BITS) *)',
             'Definition signed_to_unsigned_src (a bits : Z) : Z := %s.' % unsigned_src,
             '(* GUARDS (string comparisons in the translator, no definition emitted): hash input = [level, previous identifier] + flat tuples;',
             '   sort keys _first_two = (xs[0], xs[1]) and _shell_to_tuple = (identifier, centre); atom tuple layout; rad = level * multiplier;',
             '   distance <= rad.  If one of these texts changes the translator raises and this whole file is absent (obligations not attempted). *)',
             '(* stop test of __next__ (the `if` that raises StopIteration on the level cap), translated *)',
             'Definition level_cap_reached_src (current level : Z) : bool := %s.' % level_cap_src,
             '']
    return {'M1Source.v': '\n'.join(lines)}
