"""Source-derived definitions of the similarity measures -> Gen/MetricsSource.v (a fail-closed Python-`ast` translator).

The scalar arithmetic of the return expressions of
  fingerprint/metrics/fprint_metrics.py : tanimoto, dice, soergel, cosine, pearson
  fingerprint/metrics/array_metrics.py  : tanimoto, dice (on the arrays of _get_bitcount_arrays), _sparse_cosine,
                                          the per-entry body of _dense_soergel and the closing formula of _sparse_soergel
  fingerprint/fprint.py                 : Fingerprint.mean/std (through the property `density`), CountFingerprint.mean/std
is re-derived from the SOURCE TEXT on every run, as Gallina over Q with the combinators of Base/PyExpr.v, and
Properties/C06Src.v proves the hand-written model (Model/Metrics.v) equal to it.  Editing one of these formulas in the source
therefore changes Gen/MetricsSource.v and breaks a proof obligation of C06 (not only the run-time correspondence).

What is translated is arithmetic: Name, Constant, + - * /, unary minus, `** 2`, `** 0.5` / np.sqrt (carried as a symbolic
root, see PyExpr.v), abs, max, min, `sum(<expr> for k, v in <dict>.items())`, local assignments (inlined), `if <test>: return`,
`try: ... except ZeroDivisionError: return <const>` (the handler is emitted as a separate definition), numpy's
`np.asarray(np.nan_to_num(<a> / <b>))`.  Everything that is not arithmetic (attribute chains, calls into numpy/scipy, the
isinstance tests) is mapped to a *named parameter* of the generated definition through the explicit tables below, by its exact
normalised text (ast.unparse); the C06 theorems say which model term each parameter is instantiated with.

FAIL-CLOSED: a statement, expression, attribute chain or call that is neither arithmetic of the grammar nor listed in the table
of its function raises Untranslatable (never skipped); facts.regenerate then removes Gen/MetricsSource.v and the source-derived
obligations of C06 (Properties/C06Src.v) are reported as not attempted (core.check_properties_file: source_tie unreadable)."""
import ast
import os
from fractions import Fraction


class Untranslatable(Exception):
    pass


def _t(node):
    """normalised source text of a node"""
    return ast.unparse(node)


def _qlit(x):
    if isinstance(x, bool) or not isinstance(x, (int, float)):
        raise Untranslatable('constant %r' % (x,))
    try:
        f = Fraction(x)
    except (ValueError, OverflowError):
        raise Untranslatable('constant %r' % (x,))
    n, d = f.numerator, f.denominator
    return '(%s # %d)' % ('(%d)' % n if n < 0 else '%d' % n, d)


# ------------------------------------------------------------------------------------------------ values
class V(object):
    """A translated value.  kind 'plain': a = term : option Q.  kind 'mulroot': the value a * sqrt b (a, b : option Q).
    kind 'divroot': the value a / sqrt b.  kind 'bool': a = term : bool.  kind 'opaque': a non-arithmetic local (a = its text)."""

    def __init__(self, kind, a, b=None):
        self.kind, self.a, self.b = kind, a, b


def plain(term):
    return V('plain', term)


def _total(term):
    """syntactically unable to raise: a constant or a parameter of type Q"""
    return term.startswith('(ovar ') or term.startswith('(oconst ')


def bind_local(name, val, cont):
    """`name = <val>` followed by the rest of the block: <val> is evaluated once, first (if it raises, the function raises even
    when `name` is not used afterwards).  cont(V for the uses of name) -> V of the rest.  Values that cannot raise are inlined."""
    if val.kind not in ('plain', 'mulroot', 'divroot'):
        return cont(val)
    binds, parts = [], []
    for suffix, term in (('v', val.a), ('r', val.b)):
        if term is None:
            parts.append(None)
        elif _total(term):
            parts.append(term)
        else:
            var = '%s_%s' % (name, suffix)
            binds.append((term, var))
            parts.append('(ovar %s)' % var)
    res = cont(V(val.kind, parts[0], parts[1]))
    if not binds:
        return res
    if res.kind not in ('plain', 'mulroot', 'divroot'):
        raise Untranslatable('a local that may raise is followed by a %s' % res.kind)

    def wrap(t):
        for term, var in reversed(binds):
            t = '(obind %s (fun %s => %s))' % (term, var, t)
        return t
    return V(res.kind, wrap(res.a), wrap(res.b) if res.b is not None else None)


class Ctx(object):
    """Per-function translation context built from a SPEC entry."""

    def __init__(self, name, spec):
        self.name = name
        self.atoms = spec.get('atoms', {})              # text -> ('q'|'oq', param) | ('mulroot', coef, sq) | ('inline', key)
        self.bools = spec.get('bools', {})              # text -> bool param
        self.iters = spec.get('iters', {})              # text of a dict view -> (param, 'items'|'values'|'keys')
        self.funcs = spec.get('funcs', {})              # text of a callee `f` in f(k) -> param : Z -> Q
        self.opaque = spec.get('opaque', {})            # text of a whole statement -> {local: value spec}
        self.inline = spec.get('inline', {})            # key -> FunctionDef to inline (properties)
        self.columns = spec.get('columns')              # locals a table `np.asarray([(E0, E1) for x in keys], dtype=float).T` may read, or None
        self.zde = None                                 # handler of `except ZeroDivisionError`, a V, or None
        self.saw_try = False

    def fail(self, what, node=None):
        raise Untranslatable('%s: %s%s' % (self.name, what, (' in `%s`' % _t(node)) if node is not None else ''))

    def atom_value(self, spec, env, node):
        for need in spec[3] if len(spec) > 3 else ():
            if need not in env or env[need].kind != 'opaque':
                self.fail('`%s` is used but the local `%s` it is read from is not the recognised one' % (_t(node), need))
        kind = spec[0]
        if kind == 'q':
            return plain('(ovar %s)' % spec[1])
        if kind == 'oq':
            return plain(spec[1])
        if kind == 'mulroot':
            return V('mulroot', spec[1], spec[2])
        self.fail('bad table entry %r' % (spec,))


# ------------------------------------------------------------------------------------------------ pure (total) expressions over Q
def tr_pure(e, env, cx):
    """Expression without division over bound variables and function parameters -> term : Q."""
    if isinstance(e, ast.Constant):
        return _qlit(e.value)
    text = _t(e)
    if text in cx.atoms and cx.atoms[text][0] == 'pq':
        return cx.atoms[text][1]
    if isinstance(e, ast.Name):
        if e.id in env and env[e.id].kind == 'pure':
            return env[e.id].a
        cx.fail('name `%s` is not a bound variable of the sum / loop body' % e.id)
    if isinstance(e, ast.UnaryOp) and isinstance(e.op, ast.USub):
        return '(- %s)' % tr_pure(e.operand, env, cx)
    if isinstance(e, ast.UnaryOp) and isinstance(e.op, ast.UAdd):
        return tr_pure(e.operand, env, cx)
    if isinstance(e, ast.BinOp):
        if isinstance(e.op, ast.Pow):
            if isinstance(e.right, ast.Constant) and not isinstance(e.right.value, bool) and e.right.value == 2:
                x = tr_pure(e.left, env, cx)
                return '(%s * %s)' % (x, x)
            cx.fail('power other than ** 2 inside a sum / loop body', e)
        ops = {ast.Add: '+', ast.Sub: '-', ast.Mult: '*'}
        for k, sym in ops.items():
            if isinstance(e.op, k):
                return '(%s %s %s)' % (tr_pure(e.left, env, cx), sym, tr_pure(e.right, env, cx))
        cx.fail('operator %s inside a sum / loop body' % type(e.op).__name__, e)
    if isinstance(e, ast.Call) and not e.keywords:
        f = _t(e.func)
        if f in ('abs',) and len(e.args) == 1:
            return '(Qabs %s)' % tr_pure(e.args[0], env, cx)
        if f in ('max', 'min') and len(e.args) == 2:
            return '(Q%s %s %s)' % (f, tr_pure(e.args[0], env, cx), tr_pure(e.args[1], env, cx))
        if f in cx.funcs and len(e.args) == 1 and isinstance(e.args[0], ast.Name) and e.args[0].id in env \
                and env[e.args[0].id].kind == 'key':
            return '(%s %s)' % (cx.funcs[f], env[e.args[0].id].a)
    if isinstance(e, ast.Subscript) and _t(e.value) in cx.funcs and isinstance(e.slice, ast.Name) and e.slice.id in env \
            and env[e.slice.id].kind == 'key':
        return '(%s %s)' % (cx.funcs[_t(e.value)], env[e.slice.id].a)
    cx.fail('untranslatable expression inside a sum / loop body', e)


def tr_sum(e, env, cx):
    """sum(<elt> for <targets> in <dict view>) or sum(<dict view>) -> term : Q, or None when `e` is not such a call."""
    if not (isinstance(e, ast.Call) and _t(e.func) == 'sum' and len(e.args) == 1 and not e.keywords):
        return None
    a = e.args[0]
    if isinstance(a, ast.GeneratorExp):
        if len(a.generators) != 1 or a.generators[0].ifs or a.generators[0].is_async:
            cx.fail('generator with several clauses or a filter', e)
        g = a.generators[0]
        it = _t(g.iter)
        if it not in cx.iters:
            cx.fail('sum over `%s`, which is not a recognised dict view' % it, e)
        param, mode = cx.iters[it]
        benv = dict((k, v) for k, v in env.items() if v.kind in ('pure', 'key'))
        if mode == 'items':
            if not (isinstance(g.target, ast.Tuple) and len(g.target.elts) == 2 and all(isinstance(x, ast.Name) for x in g.target.elts)):
                cx.fail('targets of a sum over items() are not `k, v`', e)
            k, v = g.target.elts[0].id, g.target.elts[1].id
            benv[k], benv[v] = V('key', k + '_'), V('pure', v + '_')
            return '(sum_items (fun %s_ %s_ => %s) %s)' % (k, v, tr_pure(a.elt, benv, cx), param)
        if mode == 'values':
            if not isinstance(g.target, ast.Name):
                cx.fail('target of a sum over values() is not a name', e)
            v = g.target.id
            benv[v] = V('pure', v + '_')
            return '(sum_values (fun %s_ => %s) %s)' % (v, tr_pure(a.elt, benv, cx), param)
        cx.fail('sum over a %s view' % mode, e)
    it = _t(a)
    if it in cx.iters and cx.iters[it][1] == 'values':
        return '(sum_values (fun v_ => v_) %s)' % cx.iters[it][0]
    cx.fail('sum over `%s`, which is not a recognised dict view' % it, e)


# ------------------------------------------------------------------------------------------------ scalar Python expressions
def _is_const(e, val):
    return isinstance(e, ast.Constant) and not isinstance(e.value, bool) and isinstance(e.value, (int, float)) and e.value == val


def tr_expr(e, env, cx):
    """Python scalar expression -> V (option-Q monad; roots symbolic)."""
    if isinstance(e, ast.Constant):
        return plain('(oconst %s)' % _qlit(e.value))
    if isinstance(e, ast.Name):
        if e.id in env:
            v = env[e.id]
            if v.kind in ('plain', 'mulroot', 'divroot'):
                return v
            cx.fail('local `%s` is not an arithmetic value' % e.id)
        cx.fail('unknown name `%s`' % e.id)
    text = _t(e)
    if text in cx.atoms:
        spec = cx.atoms[text]
        if spec[0] == 'inline':
            return tr_function_value(cx.inline[spec[1]], cx)
        return cx.atom_value(spec, env, e)
    if isinstance(e, ast.UnaryOp) and isinstance(e.op, ast.USub):
        v = tr_expr(e.operand, env, cx)
        if v.kind == 'plain':
            return plain('(oneg %s)' % v.a)
        return V(v.kind, '(oneg %s)' % v.a, v.b)
    if isinstance(e, ast.UnaryOp) and isinstance(e.op, ast.UAdd):
        return tr_expr(e.operand, env, cx)
    if isinstance(e, ast.BinOp):
        if isinstance(e.op, ast.Pow):
            base = tr_expr(e.left, env, cx)
            if _is_const(e.right, 0.5) and isinstance(e.right.value, float):
                if base.kind != 'plain':
                    cx.fail('root of a root', e)
                return V('mulroot', '(oconst (1 # 1))', base.a)
            if _is_const(e.right, 2):
                if base.kind != 'plain':
                    cx.fail('square of a root', e)
                return plain('(osq %s)' % base.a)
            cx.fail('power other than ** 2 and ** 0.5', e)
        a, b = tr_expr(e.left, env, cx), tr_expr(e.right, env, cx)
        if isinstance(e.op, (ast.Add, ast.Sub)):
            if a.kind != 'plain' or b.kind != 'plain':
                cx.fail('sum or difference with a square root', e)
            return plain('(%s %s %s)' % ('oadd' if isinstance(e.op, ast.Add) else 'osub', a.a, b.a))
        if isinstance(e.op, ast.Mult):
            if a.kind == 'plain' and b.kind == 'plain':
                return plain('(omul %s %s)' % (a.a, b.a))
            if a.kind in ('plain', 'mulroot') and b.kind in ('plain', 'mulroot'):
                rads = [x.b for x in (a, b) if x.kind == 'mulroot']
                rad = rads[0] if len(rads) == 1 else '(omul %s %s)' % (rads[0], rads[1])
                return V('mulroot', '(omul %s %s)' % (a.a, b.a), rad)
            cx.fail('product with a quotient by a root', e)
        if isinstance(e.op, ast.Div):
            if a.kind == 'plain' and b.kind == 'plain':
                return plain('(odiv %s %s)' % (a.a, b.a))
            if a.kind == 'plain' and b.kind == 'mulroot':
                # a / (c * sqrt r) = (a / c) / sqrt r ; raises when c = 0 (odiv) or r = 0 (oroot_div)
                return V('divroot', '(odiv %s %s)' % (a.a, b.a), b.b)
            cx.fail('quotient of roots', e)
        cx.fail('operator %s' % type(e.op).__name__, e)
    if isinstance(e, ast.Call):
        s = tr_column_sum(e, env, cx)
        if s is None:
            s = tr_sum(e, env, cx)
        if s is not None:
            return plain('(ovar %s)' % s)
        f = _t(e.func)
        if not e.keywords:
            if f == 'abs' and len(e.args) == 1:
                v = tr_expr(e.args[0], env, cx)
                if v.kind == 'plain':
                    return plain('(oabs %s)' % v.a)
            if f in ('max', 'min') and len(e.args) == 2:
                a, b = tr_expr(e.args[0], env, cx), tr_expr(e.args[1], env, cx)
                if a.kind == 'plain' and b.kind == 'plain':
                    return plain('(o%s %s %s)' % (f, a.a, b.a))
            if f in ('np.sqrt', 'math.sqrt') and len(e.args) == 1:
                v = tr_expr(e.args[0], env, cx)
                if v.kind == 'plain':
                    return V('mulroot', '(oconst (1 # 1))', v.a)
    cx.fail('untranslatable expression', e)


def tr_bool(e, env, cx):
    """not / and / or over the boolean atoms of the table -> term : bool, or None when `e` is not of that form."""
    text = _t(e)
    if text in cx.bools:
        spec = cx.bools[text]
        for need in spec[1:]:
            if need not in env or env[need].kind != 'opaque':
                cx.fail('`%s` is tested but the local `%s` is not the recognised one' % (text, need))
        return spec[0]
    if isinstance(e, ast.UnaryOp) and isinstance(e.op, ast.Not):
        b = tr_bool(e.operand, env, cx)
        return None if b is None else '(negb %s)' % b
    if isinstance(e, ast.BoolOp):
        bs = [tr_bool(x, env, cx) for x in e.values]
        if any(b is None for b in bs):
            return None
        return '(%s)' % (' || ' if isinstance(e.op, ast.Or) else ' && ').join(bs)
    return None


def tr_test(e, env, cx):
    """Condition of an `if` -> function (then_term, else_term) -> term : option _."""
    b = tr_bool(e, env, cx)
    if b is not None:
        return lambda t, f: '(if %s then %s else %s)' % (b, t, f)
    if isinstance(e, ast.Compare) and len(e.ops) == 1 and isinstance(e.ops[0], (ast.Eq, ast.NotEq)):
        a, b2 = tr_expr(e.left, env, cx), tr_expr(e.comparators[0], env, cx)
        if a.kind == 'plain' and b2.kind == 'plain':
            if isinstance(e.ops[0], ast.Eq):
                return lambda t, f: '(oif_eq %s %s %s %s)' % (a.a, b2.a, t, f)
            return lambda t, f: '(oif_eq %s %s %s %s)' % (a.a, b2.a, f, t)
    cx.fail('untranslatable condition', e)


def bind_opaque(stmt, env, cx):
    """A whole statement listed in the `opaque` table of the function: bind its locals as the table says (None: not listed)."""
    text = _t(stmt)
    if text not in cx.opaque:
        return None
    bound = []
    for local, spec in cx.opaque[text].items():
        if spec is None:
            bound.append((local, V('opaque', text)))
        else:
            bound.append((local, cx.atom_value(spec, env, stmt)))
    return bound


def tr_columns(stmt, env, cx, spec):
    """temp = np.asarray([(E0, E1, ...) for x in <keys view>], dtype=float).T : np.sum(temp[i, :]) is the sum of Ei over the keys."""
    v = stmt.value
    ok = (isinstance(v, ast.Attribute) and v.attr == 'T' and isinstance(v.value, ast.Call) and _t(v.value.func) == 'np.asarray'
          and len(v.value.args) == 1 and isinstance(v.value.args[0], ast.ListComp)
          and dict((k.arg, _t(k.value)) for k in v.value.keywords) == {'dtype': 'float'})
    if not ok:
        cx.fail('not of the form np.asarray([... for x in keys], dtype=float).T', stmt)
    lc = v.value.args[0]
    if len(lc.generators) != 1 or lc.generators[0].ifs or not isinstance(lc.generators[0].target, ast.Name) or not isinstance(lc.elt, ast.Tuple):
        cx.fail('list comprehension is not `(E0, E1) for x in keys`', stmt)
    it = _t(lc.generators[0].iter)
    if it not in cx.iters or cx.iters[it][1] != 'keys':
        cx.fail('`%s` is not a recognised key view' % it, stmt)
    for need in spec[1:]:
        if need not in env or env[need].kind != 'opaque':
            cx.fail('the local `%s` is not the recognised one' % need, stmt)
    x = lc.generators[0].target.id
    benv = {x: V('key', x + '_')}
    cols = ['(sum_keys (fun %s_ => %s) %s)' % (x, tr_pure(el, benv, cx), cx.iters[it][0]) for el in lc.elt.elts]
    return V('columns', cols)


def tr_column_sum(e, env, cx):
    """np.sum(temp[i, :]) for a local bound by tr_columns -> term : Q, or None."""
    if not (isinstance(e, ast.Call) and _t(e.func) == 'np.sum' and len(e.args) == 1 and not e.keywords):
        return None
    s = e.args[0]
    if not (isinstance(s, ast.Subscript) and isinstance(s.value, ast.Name) and s.value.id in env and env[s.value.id].kind == 'columns'):
        return None
    sl = s.slice
    if not (isinstance(sl, ast.Tuple) and len(sl.elts) == 2 and isinstance(sl.elts[0], ast.Constant) and isinstance(sl.elts[0].value, int)
            and isinstance(sl.elts[1], ast.Slice) and sl.elts[1].lower is None and sl.elts[1].upper is None and sl.elts[1].step is None):
        cx.fail('not a full row `temp[i, :]`', e)
    cols = env[s.value.id].a
    i = sl.elts[0].value
    if not 0 <= i < len(cols):
        cx.fail('row %d of a %d-column table' % (i, len(cols)), e)
    return cols[i]


def tr_block(stmts, env, cx, top=False):
    """Statements ending in a return on every path -> V: the value returned."""
    if not stmts:
        cx.fail('a path that does not end in `return`')
    st, rest = stmts[0], stmts[1:]
    if isinstance(st, ast.Expr) and isinstance(st.value, ast.Constant) and isinstance(st.value.value, str):
        return tr_block(rest, env, cx, top)
    bound = bind_opaque(st, env, cx)
    if bound is not None:
        def chain(items, env):
            if not items:
                return tr_block(rest, env, cx)
            (local, val), more = items[0], items[1:]

            def cont(v):
                e2 = dict(env)
                e2[local] = v
                return chain(more, e2)
            return bind_local(local, val, cont)
        return chain(bound, dict(env))
    if isinstance(st, ast.Assign) and len(st.targets) == 1 and isinstance(st.targets[0], ast.Name) and cx.columns is not None \
            and isinstance(st.value, ast.Attribute) and st.value.attr == 'T' and isinstance(st.value.value, ast.Call) \
            and _t(st.value.value.func) == 'np.asarray':
        e2 = dict(env)
        e2[st.targets[0].id] = tr_columns(st, env, cx, ('columns',) + tuple(cx.columns))
        return tr_block(rest, e2, cx)
    if isinstance(st, ast.Assign) and len(st.targets) == 1 and isinstance(st.targets[0], ast.Name):
        name = st.targets[0].id

        def cont(v):
            e2 = dict(env)
            e2[name] = v
            return tr_block(rest, e2, cx)
        return bind_local(name, tr_expr(st.value, env, cx), cont)
    if isinstance(st, ast.Return):
        if st.value is None:
            cx.fail('bare return')
        return tr_expr(st.value, env, cx)
    if isinstance(st, ast.If):
        if st.orelse:
            th, el = tr_block(st.body, dict(env), cx), tr_block(st.orelse + rest, dict(env), cx)
        else:
            th, el = tr_block(st.body, dict(env), cx), tr_block(rest, dict(env), cx)
        if th.kind != 'plain' or el.kind != 'plain':
            cx.fail('a branch returns a square root', st)
        return plain(tr_test(st.test, env, cx)(th.a, el.a))
    if isinstance(st, ast.Try):
        if not top or rest or st.orelse or st.finalbody or len(st.handlers) != 1 or cx.saw_try:
            cx.fail('try statement that is not the single outermost `try: ... except ZeroDivisionError: return c`')
        h = st.handlers[0]
        if not (isinstance(h.type, ast.Name) and h.type.id == 'ZeroDivisionError' and h.name is None
                and len(h.body) == 1 and isinstance(h.body[0], ast.Return) and h.body[0].value is not None):
            cx.fail('handler is not `except ZeroDivisionError: return <expr>`')
        cx.saw_try = True
        hv = tr_expr(h.body[0].value, {}, cx)
        if hv.kind != 'plain':
            cx.fail('handler returns a square root')
        cx.zde = hv
        return tr_block(st.body, env, cx)
    if isinstance(st, ast.With) and len(st.items) == 1 and st.items[0].optional_vars is None \
            and _t(st.items[0].context_expr.func if isinstance(st.items[0].context_expr, ast.Call) else st.items[0].context_expr) == 'np.errstate' \
            and not rest:
        return tr_block(st.body, env, cx)
    cx.fail('untranslatable statement', st)


def tr_function_value(fn, cx):
    return tr_block(list(fn.body), {}, cx, top=True)


# ------------------------------------------------------------------------------------------------ numpy array expressions
def tr_np(e, env, cx):
    """np.asarray(np.nan_to_num(<a> / <b>)) over row sums / dot products -> (type, term); type 'q' | 'np' | 'rootq' | 'nproot'."""
    if isinstance(e, ast.Call) and not e.keywords and len(e.args) == 1:
        f = _t(e.func)
        if f == 'np.asarray':
            ty, t = tr_np(e.args[0], env, cx)
            return ty, '(np_asarray %s)' % t
        if f == 'np.nan_to_num':
            ty, t = tr_np(e.args[0], env, cx)
            if ty == 'np':
                return 'q', '(np_nan_to_num %s)' % t
            if ty == 'nproot':
                return 'rootpair', '(np_root_nan_to_num %s)' % t
            cx.fail('nan_to_num of something that is not a quotient', e)
    if isinstance(e, ast.BinOp) and isinstance(e.op, ast.Div):
        (ta, a), (tb, b) = tr_np(e.left, env, cx), tr_np(e.right, env, cx)
        if ta == 'q' and tb == 'q':
            return 'np', '(np_div %s %s)' % (a, b)
        if ta == 'q' and tb == 'sqrt':
            return 'nproot', '(np_root_div %s %s)' % (a, b)
        cx.fail('quotient of quotients', e)
    if isinstance(e, ast.BinOp) and isinstance(e.op, (ast.Add, ast.Sub, ast.Mult)):
        (ta, a), (tb, b) = tr_np(e.left, env, cx), tr_np(e.right, env, cx)
        if ta == 'q' and tb == 'q':
            return 'q', '(%s %s %s)' % (a, {ast.Add: '+', ast.Sub: '-', ast.Mult: '*'}[type(e.op)], b)
        if isinstance(e.op, ast.Mult) and ta == 'sqrt' and tb == 'sqrt':
            return 'sqrt', '(%s * %s)' % (a, b)
        cx.fail('arithmetic on a quotient (inf / nan are not rationals)', e)
    if isinstance(e, ast.Call) and not e.keywords and len(e.args) == 2 and _t(e.func) == 'np.outer':
        # np.outer(u, v)[i, j] = u[i] * v[j]
        (ta, a), (tb, b) = tr_np(e.args[0], env, cx), tr_np(e.args[1], env, cx)
        if ta == tb and ta in ('q', 'sqrt'):
            return ta, '(%s * %s)' % (a, b)
        cx.fail('outer product of mixed kinds', e)
    if isinstance(e, ast.Constant):
        return 'q', _qlit(e.value)
    if isinstance(e, ast.Attribute) and e.attr == 'T' and isinstance(e.value, ast.Name):
        return tr_np(e.value, env, cx)      # the transpose only arranges the broadcast: entry (i, j) reads Ybits[j]
    if isinstance(e, ast.Name):
        if e.id in env and env[e.id].kind == 'np':
            return env[e.id].a, env[e.id].b
        cx.fail('unknown array `%s`' % e.id)
    cx.fail('untranslatable array expression', e)


def tr_np_function(fn, cx):
    env = {}
    stmts = list(fn.body)
    while stmts:
        st = stmts.pop(0)
        if isinstance(st, ast.Expr) and isinstance(st.value, ast.Constant) and isinstance(st.value.value, str):
            continue
        text = _t(st)
        if text in cx.opaque:
            for local, spec in cx.opaque[text].items():
                env[local] = V('np', spec[0], spec[1])
            continue
        if isinstance(st, ast.With) and len(st.items) == 1 and isinstance(st.items[0].context_expr, ast.Call) \
                and _t(st.items[0].context_expr.func) == 'np.errstate' and st.items[0].optional_vars is None and not stmts:
            stmts = list(st.body)
            continue
        if isinstance(st, ast.Return) and st.value is not None and not stmts:
            return tr_np(st.value, env, cx)
        cx.fail('untranslatable statement', st)
    cx.fail('no return')


# ------------------------------------------------------------------------------------------------ the jit-compiled loops
def tr_cmp(e, env, cx):
    if isinstance(e, ast.Compare) and len(e.ops) == 1:
        a, b = tr_pure(e.left, env, cx), tr_pure(e.comparators[0], env, cx)
        if isinstance(e.ops[0], ast.Gt):
            return '(qgt %s %s)' % (a, b)
        if isinstance(e.ops[0], ast.Lt):
            return '(qlt %s %s)' % (a, b)
        if isinstance(e.ops[0], ast.Eq):
            return '(Qeq_bool %s %s)' % (a, b)
    cx.fail('untranslatable comparison', e)


def tr_state(stmts, env, cx, state):
    """Straight-line code with if/else over the float locals `state` -> term : tuple of their final values."""
    if not stmts:
        return '(%s)' % ', '.join(env[s].a for s in state)
    st, rest = stmts[0], stmts[1:]
    if isinstance(st, ast.Assign) and len(st.targets) == 1 and isinstance(st.targets[0], ast.Name):
        n = st.targets[0].id
        v = tr_pure(st.value, env, cx)
        env = dict(env)
        env[n] = V('pure', n)
        return '(let %s := %s in %s)' % (n, v, tr_state(rest, env, cx, state))
    if isinstance(st, ast.AugAssign) and isinstance(st.target, ast.Name) and isinstance(st.op, (ast.Add, ast.Sub)):
        n = st.target.id
        if n not in env or env[n].kind != 'pure':
            cx.fail('augmented assignment to an unknown local', st)
        v = '(%s %s %s)' % (env[n].a, '+' if isinstance(st.op, ast.Add) else '-', tr_pure(st.value, env, cx))
        env = dict(env)
        env[n] = V('pure', n)
        return '(let %s := %s in %s)' % (n, v, tr_state(rest, env, cx, state))
    if isinstance(st, ast.If):
        return '(if %s then %s else %s)' % (tr_cmp(st.test, env, cx), tr_state(st.body + rest, env, cx, state),
                                            tr_state(st.orelse + rest, env, cx, state))
    cx.fail('untranslatable statement in a loop body', st)


def _find_loops(fn):
    return [n for n in ast.walk(fn) if isinstance(n, ast.For)]


def tr_entry_tail(stmts, cx, store, names):
    """`if sum_max == 0: S[ix, iy] = 0; continue` / `S[ix, iy] = 1 - sum_abs_diff / sum_max` -> term : option Q (the entry stored)."""
    env = dict((n, plain('(ovar %s)' % n)) for n in names)

    def go(ss):
        if not ss:
            cx.fail('the loop body ends without storing %s' % store)
        st, rest = ss[0], ss[1:]
        if isinstance(st, ast.Assign) and len(st.targets) == 1 and _t(st.targets[0]) == store:
            v = tr_expr(st.value, env, cx)
            if v.kind != 'plain':
                cx.fail('stores a square root', st)
            if rest and not (len(rest) == 1 and isinstance(rest[0], ast.Continue)):
                cx.fail('statements after the store of %s' % store, rest[0])
            return v.a
        if isinstance(st, ast.If) and not st.orelse:
            return tr_test(st.test, env, cx)(go(st.body), go(rest))
        cx.fail('untranslatable statement at the end of a loop body', st)
    return go(stmts)


# ------------------------------------------------------------------------------------------------ the tables
FPM = 'src/e3fp/fingerprint/metrics/fprint_metrics.py'
ARM = 'src/e3fp/fingerprint/metrics/array_metrics.py'
FPR = 'src/e3fp/fingerprint/fprint.py'

INTERSECT = 'intersect = np.intersect1d(fp1.indices, fp2.indices, assume_unique=True).shape[0]'
DOT12 = {'fp1.counts.items()': ('fp1_counts', 'items'), 'fp1.counts.values()': ('fp1_counts', 'values'),
         'fp2.counts.values()': ('fp2_counts', 'values')}

SCALAR = [
    # (generated name, file, function path, parameters, spec)
    ('fp_tanimoto', FPM, 'tanimoto', '(n_common fp1_bit_count fp2_bit_count : Q)', dict(
        opaque={INTERSECT: {'intersect': ('q', 'n_common')}},
        atoms={'fp1.bit_count': ('q', 'fp1_bit_count'), 'fp2.bit_count': ('q', 'fp2_bit_count')})),
    ('fp_dice', FPM, 'dice', '(n_common fp1_bit_count fp2_bit_count : Q)', dict(
        opaque={INTERSECT: {'intersect': ('q', 'n_common')}},
        atoms={'fp1.bit_count': ('q', 'fp1_bit_count'), 'fp2.bit_count': ('q', 'fp2_bit_count')})),
    ('fp_soergel', FPM, 'soergel',
     '(fp1_is_count fp2_is_count : bool) (tanimoto12 : option Q) (diff_keys : list Z) (counts_diff fp1_get_count fp2_get_count : Z -> Q)', dict(
        bools={'isinstance(fp1, CountFingerprint)': ('fp1_is_count',), 'isinstance(fp2, CountFingerprint)': ('fp2_is_count',)},
        opaque={'counts_diff = diff_counts_dict(fp1, fp2)': {'counts_diff': None}},
        columns=('counts_diff',),
        iters={'counts_diff.keys()': ('diff_keys', 'keys')},
        funcs={'counts_diff': 'counts_diff', 'fp1.get_count': 'fp1_get_count', 'fp2.get_count': 'fp2_get_count'},
        atoms={'tanimoto(fp1, fp2)': ('oq', 'tanimoto12'),
               'len(counts_diff)': ('q', '(qlength diff_keys)', None, ('counts_diff',))})),
    ('fp_cosine', FPM, 'cosine', '(fp1_counts fp2_counts : list (Z * Q)) (fp2_get_count : Z -> Q)', dict(
        iters=DOT12, funcs={'fp2.get_count': 'fp2_get_count'})),
    ('fp_pearson', FPM, 'pearson',
     '(fp1_counts : list (Z * Q)) (fp2_get_count : Z -> Q) (fp1_bits : Q) (fp1_mean fp2_mean fp1_std_coef fp1_std_sq fp2_std_coef fp2_std_sq : option Q)', dict(
        iters=DOT12, funcs={'fp2.get_count': 'fp2_get_count'},
        atoms={'fp1.bits': ('q', 'fp1_bits'), 'fp1.mean()': ('oq', 'fp1_mean'), 'fp2.mean()': ('oq', 'fp2_mean'),
               'fp1.std()': ('mulroot', 'fp1_std_coef', 'fp1_std_sq'), 'fp2.std()': ('mulroot', 'fp2_std_coef', 'fp2_std_sq')})),
    ('bit_mean', FPR, 'Fingerprint.mean', '(self_bit_count self_bits : Q)', dict(
        atoms={'self.density': ('inline', 'Fingerprint.density'), 'self.bit_count': ('q', 'self_bit_count'), 'self.bits': ('q', 'self_bits')})),
    ('bit_std', FPR, 'Fingerprint.std', '(self_mean : option Q)', dict(
        opaque={'mean = self.mean()': {'mean': ('oq', 'self_mean')}})),
    ('count_mean', FPR, 'CountFingerprint.mean', '(self_counts : list (Z * Q)) (self_bits : Q)', dict(
        iters={'self._counts.values()': ('self_counts', 'values')}, atoms={'self.bits': ('q', 'self_bits')})),
    ('count_std', FPR, 'CountFingerprint.std', '(self_counts : list (Z * Q)) (self_bits : Q) (self_mean : option Q)', dict(
        opaque={'mean = self.mean()': {'mean': ('oq', 'self_mean')}},
        iters={'self._counts.values()': ('self_counts', 'values')}, atoms={'self.bits': ('q', 'self_bits')})),
]

BITCOUNTS = {'X, Y = _check_array_pair(X, Y)': {},
             'Xbits, Ybits, XYbits = _get_bitcount_arrays(X, Y, return_XYbits=True)':
                 {'Xbits': ('q', 'Xbits'), 'Ybits': ('q', 'Ybits'), 'XYbits': ('q', 'XYbits')}}

ARRAY = [
    ('arr_tanimoto', ARM, 'tanimoto', '(Xbits Ybits XYbits : Q)', dict(opaque=BITCOUNTS)),
    ('arr_dice', ARM, 'dice', '(Xbits Ybits XYbits : Q)', dict(opaque=BITCOUNTS)),
    ('sparse_cosine', ARM, '_sparse_cosine', '(Xnorm_sq Ynorm_sq XY : Q)', dict(opaque={
        'Xnorm = scipy.sparse.linalg.norm(X, axis=1)': {'Xnorm': ('sqrt', 'Xnorm_sq')},
        'if Y is X:\n    Ynorm = Xnorm\nelse:\n    Ynorm = scipy.sparse.linalg.norm(Y, axis=1)': {'Ynorm': ('sqrt', 'Ynorm_sq')},
        'XY = (X * Y.T).toarray()': {'XY': ('q', 'XY')}})),
]

# non-arithmetic structure the parameters' meaning rests on: exact statement texts that must be present in a function
STRUCTURE = [
    (ARM, '_get_bitcount_arrays', ['Xbits = np.sum(X, axis=1)', 'Ybits = np.sum(Y, axis=1)', 'XYbits = (X * Y.T).toarray()',
                                   'Xbits = np.sum(X, axis=1, keepdims=True)', 'Ybits = np.sum(Y, axis=1, keepdims=True)',
                                   'XYbits = np.dot(X, Y.T)', 'return (Xbits, Ybits, XYbits)']),
    (FPR, 'Fingerprint.bit_count', ['return self.indices.shape[0]']),
    (ARM, '_dense_soergel', ['sum_abs_diff = 0', 'sum_max = 0', 'return S']),
    (ARM, '_sparse_soergel', ['sum_abs_diff = 0', 'sum_max = 0', 'return S']),
]


# ------------------------------------------------------------------------------------------------ reading the source
def _repo():
    try:
        import core
        return core.REPO
    except Exception:  # noqa  (stand-alone use)
        return os.environ.get('VERIF_REPO', '/repo')


class Source(object):
    def __init__(self):
        self.trees = {}

    def tree(self, rel):
        if rel not in self.trees:
            self.trees[rel] = ast.parse(open(os.path.join(_repo(), rel)).read())
        return self.trees[rel]

    def func(self, rel, path):
        body = self.tree(rel).body
        node = None
        for part in path.split('.'):
            found = [n for n in body if isinstance(n, (ast.FunctionDef, ast.ClassDef)) and n.name == part
                     and not any(_t(d).endswith('.setter') for d in getattr(n, 'decorator_list', []))]
            if len(found) != 1:
                raise Untranslatable('%s: %d definitions of %s' % (rel, len(found), path))
            node = found[0]
            body = node.body
        if not isinstance(node, ast.FunctionDef):
            raise Untranslatable('%s: %s is not a function' % (rel, path))
        return node

    def class_defines(self, rel, cls):
        c = [n for n in self.tree(rel).body if isinstance(n, ast.ClassDef) and n.name == cls]
        if len(c) != 1:
            raise Untranslatable('%s: class %s' % (rel, cls))
        names = set()
        for n in ast.walk(c[0]):
            if isinstance(n, ast.FunctionDef):
                names.add(n.name)
            if isinstance(n, ast.Assign):
                for t in n.targets:
                    if isinstance(t, ast.Name):
                        names.add(t.id)
        return [_t(b) for b in c[0].bases], names


def generate():
    S = Source()
    out = ['From Coq Require Import QArith Qabs Qminmax ZArith List.', 'From E3FP Require Import Base.PyExpr.',
           'Import ListNotations.', 'Open Scope Q_scope.', '']
    # ---- class structure: which mean()/std() a fingerprint of each class runs
    bases, names = S.class_defines(FPR, 'CountFingerprint')
    if bases != ['Fingerprint'] or names & {'density', 'bit_count', 'bits'}:
        raise Untranslatable('CountFingerprint: bases %r / redefines density, bit_count or bits' % bases)
    if not {'mean', 'std'} <= names:
        raise Untranslatable('CountFingerprint no longer defines mean and std')
    bases, names = S.class_defines(FPR, 'FloatFingerprint')
    if bases != ['CountFingerprint'] or names & {'mean', 'std', 'density', 'bit_count', 'bits'}:
        raise Untranslatable('FloatFingerprint: bases %r / redefines mean, std, density, bit_count or bits' % bases)
    for rel, path, texts in STRUCTURE:
        have = [_t(n) for n in ast.walk(S.func(rel, path)) if isinstance(n, ast.stmt)]
        for t in texts:
            if t not in have:
                raise Untranslatable('%s: statement `%s` not found in %s' % (rel, t, path))
    # ---- scalar functions
    for name, rel, path, params, spec in SCALAR:
        spec = dict(spec)
        spec['inline'] = {'Fingerprint.density': S.func(FPR, 'Fingerprint.density')}
        cx = Ctx('%s:%s' % (os.path.basename(rel), path), spec)
        v = tr_function_value(S.func(rel, path), cx)
        out.append('(* %s : %s *)' % (rel, path))
        if v.kind == 'plain':
            out.append('Definition %s_src %s : option Q :=\n  %s.' % (name, params, v.a))
        elif v.kind == 'mulroot':     # the value coef * sqrt sq
            out.append('Definition %s_coef_src %s : option Q :=\n  %s.' % (name, params, v.a))
            out.append('Definition %s_sq_src %s : option Q :=\n  %s.' % (name, params, v.b))
        elif v.kind == 'divroot':     # the value num / sqrt den2
            out.append('Definition %s_num_src %s : option Q :=\n  %s.' % (name, params, v.a))
            out.append('Definition %s_den2_src %s : option Q :=\n  %s.' % (name, params, v.b))
        else:
            raise Untranslatable('%s returns a %s' % (path, v.kind))
        out.append('(* its `except ZeroDivisionError: return ...` (None: no handler, the exception propagates) *)')
        out.append('Definition %s_zde_src : option Q := %s.' % (name, cx.zde.a if cx.zde is not None else 'None'))
        out.append('')
    # ---- array functions
    for name, rel, path, params, spec in ARRAY:
        cx = Ctx('%s:%s' % (os.path.basename(rel), path), spec)
        ty, term = tr_np_function(S.func(rel, path), cx)
        coqty = {'q': 'Q', 'np': 'npval', 'rootpair': '(Q * Q)', 'nproot': 'nproot'}.get(ty)
        if coqty is None:
            raise Untranslatable('%s returns a bare %s' % (path, ty))
        out.append('(* %s : %s, one entry of the result *)' % (rel, path))
        out.append('Definition %s_src %s : %s :=\n  %s.' % (name, params, coqty, term))
        out.append('')
    # ---- the jit-compiled loops of soergel
    fn = S.func(ARM, '_dense_soergel')
    loops = _find_loops(fn)
    inner = [l for l in loops if _t(l.target) == 'j']
    entry = [l for l in loops if _t(l.target) == 'iy']
    if len(inner) != 1 or len(entry) != 1 or _t(inner[0].iter) != 'range(X.shape[1])' or inner[0].orelse:
        raise Untranslatable('_dense_soergel: loop structure')
    cx = Ctx('array_metrics.py:_dense_soergel', dict(atoms={'X[ix, j]': ('pq', 'x'), 'Y[iy, j]': ('pq', 'y')}))
    env = {'sum_abs_diff': V('pure', 'sum_abs_diff'), 'sum_max': V('pure', 'sum_max')}
    step = tr_state(list(inner[0].body), env, cx, ['sum_abs_diff', 'sum_max'])
    out.append('(* %s : _dense_soergel, one pass of `for j in range(X.shape[1])` with x = X[ix, j], y = Y[iy, j] *)' % ARM)
    out.append('Definition dense_soergel_step_src (x y sum_abs_diff sum_max : Q) : Q * Q :=\n  %s.' % step)
    body = list(entry[0].body)
    k = body.index(inner[0])
    if [_t(s) for s in body[:k]] != ['sum_abs_diff = 0', 'sum_max = 0']:
        raise Untranslatable('_dense_soergel: initialisation of the sums is %r' % [_t(s) for s in body[:k]])
    out.append('(* ... and what is stored in S[ix, iy] after the loop *)')
    out.append('Definition dense_soergel_entry_src (sum_abs_diff sum_max : Q) : option Q :=\n  %s.'
               % tr_entry_tail(body[k + 1:], cx, 'S[ix, iy]', ['sum_abs_diff', 'sum_max']))
    out.append('')
    fn = S.func(ARM, '_sparse_soergel')
    entry = [l for l in _find_loops(fn) if _t(l.target) == 'iy' and any(isinstance(s, ast.While) for s in l.body)]
    if len(entry) != 1:
        raise Untranslatable('_sparse_soergel: loop structure')
    body = list(entry[0].body)
    last_while = max(i for i, s in enumerate(body) if isinstance(s, ast.While))
    cx = Ctx('array_metrics.py:_sparse_soergel', {})
    out.append('(* %s : _sparse_soergel, what is stored in S[ix, iy] after the merge and tail loops *)' % ARM)
    out.append('Definition sparse_soergel_entry_src (sum_abs_diff sum_max : Q) : option Q :=\n  %s.'
               % tr_entry_tail(body[last_while + 1:], cx, 'S[ix, iy]', ['sum_abs_diff', 'sum_max']))
    # the three-way branch of the merge loop
    merge = [s for s in body if isinstance(s, ast.While)][0]
    if _t(merge.test) != 'jx <= jxindmax and jy <= jyindmax':
        raise Untranslatable('_sparse_soergel: merge loop condition `%s`' % _t(merge.test))
    mb = list(merge.body)
    if [_t(s) for s in mb[:2]] != ['jxind = Xindices[jx]', 'jyind = Yindices[jy]'] or len(mb) != 3 or not isinstance(mb[2], ast.If):
        raise Untranslatable('_sparse_soergel: merge loop body')
    cx = Ctx('array_metrics.py:_sparse_soergel', dict(atoms={'Xdata[jx]': ('pq', 'v'), 'Ydata[jy]': ('pq', 'w'),
                                                             'jxind': ('pq', '(inject_Z jxind)'), 'jyind': ('pq', '(inject_Z jyind)')}))
    env = {'sum_abs_diff': V('pure', 'sum_abs_diff'), 'sum_max': V('pure', 'sum_max'), 'jx': V('pure', 'jx'), 'jy': V('pure', 'jy')}
    out.append('(* ... one pass of its merge loop with jxind = Xindices[jx], v = Xdata[jx], jyind = Yindices[jy], w = Ydata[jy];')
    out.append('   jx, jy: how far each cursor has advanced (as rationals) *)')
    out.append('Definition sparse_soergel_merge_src (jxind jyind : Z) (v w sum_abs_diff sum_max jx jy : Q) : Q * Q * Q * Q :=\n  %s.'
               % tr_state([mb[2]], env, cx, ['sum_abs_diff', 'sum_max', 'jx', 'jy']))
    tails = [s for s in body if isinstance(s, ast.While)][1:]
    if [_t(t.test) for t in tails] != ['jx <= jxindmax', 'jy <= jyindmax']:
        raise Untranslatable('_sparse_soergel: tail loops %r' % [_t(t.test) for t in tails])
    for t, (nm, data) in zip(tails, (('x', 'Xdata[jx]'), ('y', 'Ydata[jy]'))):
        cx = Ctx('array_metrics.py:_sparse_soergel', dict(atoms={data: ('pq', 'v')}))
        out.append('Definition sparse_soergel_tail_%s_src (v sum_abs_diff sum_max jx jy : Q) : Q * Q * Q * Q :=\n  %s.'
                   % (nm, tr_state(list(t.body), env, cx, ['sum_abs_diff', 'sum_max', 'jx', 'jy'])))
    out.append('')
    import re
    names = re.findall(r'^Definition (\w+)', '\n'.join(out), re.M)
    out.append('(* unfolded by the tactic `src_tie` of Proofs/MetricsSrc.v *)')
    out.append('#[global] Hint Unfold %s : metric_src.' % ' '.join(names))
    out.append('')
    return {'MetricsSource.v': '\n'.join(out)}


if __name__ == '__main__':
    print(generate()['MetricsSource.v'])
